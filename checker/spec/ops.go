package spec

import "strings"

// Operation groups of the generated kernels.
var (
	ArithOps  = []string{"Add", "Sub", "Mul", "Div", "Mod", "Pow"}
	MinMaxOps = []string{"Min", "Max"}
	CmpOps    = []string{"Gte", "Gt", "Lte", "Lt", "Eq", "Ne"}
	UnaryOps  = []string{"Neg", "InvSqrt", "Inv", "Square", "Cube", "Abs", "Sign", "Clamp", "Sqrt", "Cbrt", "Exp", "Log10", "Log2", "Log", "Tanh"}
	MapOps    = []string{"Map"}
	ReduceOps = []string{"Sum", "Prod", "SliceMin", "SliceMax", "Argmax", "Argmin", "Reduce", "genericReduceFirst", "genericReduceLast", "reduceDefault", "reduceFirst", "reduceLast"}
)

// Variant flags of a kernel family name.
type Variant struct {
	Op     string
	Group  string // arith, minmax, cmp, unary, map, reduce
	Vec    bool   // "Vec" prefix: the vector-vector form
	Same   bool
	Iter   bool
	Incr   bool
	Recv   bool
	VS, SV bool
	Err    bool
	Masked bool
	Scalar bool // no variant suffix and not Vec: scalar helper (arith/minmax) or VV (cmp/unary)
}

// ParseFamily splits a family stem (type suffix already removed) into operation and variant.
func ParseFamily(stem string) (Variant, bool) {
	var v Variant
	s := stem
	if strings.HasPrefix(s, "Vec") {
		v.Vec = true
		s = s[3:]
	}
	groups := []struct {
		name string
		ops  []string
	}{{"reduce", ReduceOps}, {"arith", ArithOps}, {"minmax", MinMaxOps}, {"cmp", CmpOps}, {"unary", UnaryOps}, {"map", MapOps}}
	for _, g := range groups {
		for _, op := range g.ops {
			if strings.HasPrefix(s, op) {
				rest := s[len(op):]
				v.Op, v.Group = op, g.name
				for _, f := range []struct {
					tok string
					p   *bool
				}{{"Same", &v.Same}, {"Masked", &v.Masked}, {"Iter", &v.Iter}, {"Incr", &v.Incr}, {"Recv", &v.Recv}, {"Err", &v.Err}, {"VS", &v.VS}, {"SV", &v.SV}} {
					if strings.HasPrefix(rest, f.tok) {
						*f.p = true
						rest = rest[len(f.tok):]
					}
				}
				// Map kernels order their flags Iter, Incr, Err
				if rest != "" {
					continue
				}
				if !v.Vec && !v.Iter && !v.Incr && !v.Recv && !v.VS && !v.SV && !v.Same && !v.Err && !v.Masked {
					v.Scalar = true
				}
				return v, true
			}
		}
	}
	return v, false
}
