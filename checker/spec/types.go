// Package spec holds the oracles: small explicit tables (operator table, variant contract,
// mode contract, exception tables). They are data; every entry is one symbol with a reason.
package spec

import "go/types"

// Suffixes of generated specialisations, longest first, and the basic kind each denotes.
var Suffixes = []struct {
	Suffix string
	Kind   types.BasicKind
}{
	{"UnsafePointer", types.UnsafePointer}, {"Uintptr", types.Uintptr},
	{"C128", types.Complex128}, {"C64", types.Complex64}, {"F64", types.Float64}, {"F32", types.Float32},
	{"U64", types.Uint64}, {"U32", types.Uint32}, {"U16", types.Uint16}, {"U8", types.Uint8},
	{"I64", types.Int64}, {"I32", types.Int32}, {"I16", types.Int16}, {"I8", types.Int8},
	{"Str", types.String}, {"U", types.Uint}, {"I", types.Int}, {"B", types.Bool},
}

func SuffixOf(k types.BasicKind) string {
	for _, s := range Suffixes {
		if s.Kind == k {
			return s.Suffix
		}
	}
	return ""
}

// Class of an element type: members of one class share one template instantiation shape.
func Class(k types.BasicKind) string {
	switch k {
	case types.Int, types.Int8, types.Int16, types.Int32, types.Int64:
		return "int"
	case types.Uint, types.Uint8, types.Uint16, types.Uint32, types.Uint64:
		return "uint"
	case types.Float32, types.Float64:
		return "float"
	case types.Complex64, types.Complex128:
		return "complex"
	case types.String:
		return "string"
	case types.Bool:
		return "bool"
	case types.Uintptr:
		return "uintptr"
	case types.UnsafePointer:
		return "unsafeptr"
	}
	return "other"
}

// Dtype variable names of package tensor / reflect kinds and the basic kind they denote.
var DtypeVar = map[string]types.BasicKind{
	"Bool": types.Bool, "Int": types.Int, "Int8": types.Int8, "Int16": types.Int16, "Int32": types.Int32, "Int64": types.Int64,
	"Uint": types.Uint, "Uint8": types.Uint8, "Uint16": types.Uint16, "Uint32": types.Uint32, "Uint64": types.Uint64,
	"Float32": types.Float32, "Float64": types.Float64, "Complex64": types.Complex64, "Complex128": types.Complex128,
	"String": types.String, "Uintptr": types.Uintptr, "UnsafePointer": types.UnsafePointer,
}

// Accessor suffixes of storage.Header / array / Dense typed accessors: Ints, Int8s, …, Strings, Bools.
var AccessorKind = map[string]types.BasicKind{
	"B": types.Bool, "I": types.Int, "I8": types.Int8, "I16": types.Int16, "I32": types.Int32, "I64": types.Int64,
	"U": types.Uint, "U8": types.Uint8, "U16": types.Uint16, "U32": types.Uint32, "U64": types.Uint64,
	"Uintptr": types.Uintptr, "F32": types.Float32, "F64": types.Float64, "C64": types.Complex64, "C128": types.Complex128,
	"Str": types.String, "UnsafePointer": types.UnsafePointer,
}
