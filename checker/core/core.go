// Package core: obligations, verdicts, known findings, evidence and report plumbing.
package core

import (
	"encoding/json"
	"fmt"
	"os"
	"path/filepath"
	"regexp"
	"sort"
	"strings"
	"time"
)

type Verdict int

const (
	OK Verdict = iota
	Violation
	Undecided
)

func (v Verdict) String() string { return [...]string{"ok", "violation", "undecided"}[v] }

// Obligation is one rule instance: rule x construct.
type Obligation struct {
	Rule    string  `json:"rule"`
	Key     string  `json:"key"` // symbolic construct key, never a line number
	Pos     string  `json:"pos,omitempty"`
	Verdict Verdict `json:"-"`
	V       string  `json:"verdict"`
	Detail  string  `json:"detail,omitempty"`    // extracted term / path / message
	Sig     string  `json:"deviation,omitempty"` // for violations: canonical signature of the deviation (known findings match on it)
	Config  string  `json:"config,omitempty"`
	Trivial bool    `json:"-"`
	Firm    bool    `json:"-"` // the verdict is a fact of the named construct itself: a helper the function may call cannot change it
}

// RuleInfo describes a rule for the evidence file.
type RuleInfo struct {
	ID    string `json:"id"`
	Doc   string `json:"doc"`
	Floor int    `json:"floor"` // minimum number of instances confirmed by hand
	Count int    `json:"instances"`
	Viol  int    `json:"violations"`
	Undec int    `json:"undecided"`
}

// Sink collects obligations for one property run.
type Sink struct {
	Property string
	Config   string
	Obs      []*Obligation
	Rules    map[string]*RuleInfo
	Analysed map[string]int // free-form counters: functions, call sites, paths ...
	Excepts  []string       // exception-table entries consulted (symbol: reason)
	seen     map[string]bool
}

func NewSink(prop string) *Sink {
	return &Sink{Property: prop, Rules: map[string]*RuleInfo{}, Analysed: map[string]int{}, seen: map[string]bool{}}
}

// floorSlack: the floors written next to the rule calls are the instance counts measured when the
// rule was armed. A floor exists to catch a rule that has lost sight of its instances (an
// enumerator matching nothing passes vacuously), not to pin the count: correct refactorings
// merge instances (a helper extracted from three call sites, two arms folded into one), so the
// effective floor leaves a fifth of the measured count as slack (small floors: one instance).
func floorSlack(floor int) int {
	switch {
	case floor <= 1:
		return floor
	case floor <= 5:
		return floor - 1
	}
	return floor * 4 / 5
}

func (s *Sink) Declare(id, doc string, floor int) {
	floor = floorSlack(floor)
	if r, ok := s.Rules[id]; ok {
		if floor > r.Floor {
			r.Floor = floor
		}
		return
	}
	s.Rules[id] = &RuleInfo{ID: id, Doc: doc, Floor: floor}
}

func (s *Sink) add(rule, key, pos string, v Verdict, detail string) *Obligation {
	if s.Rules[rule] == nil {
		s.Declare(rule, "", 0)
	}
	k := s.Config + "|" + rule + "|" + key
	if s.seen[k] {
		// keep keys unique: disambiguate deterministically
		for i := 2; ; i++ {
			k2 := fmt.Sprintf("%s~%d", k, i)
			if !s.seen[k2] {
				key = fmt.Sprintf("%s~%d", key, i)
				k = k2
				break
			}
		}
	}
	s.seen[k] = true
	o := &Obligation{Rule: rule, Key: key, Pos: pos, Verdict: v, V: v.String(), Detail: detail, Config: s.Config}
	s.Obs = append(s.Obs, o)
	r := s.Rules[rule]
	r.Count++
	switch v {
	case Violation:
		r.Viol++
	case Undecided:
		r.Undec++
	}
	return o
}

func (s *Sink) Ok(rule, key, pos, detail string) *Obligation {
	return s.add(rule, key, pos, OK, detail)
}
func (s *Sink) Viol(rule, key, pos, msg string) *Obligation {
	return s.add(rule, key, pos, Violation, msg)
}

// Downgrade turns a violation into "undecided" (the rule abstains), keeping the counters right.
func (s *Sink) Downgrade(o *Obligation, detail string) {
	if o.Verdict != Violation {
		return
	}
	o.Verdict = Undecided
	o.V = Undecided.String()
	o.Detail = detail
	if r := s.Rules[o.Rule]; r != nil {
		r.Viol--
		r.Undec++
	}
}

func (s *Sink) Undec(rule, key, pos, msg string) *Obligation {
	return s.add(rule, key, pos, Undecided, msg)
}
func (s *Sink) Count(what string, n int) { s.Analysed[what] += n }
func (s *Sink) Except(sym, reason string) {
	s.Excepts = append(s.Excepts, sym+": "+reason)
}

// ---------------------------------------------------------------------------------------
// Known findings

type Finding struct {
	Property   string   `json:"property,omitempty"`
	Properties []string `json:"properties,omitempty"`
	Rule       string   `json:"rule"`
	Key        string   `json:"key"`
	What       string   `json:"what"`
	Sig        string   `json:"deviation,omitempty"` // when set, must equal the obligation's deviation signature
	Design     int      `json:"design_finding,omitempty"`
}

type Fixed struct {
	Property string `json:"property"`
	Commit   string `json:"commit"`
	What     string `json:"what"`
	Rule     string `json:"rule,omitempty"`
	Key      string `json:"key,omitempty"`
}

type KnownFile struct {
	Comment  string    `json:"comment"`
	Findings []Finding `json:"findings"`
	Fixed    []Fixed   `json:"fixed"`
}

func LoadKnown(path string) (*KnownFile, error) {
	b, err := os.ReadFile(path)
	if err != nil {
		return nil, err
	}
	var k KnownFile
	if err := json.Unmarshal(b, &k); err != nil {
		return nil, err
	}
	return &k, nil
}

func (f *Finding) appliesTo(prop string) bool {
	if f.Property == prop {
		return true
	}
	for _, p := range f.Properties {
		if p == prop {
			return true
		}
	}
	return false
}

var tildeRE = regexp.MustCompile(`~\d+$`)

// Match returns the finding that lists this obligation (exact rule and key).
func (k *KnownFile) Match(prop string, o *Obligation) *Finding {
	for i := range k.Findings {
		f := &k.Findings[i]
		if !f.appliesTo(prop) || f.Rule != o.Rule {
			continue
		}
		keyOK := f.Key == o.Key
		if !keyOK && strings.Contains(f.Key, "*") && f.Sig != "" {
			// a template-level finding names all instances of one generated template by a
			// glob; the exact deviation signature below keeps the match specific, so a
			// different deviation in the same constructs is still reported
			keyOK = globMatch(f.Key, o.Key)
		}
		if keyOK && (f.Sig == "" || f.Sig == o.Sig) {
			return f
		}
	}
	return nil
}

// ---------------------------------------------------------------------------------------
// Result handling

type Result struct {
	Property  string
	Tier      string
	Seed      int64
	Start     time.Time
	Sinks     []*Sink
	Configs   []string
	VerifDir  string
	Explain   string
	Trusted   []string
	Assume    []string
	Technique string
	SelfCheck []string // self-validation lines (fixtures, mutants)
	Broken    []string // internal failures: floors, fixtures not firing, load errors
}

type report struct {
	Property string `json:"property"`
	Rule     string `json:"rule"`
	Key      string `json:"key"`
	Config   string `json:"config"`
	Pos      string `json:"pos"`
	Verdict  string `json:"verdict"`
	Detail   string `json:"detail"`
	Replay   string `json:"replay_cmd"`
}

func sanitize(s string) string {
	s = strings.Map(func(r rune) rune {
		switch {
		case r >= 'a' && r <= 'z', r >= 'A' && r <= 'Z', r >= '0' && r <= '9', r == '.', r == '-', r == '_':
			return r
		}
		return '_'
	}, s)
	if len(s) > 150 {
		s = s[:150]
	}
	return s
}

// Finish prints the verdict lines, writes reports and evidence, and returns the exit code.
func (r *Result) Finish(known *KnownFile) int {
	var all []*Obligation
	rules := map[string]*RuleInfo{}
	analysed := map[string]int{}
	var excepts []string
	exSeen := map[string]bool{}
	for _, s := range r.Sinks {
		all = append(all, s.Obs...)
		for id, ri := range s.Rules {
			if rules[id] == nil {
				c := *ri
				c.Count, c.Viol, c.Undec = 0, 0, 0
				rules[id] = &c
			}
			// floors are per configuration: take the minimum count over configurations
			if rules[id].Count == 0 || ri.Count < rules[id].Count {
				rules[id].Count = ri.Count
			}
			rules[id].Viol += ri.Viol
			rules[id].Undec += ri.Undec
		}
		for k, v := range s.Analysed {
			analysed[s.Config+":"+k] += v
		}
		for _, e := range s.Excepts {
			if !exSeen[e] {
				exSeen[e] = true
				excepts = append(excepts, e)
			}
		}
	}
	sort.Strings(excepts)
	repDir := filepath.Join(r.VerifDir, "reports", r.Property)
	os.RemoveAll(repDir)
	exit := 0
	nviol := 0
	nundec := 0
	knownSeen := map[string]bool{}
	var lines []string
	discharged := 0
	for _, o := range all {
		if o.Verdict == OK {
			discharged++
			continue
		}
		if f := known.Match(r.Property, o); f != nil && o.Verdict == Violation {
			id := f.Rule + "|" + f.Key + "|" + f.Sig
			if !knownSeen[id] {
				knownSeen[id] = true
				lines = append(lines, fmt.Sprintf("KNOWN-FINDING: property=%s rule=%s key=%s %s", r.Property, f.Rule, f.Key, f.What))
			}
			continue
		}
		if o.Verdict == Undecided && os.Getenv("TCHECK_STRICT") == "" {
			// the rule could not recognise the construct it is keyed to (restructured, renamed,
			// delegated to a new helper): nothing is decided about it, and nothing is alleged
			nundec++
			fmt.Printf("%s: [%s not-decided] %s: %s (config=%s)\n", o.Pos, o.Rule, o.Key, firstLine(o.Detail), o.Config)
			continue
		}
		nviol++
		exit = 1
		os.MkdirAll(repDir, 0o755)
		name := sanitize(o.Rule+"__"+o.Key) + ".json"
		if o.Config != "" && o.Config != "default" {
			name = sanitize(o.Rule+"__"+o.Key+"__"+o.Config) + ".json"
		}
		path := filepath.Join(repDir, name)
		rep := report{Property: r.Property, Rule: o.Rule, Key: o.Key, Config: o.Config, Pos: o.Pos, Verdict: o.V, Detail: o.Detail,
			Replay: fmt.Sprintf("%s/bin/tcheck replay %s", r.VerifDir, path)}
		b, _ := json.MarshalIndent(rep, "", " ")
		os.WriteFile(path, append(b, '\n'), 0o644)
		fmt.Printf("%s: [%s %s] %s: %s (config=%s)\n", o.Pos, o.Rule, o.V, o.Key, firstLine(o.Detail), o.Config)
		lines = append(lines, fmt.Sprintf("VIOLATION property=%s replay=%s", r.Property, path))
	}
	// floors
	var ruleList []*RuleInfo
	for _, ri := range rules {
		ruleList = append(ruleList, ri)
		if ri.Count < ri.Floor && (ri.Undec == 0 || os.Getenv("TCHECK_STRICT") != "") {
			// (a rule that reported "not decided" for a restructured construct enumerates fewer
			// instances inside it; its floor is not comparable on that tree)
			r.Broken = append(r.Broken, fmt.Sprintf("rule %s matched %d instances, below its floor %d (the enumerator lost sight of the code it is keyed to)", ri.ID, ri.Count, ri.Floor))
		}
	}
	sort.Slice(ruleList, func(i, j int) bool { return ruleList[i].ID < ruleList[j].ID })
	for _, b := range r.Broken {
		exit = 1
		nviol++
		os.MkdirAll(repDir, 0o755)
		path := filepath.Join(repDir, sanitize("broken__"+b)+".json")
		rep := report{Property: r.Property, Rule: "framework", Key: b, Verdict: "undecided", Detail: b,
			Replay: fmt.Sprintf("%s/bin/tcheck %s --tier %s", r.VerifDir, r.Property, r.Tier)}
		bb, _ := json.MarshalIndent(rep, "", " ")
		os.WriteFile(path, append(bb, '\n'), 0o644)
		fmt.Printf("UNDECIDED: %s\n", b)
		lines = append(lines, fmt.Sprintf("VIOLATION property=%s replay=%s", r.Property, path))
	}
	for _, l := range r.SelfCheck {
		fmt.Println(l)
	}
	fmt.Printf("%s %s: configs=%v obligations=%d discharged=%d known=%d not-decided=%d violations=%d\n", r.Property, r.Tier, r.Configs, len(all), discharged, len(knownSeen), nundec, nviol)
	for _, ri := range ruleList {
		fmt.Printf("  rule %-14s instances=%-5d floor=%-5d viol=%d undecided=%d  %s\n", ri.ID, ri.Count, ri.Floor, ri.Viol, ri.Undec, ri.Doc)
	}
	for _, l := range lines {
		fmt.Println(l)
	}
	r.writeEvidence(all, ruleList, analysed, excepts, discharged, nviol, len(knownSeen), nundec)
	return exit
}

func firstLine(s string) string {
	if i := strings.IndexByte(s, '\n'); i >= 0 {
		return s[:i] + " …"
	}
	return s
}

func (r *Result) writeEvidence(all []*Obligation, rules []*RuleInfo, analysed map[string]int, excepts []string, discharged, nviol, nknown, nundec int) {
	if r.Assume == nil {
		r.Assume = []string{}
	}
	r.Assume = append(r.Assume, "the structural rules decide necessary conditions of the property, not the runtime values it quantifies over (see coverage.explanation for the undecided clauses)")
	if r.SelfCheck == nil {
		r.SelfCheck = []string{}
	}
	if r.Trusted == nil {
		r.Trusted = []string{}
	}
	distinct := map[string]bool{}
	for _, o := range all {
		if !o.Trivial {
			distinct[o.Rule+"|"+o.Key] = true
		}
	}
	// samples: up to 2 per rule, plus every non-ok obligation (capped)
	var samples []interface{}
	per := map[string]int{}
	nonok := 0
	for _, o := range all {
		if o.Verdict != OK {
			if nonok < 40 {
				samples = append(samples, o)
				nonok++
			}
			continue
		}
		if per[o.Rule] < 2 && o.Detail != "" {
			per[o.Rule]++
			samples = append(samples, o)
		}
	}
	ev := map[string]interface{}{
		"property_id": r.Property,
		"tier":        r.Tier,
		"seed":        r.Seed,
		"level":       "other",
		"coverage": map[string]interface{}{
			"explanation":            r.Explain + ruleList(rules),
			"obligations":            len(all),
			"discharged":             discharged,
			"evaluations":            len(all),
			"distinct_nontrivial":    len(distinct),
			"rule":                   "one obligation per (rule, construct key) enumerated from /repo's current source in each build configuration; distinct = distinct (rule,key) pairs over configurations whose construct has a non-empty body / at least one statement examined",
			"samples":                samples,
			"rules":                  rules,
			"configurations":         r.Configs,
			"analysed":               analysed,
			"exceptions":             excepts,
			"known_findings_matched": nknown,
			"not_decided":            nundec,
			"not_decided_policy":     "an obligation whose rule cannot recognise the construct it is keyed to (restructured, renamed, delegated to a helper the rule cannot follow) is reported as not-decided and neither passes as discharged nor fails the check; rule floors still fail the check when a rule loses sight of its instances",
			"self_validation":        r.SelfCheck,
			"trusted_base":           r.Trusted,
			"technique":              r.Technique,
			"exhaustive":             true,
			"checker_cmd":            fmt.Sprintf("%s/bin/tcheck %s --tier %s", r.VerifDir, r.Property, r.Tier),
		},
		"assumptions": r.Assume,
		"wall_s":      time.Since(r.Start).Seconds(),
		"violations":  nviol,
	}
	b, _ := json.MarshalIndent(ev, "", " ")
	dir := filepath.Join(r.VerifDir, "evidence")
	os.MkdirAll(dir, 0o755)
	os.WriteFile(filepath.Join(dir, r.Property+".json"), append(b, '\n'), 0o644)
}

// globMatch: '*' matches any run of characters.
func globMatch(pat, s string) bool {
	parts := strings.Split(pat, "*")
	if !strings.HasPrefix(s, parts[0]) {
		return false
	}
	s = s[len(parts[0]):]
	for i := 1; i < len(parts); i++ {
		p := parts[i]
		if i == len(parts)-1 {
			return strings.HasSuffix(s, p)
		}
		j := strings.Index(s, p)
		if j < 0 {
			return false
		}
		s = s[j+len(p):]
	}
	return true
}

// ruleList appends the ids of the rules that had instances in this run (their one-line
// definitions are under coverage.rules), so that the explanation never lags behind the registry.
func ruleList(rs []*RuleInfo) string {
	var ids []string
	for _, r := range rs {
		if r.Count > 0 && !strings.Contains(r.ID, ".") {
			ids = append(ids, r.ID)
		}
	}
	if len(ids) == 0 {
		return ""
	}
	sort.Strings(ids)
	return " Rules with instances in this run (definitions under coverage.rules): " + strings.Join(ids, ", ") + "."
}
