package main

import (
	"encoding/json"
	"sort"
	"fmt"
	"go/token"
	"go/types"
	"golang.org/x/tools/go/ssa"
	"os"
	"strings"
	"time"

	"tcheck/core"
	"tcheck/ir"
	"tcheck/load"
	"tcheck/rules"
)

func main() {
	t0 := time.Now()
	p, err := load.Load(load.RepoDir(), load.Configs["default"])
	if err != nil {
		panic(err)
	}
	fmt.Println("loaded", len(p.Pkgs), "pkgs", len(p.Funcs), "funcs", time.Since(t0))
	fams := rules.Families(p)
	n := 0
	for _, ms := range fams {
		n += len(ms)
	}
	fmt.Println("families", len(fams), "members", n)
	s := core.NewSink("dbg")
	rc := &rules.RC{P: p, S: s, Tier: "quick"}
	switch os.Args[1] {
	case "k1":
		rules.K1(rc, fams, nil, 0)
		for _, o := range s.Obs {
			if o.Verdict != core.OK {
				fmt.Println(o.V, o.Key, o.Pos, o.Detail)
			}
		}
		fmt.Println("obligations", len(s.Obs), time.Since(t0))
	case "fam":
		for f, ms := range fams {
			if strings.HasSuffix(f, "."+os.Args[2]) {
				seen := map[string]bool{}
				for _, m := range ms {
					m.Canonicalise(p)
					if len(os.Args) > 3 && os.Args[3] == "B" {
						k := ir.SummariseKernel(m.Tree)
						if !seen[k.Key()] {
							seen[k.Key()] = true
							fmt.Printf("== %s %s\n%s\n", f, m.FI.Obj.Name(), k.Key())
						}
						continue
					}
					if !seen[m.Text] {
						seen[m.Text] = true
						fmt.Printf("== %s %s notes=%v\n%s\n", f, m.FI.Obj.Name(), m.Notes, m.Text)
					}
				}
			}
		}
	case "k2":
		rules.K2(rc, fams, nil, 0)
		n := 0
		seenFam := map[string]bool{}
		for _, o := range s.Obs {
			if o.Verdict != core.OK {
				n++
				fam := strings.Split(o.Key, ":")[0]
				if !seenFam[fam] {
					seenFam[fam] = true
					fmt.Println(o.V, o.Rule, o.Key, o.Sig)
				}
			}
		}
		fmt.Println("obligations", len(s.Obs), "bad", n, time.Since(t0))
	case "m2":
		rules.M2(rc, nil, 0, 0)
		n := 0
		seen := map[string]int{}
		keys := map[string][]string{}
		for _, o := range s.Obs {
			if o.Verdict != core.OK {
				n++
				seen[o.Rule+" "+o.V+": "+o.Sig+o.Detail[:0]]++
				keys[o.Rule+" "+o.V+": "+o.Sig] = append(keys[o.Rule+" "+o.V+": "+o.Sig], o.Key)
				if len(os.Args) > 2 && strings.Contains(o.Key, os.Args[2]) {
					fmt.Println(o.V, o.Rule, o.Key, o.Detail)
				}
			}
		}
		for k, v := range seen {
			fmt.Println(v, k)
			for _, kk := range keys[k] {
				fmt.Println("      ", kk)
			}
		}
		fmt.Println("obligations", len(s.Obs), "bad", n, s.Analysed, time.Since(t0))
	case "fn":
		fi := p.Func(os.Args[2])
		if fi == nil {
			fmt.Println("no such function")
			return
		}
		c := ir.NewCanon(p.Fset, fi.Pkg.TypesInfo, ir.Options{KeepNames: true, ParamNames: true})
		tree := c.Func(fi.Decl)
		fmt.Println(ir.Render(tree), c.Notes)
	case "paths":
		fi := rc.P.Func(os.Args[2])
		c := ir.NewCanon(rc.P.Fset, fi.Pkg.TypesInfo, ir.Options{ParamNames: true, KeepNames: true, PureCall: func(n string) bool { return rules.SPure(n) }})
		ps, ok := ir.EnumPaths(c.Func(fi.Decl), 500)
		fmt.Println("ok", ok, len(ps))
		for _, p := range ps {
			fmt.Println(p.String())
		}
	case "s":
		rules.S1(rc)
		rules.S2(rc)
		rules.S3(rc)
		rules.S5(rc)
		rules.S7(rc)
		rules.S9(rc)
		rules.S11(rc)
		for _, o := range s.Obs {
			fmt.Println(o.V, o.Rule, o.Key, o.Detail)
		}
	case "aploads":
		for _, fn := range p.ModuleFuncs() {
			for _, b := range fn.Blocks {
				for _, ins := range b.Instrs {
					if u, ok := ins.(*ssa.UnOp); ok && u.Op == token.MUL {
						if n, ok := u.Type().(*types.Named); ok && n.Obj().Name() == "AP" {
							var refs []string
							for _, r := range *u.Referrers() {
								refs = append(refs, fmt.Sprintf("%T:%s", r, r.String()))
							}
							fmt.Printf("%s %s  load %s from %T(%s) -> %v\n", p.Pos(u.Pos()), fn.String(), u.Name(), u.X, u.X.String(), refs)
						}
					}
				}
			}
		}
	case "o":
		oa := rules.O123(rc)
		rules.O7(rc, oa)
		rules.O6(rc)
		rules.O8(rc)
		for _, o := range s.Obs {
			if o.Verdict != core.OK {
				fmt.Println(o.V, o.Rule, o.Key, o.Detail)
			}
		}
		fmt.Println("obligations", len(s.Obs), time.Since(t0))
	case "t":
		rules.T12(rc)
		rules.T4(rc)
		rules.T6(rc)
		for _, o := range s.Obs {
			fmt.Println(o.V, o.Rule, o.Key, o.Detail)
		}
	case "i":
		rules.I12(rc)
		rules.I3(rc)
		rules.I4(rc)
		rules.I5(rc)
		rules.I6(rc)
		for _, o := range s.Obs {
			fmt.Println(o.V, o.Rule, o.Key, o.Detail)
		}
	case "p4":
		rules.P4(rc)
		for _, o := range s.Obs {
			if !o.Trivial {
				fmt.Println(o.V, o.Rule, o.Key, o.Detail)
			}
		}
		fmt.Println(s.Analysed, time.Since(t0))
	case "lg":
		rules.LA(rc)
		rules.P3map(rc)
		for _, pr := range []string{"C04", "C08", "C09", "C14", "C16", "C20", "C10"} {
			s.Config = pr
			rules.LGuards(rc, pr)
		}
		for _, o := range s.Obs {
			fmt.Println(o.Config, o.V, o.Rule, o.Key, "::", o.Detail)
		}
	case "f":
		rules.F1(rc)
		rules.F2(rc)
		for _, o := range s.Obs {
			fmt.Println(o.V, o.Rule, o.Key, "::", o.Detail)
		}
	case "e2":
		rules.E2(rc, nil, 0)
		for _, o := range s.Obs {
			if !o.Trivial {
				fmt.Println(o.V, o.Rule, o.Key, "::", o.Detail)
			}
		}
		fmt.Println(len(s.Obs))
	case "v1":
		rules.V1(rc)
		for _, o := range s.Obs {
			fmt.Println(o.V, o.Rule, o.Key, "::", o.Detail)
		}
	case "k1op":
		rules.K1op(rc, []string{"api_arith.go", "api_cmp.go", "api_unary.go", "api_minmax.go", "dense_arith.go", "dense_cmp.go", "defaultengine_arith.go", "defaultengine_cmp.go", "defaultengine_unary.go", "defaultengine_minmax.go"}, 0)
		n := 0
		for _, o := range s.Obs {
			if o.Verdict != core.OK {
				fmt.Println(o.V, o.Rule, o.Key, "::", o.Detail)
			} else {
				n++
			}
		}
		fmt.Println("ok", n)
	case "m4":
		rules.M4(rc, nil, 0)
		rules.K11(rc)
		rules.K5(rc, map[string]bool{"eng_arith.go": true, "eng_cmp.go": true, "eng_unary.go": true, "eng_minmaxbetween.go": true, "eng_map.go": true, "eng_reduce.go": true, "eng_argmethods.go": true, "reduction_specialization.go": true}, 0)
		n := 0
		for _, o := range s.Obs {
			if o.Verdict != core.OK {
				fmt.Println(o.V, o.Rule, o.Key, "::", o.Detail)
			} else {
				n++
			}
		}
		fmt.Println("ok", n)
	case "p2":
		rules.P2(rc, nil, 0)
		n := 0
		for _, o := range s.Obs {
			if o.Verdict != core.OK {
				fmt.Println(o.V, o.Rule, o.Key, "::", o.Detail)
			} else {
				n++
			}
		}
		fmt.Println("ok", n, time.Since(t0))
	case "ec":
		rules.EC(rc, nil, 0)
		n := 0
		for _, o := range s.Obs {
			if o.Verdict != core.OK {
				fmt.Println(o.V, o.Rule, o.Key, o.Pos, "::", o.Detail)
			} else {
				n++
			}
		}
		fmt.Println("ok", n)
	case "e1":
		rules.E1(rc, nil, 0)
		n := 0
		for _, o := range s.Obs {
			if o.Verdict != core.OK {
				fmt.Println(o.V, o.Rule, o.Key, o.Pos, "::", o.Detail)
			} else {
				n++
			}
		}
		fmt.Println("ok", n)
	case "census":
		sites, _ := rules.LCSites(rc)
		var ks []string
		for k := range sites {
			ks = append(ks, k)
		}
		sort.Strings(ks)
		for _, k := range ks {
			fmt.Printf("\t%q: %q,\n", k, "reviewed "+sites[k])
		}
	case "lfcensus":
		sites, _ := rules.LFSites(rc)
		for _, k := range sites {
			fmt.Printf("\t%q: %q,\n", k.Key, "reviewed "+k.Pos)
		}
	case "lf":
		rules.LF(rc, 0)
		for _, o := range s.Obs {
			if o.Rule == "LF" {
				fmt.Println(o.Verdict, o.Key, o.Pos, o.Detail)
			}
		}
	case "ld":
		rules.LD(rc, 0)
		for _, o := range s.Obs {
			if o.Rule == "LD" {
				fmt.Println(o.Verdict, o.Key, o.Pos, o.Detail)
			}
		}
	case "wccensus":
		for _, k := range rules.WCSites(rc) {
			fmt.Printf("\t%q: %q,\n", k.Target+"|"+k.Caller, "reviewed "+k.Pos)
		}
	case "rp":
		rules.RP(rc, nil, 0)
		for _, o := range s.Obs {
			if o.Rule == "RP" {
				fmt.Println(o.Verdict, o.Key, o.Pos, o.Detail)
			}
		}
	case "sv":
		rules.SV(rc, 0)
		n := 0
		for _, o := range s.Obs {
			if o.Rule == "SV" {
				n++
				if fmt.Sprint(o.Verdict) != "ok" {
					fmt.Println(o.Verdict, o.Key, o.Pos, o.Detail)
				}
			}
		}
		fmt.Println("instances", n)
	case "lc":
		rules.LC(rc, 0)
		for _, o := range s.Obs {
			if o.Verdict != core.OK {
				fmt.Println(o.V, o.Rule, o.Key, o.Pos, "::", o.Detail)
			}
		}
		fmt.Println(len(s.Obs))
	case "gcgen":
		facts, _, skipped := rules.GCFacts(rc, nil)
		ref := map[string][]string{}
		for k, v := range facts {
			if len(v) > 0 {
				ref[k] = v
			}
		}
		b, _ := json.MarshalIndent(ref, "", " ")
		os.WriteFile("/verif/checker/rules/guards_ref.json", append(b, '\n'), 0o644)
		fmt.Println("sites with facts:", len(ref), "of", len(facts), "skipped functions:", skipped, time.Since(t0))
	case "fngen":
		var names []string
		seen := map[string]bool{}
		for _, fi := range rc.P.SortedFuncs() {
			if fi.Obj == nil || strings.HasSuffix(fi.File, "_test.go") {
				continue
			}
			if n := fi.Obj.Name(); !seen[n] {
				seen[n] = true
				names = append(names, n)
			}
		}
		sort.Strings(names)
		b, _ := json.MarshalIndent(names, "", " ")
		os.WriteFile("/verif/checker/rules/funcs_ref.json", append(b, '\n'), 0o644)
		fmt.Println("function names:", len(names))
	case "gc":
		rules.GC(rc, nil, 0)
		n := 0
		for _, o := range s.Obs {
			if o.Verdict != core.OK {
				fmt.Println(o.V, o.Rule, o.Key, o.Pos, "::", o.Detail)
			} else {
				n++
			}
		}
		fmt.Println("ok", n, s.Analysed, time.Since(t0))
	case "sp":
		rules.SPsurvey(rc)
	case "k1w":
		rules.K1w(rc, nil, 0)
		for _, o := range s.Obs {
			fmt.Println(o.V, o.Rule, o.Key, o.Detail)
		}
	case "l0":
		rules.L0(rc, nil)
		for _, o := range s.Obs {
			fmt.Println(o.V, o.Rule, o.Key, o.Detail)
		}
	case "k8":
		rules.K8(rc, 0)
		for _, o := range s.Obs {
			if o.Verdict != core.OK {
				fmt.Println(o.V, o.Rule, o.Key, o.Detail)
			}
		}
		fmt.Println("obligations", len(s.Obs), time.Since(t0))
	case "k9":
		rules.K9(rc, fams, 0)
		for _, o := range s.Obs {
			if o.Verdict != core.OK {
				fmt.Println(o.V, o.Rule, o.Key, o.Detail)
			}
		}
		fmt.Println("obligations", len(s.Obs), time.Since(t0))
	case "k3":
		rules.K3(rc, nil, 0, 0)
		for _, o := range s.Obs {
			if o.Verdict != core.OK {
				fmt.Println(o.V, o.Rule, o.Key, o.Pos, o.Detail)
			}
		}
		fmt.Println("obligations", len(s.Obs), s.Analysed, time.Since(t0))
	case "list":
		for f, ms := range fams {
			fmt.Println(f, len(ms))
		}
	}
}
