// Package load: loads /repo's current working tree under one build configuration.
package load

import (
	"fmt"
	"go/ast"
	"go/token"
	"go/types"
	"os"
	"path/filepath"
	"sort"
	"strings"
	"sync"

	"golang.org/x/tools/go/callgraph"
	"golang.org/x/tools/go/callgraph/cha"
	"golang.org/x/tools/go/callgraph/vta"
	"golang.org/x/tools/go/packages"
	"golang.org/x/tools/go/ssa"
	"golang.org/x/tools/go/ssa/ssautil"
)

const Module = "gorgonia.org/tensor"

type Config struct {
	Name   string
	Tags   string
	GOARCH string
}

var Configs = map[string]Config{
	"default":                {Name: "default"},
	"noasm":                  {Name: "noasm", Tags: "noasm"},
	"inplacetranspose":       {Name: "inplacetranspose", Tags: "inplacetranspose"},
	"noasm,inplacetranspose": {Name: "noasm,inplacetranspose", Tags: "noasm,inplacetranspose"},
	"386":                    {Name: "386", GOARCH: "386"},
}

type FuncInfo struct {
	Decl *ast.FuncDecl
	Obj  *types.Func
	Pkg  *packages.Package
	File string // base name
	Key  string // pkgshort.(Recv).Name
}

type Program struct {
	Dir      string
	Config   Config
	Fset     *token.FileSet
	Pkgs     map[string]*packages.Package // by import path
	Closures []*FuncInfo                  // function literals, keyed parent$N
	Root     *packages.Package            // gorgonia.org/tensor
	Exec     *packages.Package
	Stor     *packages.Package
	Native   *packages.Package
	Funcs    map[string]*FuncInfo // by key
	ByObj    map[*types.Func]*FuncInfo

	ssaOnce sync.Once
	SSAProg *ssa.Program
	SSAPkgs map[string]*ssa.Package
	cgOnce  sync.Once
	cg      *callgraph.Graph
	vtaOnce sync.Once
	vtaG    *callgraph.Graph
}

func RepoDir() string {
	if d := os.Getenv("TCHECK_REPO"); d != "" {
		return d
	}
	return "/repo"
}

// Load type-checks every package of the module in dir under cfg.
func Load(dir string, cfg Config) (*Program, error) {
	env := []string{}
	for _, e := range os.Environ() {
		if strings.HasPrefix(e, "GOFLAGS=") || strings.HasPrefix(e, "GOWORK=") || strings.HasPrefix(e, "GOARCH=") || strings.HasPrefix(e, "GOPROXY=") || strings.HasPrefix(e, "GOSUMDB=") || strings.HasPrefix(e, "GOTOOLCHAIN=") {
			continue
		}
		env = append(env, e)
	}
	env = append(env, "GOFLAGS=-mod=mod", "GOWORK=off", "GOPROXY=off", "GOSUMDB=off", "GOTOOLCHAIN=local", "CGO_ENABLED=0")
	if cfg.GOARCH != "" {
		env = append(env, "GOARCH="+cfg.GOARCH)
	}
	pc := &packages.Config{
		Mode:  packages.NeedName | packages.NeedFiles | packages.NeedCompiledGoFiles | packages.NeedImports | packages.NeedDeps | packages.NeedTypes | packages.NeedSyntax | packages.NeedTypesInfo | packages.NeedTypesSizes | packages.NeedModule,
		Dir:   dir,
		Env:   env,
		Tests: false,
	}
	if cfg.Tags != "" {
		pc.BuildFlags = []string{"-tags=" + cfg.Tags}
	}
	pkgs, err := packages.Load(pc, "./...")
	if err != nil {
		return nil, fmt.Errorf("load %s [%s]: %v", dir, cfg.Name, err)
	}
	if len(pkgs) == 0 {
		return nil, fmt.Errorf("load %s [%s]: zero packages", dir, cfg.Name)
	}
	p := &Program{Dir: dir, Config: cfg, Pkgs: map[string]*packages.Package{}, Funcs: map[string]*FuncInfo{}, ByObj: map[*types.Func]*FuncInfo{}}
	var errs []string
	packages.Visit(pkgs, nil, func(pk *packages.Package) {
		if strings.HasPrefix(pk.PkgPath, Module) {
			for _, e := range pk.Errors {
				errs = append(errs, e.Error())
			}
		}
	})
	if len(errs) > 0 {
		return nil, fmt.Errorf("load %s [%s]: type errors: %s", dir, cfg.Name, strings.Join(errs, "; "))
	}
	for _, pk := range pkgs {
		p.Pkgs[pk.PkgPath] = pk
		p.Fset = pk.Fset
	}
	p.Root = p.Pkgs[Module]
	p.Exec = p.Pkgs[Module+"/internal/execution"]
	p.Stor = p.Pkgs[Module+"/internal/storage"]
	p.Native = p.Pkgs[Module+"/native"]
	if p.Root == nil || p.Exec == nil || p.Stor == nil || p.Native == nil {
		return nil, fmt.Errorf("load %s [%s]: expected packages missing (have %d)", dir, cfg.Name, len(pkgs))
	}
	for _, pk := range pkgs {
		if !strings.HasPrefix(pk.PkgPath, Module) {
			continue
		}
		short := Short(pk.PkgPath)
		for i, f := range pk.Syntax {
			base := filepath.Base(pk.CompiledGoFiles[i])
			for _, d := range f.Decls {
				fd, ok := d.(*ast.FuncDecl)
				if !ok {
					continue
				}
				obj, _ := pk.TypesInfo.Defs[fd.Name].(*types.Func)
				if obj == nil {
					continue
				}
				key := short + "." + fd.Name.Name
				if fd.Recv != nil && len(fd.Recv.List) > 0 {
					key = short + ".(" + RecvName(fd.Recv.List[0].Type) + ")." + fd.Name.Name
				}
				if fd.Name.Name == "init" || fd.Name.Name == "_" {
					key = fmt.Sprintf("%s@%s", key, base)
				}
				fi := &FuncInfo{Decl: fd, Obj: obj, Pkg: pk, File: base, Key: key}
				p.Funcs[key] = fi
				p.ByObj[obj] = fi
				// function literals as analysable units of their own (constructor options, deferred
				// and helper closures): key parent$N in source order
				if fd.Body != nil {
					n := 0
					ast.Inspect(fd.Body, func(nd ast.Node) bool {
						if lit, ok := nd.(*ast.FuncLit); ok {
							n++
							ck := fmt.Sprintf("%s$%d", key, n)
							p.Closures = append(p.Closures, &FuncInfo{Decl: &ast.FuncDecl{Name: ast.NewIdent(fmt.Sprintf("%s$%d", fd.Name.Name, n)), Type: lit.Type, Body: lit.Body}, Obj: obj, Pkg: pk, File: base, Key: ck})
						}
						return true
					})
				}
			}
		}
	}
	return p, nil
}

func Short(path string) string {
	if path == Module {
		return "tensor"
	}
	return strings.TrimPrefix(path, Module+"/")
}

func RecvName(e ast.Expr) string {
	switch x := e.(type) {
	case *ast.StarExpr:
		return "*" + RecvName(x.X)
	case *ast.Ident:
		return x.Name
	case *ast.IndexExpr:
		return RecvName(x.X)
	}
	return "?"
}

// Pos renders a position relative to the repo.
func (p *Program) Pos(pos token.Pos) string {
	if !pos.IsValid() {
		return "-"
	}
	ps := p.Fset.Position(pos)
	rel, err := filepath.Rel(p.Dir, ps.Filename)
	if err != nil || strings.HasPrefix(rel, "..") {
		rel = ps.Filename
	}
	return fmt.Sprintf("%s:%d", rel, ps.Line)
}

// FileOf returns the base file name that contains pos.
func (p *Program) FileOf(pos token.Pos) string {
	return filepath.Base(p.Fset.Position(pos).Filename)
}

// Func looks a function up by key and reports whether it exists.
func (p *Program) Func(key string) *FuncInfo { return p.Funcs[key] }

// FuncsInFile lists functions declared in a file (base name) of a package, in source order.
func (p *Program) FuncsInFile(pkg *packages.Package, base string) []*FuncInfo {
	var out []*FuncInfo
	for _, fi := range p.Funcs {
		if fi.Pkg == pkg && fi.File == base {
			out = append(out, fi)
		}
	}
	sort.Slice(out, func(i, j int) bool { return out[i].Decl.Pos() < out[j].Decl.Pos() })
	return out
}

// SortedFuncs returns all functions of the module sorted by key.
func (p *Program) SortedFuncs() []*FuncInfo {
	var out []*FuncInfo
	for _, fi := range p.Funcs {
		out = append(out, fi)
	}
	sort.Slice(out, func(i, j int) bool { return out[i].Key < out[j].Key })
	return out
}

// SSA builds (once) the SSA form of the module's packages. Dependencies come from export
// data and have no bodies; they are opaque to every rule.
func (p *Program) SSA() *ssa.Program {
	p.ssaOnce.Do(func() {
		var list []*packages.Package
		var paths []string
		for path := range p.Pkgs {
			paths = append(paths, path)
		}
		sort.Strings(paths)
		for _, path := range paths {
			list = append(list, p.Pkgs[path])
		}
		prog, spkgs := ssautil.Packages(list, ssa.InstantiateGenerics)
		prog.Build()
		p.SSAProg = prog
		p.SSAPkgs = map[string]*ssa.Package{}
		for i, sp := range spkgs {
			if sp != nil {
				p.SSAPkgs[list[i].PkgPath] = sp
			}
		}
	})
	return p.SSAProg
}

// SSAFunc returns the SSA function of a declared function.
func (p *Program) SSAFunc(fi *FuncInfo) *ssa.Function {
	p.SSA()
	return p.SSAProg.FuncValue(fi.Obj)
}

// ModuleFuncs returns every SSA function (incl. anonymous) whose package is in the module.
func (p *Program) ModuleFuncs() []*ssa.Function {
	p.SSA()
	var out []*ssa.Function
	for fn := range ssautil.AllFunctions(p.SSAProg) {
		if fn.Pkg != nil && strings.HasPrefix(fn.Pkg.Pkg.Path(), Module) && fn.Blocks != nil {
			out = append(out, fn)
		} else if fn.Pkg == nil && fn.Parent() != nil {
			// anonymous handled through Pkg of parent (Pkg is set for anon funcs too)
		}
	}
	sort.Slice(out, func(i, j int) bool {
		if out[i].Pos() != out[j].Pos() {
			return out[i].Pos() < out[j].Pos()
		}
		return out[i].String() < out[j].String()
	})
	return out
}

// CHA returns the class-hierarchy call graph.
func (p *Program) CHA() *callgraph.Graph {
	p.cgOnce.Do(func() {
		p.SSA()
		p.cg = cha.CallGraph(p.SSAProg)
	})
	return p.cg
}

// VTA returns the variable-type-analysis call graph (more precise, thorough tier).
func (p *Program) VTA() *callgraph.Graph {
	p.vtaOnce.Do(func() {
		p.vtaG = vta.CallGraph(ssautil.AllFunctions(p.SSA()), p.CHA())
	})
	return p.vtaG
}

// IsExportedKey reports whether a function key (pkg.Name or pkg.(Recv).Name) names an exported function.
func IsExportedKey(k string) bool {
	i := strings.LastIndex(k, ".")
	if i < 0 || i+1 >= len(k) {
		return false
	}
	c := k[i+1]
	return c >= 'A' && c <= 'Z'
}

// AnalysisFuncs lists declared functions and function literals (as units of their own), sorted by key.
func (p *Program) AnalysisFuncs() []*FuncInfo {
	out := p.SortedFuncs()
	out = append(out, p.Closures...)
	sort.Slice(out, func(i, j int) bool { return out[i].Key < out[j].Key })
	return out
}
