// tcheck: static checker for properties C01–C20 of gorgonia/tensor.
//
//	tcheck <Cnn> [--tier quick|thorough]
//	tcheck replay <report.json>
package main

import (
	"encoding/json"
	"fmt"
	"os"
	"path/filepath"
	"strconv"
	"strings"
	"time"

	"tcheck/core"
	"tcheck/load"
	"tcheck/rules"
)

func verifDir() string {
	if d := os.Getenv("TCHECK_VERIF"); d != "" {
		return d
	}
	exe, err := os.Executable()
	if err == nil {
		d := filepath.Dir(filepath.Dir(exe))
		if _, err := os.Stat(filepath.Join(d, "known_findings.json")); err == nil {
			return d
		}
	}
	return "/verif"
}

func main() {
	defer func() {
		if r := recover(); r != nil {
			fmt.Printf("tcheck: internal error: %v\n", r)
			panic(r)
		}
	}()
	if len(os.Args) < 2 {
		fmt.Println("usage: tcheck <Cnn> [--tier quick|thorough] | tcheck replay <report.json>")
		os.Exit(2)
	}
	tier := os.Getenv("VERIF_TIER")
	if tier == "" {
		tier = "quick"
	}
	only := ""
	args := os.Args[1:]
	if args[0] == "replay" {
		if len(args) < 2 {
			fmt.Println("usage: tcheck replay <report.json>")
			os.Exit(2)
		}
		b, err := os.ReadFile(args[1])
		if err != nil {
			fmt.Println(err)
			os.Exit(2)
		}
		var rep struct{ Property, Rule, Key, Config string }
		if err := json.Unmarshal(b, &rep); err != nil {
			fmt.Println(err)
			os.Exit(2)
		}
		args = []string{rep.Property}
		only = rep.Rule + "|" + rep.Key
		tier = "thorough"
		if rep.Config == "default" || rep.Config == "" {
			tier = "quick"
		}
	}
	prop := args[0]
	for i := 1; i < len(args); i++ {
		if args[i] == "--tier" && i+1 < len(args) {
			tier = args[i+1]
			i++
		}
	}
	if tier != "quick" && tier != "thorough" {
		fmt.Println("unknown tier", tier)
		os.Exit(2)
	}
	p := properties[prop]
	if p == nil {
		fmt.Println("unknown property", prop)
		os.Exit(2)
	}
	os.Exit(run(p, tier, only))
}

func run(p *Property, tier, only string) int {
	start := time.Now()
	seed, _ := strconv.ParseInt(os.Getenv("VERIF_SEED"), 10, 64)
	vd := verifDir()
	known, err := core.LoadKnown(filepath.Join(vd, "known_findings.json"))
	if err != nil {
		fmt.Println("tcheck: cannot read known_findings.json:", err)
		return 2
	}
	res := &core.Result{Property: p.ID, Tier: tier, Seed: seed, Start: start, VerifDir: vd, Explain: p.Explain, Trusted: trusted, Assume: p.Assume, Technique: p.Technique}
	cfgs := p.Quick
	if tier == "thorough" {
		cfgs = p.Thorough
	}
	for _, cn := range cfgs {
		cfg := load.Configs[cn]
		prog, err := load.Load(load.RepoDir(), cfg)
		sink := core.NewSink(p.ID)
		sink.Config = cn
		res.Sinks = append(res.Sinks, sink)
		res.Configs = append(res.Configs, cn)
		if err != nil {
			res.Broken = append(res.Broken, fmt.Sprintf("configuration %s does not load: %v", cn, err))
			continue
		}
		sink.Count("packages", len(prog.Pkgs))
		sink.Count("functions", len(prog.Funcs))
		rc := &rules.RC{P: prog, S: sink, Tier: tier, Prop: p.ID}
		func() {
			defer func() {
				if r := recover(); r != nil {
					res.Broken = append(res.Broken, fmt.Sprintf("checker panic in configuration %s: %v", cn, r))
				}
			}()
			p.Run(rc)
			rules.DowngradeRestructured(rc)
			// The guard census GC (facts in front of every call compared with a reviewed reference)
			// was withdrawn after the benign-change round: it reported every refactoring that moves
			// or rewrites a guard (DESIGN section 4). Its four unique catches are now LG goals.
			if os.Getenv("TCHECK_WITH_GC") != "" {
				if files := anchorFiles(vd, p.ID); len(files) > 0 {
					rules.GC(rc, func(f string) bool { return files[f] }, 1)
				}
			}
		}()
		rules.ReleaseProgram(prog)
	}
	if r := os.Getenv("TCHECK_SKIP_RULES"); r != "" {
		// debugging aid: judge the tree without the named rules (comma-separated)
		skip := map[string]bool{}
		for _, x := range strings.Split(r, ",") {
			skip[x] = true
		}
		for _, sk := range res.Sinks {
			var keep []*core.Obligation
			for _, o := range sk.Obs {
				if !skip[o.Rule] {
					keep = append(keep, o)
				}
			}
			sk.Obs = keep
			for id, ri := range sk.Rules {
				if skip[id] {
					ri.Floor = 0
				}
			}
		}
	}
	if r := os.Getenv("TCHECK_ONLY_RULE"); r != "" {
		// debugging aid: judge the tree by one rule only (floors disabled)
		for _, sk := range res.Sinks {
			var keep []*core.Obligation
			for _, o := range sk.Obs {
				if o.Rule == r {
					keep = append(keep, o)
				}
			}
			sk.Obs = keep
			for _, ri := range sk.Rules {
				ri.Floor = 0
			}
		}
	}
	if only != "" {
		// replay: keep only the obligation named by the report
		found := false
		for _, s := range res.Sinks {
			var keep []*core.Obligation
			for _, o := range s.Obs {
				if o.Rule+"|"+o.Key == only {
					keep = append(keep, o)
					found = true
				}
			}
			s.Obs = keep
			for _, r := range s.Rules {
				r.Floor = 0
			}
		}
		if !found {
			fmt.Println("replay: the construct named by the report no longer exists (obligation not produced)")
		}
		res.VerifDir = filepath.Join(os.TempDir(), "tcheck-replay")
		defer os.RemoveAll(res.VerifDir)
	}
	if os.Getenv("TCHECK_EMIT_KNOWN") != "" {
		seen := map[string]bool{}
		for _, sk := range res.Sinks {
			for _, o := range sk.Obs {
				if o.Verdict == core.Violation && known.Match(p.ID, o) == nil {
					b, _ := json.Marshal(core.Finding{Property: p.ID, Rule: o.Rule, Key: o.Key, What: "", Sig: o.Sig})
					if !seen[string(b)] {
						seen[string(b)] = true
						fmt.Println("EMIT", string(b))
					}
				}
			}
		}
	}
	return res.Finish(known)
}

// anchorFiles reads the hand-written anchor files of a property from properties.jsonl.
func anchorFiles(verif, id string) map[string]bool {
	out := map[string]bool{}
	b, err := os.ReadFile(filepath.Join(verif, "properties.jsonl"))
	if err != nil {
		b, err = os.ReadFile("/verif/properties.jsonl")
		if err != nil {
			return out
		}
	}
	for _, line := range strings.Split(string(b), "\n") {
		var p struct {
			ID      string `json:"id"`
			Anchors struct {
				Files []string `json:"files"`
			} `json:"anchors"`
		}
		if json.Unmarshal([]byte(line), &p) != nil || p.ID != id {
			continue
		}
		for _, f := range p.Anchors.Files {
			if strings.HasSuffix(f, ".go") && !strings.Contains(f, "/") {
				out[f] = true
			}
		}
	}
	return out
}
