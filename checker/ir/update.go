package ir

import (
	"fmt"
	"sort"
	"strings"
)

// Update is one guarded effect of a loop body (level B view).
type Update struct {
	Guard  []string
	Kind   string // store | let | ret | call | tuple
	Target string
	Value  string
	Exit   string // "", continue, break, return
}

func (u Update) String() string {
	g := "true"
	if len(u.Guard) > 0 {
		g = strings.Join(u.Guard, " && ")
	}
	s := ""
	switch u.Kind {
	case "store", "let":
		s = fmt.Sprintf("[%s] %s = %s", g, u.Target, u.Value)
	case "ret":
		s = fmt.Sprintf("[%s] return %s", g, u.Value)
	default:
		s = fmt.Sprintf("[%s] %s %s", g, u.Kind, u.Value)
	}
	if u.Exit != "" && u.Kind != "ret" {
		s += " ; " + u.Exit
	}
	return s
}

// Kernel is the level-B summary of a kernel-shaped function: optional prelude, one main
// loop, optional epilogue.
type Kernel struct {
	Loop     string   // "none" | "range X" | "iter" | "for …"
	Iters    []string // iterator operands consumed per step, in order
	Valid    []string // iterators whose validity flag guards the body (sorted)
	ErrProto []string // error plumbing of the iterator steps (canonical, per iterator)
	Updates  []Update
	Pre      []string
	Post     []string
	Notes    []string
}

func (k *Kernel) Key() string {
	var b strings.Builder
	b.WriteString("loop: " + k.Loop + "\n")
	if len(k.Iters) > 0 {
		b.WriteString("iters: " + strings.Join(k.Iters, ",") + " valid: " + strings.Join(k.Valid, "&") + "\n")
	}
	for _, p := range k.Pre {
		b.WriteString("pre: " + p + "\n")
	}
	for _, u := range k.Updates {
		b.WriteString(u.String() + "\n")
	}
	for _, p := range k.Post {
		b.WriteString("post: " + p + "\n")
	}
	for _, e := range k.ErrProto {
		b.WriteString("errproto: " + e + "\n")
	}
	for _, n := range k.Notes {
		b.WriteString("NOTE: " + n + "\n")
	}
	return b.String()
}

// ReplaceWord replaces whole-word occurrences of old in s.
func ReplaceWord(s, old, new string) string {
	if old == "" || !strings.Contains(s, old) {
		return s
	}
	var b strings.Builder
	for i := 0; i < len(s); {
		j := strings.Index(s[i:], old)
		if j < 0 {
			b.WriteString(s[i:])
			break
		}
		j += i
		end := j + len(old)
		beforeOK := j == 0 || !isWord(s[j-1])
		afterOK := end == len(s) || !isWord(s[end])
		b.WriteString(s[i:j])
		if beforeOK && afterOK {
			b.WriteString(new)
		} else {
			b.WriteString(old)
		}
		i = end
	}
	return b.String()
}

func renderFlat(ns []*Node) []string {
	s := strings.TrimRight(Render(ns), "\n")
	if s == "" {
		return nil
	}
	return strings.Split(s, "\n")
}

// Summarise derives the kernel view from a canonical tree.
func SummariseKernel(tree []*Node) *Kernel {
	k := &Kernel{Loop: "none"}
	li := -1
	for i, n := range tree {
		if n.Kind == "loop" || n.Kind == "range" {
			if li >= 0 {
				k.Notes = append(k.Notes, "more than one top-level loop")
			} else {
				li = i
			}
		}
	}
	if li < 0 {
		paths(tree, nil, &k.Updates, k)
		return k
	}
	k.Pre = renderFlat(tree[:li])
	k.Post = renderFlat(tree[li+1:])
	loop := tree[li]
	body := loop.Kids
	repl := map[string]string{}
	if loop.Kind == "range" {
		k.Loop = loop.Head
	} else if loop.Head == "for" {
		// iterator loop: pairs of (tuple = X.NextValidity(); if err != nil {...; break})
		k.Loop = "iter"
		i := 0
		valid := map[string]string{}
		for i+1 < len(body) {
			t := body[i]
			if t.Kind != "tuple" || !strings.HasSuffix(t.Value, ".NextValidity()") || len(t.Targets) != 3 {
				break
			}
			it := strings.TrimSuffix(t.Value, ".NextValidity()")
			g := body[i+1]
			if g.Kind != "if" {
				break
			}
			repl[t.Targets[0]] = "@" + it
			valid[t.Targets[1]] = it
			k.Iters = append(k.Iters, it)
			proto := "if " + g.Head + " {" + strings.Join(renderFlat(g.Kids), "; ") + "}"
			if g.Else != nil {
				proto += " else {" + strings.Join(renderFlat(g.Else), "; ") + "}"
			}
			proto = ReplaceWord(proto, t.Targets[2], "ERR")
			k.ErrProto = append(k.ErrProto, proto)
			i += 2
		}
		rest := body[i:]
		if len(k.Iters) == 0 {
			k.Notes = append(k.Notes, "bare for loop without iterator steps")
		}
		if len(rest) == 1 && rest[0].Kind == "if" && rest[0].Else == nil {
			conj := splitConj(rest[0].Head)
			ok := true
			for _, cj := range conj {
				if it, isV := valid[cj]; isV {
					k.Valid = append(k.Valid, it)
				} else {
					ok = false
				}
			}
			sort.Strings(k.Valid)
			if ok {
				body = rest[0].Kids
			} else {
				k.Notes = append(k.Notes, "validity guard mixes other conditions: "+rest[0].Head)
				body = rest
			}
		} else {
			k.Notes = append(k.Notes, "iterator loop body is not a single validity-guarded block")
			body = rest
		}
	} else {
		k.Loop = loop.Head
	}
	paths(body, nil, &k.Updates, k)
	if len(repl) > 0 {
		// longest keys first so %10 is not clobbered by %1 (ReplaceWord is word-safe anyway)
		for old, nw := range repl {
			for i := range k.Updates {
				u := &k.Updates[i]
				u.Target = ReplaceWord(u.Target, old, nw)
				u.Value = ReplaceWord(u.Value, old, nw)
				for j := range u.Guard {
					u.Guard[j] = ReplaceWord(u.Guard[j], old, nw)
				}
			}
		}
	}
	return k
}

func splitConj(s string) []string {
	s = strings.TrimSpace(s)
	if strings.HasPrefix(s, "(") && strings.HasSuffix(s, ")") && balanced(s[1:len(s)-1]) {
		in := s[1 : len(s)-1]
		d := 0
		for i := 0; i+4 <= len(in); i++ {
			switch in[i] {
			case '(':
				d++
			case ')':
				d--
			}
			if d == 0 && strings.HasPrefix(in[i:], " && ") {
				return append(splitConj(in[:i]), splitConj(in[i+4:])...)
			}
		}
	}
	return []string{s}
}

// paths enumerates the if-structure of a statement list; returns the exit kind when the
// list always leaves ("continue", "break", "return") or "".
func paths(ns []*Node, conds []string, out *[]Update, k *Kernel) string {
	for i, n := range ns {
		g := append([]string{}, conds...)
		switch n.Kind {
		case "store", "let":
			*out = append(*out, Update{Guard: g, Kind: n.Kind, Target: n.Target, Value: n.Value})
		case "tuple":
			*out = append(*out, Update{Guard: g, Kind: "tuple", Target: strings.Join(n.Targets, ","), Value: n.Head})
		case "call", "defer":
			*out = append(*out, Update{Guard: g, Kind: n.Kind, Value: n.Value})
		case "ret":
			*out = append(*out, Update{Guard: g, Kind: "ret", Value: n.Value, Exit: "return"})
			return "return"
		case "continue", "break", "goto":
			markExit(out, conds, n.Head)
			return n.Head
		case "if":
			rest := ns[i+1:]
			thenC := append(append([]string{}, conds...), n.Head)
			n0 := len(*out)
			ex := paths(n.Kids, thenC, out, k)
			if ex == "" {
				paths(rest, thenC, out, k)
			} else if len(*out) == n0 {
				*out = append(*out, Update{Guard: thenC, Kind: "exit", Value: ex, Exit: ex})
			}
			elseC := append(append([]string{}, conds...), Negate(n.Head))
			ex2 := ""
			if n.Else != nil {
				n1 := len(*out)
				ex2 = paths(n.Else, elseC, out, k)
				if ex2 != "" && len(*out) == n1 {
					*out = append(*out, Update{Guard: elseC, Kind: "exit", Value: ex2, Exit: ex2})
				}
			}
			if ex2 == "" {
				ex3 := paths(rest, elseC, out, k)
				if ex != "" && ex3 != "" {
					return ex3
				}
				return ""
			}
			if ex != "" {
				return ex
			}
			return ""
		case "loop", "range", "switch":
			// nested structure: keep as an opaque block effect
			*out = append(*out, Update{Guard: g, Kind: "block", Value: strings.Join(renderFlat([]*Node{n}), " ⏎ ")})
		default:
			*out = append(*out, Update{Guard: g, Kind: n.Kind, Value: n.Head})
		}
	}
	return ""
}

// markExit tags the updates of the current path (same guard prefix) with the exit kind.
func markExit(out *[]Update, conds []string, ex string) {
	tagged := false
	for i := len(*out) - 1; i >= 0; i-- {
		u := &(*out)[i]
		if len(u.Guard) < len(conds) || !sameStrings(u.Guard[:len(conds)], conds) {
			break
		}
		if len(u.Guard) == len(conds) && u.Exit == "" {
			u.Exit = ex
			tagged = true
		}
	}
	_ = tagged
}

func sameStrings(a, b []string) bool {
	if len(a) != len(b) {
		return false
	}
	for i := range a {
		if a[i] != b[i] {
			return false
		}
	}
	return true
}

// HasWord reports whether s mentions the identifier w as a whole word.
func HasWord(s, w string) bool {
	return w != "" && ReplaceWord(s, w, "\x00") != s
}
