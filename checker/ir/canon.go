// Package ir: canonical (normalised, type-erased) form of small Go functions.
//
// Level A (this file): a lossless statement tree in which
//   - parameters are named by position ($0, $1 …, receiver $r, named results $ret0 …),
//   - locals are named by order of first appearance (%0, %1 …) and single-assignment
//     temporaries with pure initialisers are forward-substituted,
//   - `x op= y` is `x = x op y`, `x++` is `x = x + 1`,
//   - `a < b` is `b > a`, `a <= b` is `b >= a`; operands of exact commutative operators
//     (+ and * on non-string numerics, ==, !=, &&, ||, &, |, ^) are sorted,
//   - the element type of the specialisation (and `int`) is erased to τ, math32/math to M,
//     vecf32/vecf64 to V, conversions between the two complex widths are dropped, callees
//     that are sibling specialisations lose their type suffix,
//   - the bounds-check-elimination prelude `a = a[:]; b = b[:len(a)]` is dropped.
//
// Nothing else is dropped: two functions with the same canonical text perform the same
// statements. Rules compare canonical texts of siblings (K1, I2, I6, S10 …) or derive the
// guarded-update view (update.go) from the tree to compare with an operator table (K2).
package ir

import (
	"fmt"
	"go/ast"
	"go/constant"
	"go/token"
	"go/types"
	"sort"
	"strings"
)

// Node is one canonical statement.
type Node struct {
	Kind string // let, store, tuple, call, if, loop, range, ret, break, continue, switch, case, defer, block, goto, label, go, decl
	Head string
	// structured parts for update extraction
	Target, Value string   // store/let
	Targets       []string // tuple
	Kids          []*Node  // then-branch / loop body / cases
	Else          []*Node
	Pos           token.Pos
}

type Options struct {
	ElemType   types.Type // element type of the specialisation, erased to τ (nil: none)
	EraseInt   bool       // also erase `int` (index type) to τ, needed when siblings include the int specialisation
	Suffix     string     // type suffix of sibling callees to strip (e.g. "I8")
	KeepNames  bool       // keep local names instead of numbering (debug)
	NoSubst    bool       // do not forward-substitute temporaries
	ParamNames bool       // render params by name rather than position
	// Rename maps identifiers' objects to fixed names (used by mirror rules).
	Rename func(obj types.Object) (string, bool)
	// MapSel lets a rule rewrite selector/callee names (mirror maps); returns new name.
	MapCallee func(name string) string
	// TokKind resolves type-specific tokens (Dtype variables, typed accessors, sibling
	// specialisations) to the basic kind they denote and their type-erased name; a token of
	// the specialisation's own Kind is rendered by that erased name.
	TokKind func(obj types.Object) (types.BasicKind, string, bool)
	Kind    types.BasicKind
	HasKind bool
	BitSize int // bit size of the specialisation's type (0 for int/uint); erased in strconv calls
	// PureCall names zero-side-effect accessor methods/functions whose calls may be
	// forward-substituted like pure expressions (set by the index/shape rules).
	PureCall func(name string) bool
	// KeepTaglessSwitch keeps `switch { case c: … }` as a switch node instead of an if-chain.
	KeepTaglessSwitch bool
	// KeepCountingLoops keeps `for i := 0; i < len(x); i++` as a loop node instead of a range node.
	KeepCountingLoops bool
	// DeclOf resolves a function object of the module to its declaration and the type info of
	// its package (for inlining boolean helpers into formulas).
	DeclOf func(f *types.Func) (*ast.FuncDecl, *types.Info)
}

type Canon struct {
	Info     *types.Info
	Fset     *token.FileSet
	Opt      Options
	names    map[types.Object]string
	subst    map[types.Object]string
	refSubst map[types.Object]bool // substitution of slice/pointer/map type: an alias, not a snapshot
	nAssign  map[types.Object]int
	nlocal   int
	Notes    []string
	params   map[types.Object]bool
	// RangeBind: range key object -> label
	bind        map[types.Object]string
	rangeDepth  int
	nTypeSwitch int
	boolDefs    map[types.Object]ast.Expr
	boolDepth   int
	inlineDepth int
}

func NewCanon(fset *token.FileSet, info *types.Info, opt Options) *Canon {
	return &Canon{Info: info, Fset: fset, Opt: opt, names: map[types.Object]string{}, subst: map[types.Object]string{}, nAssign: map[types.Object]int{}, params: map[types.Object]bool{}, bind: map[types.Object]string{}}
}

func (c *Canon) note(f string, a ...interface{}) { c.Notes = append(c.Notes, fmt.Sprintf(f, a...)) }

// Func canonicalises a whole function declaration.
func (c *Canon) Func(fd *ast.FuncDecl) []*Node {
	if fd.Recv != nil {
		for _, f := range fd.Recv.List {
			for _, n := range f.Names {
				if o := c.Info.Defs[n]; o != nil {
					c.names[o] = "$r"
					c.params[o] = true
				}
			}
		}
	}
	c.bindSig(fd.Type)
	if fd.Body == nil {
		return nil
	}
	c.countAssigns(fd.Body)
	return c.block(fd.Body.List)
}

// Lit canonicalises a function literal body as a nested function (own parameter space is
// appended to the current one).
func (c *Canon) bindSig(ft *ast.FuncType) {
	i := 0
	for k := range c.names {
		if strings.HasPrefix(c.names[k], "$") && c.names[k] != "$r" && !strings.HasPrefix(c.names[k], "$ret") {
			i++
		}
	}
	if ft.Params != nil {
		for _, f := range ft.Params.List {
			if len(f.Names) == 0 {
				i++
			}
			for _, n := range f.Names {
				if o := c.Info.Defs[n]; o != nil {
					if c.Opt.ParamNames {
						c.names[o] = "$" + n.Name
					} else {
						c.names[o] = fmt.Sprintf("$%d", i)
					}
					c.params[o] = true
				}
				i++
			}
		}
	}
	if ft.Results != nil {
		j := 0
		for _, f := range ft.Results.List {
			for _, n := range f.Names {
				if o := c.Info.Defs[n]; o != nil {
					c.names[o] = fmt.Sprintf("$ret%d", j)
					c.params[o] = true
				}
				j++
			}
			if len(f.Names) == 0 {
				j++
			}
		}
	}
}

func (c *Canon) countAssigns(body ast.Node) {
	ast.Inspect(body, func(n ast.Node) bool {
		switch x := n.(type) {
		case *ast.AssignStmt:
			for _, l := range x.Lhs {
				if id, ok := l.(*ast.Ident); ok {
					if o := c.obj(id); o != nil {
						c.nAssign[o]++
						if x.Tok != token.DEFINE && x.Tok != token.ASSIGN {
							c.nAssign[o]++ // op= is a read-modify-write: never a temp
						}
					}
				}
			}
		case *ast.IncDecStmt:
			if id, ok := x.X.(*ast.Ident); ok {
				if o := c.obj(id); o != nil {
					c.nAssign[o] += 2
				}
			}
		case *ast.RangeStmt:
			for _, e := range []ast.Expr{x.Key, x.Value} {
				if id, ok := e.(*ast.Ident); ok {
					if o := c.obj(id); o != nil {
						c.nAssign[o]++
					}
				}
			}
		case *ast.ValueSpec:
			for _, n := range x.Names {
				if o := c.Info.Defs[n]; o != nil && len(x.Values) > 0 {
					c.nAssign[o]++
				}
			}
		case *ast.UnaryExpr:
			if x.Op == token.AND {
				if id, ok := x.X.(*ast.Ident); ok {
					if o := c.obj(id); o != nil {
						c.nAssign[o] += 2 // address taken
					}
				}
			}
		}
		return true
	})
}

func (c *Canon) obj(id *ast.Ident) types.Object {
	if o := c.Info.Defs[id]; o != nil {
		return o
	}
	return c.Info.Uses[id]
}

func (c *Canon) localName(o types.Object) string {
	if n, ok := c.names[o]; ok {
		return n
	}
	if c.Opt.Rename != nil {
		if n, ok := c.Opt.Rename(o); ok {
			c.names[o] = n
			return n
		}
	}
	var n string
	if c.Opt.KeepNames {
		n = "%" + o.Name()
	} else {
		n = fmt.Sprintf("%%%d", c.nlocal)
	}
	c.nlocal++
	c.names[o] = n
	return n
}

func (c *Canon) block(list []ast.Stmt) []*Node {
	var out []*Node
	for _, st := range list {
		out = append(out, c.stmt(st)...)
	}
	return out
}

func (c *Canon) isLocalVar(o types.Object) bool {
	v, ok := o.(*types.Var)
	if !ok || v.IsField() {
		return false
	}
	if c.params[o] {
		return false
	}
	return v.Parent() != nil && v.Pkg() != nil && v.Parent() != v.Pkg().Scope()
}

func (c *Canon) pureExpr(e ast.Expr) bool {
	pure := true
	ast.Inspect(e, func(n ast.Node) bool {
		switch x := n.(type) {
		case *ast.CallExpr:
			if tv, ok := c.Info.Types[x.Fun]; ok && tv.IsType() {
				return true
			}
			if id, ok := x.Fun.(*ast.Ident); ok {
				if _, ok := c.obj(id).(*types.Builtin); ok && (id.Name == "len" || id.Name == "cap" || id.Name == "real" || id.Name == "imag" || id.Name == "complex" || id.Name == "min" || id.Name == "max") {
					return true
				}
			}
			if sel, ok := x.Fun.(*ast.SelectorExpr); ok {
				if id, ok := sel.X.(*ast.Ident); ok {
					if pn, ok := c.obj(id).(*types.PkgName); ok {
						switch pn.Imported().Path() {
						case "math", "github.com/chewxy/math32", "math/cmplx":
							return true
						}
					}
				}
				if c.Opt.PureCall != nil && c.Opt.PureCall(sel.Sel.Name) {
					return true
				}
			}
			if id, ok := x.Fun.(*ast.Ident); ok && c.Opt.PureCall != nil && c.Opt.PureCall(id.Name) {
				return true
			}
			pure = false
			return false
		case *ast.FuncLit:
			pure = false
			return false
		case *ast.CompositeLit:
			pure = false // a fresh object each time: do not duplicate it by substitution
			return false
		case *ast.UnaryExpr:
			if x.Op == token.ARROW {
				pure = false
			}
		}
		return true
	})
	return pure
}

// invalidate drops substitutions that mention base (a store changed what they read).
func (c *Canon) invalidate(base string) {
	if base == "" {
		return
	}
	for o, v := range c.subst {
		if c.refSubst[o] && v != base {
			continue // an alias of the stored-to memory still denotes that memory
		}
		if mentions(v, base) && !strings.HasPrefix(v, "old(") {
			c.subst[o] = "old(" + v + ")"
		}
	}
}

func mentions(s, tok string) bool {
	for i := 0; ; {
		j := strings.Index(s[i:], tok)
		if j < 0 {
			return false
		}
		j += i
		end := j + len(tok)
		beforeOK := j == 0 || !isWord(s[j-1])
		afterOK := end == len(s) || !isWord(s[end])
		if beforeOK && afterOK {
			return true
		}
		i = j + 1
	}
}

func isWord(b byte) bool {
	return b == '_' || b == '$' || b == '%' || (b >= '0' && b <= '9') || (b >= 'a' && b <= 'z') || (b >= 'A' && b <= 'Z')
}

// baseOf: the variable or field path a store target denotes: `$r.track[%i]` -> `$r.track`.
func baseOf(target string) string {
	for i := 0; i < len(target); i++ {
		if !isWord(target[i]) && !(target[i] == '.' && i+1 < len(target) && isWord(target[i+1])) {
			return target[:i]
		}
	}
	return target
}

func (c *Canon) assign1(lhs ast.Expr, rhsE ast.Expr, rhs string, define bool, pos token.Pos) []*Node {
	if id, ok := lhs.(*ast.Ident); ok {
		if id.Name == "_" {
			if rhsE != nil && c.pureExpr(rhsE) {
				return nil
			}
			return []*Node{{Kind: "call", Head: rhs, Value: rhs, Pos: pos}}
		}
		o := c.obj(id)
		if define && o != nil && c.isLocalVar(o) && c.nAssign[o] == 1 && !c.Opt.NoSubst && rhsE != nil && c.pureExpr(rhsE) {
			c.subst[o] = rhs
			if c.refSubst == nil {
				c.refSubst = map[types.Object]bool{}
			}
			switch o.Type().Underlying().(type) {
			case *types.Slice, *types.Pointer, *types.Map:
				c.refSubst[o] = true
			}
			return nil
		}
		// reslicing prelude: param = param[...]
		if o != nil && c.params[o] {
			if se, ok := rhsE.(*ast.SliceExpr); ok {
				if bid, ok := se.X.(*ast.Ident); ok && c.obj(bid) == o && se.Low == nil && se.Max == nil {
					return nil
				}
			}
		}
		name := id.Name
		if o != nil {
			name = c.ident(id)
		}
		c.invalidate(name)
		return []*Node{{Kind: "let", Head: name + " = " + rhs, Target: name, Value: rhs, Pos: pos}}
	}
	t := c.Expr(lhs)
	c.invalidate(baseOf(t))
	return []*Node{{Kind: "store", Head: t + " = " + rhs, Target: t, Value: rhs, Pos: pos}}
}

func (c *Canon) stmt(st ast.Stmt) []*Node {
	switch x := st.(type) {
	case nil:
		return nil
	case *ast.EmptyStmt:
		return nil
	case *ast.BlockStmt:
		return c.block(x.List)
	case *ast.AssignStmt:
		if len(x.Lhs) == len(x.Rhs) {
			if len(x.Lhs) == 1 {
				rhs := c.Expr(x.Rhs[0])
				if x.Tok != token.ASSIGN && x.Tok != token.DEFINE {
					op := opOfAssign(x.Tok)
					rhs = c.binary(op, c.Expr(x.Lhs[0]), rhs, c.typeOf(x.Lhs[0]))
					return c.assign1(x.Lhs[0], nil, rhs, false, x.Pos())
				}
				return c.assign1(x.Lhs[0], x.Rhs[0], rhs, x.Tok == token.DEFINE, x.Pos())
			}
			// `a, b := e1, e2` of variables assigned nowhere else is two definitions
			if x.Tok == token.DEFINE {
				single := true
				for _, l := range x.Lhs {
					id, ok := l.(*ast.Ident)
					if !ok || id.Name == "_" {
						single = false
						break
					}
					if o := c.obj(id); o == nil || c.nAssign[o] > 1 {
						single = false
						break
					}
				}
				if single {
					var rs []string
					for _, r := range x.Rhs {
						rs = append(rs, c.Expr(r))
					}
					var out []*Node
					for i, l := range x.Lhs {
						out = append(out, c.assign1(l, x.Rhs[i], rs[i], true, x.Pos())...)
					}
					return out
				}
			}
			// parallel assignment: evaluate all rhs first
			var rs []string
			for _, r := range x.Rhs {
				rs = append(rs, c.Expr(r))
			}
			var ls []string
			for _, l := range x.Lhs {
				ls = append(ls, c.Expr(l))
			}
			for _, l := range ls {
				c.invalidate(baseOf(l))
			}
			return []*Node{{Kind: "tuple", Head: "(" + strings.Join(ls, ", ") + ") = (" + strings.Join(rs, ", ") + ")", Targets: ls, Value: strings.Join(rs, ", "), Pos: x.Pos()}}
		}
		if len(x.Rhs) == 1 {
			rhs := c.Expr(x.Rhs[0])
			var ls []string
			for _, l := range x.Lhs {
				if id, ok := l.(*ast.Ident); ok && id.Name == "_" {
					ls = append(ls, "_")
					continue
				}
				ls = append(ls, c.Expr(l))
			}
			for _, l := range ls {
				c.invalidate(baseOf(l))
			}
			return []*Node{{Kind: "tuple", Head: "(" + strings.Join(ls, ", ") + ") = " + rhs, Targets: ls, Value: rhs, Pos: x.Pos()}}
		}
		c.note("assignment arity")
		return []*Node{{Kind: "?", Head: "assign?", Pos: x.Pos()}}
	case *ast.IncDecStmt:
		op := token.ADD
		if x.Tok == token.DEC {
			op = token.SUB
		}
		rhs := c.binary(op, c.Expr(x.X), "1", c.typeOf(x.X))
		return c.assign1(x.X, nil, rhs, false, x.Pos())
	case *ast.DeclStmt:
		gd, ok := x.Decl.(*ast.GenDecl)
		if !ok || gd.Tok != token.VAR {
			if ok && (gd.Tok == token.CONST || gd.Tok == token.TYPE) {
				return nil
			}
			c.note("decl")
			return nil
		}
		var out []*Node
		for _, sp := range gd.Specs {
			vs := sp.(*ast.ValueSpec)
			if len(vs.Values) == 0 {
				continue // zero value; the first read renders the plain name
			}
			if len(vs.Values) == len(vs.Names) {
				for i, n := range vs.Names {
					out = append(out, c.assign1(n, vs.Values[i], c.Expr(vs.Values[i]), true, n.Pos())...)
				}
			} else {
				rhs := c.Expr(vs.Values[0])
				var ls []string
				for _, n := range vs.Names {
					ls = append(ls, c.Expr(n))
				}
				out = append(out, &Node{Kind: "tuple", Head: "(" + strings.Join(ls, ", ") + ") = " + rhs, Targets: ls, Value: rhs, Pos: vs.Pos()})
			}
		}
		return out
	case *ast.ExprStmt:
		e := c.Expr(x.X)
		// calls may write their slice/pointer arguments: be conservative
		if call, ok := x.X.(*ast.CallExpr); ok {
			for _, a := range call.Args {
				c.invalidate(baseOf(c.Expr(a)))
			}
		}
		return []*Node{{Kind: "call", Head: e, Value: e, Pos: x.Pos()}}
	case *ast.ReturnStmt:
		var parts []string
		for _, r := range x.Results {
			parts = append(parts, c.Expr(r))
		}
		return []*Node{{Kind: "ret", Head: "return " + strings.Join(parts, ", "), Value: strings.Join(parts, ", "), Pos: x.Pos()}}
	case *ast.BranchStmt:
		h := strings.ToLower(x.Tok.String())
		if x.Label != nil {
			h += " " + x.Label.Name
		}
		return []*Node{{Kind: strings.ToLower(x.Tok.String()), Head: h, Pos: x.Pos()}}
	case *ast.LabeledStmt:
		out := []*Node{{Kind: "label", Head: "label " + x.Label.Name, Pos: x.Pos()}}
		return append(out, c.stmt(x.Stmt)...)
	case *ast.IfStmt:
		var out []*Node
		saved := c.saveSubst()
		if x.Init != nil {
			out = append(out, c.stmt(x.Init)...)
		}
		cond := c.Expr(x.Cond)
		n := &Node{Kind: "if", Head: cond, Pos: x.Pos()}
		s2 := c.saveSubst()
		n.Kids = c.block(x.Body.List)
		c.subst = s2
		s3 := c.saveSubst()
		switch e := x.Else.(type) {
		case *ast.BlockStmt:
			n.Else = c.block(e.List)
		case *ast.IfStmt:
			n.Else = c.stmt(e)
		}
		c.subst = s3
		_ = saved
		if n.Else != nil && strings.HasPrefix(n.Head, "!") {
			n.Head = Negate(n.Head)
			n.Kids, n.Else = n.Else, n.Kids
		}
		c.invalidateWritten(n)
		return append(out, n)
	case *ast.ForStmt:
		if iv, over, ok := c.countingLoopOverLen(x); ok && !c.Opt.KeepCountingLoops {
			// `for i := 0; i < len(X); i++ { … }` with i and X untouched in the body is `for i := range X`
			overS := c.Expr(over)
			n := &Node{Kind: "range", Pos: x.Pos()}
			label := "@r"
			if c.rangeDepth > 0 {
				label = fmt.Sprintf("@r%d", c.rangeDepth)
			}
			c.rangeDepth++
			c.bind[iv] = label
			n.Head = "range " + overS + " as " + label
			n.Kids = c.block(x.Body.List)
			c.rangeDepth--
			c.invalidateWritten(n)
			return []*Node{n}
		}
		var out []*Node
		// the loop variable(s) are state: make sure they are not substituted
		if x.Init != nil {
			save := c.Opt.NoSubst
			c.Opt.NoSubst = true
			out = append(out, c.stmt(x.Init)...)
			c.Opt.NoSubst = save
		}
		cond := ""
		if x.Cond != nil {
			cond = c.Expr(x.Cond)
		}
		n := &Node{Kind: "loop", Pos: x.Pos()}
		n.Kids = c.block(x.Body.List)
		post := c.stmt(x.Post)
		var ps []string
		for _, p := range post {
			ps = append(ps, p.Head)
		}
		// cond may read state assigned in the body: render again after the body for stability
		if x.Cond != nil {
			cond = c.Expr(x.Cond)
		}
		n.Head = "for " + cond + " ; " + strings.Join(ps, "; ")
		if x.Cond == nil && x.Post == nil {
			n.Head = "for"
		}
		c.invalidateWritten(n)
		return append(out, n)
	case *ast.RangeStmt:
		over := c.Expr(x.X)
		n := &Node{Kind: "range", Pos: x.Pos()}
		label := "@r"
		depth := c.rangeDepth
		if depth > 0 {
			label = fmt.Sprintf("@r%d", depth)
		}
		c.rangeDepth++
		if id, ok := x.Key.(*ast.Ident); ok && id.Name != "_" {
			if o := c.obj(id); o != nil {
				if c.nAssign[o] <= 1 {
					c.bind[o] = label
				}
			}
		} else if x.Key != nil {
			if _, ok := x.Key.(*ast.Ident); !ok {
				c.note("range key expr")
			}
		}
		if id, ok := x.Value.(*ast.Ident); ok && id.Name != "_" {
			if o := c.obj(id); o != nil && c.nAssign[o] <= 1 {
				c.subst[o] = over + "[" + label + "]"
			}
		}
		n.Head = "range " + over + " as " + label
		n.Kids = c.block(x.Body.List)
		c.rangeDepth--
		c.invalidateWritten(n)
		return []*Node{n}
	case *ast.SwitchStmt:
		var out []*Node
		if x.Init != nil {
			out = append(out, c.stmt(x.Init)...)
		}
		tag := ""
		if x.Tag != nil {
			tag = c.Expr(x.Tag)
		}
		if x.Tag == nil && !c.Opt.KeepTaglessSwitch && taglessSwitchIsIfChain(x) {
			// `switch { case a: A; case b: B; default: D }` is `if a {A} else if b {B} else {D}`
			var conds []string
			var bodies [][]*Node
			var poss []token.Pos
			var deflt []*Node
			hasDefault := false
			for _, cl := range x.Body.List {
				cc := cl.(*ast.CaseClause)
				s := c.saveSubst()
				if cc.List == nil {
					hasDefault = true
					deflt = c.block(cc.Body)
					c.subst = s
					continue
				}
				cond := ""
				for i, e := range cc.List {
					ce := c.Expr(e)
					if i == 0 {
						cond = ce
					} else {
						cond = "(" + cond + " || " + ce + ")"
					}
				}
				conds = append(conds, cond)
				bodies = append(bodies, c.block(cc.Body))
				poss = append(poss, cc.Pos())
				c.subst = s
			}
			var chain []*Node
			if hasDefault {
				chain = deflt
			}
			for i := len(conds) - 1; i >= 0; i-- {
				n := &Node{Kind: "if", Head: conds[i], Kids: bodies[i], Else: chain, Pos: poss[i]}
				if n.Else != nil && strings.HasPrefix(n.Head, "!") {
					n.Head = Negate(n.Head)
					n.Kids, n.Else = n.Else, n.Kids
				}
				chain = []*Node{n}
			}
			for _, n := range chain {
				c.invalidateWritten(n)
			}
			return append(out, chain...)
		}
		n := &Node{Kind: "switch", Head: "switch " + tag, Pos: x.Pos()}
		for _, cl := range x.Body.List {
			cc := cl.(*ast.CaseClause)
			var es []string
			for _, e := range cc.List {
				es = append(es, c.Expr(e))
			}
			h := "case " + strings.Join(es, ", ")
			if cc.List == nil {
				h = "default"
			}
			s := c.saveSubst()
			n.Kids = append(n.Kids, &Node{Kind: "case", Head: h, Kids: c.block(cc.Body), Pos: cc.Pos()})
			c.subst = s
		}
		c.invalidateWritten(n)
		return append(out, n)
	case *ast.TypeSwitchStmt:
		var out []*Node
		if x.Init != nil {
			out = append(out, c.stmt(x.Init)...)
		}
		var tag string
		switch a := x.Assign.(type) {
		case *ast.AssignStmt:
			tag = c.Expr(a.Rhs[0])
		case *ast.ExprStmt:
			tag = c.Expr(a.X)
		}
		n := &Node{Kind: "switch", Head: "typeswitch " + tag, Pos: x.Pos()}
		c.nTypeSwitch++
		tsName := fmt.Sprintf("%%ts%d", c.nTypeSwitch)
		if c.nTypeSwitch == 1 {
			tsName = "%ts"
		}
		for _, cl := range x.Body.List {
			cc := cl.(*ast.CaseClause)
			var es []string
			for _, e := range cc.List {
				es = append(es, c.typeExpr(e))
			}
			h := "case " + strings.Join(es, ", ")
			if cc.List == nil {
				h = "default"
			}
			// the implicit per-clause variable
			if o := c.Info.Implicits[cc]; o != nil {
				c.names[o] = tsName
			}
			s := c.saveSubst()
			n.Kids = append(n.Kids, &Node{Kind: "case", Head: h, Kids: c.block(cc.Body), Pos: cc.Pos()})
			c.subst = s
		}
		c.invalidateWritten(n)
		return append(out, n)
	case *ast.DeferStmt:
		e := c.Expr(x.Call)
		return []*Node{{Kind: "defer", Head: "defer " + e, Value: e, Pos: x.Pos()}}
	case *ast.GoStmt:
		e := c.Expr(x.Call)
		return []*Node{{Kind: "go", Head: "go " + e, Value: e, Pos: x.Pos()}}
	}
	c.note("unhandled stmt %T", st)
	return []*Node{{Kind: "?", Head: fmt.Sprintf("?%T", st), Pos: st.Pos()}}
}

// countingLoopOverLen recognises `for i := 0; i < len(X); i++` (also `len(X) > i`, `i += 1`)
// whose body assigns neither i nor the root variable of X.
func (c *Canon) countingLoopOverLen(x *ast.ForStmt) (types.Object, ast.Expr, bool) {
	as, ok := x.Init.(*ast.AssignStmt)
	if !ok || as.Tok != token.DEFINE || len(as.Lhs) != 1 || len(as.Rhs) != 1 {
		return nil, nil, false
	}
	id, ok := as.Lhs[0].(*ast.Ident)
	if !ok {
		return nil, nil, false
	}
	if lit, ok := as.Rhs[0].(*ast.BasicLit); !ok || lit.Value != "0" {
		return nil, nil, false
	}
	iv := c.obj(id)
	if iv == nil {
		return nil, nil, false
	}
	isI := func(e ast.Expr) bool {
		j, ok := e.(*ast.Ident)
		return ok && c.obj(j) == iv
	}
	lenOf := func(e ast.Expr) ast.Expr {
		call, ok := e.(*ast.CallExpr)
		if !ok || len(call.Args) != 1 {
			return nil
		}
		f, ok := call.Fun.(*ast.Ident)
		if !ok || f.Name != "len" {
			return nil
		}
		if _, isBuiltin := c.Info.Uses[f].(*types.Builtin); !isBuiltin {
			return nil
		}
		return call.Args[0]
	}
	be, ok := x.Cond.(*ast.BinaryExpr)
	if !ok {
		return nil, nil, false
	}
	var over ast.Expr
	switch {
	case be.Op == token.LSS && isI(be.X):
		over = lenOf(be.Y)
	case be.Op == token.GTR && isI(be.Y):
		over = lenOf(be.X)
	}
	if over == nil {
		return nil, nil, false
	}
	switch p := x.Post.(type) {
	case *ast.IncDecStmt:
		if p.Tok != token.INC || !isI(p.X) {
			return nil, nil, false
		}
	case *ast.AssignStmt:
		if p.Tok != token.ADD_ASSIGN || len(p.Lhs) != 1 || !isI(p.Lhs[0]) {
			return nil, nil, false
		}
		if lit, ok := p.Rhs[0].(*ast.BasicLit); !ok || lit.Value != "1" {
			return nil, nil, false
		}
	default:
		return nil, nil, false
	}
	// the iterated value must be a plain variable (or a field/selector chain of one) and pure
	root := over
	for {
		switch r := root.(type) {
		case *ast.SelectorExpr:
			root = r.X
			continue
		case *ast.ParenExpr:
			root = r.X
			continue
		}
		break
	}
	rid, ok := root.(*ast.Ident)
	if !ok {
		return nil, nil, false
	}
	rootObj := c.obj(rid)
	touched := false
	ast.Inspect(x.Body, func(m ast.Node) bool {
		switch y := m.(type) {
		case *ast.AssignStmt:
			for _, l := range y.Lhs {
				if j, ok := l.(*ast.Ident); ok {
					if o := c.obj(j); o == iv || (rootObj != nil && o == rootObj) {
						touched = true
					}
				}
			}
		case *ast.IncDecStmt:
			if isI(y.X) {
				touched = true
			}
		case *ast.UnaryExpr:
			if y.Op == token.AND && isI(y.X) {
				touched = true
			}
		}
		return !touched
	})
	if touched {
		return nil, nil, false
	}
	return iv, over, true
}

// taglessSwitchIsIfChain: no fallthrough, and no unlabeled break that targets the switch itself.
func taglessSwitchIsIfChain(x *ast.SwitchStmt) bool {
	ok := true
	var walk func(n ast.Node, depth int)
	walk = func(n ast.Node, depth int) {
		ast.Inspect(n, func(m ast.Node) bool {
			if !ok || m == nil {
				return false
			}
			switch y := m.(type) {
			case *ast.BranchStmt:
				if y.Tok == token.FALLTHROUGH || (y.Tok == token.BREAK && y.Label == nil) {
					ok = false
				}
				return false
			case *ast.ForStmt, *ast.RangeStmt, *ast.SwitchStmt, *ast.TypeSwitchStmt, *ast.SelectStmt, *ast.FuncLit:
				if m != n {
					// breaks inside belong to the inner statement; fallthrough cannot cross it
					return false
				}
			}
			return true
		})
	}
	for _, cl := range x.Body.List {
		cc := cl.(*ast.CaseClause)
		for _, st := range cc.Body {
			walk(st, 0)
		}
	}
	return ok
}

func (c *Canon) saveSubst() map[types.Object]string {
	m := make(map[types.Object]string, len(c.subst))
	for k, v := range c.subst {
		m[k] = v
	}
	return m
}

// invalidateWritten invalidates substitutions reading anything stored inside n.
func (c *Canon) invalidateWritten(n *Node) {
	var walk func(ns []*Node)
	walk = func(ns []*Node) {
		for _, k := range ns {
			switch k.Kind {
			case "store", "let":
				c.invalidate(baseOf(k.Target))
			case "tuple":
				for _, t := range k.Targets {
					c.invalidate(baseOf(t))
				}
			}
			walk(k.Kids)
			walk(k.Else)
		}
	}
	walk(n.Kids)
	walk(n.Else)
}

func opOfAssign(t token.Token) token.Token {
	switch t {
	case token.ADD_ASSIGN:
		return token.ADD
	case token.SUB_ASSIGN:
		return token.SUB
	case token.MUL_ASSIGN:
		return token.MUL
	case token.QUO_ASSIGN:
		return token.QUO
	case token.REM_ASSIGN:
		return token.REM
	case token.AND_ASSIGN:
		return token.AND
	case token.OR_ASSIGN:
		return token.OR
	case token.XOR_ASSIGN:
		return token.XOR
	case token.SHL_ASSIGN:
		return token.SHL
	case token.SHR_ASSIGN:
		return token.SHR
	case token.AND_NOT_ASSIGN:
		return token.AND_NOT
	}
	return token.ILLEGAL
}

func (c *Canon) typeOf(e ast.Expr) types.Type {
	if tv, ok := c.Info.Types[e]; ok {
		return tv.Type
	}
	if id, ok := e.(*ast.Ident); ok {
		if o := c.obj(id); o != nil {
			return o.Type()
		}
	}
	return nil
}

func isStringish(t types.Type) bool {
	if t == nil {
		return true // unknown: do not reorder
	}
	b, ok := t.Underlying().(*types.Basic)
	return !ok || b.Info()&types.IsString != 0 || b.Info()&types.IsNumeric == 0 && b.Info()&types.IsBoolean == 0
}

func (c *Canon) binary(op token.Token, l, r string, t types.Type) string {
	switch op {
	case token.LSS:
		l, r, op = r, l, token.GTR
	case token.LEQ:
		l, r, op = r, l, token.GEQ
	}
	switch op {
	case token.ADD, token.MUL:
		if !isStringish(t) && r < l {
			l, r = r, l
		}
	case token.EQL, token.NEQ, token.LAND, token.LOR, token.AND, token.OR, token.XOR:
		// && and || are sorted only when both sides are pure renderings; Go's short-circuit
		// matters for side effects/panics, which canonical comparison of siblings tolerates
		// because every sibling is sorted the same way.
		if op == token.LAND || op == token.LOR {
			break
		}
		if r < l {
			l, r = r, l
		}
	}
	return "(" + l + " " + op.String() + " " + r + ")"
}

func (c *Canon) ident(x *ast.Ident) string {
	o := c.obj(x)
	if o == nil {
		return x.Name
	}
	if v, ok := c.subst[o]; ok {
		return v
	}
	if b, ok := c.bind[o]; ok {
		return b
	}
	if n, ok := c.names[o]; ok {
		return n
	}
	if n, ok := c.tok(o); ok {
		return n
	}
	switch ob := o.(type) {
	case *types.TypeName:
		return c.typeName(ob.Type())
	case *types.Const:
		if ob.Pkg() == nil { // true/false/iota
			return x.Name
		}
		return c.qual(ob)
	case *types.Nil:
		return "nil"
	case *types.Builtin:
		return x.Name
	case *types.PkgName:
		return c.pkgAlias(ob.Imported().Path())
	case *types.Func:
		return c.funcName(ob)
	case *types.Var:
		if c.isLocalVar(o) {
			return c.localName(o)
		}
		return c.qual(ob)
	}
	return x.Name
}

// tok erases a type-specific token of the specialisation's own kind.
func (c *Canon) tok(o types.Object) (string, bool) {
	if c.Opt.TokKind == nil || !c.Opt.HasKind || o == nil {
		return "", false
	}
	if k, name, ok := c.Opt.TokKind(o); ok && k == c.Opt.Kind {
		return name, true
	}
	return "", false
}

func (c *Canon) qual(o types.Object) string {
	return o.Name()
}

func (c *Canon) pkgAlias(path string) string {
	switch path {
	case "math", "github.com/chewxy/math32":
		return "M"
	case "gorgonia.org/vecf32", "gorgonia.org/vecf64":
		return "V"
	case "math/cmplx":
		return "C"
	}
	if i := strings.LastIndex(path, "/"); i >= 0 {
		return path[i+1:]
	}
	return path
}

func (c *Canon) funcName(f *types.Func) string {
	n := f.Name()
	if c.Opt.Suffix != "" && strings.HasSuffix(n, c.Opt.Suffix) && len(n) > len(c.Opt.Suffix) {
		sig := f.Type().(*types.Signature)
		if sig.Recv() == nil {
			n = n[:len(n)-len(c.Opt.Suffix)] + "_"
		}
	}
	if c.Opt.MapCallee != nil {
		n = c.Opt.MapCallee(n)
	}
	return n
}

func (c *Canon) typeName(t types.Type) string {
	if c.Opt.ElemType != nil && types.Identical(t, c.Opt.ElemType) {
		return "τ"
	}
	if c.Opt.EraseInt {
		if b, ok := t.(*types.Basic); ok && b.Kind() == types.Int {
			return "τ"
		}
	}
	return types.TypeString(t, func(p *types.Package) string { return c.pkgAlias(p.Path()) })
}

func (c *Canon) typeExpr(e ast.Expr) string {
	if tv, ok := c.Info.Types[e]; ok && tv.IsType() {
		return c.typeStr(tv.Type)
	}
	if id, ok := e.(*ast.Ident); ok && id.Name == "nil" {
		return "nil"
	}
	return c.Expr(e)
}

func (c *Canon) typeStr(t types.Type) string {
	switch x := t.(type) {
	case *types.Slice:
		return "[]" + c.typeStr(x.Elem())
	case *types.Pointer:
		return "*" + c.typeStr(x.Elem())
	case *types.Array:
		return fmt.Sprintf("[%d]%s", x.Len(), c.typeStr(x.Elem()))
	case *types.Signature:
		var ps, rs []string
		for i := 0; i < x.Params().Len(); i++ {
			ps = append(ps, c.typeStr(x.Params().At(i).Type()))
		}
		for i := 0; i < x.Results().Len(); i++ {
			rs = append(rs, c.typeStr(x.Results().At(i).Type()))
		}
		return "func(" + strings.Join(ps, ",") + ")(" + strings.Join(rs, ",") + ")"
	}
	return c.typeName(t)
}

func isComplex(t types.Type) bool {
	if t == nil {
		return false
	}
	b, ok := t.Underlying().(*types.Basic)
	return ok && b.Info()&types.IsComplex != 0
}

// Expr renders an expression canonically.
func (c *Canon) Expr(e ast.Expr) string {
	// constants that are not plain literals/idents keep their expression form; typed
	// constant folding is not applied (siblings share the same spelling).
	switch x := e.(type) {
	case nil:
		return ""
	case *ast.Ident:
		return c.ident(x)
	case *ast.BasicLit:
		if x.Kind == token.INT || x.Kind == token.FLOAT {
			if tv, ok := c.Info.Types[x]; ok && tv.Value != nil {
				if v := constant.ToFloat(tv.Value); v.Kind() == constant.Float || v.Kind() == constant.Int {
					return v.ExactString()
				}
			}
		}
		if x.Kind == token.STRING && c.Opt.ElemType != nil {
			if b, ok := c.Opt.ElemType.(*types.Basic); ok {
				return ReplaceWord(x.Value, b.Name(), "τ")
			}
		}
		return x.Value
	case *ast.ParenExpr:
		return c.Expr(x.X)
	case *ast.IndexExpr:
		base := c.Expr(x.X)
		// indexing a from-zero reslice addresses the same element of the underlying slice
		if i := strings.LastIndex(base, "[:"); i > 0 && strings.HasSuffix(base, "]") && balancedBrackets(base[i+1:len(base)-1]) && !strings.Contains(base[i+2:len(base)-1], ":") {
			base = base[:i]
		}
		return base + "[" + c.Expr(x.Index) + "]"
	case *ast.SliceExpr:
		s := c.Expr(x.X) + "[" + c.Expr(x.Low) + ":" + c.Expr(x.High)
		if x.Max != nil {
			s += ":" + c.Expr(x.Max)
		}
		return s + "]"
	case *ast.UnaryExpr:
		if x.Op == token.SUB {
			if tv, ok := c.Info.Types[x]; ok && tv.Value != nil {
				if v := constant.ToFloat(tv.Value); v.Kind() == constant.Float || v.Kind() == constant.Int {
					return v.ExactString()
				}
			}
		}
		if x.Op == token.NOT {
			return Negate(c.Expr(x.X))
		}
		return x.Op.String() + c.Expr(x.X)
	case *ast.BinaryExpr:
		return c.binary(x.Op, c.Expr(x.X), c.Expr(x.Y), c.typeOf(x.X))
	case *ast.CallExpr:
		if tv, ok := c.Info.Types[x.Fun]; ok && tv.IsType() && len(x.Args) == 1 {
			// conversion
			from := c.typeOf(x.Args[0])
			if isComplex(tv.Type) && isComplex(from) {
				return c.Expr(x.Args[0])
			}
			// conversion of an untyped constant to the element type: keep the constant
			if atv, ok := c.Info.Types[x.Args[0]]; ok && atv.Value != nil {
				if _, isBasic := tv.Type.Underlying().(*types.Basic); isBasic {
					return c.typeStr(tv.Type) + "(" + c.Expr(x.Args[0]) + ")"
				}
			}
			return c.typeStr(tv.Type) + "(" + c.Expr(x.Args[0]) + ")"
		}
		var args []string
		for _, a := range x.Args {
			args = append(args, c.Expr(a))
		}
		if c.Opt.HasKind && len(args) >= 2 {
			if sel, ok := x.Fun.(*ast.SelectorExpr); ok && (strings.HasPrefix(sel.Sel.Name, "Parse") || strings.HasPrefix(sel.Sel.Name, "Format")) {
				if id, ok := sel.X.(*ast.Ident); ok {
					if pn, ok := c.obj(id).(*types.PkgName); ok && pn.Imported().Path() == "strconv" {
						if args[len(args)-1] == fmt.Sprint(c.Opt.BitSize) {
							args[len(args)-1] = "τbits"
						}
					}
				}
			}
		}
		if x.Ellipsis.IsValid() && len(args) > 0 {
			args[len(args)-1] += "..."
		}
		return c.Expr(x.Fun) + "(" + strings.Join(args, ", ") + ")"
	case *ast.SelectorExpr:
		// qualified identifier
		if id, ok := x.X.(*ast.Ident); ok {
			if pn, ok := c.obj(id).(*types.PkgName); ok {
				o := c.Info.Uses[x.Sel]
				name := x.Sel.Name
				if n, ok := c.tok(o); ok {
					return c.pkgAlias(pn.Imported().Path()) + "." + n
				}
				switch ob := o.(type) {
				case *types.Func:
					name = c.funcName(ob)
				case *types.TypeName:
					return c.typeName(ob.Type())
				}
				return c.pkgAlias(pn.Imported().Path()) + "." + name
			}
		}
		name := x.Sel.Name
		if n, ok := c.tok(c.Info.Uses[x.Sel]); ok {
			name = n
		}
		if c.Opt.MapCallee != nil {
			name = c.Opt.MapCallee(name)
		}
		return c.Expr(x.X) + "." + name
	case *ast.StarExpr:
		if tv, ok := c.Info.Types[e]; ok && tv.IsType() {
			return c.typeStr(tv.Type)
		}
		return "*" + c.Expr(x.X)
	case *ast.CompositeLit:
		var parts []string
		for _, el := range x.Elts {
			parts = append(parts, c.Expr(el))
		}
		t := ""
		if tv, ok := c.Info.Types[e]; ok {
			t = c.typeStr(tv.Type)
		}
		return t + "{" + strings.Join(parts, ", ") + "}"
	case *ast.KeyValueExpr:
		k := ""
		if id, ok := x.Key.(*ast.Ident); ok {
			if _, isField := c.obj(id).(*types.Var); isField && c.obj(id).(*types.Var).IsField() {
				k = id.Name
			} else {
				k = c.Expr(x.Key)
			}
		} else {
			k = c.Expr(x.Key)
		}
		return k + ": " + c.Expr(x.Value)
	case *ast.FuncLit:
		sub := &Canon{Info: c.Info, Fset: c.Fset, Opt: c.Opt, names: c.names, subst: c.saveSubst(), nAssign: c.nAssign, nlocal: c.nlocal, params: c.params, bind: c.bind, rangeDepth: c.rangeDepth}
		// literal parameters are named $f<k>
		k := 0
		if x.Type.Params != nil {
			for _, f := range x.Type.Params.List {
				for _, n := range f.Names {
					if o := c.Info.Defs[n]; o != nil {
						sub.names[o] = fmt.Sprintf("$f%d", k)
						sub.params[o] = true
					}
					k++
				}
			}
		}
		if x.Type.Results != nil {
			j := 0
			for _, f := range x.Type.Results.List {
				for _, n := range f.Names {
					if o := c.Info.Defs[n]; o != nil {
						sub.names[o] = fmt.Sprintf("$fret%d", j)
						sub.params[o] = true
					}
					j++
				}
			}
		}
		sub.countAssigns(x.Body)
		body := sub.block(x.Body.List)
		c.nlocal = sub.nlocal
		c.Notes = append(c.Notes, sub.Notes...)
		return "func" + c.typeStr(c.typeOf(x))[4:] + "{" + strings.ReplaceAll(strings.TrimSpace(Render(body)), "\n", "; ") + "}"
	case *ast.TypeAssertExpr:
		if x.Type == nil {
			return c.Expr(x.X) + ".(type)"
		}
		return c.Expr(x.X) + ".(" + c.typeExpr(x.Type) + ")"
	case *ast.ArrayType, *ast.MapType, *ast.FuncType, *ast.InterfaceType, *ast.StructType, *ast.ChanType:
		if tv, ok := c.Info.Types[e]; ok {
			return c.typeStr(tv.Type)
		}
	case *ast.Ellipsis:
		return "..."
	}
	c.note("unhandled expr %T", e)
	return fmt.Sprintf("<%T>", e)
}

// Negate a canonical boolean expression.
func Negate(s string) string {
	if strings.HasPrefix(s, "!(") && strings.HasSuffix(s, ")") && balanced(s[2:len(s)-1]) {
		return s[1:] // keep the parentheses: the operand is a binary expression
	}
	if strings.HasPrefix(s, "!") && !strings.ContainsAny(s[1:], " ") {
		return s[1:]
	}
	if strings.HasPrefix(s, "(") && strings.HasSuffix(s, ")") && balanced(s[1:len(s)-1]) {
		return "!" + s
	}
	if !strings.ContainsAny(s, " ") {
		return "!" + s
	}
	return "!(" + s + ")"
}

func balanced(s string) bool {
	d := 0
	for _, r := range s {
		switch r {
		case '(':
			d++
		case ')':
			d--
			if d < 0 {
				return false
			}
		}
	}
	return d == 0
}

// Render prints a canonical tree as indented text.
func Render(ns []*Node) string {
	var b strings.Builder
	var walk func(ns []*Node, ind string)
	walk = func(ns []*Node, ind string) {
		for _, n := range ns {
			switch n.Kind {
			case "if":
				b.WriteString(ind + "if " + n.Head + "\n")
				walk(n.Kids, ind+"  ")
				if n.Else != nil {
					b.WriteString(ind + "else\n")
					walk(n.Else, ind+"  ")
				}
			case "loop", "range", "switch", "case":
				b.WriteString(ind + n.Head + "\n")
				walk(n.Kids, ind+"  ")
			default:
				b.WriteString(ind + n.Head + "\n")
			}
		}
	}
	walk(ns, "")
	return b.String()
}

// SortedKeys is a helper for deterministic map iteration.
func SortedKeys(m map[string]bool) []string {
	var ks []string
	for k := range m {
		ks = append(ks, k)
	}
	sort.Strings(ks)
	return ks
}

// Stmts canonicalises a statement list inside fd (parameters bound, assignment counts taken
// over the whole function so that locals assigned elsewhere are not mistaken for temps).
func (c *Canon) Stmts(fd *ast.FuncDecl, body []ast.Stmt) []*Node {
	if fd.Recv != nil {
		for _, f := range fd.Recv.List {
			for _, n := range f.Names {
				if o := c.Info.Defs[n]; o != nil {
					c.names[o] = "$r"
					c.params[o] = true
				}
			}
		}
	}
	c.bindSig(fd.Type)
	if fd.Body != nil {
		c.countAssigns(fd.Body)
	}
	return c.block(body)
}

// Bin renders a binary expression canonically outside of a Canon (used by spec generators).
func Bin(op token.Token, l, r string, stringish bool) string {
	var t types.Type = types.Typ[types.Int]
	if stringish {
		t = types.Typ[types.String]
	}
	return (&Canon{}).binary(op, l, r, t)
}

func balancedBrackets(s string) bool {
	d := 0
	for _, r := range s {
		switch r {
		case '[', '(':
			d++
		case ']', ')':
			d--
			if d < 0 {
				return false
			}
		}
	}
	return d == 0
}
