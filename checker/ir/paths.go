package ir

import "strings"

// Path is one control path through a canonical statement list (loops are single opaque
// steps; enumerate their bodies separately).
type Path struct {
	Guards []string // branch conditions taken, in order ("!c" for the false edge)
	Steps  []*Node  // non-branch statements executed, in order
	Exit   string   // "", return, continue, break, goto …, panic
	Ret    string   // returned values for Exit == "return"
}

func (p Path) Has(guard string) bool {
	for _, g := range p.Guards {
		if g == guard {
			return true
		}
	}
	return false
}

func (p Path) String() string {
	var s []string
	for _, st := range p.Steps {
		s = append(s, st.Head)
	}
	return "[" + strings.Join(p.Guards, " && ") + "] " + strings.Join(s, "; ") + " -> " + p.Exit + " " + p.Ret
}

// EnumPaths enumerates the paths of ns; ok=false when more than max paths exist.
func EnumPaths(ns []*Node, max int) ([]Path, bool) {
	ok := true
	var rec func(ns []*Node, cur Path) []Path
	rec = func(ns []*Node, cur Path) []Path {
		if !ok {
			return nil
		}
		for i, n := range ns {
			switch n.Kind {
			case "if":
				rest := ns[i+1:]
				var out []Path
				for _, br := range []struct {
					g    string
					kids []*Node
				}{{n.Head, n.Kids}, {Negate(n.Head), n.Else}} {
					p := Path{Guards: append(append([]string{}, cur.Guards...), br.g), Steps: append([]*Node{}, cur.Steps...)}
					for _, q := range rec(br.kids, p) {
						if q.Exit != "" {
							out = append(out, q)
						} else {
							out = append(out, rec(rest, q)...)
						}
					}
				}
				if len(out) > max {
					ok = false
				}
				return out
			case "switch":
				rest := ns[i+1:]
				var out []Path
				hasDefault := false
				var prior []string
				tagless := strings.TrimSpace(n.Head) == "switch"
				for _, cs := range n.Kids {
					g := n.Head + " " + cs.Head
					if cs.Head == "default" {
						hasDefault = true
					}
					p := Path{Guards: append([]string{}, cur.Guards...), Steps: append([]*Node{}, cur.Steps...)}
					if tagless {
						// a tagless switch is an if/else-if chain: earlier cases were false
						for _, pr := range prior {
							p.Guards = append(p.Guards, Negate(pr))
						}
						if cs.Head != "default" {
							e := strings.TrimPrefix(cs.Head, "case ")
							if len(splitTop(e, ", ")) > 1 {
								p.Guards = append(p.Guards, g)
							} else {
								p.Guards = append(p.Guards, e)
								prior = append(prior, e)
							}
						}
					} else {
						p.Guards = append(p.Guards, g)
					}
					for _, q := range rec(cs.Kids, p) {
						if q.Exit == "break" {
							// an unlabelled break in a case body leaves the switch (loops are opaque
							// steps, so this break is not a loop's): control goes on after it
							q.Exit = ""
						}
						if q.Exit != "" {
							out = append(out, q)
						} else {
							out = append(out, rec(rest, q)...)
						}
					}
				}
				if !hasDefault {
					p := Path{Guards: append([]string{}, cur.Guards...), Steps: append([]*Node{}, cur.Steps...)}
					if tagless {
						for _, pr := range prior {
							p.Guards = append(p.Guards, Negate(pr))
						}
					} else {
						p.Guards = append(p.Guards, n.Head+" no-case")
					}
					out = append(out, rec(rest, p)...)
				}
				if len(out) > max {
					ok = false
				}
				return out
			case "ret":
				cur.Exit, cur.Ret = "return", n.Value
				cur.Steps = append(cur.Steps, n)
				return []Path{cur}
			case "continue", "break", "goto":
				cur.Exit = n.Head
				return []Path{cur}
			case "call":
				cur.Steps = append(cur.Steps, n)
				if strings.HasPrefix(n.Value, "panic(") {
					cur.Exit = "panic"
					return []Path{cur}
				}
			default:
				cur.Steps = append(cur.Steps, n)
			}
		}
		return []Path{cur}
	}
	out := rec(ns, Path{})
	return out, ok
}

// NegInt negates an integer comparison exactly: !(a > b) = (b >= a), !(a >= b) = (b > a).
func NegInt(s string) string {
	neg := strings.HasPrefix(s, "!")
	body := strings.TrimPrefix(s, "!")
	if !strings.HasPrefix(body, "(") || !strings.HasSuffix(body, ")") {
		return s
	}
	in := body[1 : len(body)-1]
	d := 0
	for i := 0; i < len(in); i++ {
		switch in[i] {
		case '(', '[':
			d++
		case ')', ']':
			d--
		}
		if d == 0 {
			for _, op := range []string{" >= ", " > "} {
				if strings.HasPrefix(in[i:], op) {
					l, r := in[:i], in[i+len(op):]
					if !neg {
						return s
					}
					if op == " > " {
						return "(" + r + " >= " + l + ")"
					}
					return "(" + r + " > " + l + ")"
				}
			}
		}
	}
	return s
}

// FindLoops returns the loop nodes (range/loop) of a tree, outermost first.
func FindLoops(ns []*Node) []*Node {
	var out []*Node
	var walk func(ns []*Node)
	walk = func(ns []*Node) {
		for _, n := range ns {
			if n.Kind == "range" || n.Kind == "loop" {
				out = append(out, n)
			}
			walk(n.Kids)
			walk(n.Else)
		}
	}
	walk(ns)
	return out
}
