package ir

import (
	"go/ast"
	"go/token"
	"go/types"
	"regexp"
	"sort"
	"strings"
)

// BExpr is a boolean formula over canonical atoms.
type BExpr struct {
	Op   string // atom, not, and, or, const
	Atom string
	Val  bool
	L, R *BExpr
}

func BAtom(s string) *BExpr   { return &BExpr{Op: "atom", Atom: s} }
func BConst(v bool) *BExpr    { return &BExpr{Op: "const", Val: v} }
func BNot(x *BExpr) *BExpr    { return &BExpr{Op: "not", L: x} }
func BAnd(a, b *BExpr) *BExpr { return &BExpr{Op: "and", L: a, R: b} }
func BOr(a, b *BExpr) *BExpr  { return &BExpr{Op: "or", L: a, R: b} }

// BoolOf decomposes a boolean expression into a formula; leaves are canonical renderings.
// `x != y` is Not(atom "(x == y)") so both spellings share one atom.
func (c *Canon) BoolOf(e ast.Expr) *BExpr {
	switch x := e.(type) {
	case *ast.ParenExpr:
		return c.BoolOf(x.X)
	case *ast.UnaryExpr:
		if x.Op == token.NOT {
			return BNot(c.BoolOf(x.X))
		}
	case *ast.BinaryExpr:
		switch x.Op {
		case token.LAND:
			return BAnd(c.BoolOf(x.X), c.BoolOf(x.Y))
		case token.LOR:
			return BOr(c.BoolOf(x.X), c.BoolOf(x.Y))
		case token.NEQ:
			if c.isBoolExpr(x.X) && c.isBoolExpr(x.Y) {
				// a != b over booleans is exclusive or
				a, b := c.BoolOf(x.X), c.BoolOf(x.Y)
				return BOr(BAnd(a, BNot(b)), BAnd(BNot(a), b))
			}
			return BNot(BAtom(c.binary(token.EQL, c.Expr(x.X), c.Expr(x.Y), c.typeOf(x.X))))
		case token.EQL:
			if c.isBoolExpr(x.X) && c.isBoolExpr(x.Y) {
				a, b := c.BoolOf(x.X), c.BoolOf(x.Y)
				return BOr(BAnd(a, b), BAnd(BNot(a), BNot(b)))
			}
		}
	case *ast.Ident:
		if x.Name == "true" {
			return BConst(true)
		}
		if x.Name == "false" {
			return BConst(false)
		}
		// a boolean local defined exactly once stands for its definition
		if o := c.obj(x); o != nil && c.boolDefs != nil {
			if def, ok := c.boolDefs[o]; ok && c.boolDepth < 8 {
				c.boolDepth++
				r := c.BoolOf(def)
				c.boolDepth--
				return r
			}
		}
	case *ast.CallExpr:
		if f := c.inlineBoolCall(x); f != nil {
			return f
		}
	}
	return BAtom(c.Expr(e))
}

func (c *Canon) isBoolExpr(e ast.Expr) bool {
	t := c.typeOf(e)
	if t == nil {
		return false
	}
	b, ok := t.Underlying().(*types.Basic)
	return ok && b.Info()&types.IsBoolean != 0
}

// collectBoolDefs records `x := e` / `var x = e` definitions of boolean locals that are assigned
// nowhere else in the function.
func (c *Canon) collectBoolDefs(fd *ast.FuncDecl) {
	c.boolDefs = map[types.Object]ast.Expr{}
	if fd.Body == nil {
		return
	}
	ast.Inspect(fd.Body, func(n ast.Node) bool {
		switch x := n.(type) {
		case *ast.FuncLit:
			return false
		case *ast.AssignStmt:
			if x.Tok != token.DEFINE || len(x.Lhs) != len(x.Rhs) {
				return true
			}
			for i, l := range x.Lhs {
				id, ok := l.(*ast.Ident)
				if !ok {
					continue
				}
				o := c.obj(id)
				if o == nil || c.nAssign[o] > 1 || !c.isBoolExpr(x.Rhs[i]) {
					continue
				}
				c.boolDefs[o] = x.Rhs[i]
			}
		case *ast.ValueSpec:
			if len(x.Names) == len(x.Values) {
				for i, id := range x.Names {
					o := c.obj(id)
					if o == nil || c.nAssign[o] > 1 || !c.isBoolExpr(x.Values[i]) {
						continue
					}
					c.boolDefs[o] = x.Values[i]
				}
			}
		}
		return true
	})
}

// inlineBoolCall replaces a call of a same-module boolean helper by the helper's own formula
// with the arguments substituted for the parameters (Options.DeclOf resolves the callee). The
// helper must lie in the if/return fragment BoolResult understands; otherwise the call stays an
// atom.
func (c *Canon) inlineBoolCall(call *ast.CallExpr) *BExpr {
	if c.Opt.DeclOf == nil || c.inlineDepth >= 3 || call.Ellipsis.IsValid() {
		return nil
	}
	var fn *types.Func
	var recv ast.Expr
	switch f := call.Fun.(type) {
	case *ast.Ident:
		fn, _ = c.obj(f).(*types.Func)
	case *ast.SelectorExpr:
		if sel := c.Info.Selections[f]; sel != nil {
			fn, _ = sel.Obj().(*types.Func)
			recv = f.X
		} else {
			fn, _ = c.Info.Uses[f.Sel].(*types.Func)
		}
	}
	if fn == nil || fn.Exported() {
		// exported predicates (IsColMajor, RequiresIterator, …) are the vocabulary of the rules
		return nil
	}
	sig := fn.Type().(*types.Signature)
	if sig.Results().Len() != 1 || sig.Variadic() {
		return nil
	}
	if b, ok := sig.Results().At(0).Type().Underlying().(*types.Basic); !ok || b.Info()&types.IsBoolean == 0 {
		return nil
	}
	fd, info := c.Opt.DeclOf(fn)
	if fd == nil || fd.Body == nil || info == nil {
		return nil
	}
	sub := NewCanon(c.Fset, info, Options{ParamNames: true, KeepNames: true, DeclOf: c.Opt.DeclOf, PureCall: c.Opt.PureCall})
	sub.inlineDepth = c.inlineDepth + 1
	f, ok := sub.BoolResult(fd, "")
	if !ok {
		return nil
	}
	// parameter -> argument text
	repl := map[string]string{}
	i := 0
	if fd.Type.Params != nil {
		for _, fl := range fd.Type.Params.List {
			for _, nm := range fl.Names {
				if i < len(call.Args) {
					repl["$"+nm.Name] = c.Expr(call.Args[i])
				}
				i++
			}
		}
	}
	if fd.Recv != nil && recv != nil {
		repl["$r"] = c.Expr(recv)
	}
	// every atom must be expressible in the caller's terms: only parameters, receiver, constants
	for _, a := range f.Atoms() {
		if strings.Contains(a, "%") {
			return nil // a local of the helper survives in the formula
		}
	}
	return mapAtoms(f, func(a string) string {
		return paramTok.ReplaceAllStringFunc(a, func(t string) string {
			if v, ok := repl[t]; ok {
				return v
			}
			return t
		})
	})
}

var paramTok = regexp.MustCompile(`\$\w+`)

func mapAtoms(b *BExpr, f func(string) string) *BExpr {
	if b == nil {
		return nil
	}
	switch b.Op {
	case "atom":
		return BAtom(f(b.Atom))
	case "const":
		return b
	}
	return &BExpr{Op: b.Op, L: mapAtoms(b.L, f), R: mapAtoms(b.R, f)}
}

func (b *BExpr) Atoms() []string {
	set := map[string]bool{}
	var walk func(x *BExpr)
	walk = func(x *BExpr) {
		if x == nil {
			return
		}
		if x.Op == "atom" {
			set[x.Atom] = true
		}
		walk(x.L)
		walk(x.R)
	}
	walk(b)
	var out []string
	for k := range set {
		out = append(out, k)
	}
	sort.Strings(out)
	return out
}

func (b *BExpr) Eval(env map[string]bool) bool {
	switch b.Op {
	case "const":
		return b.Val
	case "atom":
		return env[b.Atom]
	case "not":
		return !b.L.Eval(env)
	case "and":
		return b.L.Eval(env) && b.R.Eval(env)
	case "or":
		return b.L.Eval(env) || b.R.Eval(env)
	}
	return false
}

func (b *BExpr) String() string {
	switch b.Op {
	case "const":
		if b.Val {
			return "true"
		}
		return "false"
	case "atom":
		return b.Atom
	case "not":
		return "!" + b.L.String()
	case "and":
		return "(" + b.L.String() + " && " + b.R.String() + ")"
	case "or":
		return "(" + b.L.String() + " || " + b.R.String() + ")"
	}
	return "?"
}

// BoolResult summarises when a function's boolean result (or a named boolean variable
// `target`) is true, as a formula: it walks the top-level if/return structure.
//   - target == "": the function returns one bool; paths `if c { return X }` / `return Y`.
//   - target != "": assignments `target = E` (contributing pathcond && E); an early
//     `if c { return }` strengthens the path condition of what follows with !c.
//
// ok=false when the body uses a construct outside this fragment.
func (c *Canon) BoolResult(fd *ast.FuncDecl, target string) (*BExpr, bool) {
	c.Stmts(fd, nil) // bind names
	c.collectBoolDefs(fd)
	ok := true
	var result *BExpr = BConst(false)
	var walk func(list []ast.Stmt, path *BExpr) (cont *BExpr)
	and := func(a, b *BExpr) *BExpr {
		if a == nil {
			return b
		}
		return BAnd(a, b)
	}
	pathOr := func(p *BExpr) *BExpr {
		if p == nil {
			return BConst(true)
		}
		return p
	}
	isTarget := func(e ast.Expr) bool {
		id, isId := e.(*ast.Ident)
		return isId && id.Name == target
	}
	// walk returns the condition under which control continues after the list
	walk = func(list []ast.Stmt, path *BExpr) *BExpr {
		for _, st := range list {
			switch x := st.(type) {
			case *ast.ReturnStmt:
				if target == "" {
					if len(x.Results) != 1 {
						ok = false
						return BConst(false)
					}
					result = BOr(result, and(path, c.BoolOf(x.Results[0])))
				}
				return BConst(false)
			case *ast.IfStmt:
				if x.Init != nil {
					// init statements that assign something other than the target are ignored
					if as, isAs := x.Init.(*ast.AssignStmt); isAs {
						for _, l := range as.Lhs {
							if target != "" && isTarget(l) {
								ok = false
							}
						}
					}
				}
				cond := c.BoolOf(x.Cond)
				thenCont := walk(x.Body.List, and(path, cond))
				var elseCont *BExpr
				switch e := x.Else.(type) {
				case nil:
					elseCont = and(path, BNot(cond))
				case *ast.BlockStmt:
					elseCont = walk(e.List, and(path, BNot(cond)))
				case *ast.IfStmt:
					elseCont = walk([]ast.Stmt{e}, and(path, BNot(cond)))
				}
				path = BOr(pathOr(thenCont), pathOr(elseCont))
			case *ast.AssignStmt:
				if target == "" {
					continue
				}
				for i, l := range x.Lhs {
					if isTarget(l) {
						if len(x.Lhs) != len(x.Rhs) || x.Tok != token.ASSIGN {
							ok = false
							continue
						}
						// flow-sensitive value of the target: an assignment under path condition P
						// makes it (P && rhs[target := previous value]) || (!P && previous value),
						// so `t = A; if c { t = t || B }` reads A || (c && B)
						rhs := substAtom(c.BoolOf(x.Rhs[i]), c.Expr(l), result)
						if path == nil {
							result = rhs
						} else {
							result = BOr(BAnd(path, rhs), BAnd(BNot(path), result))
						}
					}
				}
			case *ast.DeclStmt, *ast.ExprStmt, *ast.IncDecStmt, *ast.EmptyStmt:
			case *ast.BlockStmt:
				path = walk(x.List, path)
			default:
				// loops / switches may assign the target
				found := false
				ast.Inspect(st, func(n ast.Node) bool {
					if as, isAs := n.(*ast.AssignStmt); isAs {
						for _, l := range as.Lhs {
							if target != "" && isTarget(l) {
								found = true
							}
						}
					}
					if _, isRet := n.(*ast.ReturnStmt); isRet && target == "" {
						found = true
					}
					return true
				})
				if found {
					ok = false
				}
			}
		}
		return path
	}
	walk(fd.Body.List, nil)
	// a local defined once as a chain of field reads / argument-free method calls on an input
	// (ro := reuse.DataOrder()) stands for that chain
	defs := map[string]string{}
	ast.Inspect(fd.Body, func(n ast.Node) bool {
		as, isAs := n.(*ast.AssignStmt)
		if !isAs || as.Tok != token.DEFINE || len(as.Lhs) != len(as.Rhs) {
			return true
		}
		for i, l := range as.Lhs {
			id, isId := l.(*ast.Ident)
			if !isId {
				continue
			}
			o := c.obj(id)
			if o == nil || c.nAssign[o] > 1 {
				continue
			}
			txt := c.Expr(as.Rhs[i])
			if inputChain.MatchString(txt) {
				defs[c.Expr(id)] = txt
			}
		}
		return true
	})
	if len(defs) > 0 {
		result = mapAtoms(result, func(a string) string {
			for i := 0; i < 4; i++ {
				b := localRef.ReplaceAllStringFunc(a, func(m string) string {
					if d, ok := defs[m]; ok {
						return d
					}
					return m
				})
				if b == a {
					break
				}
				a = b
			}
			return a
		})
	}
	return result, ok
}

var inputChain = regexp.MustCompile(`^\$[A-Za-z_]\w*(\.[A-Za-z_]\w*(\(\))?)+$`)
var localRef = regexp.MustCompile(`%[A-Za-z_]\w*`)

// substAtom replaces every occurrence of an atom by a formula.
func substAtom(f *BExpr, atom string, by *BExpr) *BExpr {
	if f == nil {
		return nil
	}
	switch f.Op {
	case "atom":
		if f.Atom == atom {
			return by
		}
		return f
	case "const":
		return f
	case "not":
		return BNot(substAtom(f.L, atom, by))
	case "and":
		return BAnd(substAtom(f.L, atom, by), substAtom(f.R, atom, by))
	case "or":
		return BOr(substAtom(f.L, atom, by), substAtom(f.R, atom, by))
	}
	return f
}

// ParseBool parses a canonical condition string back into a formula. Integer comparisons
// are oriented so that only `>=` and `==` atoms remain: (x > y) is !(y >= x); (x != y) is
// !(x == y) (with operands sorted as the canonicaliser does).
func ParseBool(s string) *BExpr {
	s = trimSpace(s)
	if len(s) > 0 && s[0] == '!' {
		return BNot(ParseBool(s[1:]))
	}
	if len(s) >= 2 && s[0] == '(' && s[len(s)-1] == ')' && balanced(s[1:len(s)-1]) {
		in := s[1 : len(s)-1]
		// top-level || has lowest precedence, then &&
		for _, op := range []string{" || ", " && "} {
			if parts := splitTop(in, op); len(parts) > 1 {
				var acc *BExpr
				for _, p := range parts {
					e := ParseBool(p)
					if acc == nil {
						acc = e
					} else if op == " || " {
						acc = BOr(acc, e)
					} else {
						acc = BAnd(acc, e)
					}
				}
				return acc
			}
		}
		for _, op := range []string{" >= ", " > ", " == ", " != "} {
			if parts := splitTop(in, op); len(parts) == 2 {
				l, r := parts[0], parts[1]
				if (op == " == " || op == " != ") && looksBoolean(l) && looksBoolean(r) {
					// equality of two predicates is (not) exclusive or
					a, b := ParseBool(l), ParseBool(r)
					xor := BOr(BAnd(a, BNot(b)), BAnd(BNot(a), b))
					if op == " != " {
						return xor
					}
					return BNot(xor)
				}
				switch op {
				case " >= ":
					return BAtom("(" + l + " >= " + r + ")")
				case " > ":
					return BNot(BAtom("(" + r + " >= " + l + ")"))
				case " == ":
					if r < l {
						l, r = r, l
					}
					return BAtom("(" + l + " == " + r + ")")
				case " != ":
					if r < l {
						l, r = r, l
					}
					return BNot(BAtom("(" + l + " == " + r + ")"))
				}
			}
		}
	}
	if s == "true" {
		return BConst(true)
	}
	if s == "false" {
		return BConst(false)
	}
	return BAtom(s)
}

func trimSpace(s string) string {
	for len(s) > 0 && s[0] == ' ' {
		s = s[1:]
	}
	for len(s) > 0 && s[len(s)-1] == ' ' {
		s = s[:len(s)-1]
	}
	return s
}

func splitTop(s, op string) []string {
	var parts []string
	d := 0
	last := 0
	for i := 0; i < len(s); i++ {
		switch s[i] {
		case '(', '[', '{':
			d++
		case ')', ']', '}':
			d--
		case '"':
			// skip string literal
			j := i + 1
			for j < len(s) && s[j] != '"' {
				if s[j] == '\\' {
					j++
				}
				j++
			}
			i = j
			continue
		}
		if d == 0 && i+len(op) <= len(s) && s[i:i+len(op)] == op {
			parts = append(parts, s[last:i])
			last = i + len(op)
			i += len(op) - 1
		}
	}
	parts = append(parts, s[last:])
	return parts
}

// Implies decides (by truth table over all atoms, treated as independent) whether the
// conjunction of premises implies goal.
func Implies(premises []*BExpr, goal *BExpr) bool {
	set := map[string]bool{}
	for _, p := range premises {
		for _, a := range p.Atoms() {
			set[a] = true
		}
	}
	for _, a := range goal.Atoms() {
		set[a] = true
	}
	var atoms []string
	for a := range set {
		atoms = append(atoms, a)
	}
	sort.Strings(atoms)
	if len(atoms) > 18 {
		return false
	}
	for m := 0; m < 1<<len(atoms); m++ {
		env := map[string]bool{}
		for i, a := range atoms {
			env[a] = m&(1<<i) != 0
		}
		all := true
		for _, p := range premises {
			if !p.Eval(env) {
				all = false
				break
			}
		}
		if all && !goal.Eval(env) {
			return false
		}
	}
	return true
}

// PathFormulas parses the guards of a path.
func PathFormulas(p Path) []*BExpr {
	var out []*BExpr
	for _, g := range p.Guards {
		out = append(out, ParseBool(g))
	}
	return out
}

var predicateCall = regexp.MustCompile(`\.(Is|Has|Requires)[A-Za-z]*\([^()]*(\([^()]*\)[^()]*)*\)$`)

// looksBoolean: the operand of an (in)equality is itself a predicate (a negation, or a call of
// an Is…/Has…/Requires… method).
func looksBoolean(s string) bool {
	s = trimSpace(s)
	return strings.HasPrefix(s, "!") || predicateCall.MatchString(s) || s == "true" || s == "false"
}

// DependsOn reports whether the conjunction of the premises depends on the atom: some
// assignment of the other atoms makes the conjunction true for one value of the atom and false
// for the other. A path whose condition depends on a fact has consulted it, whether by a plain
// branch or inside a compound test (x.IsColMajor() != lazy).
func DependsOn(premises []*BExpr, atom *BExpr) bool {
	if atom == nil || atom.Op != "atom" {
		// a negated atom depends like the atom
		if atom != nil && atom.Op == "not" {
			return DependsOn(premises, atom.L)
		}
		return false
	}
	set := map[string]bool{}
	for _, p := range premises {
		for _, a := range p.Atoms() {
			set[a] = true
		}
	}
	if !set[atom.Atom] {
		return false
	}
	var atoms []string
	for a := range set {
		if a != atom.Atom {
			atoms = append(atoms, a)
		}
	}
	sort.Strings(atoms)
	if len(atoms) > 18 {
		return false
	}
	eval := func(env map[string]bool) bool {
		for _, p := range premises {
			if !p.Eval(env) {
				return false
			}
		}
		return true
	}
	for m := 0; m < 1<<len(atoms); m++ {
		env := map[string]bool{}
		for i, a := range atoms {
			env[a] = m&(1<<i) != 0
		}
		env[atom.Atom] = true
		t := eval(env)
		env[atom.Atom] = false
		if t != eval(env) {
			return true
		}
	}
	return false
}
