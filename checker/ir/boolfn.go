package ir

import (
	"go/ast"
	"go/token"
	"sort"
)

// BExpr is a boolean formula over canonical atoms.
type BExpr struct {
	Op   string // atom, not, and, or, const
	Atom string
	Val  bool
	L, R *BExpr
}

func BAtom(s string) *BExpr   { return &BExpr{Op: "atom", Atom: s} }
func BConst(v bool) *BExpr    { return &BExpr{Op: "const", Val: v} }
func BNot(x *BExpr) *BExpr    { return &BExpr{Op: "not", L: x} }
func BAnd(a, b *BExpr) *BExpr { return &BExpr{Op: "and", L: a, R: b} }
func BOr(a, b *BExpr) *BExpr  { return &BExpr{Op: "or", L: a, R: b} }

// BoolOf decomposes a boolean expression into a formula; leaves are canonical renderings.
// `x != y` is Not(atom "(x == y)") so both spellings share one atom.
func (c *Canon) BoolOf(e ast.Expr) *BExpr {
	switch x := e.(type) {
	case *ast.ParenExpr:
		return c.BoolOf(x.X)
	case *ast.UnaryExpr:
		if x.Op == token.NOT {
			return BNot(c.BoolOf(x.X))
		}
	case *ast.BinaryExpr:
		switch x.Op {
		case token.LAND:
			return BAnd(c.BoolOf(x.X), c.BoolOf(x.Y))
		case token.LOR:
			return BOr(c.BoolOf(x.X), c.BoolOf(x.Y))
		case token.NEQ:
			return BNot(BAtom(c.binary(token.EQL, c.Expr(x.X), c.Expr(x.Y), c.typeOf(x.X))))
		}
	case *ast.Ident:
		if x.Name == "true" {
			return BConst(true)
		}
		if x.Name == "false" {
			return BConst(false)
		}
	}
	return BAtom(c.Expr(e))
}

func (b *BExpr) Atoms() []string {
	set := map[string]bool{}
	var walk func(x *BExpr)
	walk = func(x *BExpr) {
		if x == nil {
			return
		}
		if x.Op == "atom" {
			set[x.Atom] = true
		}
		walk(x.L)
		walk(x.R)
	}
	walk(b)
	var out []string
	for k := range set {
		out = append(out, k)
	}
	sort.Strings(out)
	return out
}

func (b *BExpr) Eval(env map[string]bool) bool {
	switch b.Op {
	case "const":
		return b.Val
	case "atom":
		return env[b.Atom]
	case "not":
		return !b.L.Eval(env)
	case "and":
		return b.L.Eval(env) && b.R.Eval(env)
	case "or":
		return b.L.Eval(env) || b.R.Eval(env)
	}
	return false
}

func (b *BExpr) String() string {
	switch b.Op {
	case "const":
		if b.Val {
			return "true"
		}
		return "false"
	case "atom":
		return b.Atom
	case "not":
		return "!" + b.L.String()
	case "and":
		return "(" + b.L.String() + " && " + b.R.String() + ")"
	case "or":
		return "(" + b.L.String() + " || " + b.R.String() + ")"
	}
	return "?"
}

// BoolResult summarises when a function's boolean result (or a named boolean variable
// `target`) is true, as a formula: it walks the top-level if/return structure.
//   - target == "": the function returns one bool; paths `if c { return X }` / `return Y`.
//   - target != "": assignments `target = E` (contributing pathcond && E); an early
//     `if c { return }` strengthens the path condition of what follows with !c.
//
// ok=false when the body uses a construct outside this fragment.
func (c *Canon) BoolResult(fd *ast.FuncDecl, target string) (*BExpr, bool) {
	c.Stmts(fd, nil) // bind names
	ok := true
	var result *BExpr = BConst(false)
	var walk func(list []ast.Stmt, path *BExpr) (cont *BExpr)
	and := func(a, b *BExpr) *BExpr {
		if a == nil {
			return b
		}
		return BAnd(a, b)
	}
	pathOr := func(p *BExpr) *BExpr {
		if p == nil {
			return BConst(true)
		}
		return p
	}
	isTarget := func(e ast.Expr) bool {
		id, isId := e.(*ast.Ident)
		return isId && id.Name == target
	}
	// walk returns the condition under which control continues after the list
	walk = func(list []ast.Stmt, path *BExpr) *BExpr {
		for _, st := range list {
			switch x := st.(type) {
			case *ast.ReturnStmt:
				if target == "" {
					if len(x.Results) != 1 {
						ok = false
						return BConst(false)
					}
					result = BOr(result, and(path, c.BoolOf(x.Results[0])))
				}
				return BConst(false)
			case *ast.IfStmt:
				if x.Init != nil {
					// init statements that assign something other than the target are ignored
					if as, isAs := x.Init.(*ast.AssignStmt); isAs {
						for _, l := range as.Lhs {
							if target != "" && isTarget(l) {
								ok = false
							}
						}
					}
				}
				cond := c.BoolOf(x.Cond)
				thenCont := walk(x.Body.List, and(path, cond))
				var elseCont *BExpr
				switch e := x.Else.(type) {
				case nil:
					elseCont = and(path, BNot(cond))
				case *ast.BlockStmt:
					elseCont = walk(e.List, and(path, BNot(cond)))
				case *ast.IfStmt:
					elseCont = walk([]ast.Stmt{e}, and(path, BNot(cond)))
				}
				path = BOr(pathOr(thenCont), pathOr(elseCont))
			case *ast.AssignStmt:
				if target == "" {
					continue
				}
				for i, l := range x.Lhs {
					if isTarget(l) {
						if len(x.Lhs) != len(x.Rhs) || x.Tok != token.ASSIGN {
							ok = false
							continue
						}
						// later assignments override earlier ones on the same path: the
						// fragment only admits monotone `target = true`/one full definition
						result = BOr(result, and(path, c.BoolOf(x.Rhs[i])))
					}
				}
			case *ast.DeclStmt, *ast.ExprStmt, *ast.IncDecStmt, *ast.EmptyStmt:
			case *ast.BlockStmt:
				path = walk(x.List, path)
			default:
				// loops / switches may assign the target
				found := false
				ast.Inspect(st, func(n ast.Node) bool {
					if as, isAs := n.(*ast.AssignStmt); isAs {
						for _, l := range as.Lhs {
							if target != "" && isTarget(l) {
								found = true
							}
						}
					}
					if _, isRet := n.(*ast.ReturnStmt); isRet && target == "" {
						found = true
					}
					return true
				})
				if found {
					ok = false
				}
			}
		}
		return path
	}
	walk(fd.Body.List, nil)
	return result, ok
}

// ParseBool parses a canonical condition string back into a formula. Integer comparisons
// are oriented so that only `>=` and `==` atoms remain: (x > y) is !(y >= x); (x != y) is
// !(x == y) (with operands sorted as the canonicaliser does).
func ParseBool(s string) *BExpr {
	s = trimSpace(s)
	if len(s) > 0 && s[0] == '!' {
		return BNot(ParseBool(s[1:]))
	}
	if len(s) >= 2 && s[0] == '(' && s[len(s)-1] == ')' && balanced(s[1:len(s)-1]) {
		in := s[1 : len(s)-1]
		// top-level || has lowest precedence, then &&
		for _, op := range []string{" || ", " && "} {
			if parts := splitTop(in, op); len(parts) > 1 {
				var acc *BExpr
				for _, p := range parts {
					e := ParseBool(p)
					if acc == nil {
						acc = e
					} else if op == " || " {
						acc = BOr(acc, e)
					} else {
						acc = BAnd(acc, e)
					}
				}
				return acc
			}
		}
		for _, op := range []string{" >= ", " > ", " == ", " != "} {
			if parts := splitTop(in, op); len(parts) == 2 {
				l, r := parts[0], parts[1]
				switch op {
				case " >= ":
					return BAtom("(" + l + " >= " + r + ")")
				case " > ":
					return BNot(BAtom("(" + r + " >= " + l + ")"))
				case " == ":
					if r < l {
						l, r = r, l
					}
					return BAtom("(" + l + " == " + r + ")")
				case " != ":
					if r < l {
						l, r = r, l
					}
					return BNot(BAtom("(" + l + " == " + r + ")"))
				}
			}
		}
	}
	if s == "true" {
		return BConst(true)
	}
	if s == "false" {
		return BConst(false)
	}
	return BAtom(s)
}

func trimSpace(s string) string {
	for len(s) > 0 && s[0] == ' ' {
		s = s[1:]
	}
	for len(s) > 0 && s[len(s)-1] == ' ' {
		s = s[:len(s)-1]
	}
	return s
}

func splitTop(s, op string) []string {
	var parts []string
	d := 0
	last := 0
	for i := 0; i < len(s); i++ {
		switch s[i] {
		case '(', '[', '{':
			d++
		case ')', ']', '}':
			d--
		case '"':
			// skip string literal
			j := i + 1
			for j < len(s) && s[j] != '"' {
				if s[j] == '\\' {
					j++
				}
				j++
			}
			i = j
			continue
		}
		if d == 0 && i+len(op) <= len(s) && s[i:i+len(op)] == op {
			parts = append(parts, s[last:i])
			last = i + len(op)
			i += len(op) - 1
		}
	}
	parts = append(parts, s[last:])
	return parts
}

// Implies decides (by truth table over all atoms, treated as independent) whether the
// conjunction of premises implies goal.
func Implies(premises []*BExpr, goal *BExpr) bool {
	set := map[string]bool{}
	for _, p := range premises {
		for _, a := range p.Atoms() {
			set[a] = true
		}
	}
	for _, a := range goal.Atoms() {
		set[a] = true
	}
	var atoms []string
	for a := range set {
		atoms = append(atoms, a)
	}
	sort.Strings(atoms)
	if len(atoms) > 18 {
		return false
	}
	for m := 0; m < 1<<len(atoms); m++ {
		env := map[string]bool{}
		for i, a := range atoms {
			env[a] = m&(1<<i) != 0
		}
		all := true
		for _, p := range premises {
			if !p.Eval(env) {
				all = false
				break
			}
		}
		if all && !goal.Eval(env) {
			return false
		}
	}
	return true
}

// PathFormulas parses the guards of a path.
func PathFormulas(p Path) []*BExpr {
	var out []*BExpr
	for _, g := range p.Guards {
		out = append(out, ParseBool(g))
	}
	return out
}
