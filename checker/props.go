package main

import (
	"strings"

	"tcheck/load"
	"tcheck/rules"
	"tcheck/spec"
)

// Property describes how one property is decided.
type Property struct {
	ID        string
	Technique string
	Explain   string
	Assume    []string
	Run       func(rc *rules.RC)
	// Configs analysed per tier.
	Quick, Thorough []string
}

var allConfigs = []string{"default", "noasm", "inplacetranspose", "noasm,inplacetranspose", "386"}

var trusted = []string{
	"go/parser, go/types, go/ssa, go/cfg (golang.org/x/tools v0.29.0) and go/packages loading of /repo's working tree",
	"semantics of Go's built-in operators",
	"math, math32, math/cmplx, vecf32, vecf64 and gonum BLAS routines mean what their names say (bodies not analysed)",
	"divmod_amd64.s (assembly is outside the analysable program)",
	"the oracle tables in checker/spec (operator table, variant contract, mode contract, exception tables)",
}

func execFamily(fam string) (spec.Variant, bool) {
	const pre = "internal/execution."
	if !strings.HasPrefix(fam, pre) {
		return spec.Variant{}, false
	}
	return spec.ParseFamily(fam[len(pre):])
}

func groupFilter(groups ...string) rules.FamilyFilter {
	return func(fam string) bool {
		v, ok := execFamily(fam)
		if !ok {
			return false
		}
		for _, g := range groups {
			if v.Group == g {
				return true
			}
		}
		return false
	}
}

func fileFilter(files ...string) func(fi *load.FuncInfo) bool {
	return func(fi *load.FuncInfo) bool {
		for _, f := range files {
			if fi.File == f {
				return true
			}
		}
		return false
	}
}

var properties = map[string]*Property{}

func register(p *Property) {
	if len(p.Quick) == 0 {
		p.Quick = []string{"default"}
	}
	if len(p.Thorough) == 0 {
		p.Thorough = allConfigs
	}
	properties[p.ID] = p
}

func mGroup(groups ...string) func(m *rules.MMethod) bool {
	return func(m *rules.MMethod) bool {
		for _, g := range groups {
			if m.Group == g {
				return true
			}
		}
		return false
	}
}

func init() {
	register(&Property{
		ID:        "C07",
		Technique: "static analysis: abstract interpretation of every option-mode case of the generated engine methods over a symbolic term domain, checked against the mode contract",
		Explain: "Decides, for each of the generated StdEng arithmetic, comparison, min/max and unary methods (and Clamp) and for every scenario = option mode {safe, unsafe, reuse, incr} x scalar side x result kind x iterator/raw path x {destination distinct, destination aliasing an operand} x {many elements, one element}: which tensor is returned, that its buffer finally holds Op(L,R) of the original operand values in operand order (incr: destination + Op), that no buffer other than the designated destination, fresh tensors and the scalar scratch header is written (M2), and that every buffer is indexed through its own iterator, never a nil or already consumed one (M3). " +
			"Not decided: that the kernels compute Op (rules K1/K2 of C06/C11/C12 do), that iterators deliver matching coordinates (C05), the hand-written operations' value semantics.",
		Assume: []string{"the summaries of E-level dispatch (destination = first non-scalar operand; Incr adds; Recv stores) and of storage.Copy/CopyIter/Fill, which rules K1arms/K2 check against the kernels", "sparse operands (swap) are outside the dense properties"},
		Run: func(rc *rules.RC) {
			rules.M2(rc, nil, 40, 900)
			rules.L0(rc, nil)
		},
	})
	kmExplain := func(what, groups string) string {
		return "Decides exhaustively for " + what + ": (K1) all type specialisations of each kernel template agree after type erasure; (K2/K7) each kernel's guarded updates equal the operator table's term for its operation, variant and type class - operator, operand order, destination, every slice indexed through its own iterator, body guarded by all validity flags; (K1arms/K3) every arm of every dispatcher in internal/execution/" + groups + " uses only constructs of its own label type and agrees with its sibling arms; (K5) every dispatcher refuses unlisted types with an error; (K11) the type-class tables that gate the operations are the sets go/types predicts; (M2/M3) every option-mode case of the generated engine methods returns the designated tensor holding Op(L,R) in operand order and pairs buffers with their own iterators; (M4) type/shape gates dominate every kernel call; (M5) the package functions and Dense methods delegate to the engine method of their own name with operands in order. " +
			"Not decided: IEEE/overflow behaviour of the Go operator (the kernel provably *is* the Go operator), vecf32/vecf64/math bodies (trusted by name), and that iterators deliver matching coordinates (C05)."
	}
	register(&Property{
		ID:        "C06",
		Technique: "static analysis: canonical-form comparison of kernels against an operator table and against sibling specialisations; type-token coherence of dispatch arms; abstract interpretation of option-mode cases (AST + go/types)",
		Explain:   kmExplain("the arithmetic (Add Sub Mul Div Mod Pow) and min/max kernels, dispatchers and engine methods", "eng_arith.go, eng_minmaxbetween.go"),
		Assume:    []string{"see C07 for the interpreter's summaries"},
		Run: func(rc *rules.RC) {
			fams := rules.Families(rc.P)
			f := groupFilter("arith", "minmax")
			rules.K1(rc, fams, f, 1200)
			rules.K2(rc, fams, f, 1200)
			rules.K3(rc, fileFilter("eng_arith.go", "eng_minmaxbetween.go", "eng_arith_manual.go"), 30, 430)
			rules.M2(rc, mGroup("arith", "minmax"), 16, 350)
			rules.L0(rc, nil)
		},
	})
	register(&Property{
		ID:        "C11",
		Technique: "static analysis: canonical-form comparison of comparison kernels against an operator table and siblings; type-token coherence of dispatch arms; abstract interpretation of option-mode cases",
		Explain:   kmExplain("the comparison (Gt Gte Lt Lte Eq Ne) kernels in their bool and same-type forms, dispatchers and engine methods", "eng_cmp.go"),
		Assume:    []string{"see C07 for the interpreter's summaries"},
		Run: func(rc *rules.RC) {
			fams := rules.Families(rc.P)
			f := groupFilter("cmp")
			rules.K1(rc, fams, f, 1040)
			rules.K2(rc, fams, f, 1040)
			rules.K3(rc, fileFilter("eng_cmp.go"), 24, 345)
			rules.M2(rc, mGroup("cmp"), 12, 300)
			rules.L0(rc, nil)
		},
	})
	register(&Property{
		ID:        "C12",
		Technique: "static analysis: canonical-form comparison of unary/map kernels against an operator table and siblings; type-token coherence of dispatch arms; abstract interpretation of option-mode cases",
		Explain:   kmExplain("the unary (Neg Inv Square Cube Abs Sign Clamp Sqrt Cbrt InvSqrt Exp Log Log2 Log10 Tanh) and Map kernels, dispatchers and engine methods", "eng_unary.go, eng_map.go"),
		Assume:    []string{"see C07 for the interpreter's summaries", "math/math32/cmplx routines are trusted by name"},
		Run: func(rc *rules.RC) {
			fams := rules.Families(rc.P)
			f := groupFilter("unary", "map")
			rules.K1(rc, fams, f, 340)
			rules.K2(rc, fams, f, 340)
			rules.K3(rc, fileFilter("eng_unary.go", "eng_map.go"), 30, 250)
			rules.M2(rc, mGroup("unary"), 15, 178)
			rules.L0(rc, nil)
		},
	})
	register(&Property{
		ID:        "C17",
		Technique: "static analysis: type-erased canonical forms of all generated specialisations compared within each family (sibling agreement), and type-token coherence of every arm of every type switch, over the type-checked AST",
		Explain: "Decides, for every generated per-type function of the module (kernels, typed accessors, native converters) and every arm of every switch over element types: (K1) all specialisations of one template that belong to one type class have the same canonical form after erasing their own element type; (K1arms) the same for the arms of one switch; (K3) every typed accessor, specialised kernel, Dtype/reflect token, BLAS precision letter and type assertion in an arm denotes the arm's label type; (K2) the canonical form of each arithmetic/comparison/unary/min-max kernel equals the operator table's definition for its operation, variant and type class. " +
			"Not decided: behaviour of the Go operators themselves, accuracy of math routines, and agreement of results after conversion between types (a runtime relation).",
		Assume: []string{"sibling specialisations are meant to be instances of one template (the genlib2 design)", "a template-wide change that K2's operator table does not cover is not detected by sibling comparison"},
		Run: func(rc *rules.RC) {
			fams := rules.Families(rc.P)
			rules.K1(rc, fams, nil, 2900)
			rules.K3(rc, nil, 150, 1700)
			rules.K2(rc, fams, nil, 2550)
			rules.K9(rc, fams, 120)
			rules.K8(rc, 100)
		},
	})
}
