package main

import (
	"strings"

	"tcheck/load"
	"tcheck/rules"
	"tcheck/spec"
)

// Property describes how one property is decided.
type Property struct {
	ID        string
	Technique string
	Explain   string
	Assume    []string
	Run       func(rc *rules.RC)
	// Configs analysed per tier.
	Quick, Thorough []string
}

var allConfigs = []string{"default", "noasm", "inplacetranspose", "noasm,inplacetranspose", "386"}

var trusted = []string{
	"go/parser, go/types, go/ssa, go/cfg (golang.org/x/tools v0.29.0) and go/packages loading of /repo's working tree",
	"semantics of Go's built-in operators",
	"math, math32, math/cmplx, vecf32, vecf64 and gonum BLAS routines mean what their names say (bodies not analysed)",
	"divmod_amd64.s (assembly is outside the analysable program)",
	"the oracle tables in checker/spec (operator table, variant contract, mode contract, exception tables)",
}

func execFamily(fam string) (spec.Variant, bool) {
	const pre = "internal/execution."
	if !strings.HasPrefix(fam, pre) {
		return spec.Variant{}, false
	}
	return spec.ParseFamily(fam[len(pre):])
}

func groupFilter(groups ...string) rules.FamilyFilter {
	return func(fam string) bool {
		v, ok := execFamily(fam)
		if !ok {
			return false
		}
		for _, g := range groups {
			if v.Group == g {
				return true
			}
		}
		return false
	}
}

func fileFilterName(files ...string) func(file string) bool {
	return func(file string) bool {
		for _, f := range files {
			if file == f {
				return true
			}
		}
		return false
	}
}

func fileFilter(files ...string) func(fi *load.FuncInfo) bool {
	return func(fi *load.FuncInfo) bool {
		for _, f := range files {
			if fi.File == f {
				return true
			}
		}
		return false
	}
}

var properties = map[string]*Property{}

func register(p *Property) {
	if len(p.Quick) == 0 {
		p.Quick = []string{"default"}
	}
	if len(p.Thorough) == 0 {
		p.Thorough = allConfigs
	}
	properties[p.ID] = p
}

func mGroup(groups ...string) func(m *rules.MMethod) bool {
	return func(m *rules.MMethod) bool {
		for _, g := range groups {
			if m.Group == g {
				return true
			}
		}
		return false
	}
}

func init() {
	register(&Property{
		ID:        "C01",
		Technique: "static analysis: path enumeration over canonicalised accessor functions with boolean implication of the bounds/arity facts (truth table); type-token coherence of typed get/set arms",
		Explain: "Decides the rejection clause and the wiring of coordinate addressing: (S1) every non-error iteration path of Ltoi's coordinate loop has established coord >= 0 and coord < size, and the scalar branch accepts only 0; (S2) in At/SetAt/MaskAt/SetMaskAt every path to Get/Set/mask[...] has passed the arity check and the error check of the offset computation and uses exactly that offset, at() is Ltoi over the tensor's own Shape() and Strides(), maskAt() is at(); (K3/K1arms) the typed Get/Set/Memset arms of array and storage.Header use only accessors and assertions of their own label type and agree with their sibling arms; (S8) stride-routine selection by data order. " +
			"Not decided: the values the stride calculators and Ltoi produce when they are written in another form than the reviewed one (S10/S22 compare the recurrence of the calculators and the accumulation of Ltoi - offset plus coordinate times the stride of the same axis - with the textbook terms while the statement skeleton is the reviewed one, and abstain on a rewrite); behaviour of the column-major converting constructor. Round 7: (EP) every refusal a function constructs itself precedes any effect on the receiver/parameters, deferred closures included. Round 11: (O13) no MakeAP call stores the live shape/strides slice of the receiver's or a parameter's own pattern; (T13) the general branch of AP.T permutes by the requested axes on every path. Round 13: (T8) every copying transpose kernel walks in the tensor's data order; (S7) Reshape refuses every non-contiguous tensor.",
		Run: func(rc *rules.RC) {
			rules.T8(rc)
			rules.S7(rc)
			rules.O13(rc)
			rules.S22(rc)
			rules.O8(rc) // a clone that shares its saved access pattern lets the clone's release zero the original's shape
			rules.F2(rc) // the decoder installs the strides and order it read (a decoded column-major tensor addresses by them)
			rules.T13(rc)
			rules.FL(rc, 2)
			rules.O6(rc)
			rules.V2(rc, 2)
			rules.S19(rc)
			rules.K1w(rc, func(stem string) bool { return strings.Contains(stem, "denseTranspose") }, 4)
			rules.EP(rc, nil, 100)
			rules.T7(rc)
			rules.SV(rc, 20)
			rules.WC(rc, 15)
			rules.S1(rc)
			rules.S2(rc)
			rules.S10(rc)
			rules.T4(rc)
			rules.K3(rc, fileFilter("array_getset.go", "getset.go", "array.go", "dense_generated.go"), 8, 130)
			fams := rules.Families(rc.P)
			rules.K1(rc, fams, func(f string) bool { return strings.HasPrefix(f, "internal/storage.") }, 50)
		},
	})
	register(&Property{
		ID:        "C02",
		Technique: "static analysis: path enumeration with boolean implication over the slice validators and the contiguity marker; term extraction and sibling comparison of the two slice-length calculators; structural co-slicing rule; guard census",
		Explain: "Decides: (S3) CheckSlice accepts only when start <= end, start >= 0, not(step == 0 and end-start > 1), start < size, and SliceDetails validates every non-nil slice, clamps end and expands nil to (0,size,1); (S4) AP.S and Shape.S refuse more slices than axes and take (start,end,step) of every axis from SliceDetails; (S5) the length term under step > 0 is ceil((end-start)/step) with no extra condition, identical in both calculators; (S9) Slice/SliceInto take window and access pattern from one AP.S call, slice data and mask with the same window, record the parent and copy dtype/engine/flag. " +
			"(S12) the sliced access pattern is marked NonContiguous at least when a non-outermost axis of a non-vector is sliced or a step > 1 is taken, with the outermost axis chosen by data order (names bound structurally). Not decided: offset (ndStart/ndEnd) arithmetic, stride scaling, which dimensions are dropped. Round 7: (L0) the layout predicates every view-aware guard relies on equal their table definitions (flow-sensitive extraction, measurement comparisons as free variables); (S9) a view handed in for reuse keeps neither a pending lazy transpose nor a mask. Round 11: (T15) SafeT/T install the pattern AP.T returned, order flag included; (NC) the NonContiguous mark is never cleared on gaplessness alone; (L0) IsVectorLike decided also when written over single stride elements; (O13). Round 13: (S22) Ltoi adds coordinate times the stride of its own axis; (WP) tensor.Narrow and the Narrow method are the same code. Round 15: (I4) the iterator's vector fast path; (O6) a recycled tensor header carries no mask.",
		Run: func(rc *rules.RC) {
			rules.I4(rc)
			rules.O6(rc)
			rules.S22(rc)
			rules.WP(rc)
			rules.O13(rc)
			rules.T15(rc)
			rules.NC(rc)
			rules.L0(rc, func(fn string) bool { return strings.HasSuffix(fn, ".IsVectorLike") }) // decides whether a vector-like view is walked with unit steps
			rules.LGuards(rc, "C02")
			rules.FL(rc, 2)
			rules.LC(rc, 18)
			rules.S20(rc)
			rules.S18(rc)
			rules.S16(rc, 1)
			rules.S15(rc)
			rules.S3(rc)
			rules.S5(rc)
			rules.S9(rc)
			rules.S12(rc)
			rules.S10(rc) // AP.S indexes one stride per axis: both stride calculators give every non-scalar shape one
			rules.S2(rc)  // the offset helper behind At on a view
			rules.L0(rc, func(fn string) bool { return !strings.Contains(fn, "prepData") })
		},
	})
	register(&Property{
		ID:        "C13",
		Technique: "static analysis: term extraction and sibling comparison of shape calculators; path enumeration with boolean implication over the reshape gate, the contiguity marker and the repeat destination check; lock typestate of access patterns over canonical paths; unique-owner analysis over SSA",
		Explain: "Decides: (S5) the shape-only slice calculator and the access-pattern slice calculator compute the same length term, which is ceil((end-start)/step); (S4) both validate through SliceDetails and refuse too many slices; (S7) every path of Reshape that reaches reshape() has established equal total size, is not a non-contiguous view and has materialised a pending lazy transpose, and reshape() only sets the shape and checks sanity; (O8) for the metadata-invariant clause: no two tensors own the same shape/strides slices (an alias lets one tensor's reshape or recycling zero the other's shape); (S12) AP.S marks sliced views NonContiguous (the flag Reshape's refusal keys on); (S14) every call of the lock-respecting AP.SetShape happens on a pattern unlocked on every path (otherwise the shape is silently not installed and size != product of shape); (L1) RepeatReuse accepts a destination only when its shape is the computed result shape. " +
			"Not decided: that shape and strides address distinct in-bounds positions (a runtime invariant over values), that reshape preserves the flat sequence, repeat/concat calculators' arithmetic. Round 7: (DC) Repeat has no shortcut result beside its worker; (S21) the concat calculator's axis bounds are two-sided; (T14) composition order; (EP) refusals precede effects (Reshape, Transpose). Round 11: (NC) mark-clearing rule; (RS) raw-reshape typestate. Round 13: (UP); (SW) Slice and SliceInto cut the same window. Round 15: (O6, O6p) a recycled tensor header carries no saved pattern, on every path.",
		Run: func(rc *rules.RC) {
			rules.O6(rc)
			rules.O6p(rc)
			rules.UP(rc)
			rules.SW(rc)
			rules.NC(rc)
			rules.RS(rc)
			rules.O11(rc, 1)
			rules.S22(rc)
			rules.CF(rc)
			rules.K1w(rc, func(stem string) bool { return strings.Contains(stem, "denseTranspose") }, 4) // Reshape after T() materialises through these kernels
			rules.T8(rc)
			rules.DC(rc, "C13")
			rules.T14(rc)
			rules.T13(rc)
			rules.S3(rc)
			rules.S20(rc)
			rules.T10(rc)
			rules.EP(rc, nil, 100)
			rules.T7(rc)
			rules.S17(rc)
			rules.SV(rc, 20)
			rules.V2(rc, 2)
			rules.S10(rc)
			rules.WC(rc, 15)
			rules.S5(rc)
			rules.S12(rc)
			rules.S14(rc)
			rules.S7(rc)
			rules.LGuards(rc, "C13")
			rules.O8(rc)
		},
	})
	register(&Property{
		ID:        "C03",
		Technique: "static analysis: SSA field-event typestate of the lazy-transpose triple, unique-owner analysis of access patterns, sibling comparison of per-width and per-build transpose kernels and of the two transposed-index computations, path rules on Transpose/UT",
		Explain: "Decides: (T1) whoever gives an object a saved access pattern (old) also gives it transposeWith and AP; (T2) old and transposeWith are cleared together; (T4) Transpose recomputes the default strides of the current shape by data order and installs them after the move and discards the thunk, UT restores exactly the saved AP, calcStrides selects the routine by order; (T6) Dense.transposeIndex (in-place build) and TransposeIndex accumulate the same sum oldCoord[pattern[k]]*newStrides[k]; (K1w) the 1/2/4/8-byte transpose kernels are one algorithm, in both builds; (O8) SafeT/T(api)/Transpose(api)/Clone hand the copy its own access patterns (no alias of the source's shape/strides, so undoing or materialising one tensor cannot wipe the other); (B1) both transpose builds declare the same functions; (SV) no access pattern computed before a materialising Transpose()/UT()/Reshape is installed or used after it; (T7) the inverse shortcut of Dense.T decides on the permutations, not on shapes; (L1) the shortcut is taken only for a true vector or a recognised inverse; (WC) the pre-transpose accessors are read only by transposition itself and the BLAS gateways. " +
			"Not decided: that the permutation arithmetic (UnsafePermute, cycle following, iterator order) is the right permutation; the composition law. Round 7: (T14) the saved permutation is the outer one wherever it is composed with another index vector; (T9) every successful return of the engine's Transpose has gone through the width dispatcher; (EP) refusals precede effects. Round 11: (T15) the transposed pattern is installed unchanged; (RS) the raw reshape is used only where no lazy transposition can be pending. Round 13: (UP) UnsafePermute exchanges elements by its pattern on every path. Round 15: (LC) raw copies on the materialise path; (I15) the column-major stepper flags exhaustion on its last axis.",
		Quick: []string{"default", "inplacetranspose"},
		Run: func(rc *rules.RC) {
			rules.TI(rc)
			rules.LC(rc, 18)
			rules.I15(rc)
			rules.UP(rc)
			rules.T15(rc)
			rules.RS(rc)
			rules.T13(rc)
			rules.T11(rc)
			rules.S18(rc)
			rules.T9(rc)
			rules.T14(rc)
			rules.CF(rc)
			rules.T10(rc)
			rules.EP(rc, nil, 100)
			rules.B2(rc)
			rules.T8(rc)
			rules.T7(rc)
			rules.SV(rc, 20)
			rules.V2(rc, 2)
			rules.WC(rc, 15)
			rules.T12(rc)
			rules.T4(rc)
			rules.T6(rc)
			rules.K1w(rc, func(stem string) bool { return strings.Contains(stem, "denseTranspose") }, 4)
			rules.LGuards(rc, "C03")
			rules.O8(rc)
		},
	})
	register(&Property{
		ID:        "C05",
		Technique: "static analysis: consistency rules over the iterator family on canonical forms - mask polarity, valid/invalid duality, path-exhaustive reset completeness against the steppers' mod-set, vector-axis addressing, digest dependence of the stride key, mirror comparison of the two odometers",
		Explain: "Decides consistency of the iterator family, not its arithmetic: (I1) NextValidity reports !mask[i], NextValid stops on unmasked and NextInvalid on masked elements, in FlatMaskedIterator and MultIterator; (I2) NextValid and NextInvalid of one type are identical up to exactly that polarity; (I3) every path through FlatIterator.Reset rewrites every field the stepping functions mutate (done, nextIndex, track); (I4) the vector fast path addresses track/shape/strides through veclikeDim, which is the first axis of length != 1, and no vector arm uses a literal axis; (I5) the multi-iterator's stride-block key is the digest of all stride elements; (I6) colMajorNDNext is ndNext with loop direction and done-axis reversed. " +
			"Not decided - and this is the core of the property: that the odometer yields offsets in row-major coordinate order, the skip counts, coordinate tracking values. Round 7: (I11) every loop over the multi-iterator's blocks that steps/rewinds them treats all blocks on every iteration; (L0) AP.IsVectorLike - which selects the unit-step fast path - is 'vector-like shape and all strides one'. Round 11: (I15) every path that moves on from the last axis of an odometer walk has set done; (I14) every path that writes the direction flag rewinds; (I16) the direction setters of all iterator types write their own flag and rewind their own state. Round 13: (T7) the inverse shortcut of Dense.T composes the saved and the requested permutation; (IM) a masked tensor always gets a masked iterator. Round 17: (MX) index domains of the multi-iterator: per-tensor tables are never subscripted by a block number, the per-block table never by a tensor number.",
		Run: func(rc *rules.RC) {
			rules.MR(rc)
			rules.MX(rc)
			rules.IM(rc)
			rules.T7(rc)
			rules.I15(rc)
			rules.I16(rc)
			rules.L0(rc, func(fn string) bool { return strings.HasSuffix(fn, ".IsVectorLike") }) // selects the iterator's unit-step fast path
			rules.I13(rc)
			rules.I3m(rc)
			rules.I14(rc)
			rules.I11(rc)
			rules.I10(rc)
			rules.I9(rc)
			rules.I8(rc)
			rules.I7(rc)
			rules.I12(rc)
			rules.I3(rc)
			rules.I4(rc)
			rules.I5(rc)
			rules.I6(rc)
			rules.I6c(rc)
			rules.I6b(rc)
		},
	})
	register(&Property{
		ID:        "C08",
		Technique: "static analysis: canonical-form comparison of reduction kernels against an anchor table and sibling specialisations; type-token coherence of reduction dispatchers and method tables; ownership analysis of the operand and the axis list; layout-guard rules on the reduction entry points",
		Explain: "Decides: (K9) Sum/Prod/Argmax/Argmin(/Masked)/SliceMin/SliceMax/Reduce kernels equal the anchor table (accumulate with + from zero, * from one; update on strict comparison so the first index of the extreme wins; masked variants skip masked elements); (K1) all type specialisations of every reduction kernel incl. the axis-specialised reducers agree; (K3/K1arms) every arm of the reduction dispatchers and of the SumMethods/MinMethods/MaxMethods/Monotonic* tables uses its own label type and returns its own operation's triple; (O3) the caller's axis list is not mutated; (O8) the operand's access pattern is never aliased into a scratch AP that is recycled (operand unchanged); (L) layout rules of C16/C04 on the reduction entry points (see those properties). " +
			"Not decided: the split/size/stride arithmetic of the first/last/default reducers and the axis renumbering loop. Round 7: (PI) the wrappers hand the caller's axis and operands to the engine unassigned; (K12) no typed dispatcher returns successfully in front of its type switch; (MZ) Materialize builds a row-major copy, which the raw reducers rely on; (L0) the predicates the reducers materialise on. Round 13: (LC) raw whole-buffer copies on the materialise path are census sites.",
		Run: func(rc *rules.RC) {
			rules.LC(rc, 18)
			rules.DA(rc, 50)
			fams := rules.Families(rc.P)
			f := groupFilter("reduce")
			rules.K1(rc, fams, f, 210)
			rules.K9(rc, fams, 120)
			rules.K3(rc, fileFilter("eng_reduce.go", "eng_argmethods.go", "reduction_specialization.go"), 14, 250)
			red := func(k string) bool {
				for _, n := range []string{"Sum", "Max", "Min", "Argmax", "Argmin", "Reduce", "OptimizedReduce", "argmaxDenseTensor", "argminDenseTensor", "reduce", "prepReduce"} {
					if strings.HasSuffix(k, "."+n) {
						return true
					}
				}
				return false
			}
			rules.O123f(rc, red)
			rules.O8f(rc, red, 0)
			rules.P2(rc, red, 12)
			rules.SP(rc, "C08", 6)
			rules.EC(rc, fileFilterName("defaultengine_mapreduce.go", "defaultengine_argmethods.go", "dense_reduction_methods.go", "dense_argmethods.go", "api_reduction.go", "dense_mapreduce.go"), 14)
			rules.LGuards(rc, "C08")
			rules.PI(rc, 50)
			rules.K12(rc, 80)
			rules.MZ(rc)
			rules.L0(rc, func(fn string) bool { return !strings.Contains(fn, "prepData") }) // the reducers materialise on IsMaterializable
		},
	})
	register(&Property{
		ID:        "C15",
		Technique: "static analysis: mask-predicate table conformance of every typed arm, arm uniformity and type coherence, iterator mask polarity/duality, co-slicing of the mask, offset identity of mask access, sibling-pair duality of the mask inspections, guard goals on whole-mask folds",
		Explain: "Decides: (K8) in every typed arm of Masked{Equal,NotEqual,Greater,GreaterEqual,Less,LessEqual,Inside,Outside} the soft branch stores mask[i] = P(a) and the hard branch mask[i] = mask[i] || P(a) with P from the predicate table; (K1arms/K3) the arms agree and use their own label type; (I1,I2) masked iteration treats a set bit as invalid, in NextValidity/NextValid/NextInvalid of both masked iterator types; (S9) Slice/SliceInto slice the mask with the data window; (S2) MaskAt/SetMaskAt address the mask at the same offset as the data element (maskAt is at); (T-mask) both transpose builds move the mask before the data; (SP) FlatMasked*/FlatNotMasked* and doMaskAll/doMaskAny are mirror images up to polarity; (L1) the whole-mask folds of MaskedAll/Any/Count run only when the mask covers exactly the tensor's elements; (E1) Filled/FilledInplace and the mask helpers never work on a result under its own err != nil. " +
			"Not decided: counts, run/edge finders, fill values, that valid positions get the unmasked value of elementwise operations. Round 7: (O6) a recycled tensor header carries neither mask nor mask policy into its next life. Round 11: (MI) the edge and run finders answer through an iterator on every path; (MM) makeMask only where no mask exists; (TMask) the string transpose kernel moves the mask too. Round 13: (IM) IteratorFromDense returns the plain iterator only for a tensor found unmasked. Round 15: (MC) makeMask yields an all-false mask on every path; (O6p).",
		Quick: []string{"default", "inplacetranspose"},
		Run: func(rc *rules.RC) {
			rules.MR(rc)
			rules.MC(rc)
			rules.O6p(rc)
			rules.IM(rc)
			rules.MI(rc)
			rules.MM(rc)
			rules.MK(rc, 15)
			rules.K1(rc, rules.Families(rc.P), func(f string) bool { return strings.HasPrefix(f, "internal/execution.") }, 2000)
			rules.B2(rc)
			rules.DA(rc, 50)
			rules.I7(rc)
			rules.K8(rc, 100)
			rules.K3(rc, fileFilter("dense_maskcmp_methods.go"), 8, 100)
			rules.I12(rc)
			rules.S9(rc)
			rules.S2(rc)
			rules.SP(rc, "C15", 4)
			rules.LGuards(rc, "C15")
			rules.O6(rc) // a recycled tensor header carries no mask and no mask policy into its next life
			rules.LF(rc, 20)
			rules.TMask(rc)
			rules.E1(rc, fileFilterName("dense_mask_filling.go", "dense_mask_inspection.go", "dense.go", "iterator.go", "iterator_mult.go"), 5)
		},
	})
	register(&Property{
		ID:        "C04",
		Technique: "static analysis: layout-guard goals on every whole-tensor writer/copy decided by path enumeration and boolean implication; truth-table check of the layout predicates; SSA storage-provenance and unique-owner analysis of the copying constructors; abstract interpretation of the in-place (unsafe) mode cases",
		Explain: "Decides: (L0) RequiresIterator/IsMaterializable/IsView are the boolean functions every guard relies on; (L1) every path to a raw whole-buffer access in Memset, Zero, Copy, Materialize, ToMat64 has established that the tensor is not a view / does not require an iterator (iterator-driven variants are used otherwise); (M2/M3) in-place arithmetic through a view runs the iterator kernel paired with the view's own iterator, never a raw kernel on the iterator path; (V1) Clone, Materialize, SafeT allocate the result's storage, copy elements with a copy primitive and share no array/Header/Raw/mask with the source; (O8) and no access-pattern slices either; (S9) Slice/SliceInto build the view over the parent's window. " +
			"Not decided: that the iterator writes land on the right elements (C05's arithmetic); native-slice conversions' element order. Round 7: (EP) refusals precede effects; IsMaterializable includes tensors that own their memory but have gaps (finding 78). Round 11: (AD) no decision on buffer start addresses in iterator-driven copies; (O13) built patterns own their slices; (NC); (MM) a view's mask is never cut to the view's element count. Round 13: (SA) no self-append is taken for a copy; (SW) Slice and SliceInto cut the same window. Round 17: (ITW) the iterator-driven fills behind Zero/Memset of a non-contiguous view write only at offsets the iterator returned, in every typed arm.",
		Run: func(rc *rules.RC) {
			rules.ITW(rc)
			rules.SA(rc)
			rules.SW(rc)
			rules.AD(rc)
			rules.O13(rc)
			rules.NC(rc)
			rules.MM(rc)
			rules.K3(rc, func(fi *load.FuncInfo) bool { return strings.HasPrefix(fi.File, "eng_") }, 100, 1000)
			rules.S18(rc)
			rules.SV(rc, 20)
			rules.IP(rc, 2)
			rules.S12(rc)
			rules.V2(rc, 2)
			rules.L0(rc, nil)
			rules.LGuards(rc, "C04")
			rules.LC(rc, 18)
			rules.LF(rc, 20)
			rules.K1(rc, rules.Families(rc.P), func(f string) bool {
				return strings.HasPrefix(f, "tensor.handleFuncOpts") || strings.HasPrefix(f, "tensor.prepData")
			}, 2)
			rules.V1(rc)
			rules.EP(rc, nil, 100)
			rules.O8(rc)
			rules.S9(rc)
			rules.M2(rc, nil, 40, 900)
			rules.P2(rc, func(k string) bool {
				for _, n := range []string{"Slice", "At", "Clone", "Materialize", "SafeT", "T", "Transpose", "Copy", "ToMat64"} {
					if strings.HasSuffix(k, "."+n) {
						return true
					}
				}
				return false
			}, 8)
		},
	})
	register(&Property{
		ID:        "C09",
		Technique: "static analysis: BLAS argument conformance by per-path term propagation against a reference table derived from the row-major BLAS convention; BLAS-gateway goals (every trans flag / leading dimension derives from a test of that operand's own state on every path) by path enumeration and implication; arm uniformity and precision-letter coherence of the typed BLAS arms; ownership analysis of scratch slices and recycled tensors",
		Explain: "Decides: (LB) on every path to a BLAS call in MatMul/MatVecMul/Outer the lazy-transpose state and data order of each operand were branched on (a flag taken from the wrong operand, or a merged test, is reported); (L1) whether the operands' need for an iterator was consulted at all (it is not: known finding 15); (K1arms/K3) the float32/float64/complex64/complex128 arms call the same routine with the same argument pattern and the right precision letter; (O3/O7/O8) axes arguments are not mutated, only function-local tensors are recycled (handleIncr guard), scratch access patterns are not aliases of an operand's. " +
			"(LD) on every feasible path of MatVecMul, MatMul, Outer and Inner each argument of the gemv/gemm/ger/dot call - transposition flags, dimensions, leading dimensions, buffers, operand order - is the one the operand's data order, lazy-transpose state and logical shape require under the row-major BLAS convention (term propagation along the path against a derived reference; 41 layout cases); (P2) the gateways and their callers do not write their operands (Dot and Outer do: known findings 13, 14). Not decided: the routines themselves (trusted by name), the reshape/permutation arithmetic of TensorMul/Contract, Dot's dispatch table beyond delegation, rounding. Round 7: (K1w/T8/T9) the copying transpose kernels the general contraction relies on; (PI) parameter integrity of the wrappers; L1 goals on the float engines' Inner (finding 79). Round 11: (LP) the destination handed to the engine's MatVecMul/MatMul/Outer was normalised by handleReuse or created by the method. Round 13: (LN) no conjugating BLAS routine in any arm; (S9) a reused view header forgets its pending transposition. Round 15: (TR) Trace walks the diagonal by the operand's own two strides.",
		Run: func(rc *rules.RC) {
			rules.TR(rc)
			rules.S9(rc)
			rules.LN(rc)
			rules.LP(rc)
			rules.AL(rc, 0)
			rules.LC(rc, 18)
			rules.SC(rc)
			rules.T7(rc)
			rules.LD2(rc)
			rules.O8(rc)
			rules.RP(rc, nil, 0)
			rules.LGuards(rc, "C09")
			rules.LD(rc, 40)
			rules.K3(rc, fileFilter("defaultengine_linalg.go", "dense_linalg.go"), 3, 12)
			lin := func(k string) bool {
				for _, n := range []string{"Dot", "MatMul", "MatVecMul", "Outer", "Inner", "TensorMul", "Contract", "Trace", "handleIncr", "handleReuse"} {
					if strings.HasSuffix(k, "."+n) {
						return true
					}
				}
				return false
			}
			oa := rules.O123f(rc, lin)
			rules.O7(rc, oa)
			rules.O8f(rc, lin, 0)
			rules.P2(rc, lin, 15)
			rules.EC(rc, fileFilterName("defaultengine_linalg.go", "dense_linalg.go", "api_arith.go"), 20)
			// the general contraction permutes its operands physically: the copying transpose kernels
			rules.K1w(rc, func(stem string) bool { return strings.Contains(stem, "denseTranspose") }, 4)
			rules.T8(rc)
			rules.T9(rc)
			rules.PI(rc, 50)
		},
	})
	register(&Property{
		ID:        "C10",
		Technique: "static analysis: layout-accumulator implication check, layout-guard goals on the block-copy paths, width-family uniformity of the view-stack kernels, loop-cursor discipline, ownership of the repeats/axes arguments",
		Explain: "Decides: (LA) the flag that selects StackDense's raw block-copy path is true only if no operand requires an iterator (initial value and every loop path, by implication); (L1) the block-copy calls are guarded by it, and whether denseRepeat consults the operand's layout (it does not: known finding 32); (K1w) doViewStack1/2/4/8 are one algorithm; (E2) in every loop of the stacking/repetition code a cursor advanced at the end of the body is advanced on every continue path; (O2/O3) repeats and shapes passed by the caller are neither kept nor modified; (L1) Hstack stacks along axis 0 only for rank-1 receivers and RepeatReuse accepts a destination only of the computed shape; (LC/LF) a new raw block copy or flat element loop must be layout-guarded; (P2) concat/stack/repeat do not write their operands (denseConcat does: known finding 16). " +
			"Not decided: block-copy offsets/strides of denseRepeat and denseSimpleStack, the slice-and-assign placement of denseConcat, data-order agreement of stacked operands (finding 19). Round 7: (DC) every successful return of Repeat/RepeatReuse/Concat has gone through denseRepeat/denseConcat; (MZ) Materialize yields row-major storage; (S21) Shape.Concat accepts only 0 <= axis < rank. Round 11: the memcpy path of copyDenseIter (through which Concat assigns) requires equal data order. Round 13: (VH) Vstack/Hstack concatenate along their literal axes; (DC) Dense.Repeat always goes through the engine. Round 15: (L0) IsMaterializable, on which Repeat's densification relies; (IP2) every stacked operand has an iterator of its own, also under branches of the loop.",
		Run: func(rc *rules.RC) {
			rules.L0(rc, func(fn string) bool { return strings.HasSuffix(fn, ".IsMaterializable") })
			rules.VH(rc)
			rules.SK(rc)
			rules.DC(rc, "C10")
			rules.MZ(rc)
			rules.SO(rc)
			rules.IP2(rc)
			rules.O8(rc)
			rules.S17(rc)
			rules.O6(rc)
			rules.SS(rc)
			rules.IP(rc, 2)
			rules.WC(rc, 15)
			rules.LA(rc)
			rules.LGuards(rc, "C10")
			rules.LC(rc, 18)
			rules.LF(rc, 20)
			rules.K1w(rc, func(stem string) bool { return strings.Contains(stem, "doViewStack") }, 4)
			rules.E2(rc, fileFilterName("defaultengine_matop_misc.go", "defaultengine_matop_stack.go", "dense_matop_memmove.go", "array.go", "dense_assign.go"), 5)
			rules.P2(rc, func(k string) bool {
				for _, n := range []string{"Concat", "Stack", "Hstack", "Vstack", "Repeat", "RepeatReuse", "StackDense"} {
					if strings.HasSuffix(k, "."+n) {
						return true
					}
				}
				return false
			}, 10)
			rules.O123f(rc, func(k string) bool {
				for _, n := range []string{"Concat", "Stack", "Hstack", "Vstack", "Repeat", "RepeatReuse", "StackDense"} {
					if strings.HasSuffix(k, "."+n) {
						return true
					}
				}
				return false
			})
		},
	})
	register(&Property{
		ID:        "C14",
		Technique: "static analysis: static evaluation of the .npy dtype tables (writer o reader = id), wire-sequence agreement of the gob encoder/decoder, layout-guard goals on the writers, type-token coherence of the typed reader arms, flat-traversal census, access-pattern lock typestate, operand mod-summaries over SSA",
		Explain: "Decides: (F1) for every dtype the .npy writer accepts, the reader maps its descriptor back to the same dtype (both tables and the reader's special cases evaluated statically for the int size of the configuration); (F2) GobEncode puts exactly the tensor's own Shape(), Strides(), order, triangle, mask, Data() on the wire and GobDecode reads the same sequence and installs every value; (F5) the rank-1 .npy header form is used only for rank-1 tensors; (L1/L4) whether WriteNpy, GobEncode and ToMat64 consult the layout before emitting raw storage (they do not: known findings 18, 28); (K3/K1arms) the typed arms of the readers (convFromStrs, ReadNpy) use their own label type and bit size; (LF) every counting loop that emits elements by flat index is a reviewed site or is guarded by the layout predicate and consults the data order (a new flat fast path in a writer is reported); (S14) the readers install the decoded shape through an unlocked access pattern on every path (decoding into a tensor already in use must not silently keep the old shape); (P2) the writers do not modify the tensor. " +
			"Not decided: value-level round trip (number formatting/parsing, header padding arithmetic, CSV record assembly), protobuf/flatbuffers field mapping. Round 7: (S9/L0) the view marker and the predicates on which the encoders decide to write by logical content. Round 11: (F7) every npy header WriteNpy's formats produce for ranks 0-4 is matched by ReadNpy's three patterns with the expected captures (constants evaluated by the analyser); (F8) pb/fb encoder and decoder name the element type with the same Dtype method; (F9) all five decoders clear the receiver's saved pattern and axes, and every data-order case assigns the order. Round 13: (F10) AP.Init installs the decoded strides as given; (F11) addMask installs its argument on every path.",
		Run: func(rc *rules.RC) {
			rules.F10(rc)
			rules.F11(rc)
			rules.F7(rc)
			rules.F9(rc)
			rules.F8(rc)
			rules.O6(rc)
			rules.F4(rc)
			rules.F3(rc)
			rules.WC(rc, 15)
			rules.O6opt(rc)
			rules.F1(rc)
			rules.F2(rc)
			rules.P2(rc, func(k string) bool {
				for _, n := range []string{"WriteNpy", "WriteCSV", "GobEncode", "PBEncode", "FBEncode"} {
					if strings.HasSuffix(k, "."+n) {
						return true
					}
				}
				return false
			}, 4)
			rules.LGuards(rc, "C14")
			// the encoders decide "write by logical content" on IsMaterializable/RequiresIterator: the
			// predicates and the view marker the view constructors leave behind
			rules.S9(rc)
			rules.L0(rc, func(fn string) bool { return !strings.Contains(fn, "prepData") })
			rules.LC(rc, 18) // a new whole-buffer copy inside Materialize is what the encoders would write
			rules.MZ(rc)
			rules.RG(rc) // the protobuf / flatbuffers decoders resolve element types by name from the registration tables
			rules.LF(rc, 20)
			rules.S14(rc)
			rules.K3(rc, fileFilter("dense_io.go", "dense_mask_filling.go"), 2, 25)
		},
	})
	register(&Property{
		ID:        "C16",
		Technique: "static analysis: truth-table check of the data-order predicates and of the iterator decisions over all participants' orders; order-agreement goals on raw two-tensor accesses and exporters; BLAS-gateway order goals; stride-routine selection by order",
		Explain: "Decides: (L0) IsColMajor/IsRowMajor/HasSameOrder are what they claim and prepDataVV/VS/SV/Unary iterate whenever two participants disagree on data order; (L3) raw two-tensor accesses (Copy, Float32/64Engine.Add) and row-major-only kernels (ReduceFirst/ReduceLast) are conditioned on the data order; (L4) exporters into row-major formats consult it; (LB) BLAS gateways derive leading dimensions from each operand's order; (LD) every argument of every BLAS call is the one the operands' and the result's data order and lazy-transpose state require (all 32 layout cases of MatMul, 4 of MatVecMul, Outer, Inner); (T4) stride routines are selected by order in calcStrides and Transpose; (S10) the two stride calculators are one recurrence run in opposite directions; (S11) whoever flips the column-major bit recomputes the strides; (S12) AP.S picks the outermost axis by data order and marks column-major slices non-contiguous; (K3/K1arms) the typed arms of the BLAS gateways agree with each other (an operand swap in one precision is reported); (LC/LF) new raw copies / flat element loops must be layout-guarded and (LF) order-aware. Several of these fail on the pinned tree and are listed as known findings (17-19, 21, 40, 41). " +
			"Not decided: block-size arithmetic of stack/concat under column-major (seed R2C16b is not caught); StackDense order agreement. Round 11: the exporter's order goal also covers arguments passed through Materialize(), which is the identity on contiguous column-major tensors. Round 15: (O6) a recycled tensor header carries no data-order flag.",
		Run: func(rc *rules.RC) {
			rules.O6(rc)
			rules.SM(rc)
			rules.LA(rc)
			rules.SO(rc)
			rules.MZ(rc)
			rules.ND(rc, 36)
			rules.T7(rc)
			rules.S19(rc)
			rules.T8(rc)
			rules.SS(rc)
			rules.WC(rc, 15)
			rules.L0(rc, nil)
			rules.LGuards(rc, "C16")
			rules.LD(rc, 40)
			rules.LC(rc, 18)
			rules.LF(rc, 20)
			rules.T4(rc)
			rules.S12(rc)
			rules.S11(rc)
			rules.S10(rc)
			rules.K3(rc, fileFilter("defaultengine_linalg.go"), 3, 12)
		},
	})
	register(&Property{
		ID:        "C20",
		Technique: "static analysis: every structural rule of the default configuration re-run under each build configuration; declaration parity of tag-selected files; layout-guard goals and width coherence of the specialised float engines; sibling comparison of per-build transpose code",
		Explain: "Decides: (B1) each pair of tag-selected files (transpose copy vs in-place; asm vs pure-Go divmod) declares the same functions with the same signatures; (L1/L2/L3) the Float32/Float64 engines take their vecf fast paths only when no operand requires an iterator, never after the iterator kernel ran, and whether they consult data order (they do not: known finding 21); (K3) they use only accessors and kernels of their own width; (K1/SP) F32/F64 engine methods are the same template and the hand-written Float32Engine/Float64Engine methods are mirror images up to the width; (B3) the pure-Go divmod selected by noasm / non-amd64 returns (a / b, a % b) on every path; (T1,T2,T6,K1w,TMask) the in-place transpose build satisfies the same bookkeeping, sibling and mask rules as the copying build; thorough tier: all of this under default, noasm, inplacetranspose, both, and GOARCH=386. " +
			"Not decided: the assembly divmod, numerical equality of results across engines, the cycle-following arithmetic of the in-place transpose. Round 7: (L0) the float engines' own tensor-scalar preparation decides like the default one (finding 81); (L2) their flat kernels do not run once the shared iterator decision was positive (finding 80); (L1) their Inner refuses views with gaps (finding 79). Round 11: (O8, CF) the saved axes, which only the in-place build reads, are never shared between a tensor and its clone.",
		Quick: []string{"default", "inplacetranspose", "noasm"},
		Run: func(rc *rules.RC) {
			rules.TI(rc)
			rules.RA(rc)
			rules.O8(rc)
			rules.CF(rc)
			rules.T7(rc)
			rules.T11(rc)
			rules.T9(rc)
			rules.T10(rc)
			rules.B1(rc)
			rules.B2(rc)
			rules.B3(rc)
			rules.SP(rc, "C20", 6)
			rules.L0(rc, func(fn string) bool { return strings.Contains(fn, "prepDataVSF") }) // the float engines' own operand preparation
			rules.IP3(rc)
			rules.LGuards(rc, "C20")
			rules.K3(rc, fileFilter("defaultenginefloat32.go", "defaultenginefloat64.go"), 0, 0)
			fams := rules.Families(rc.P)
			rules.K1(rc, fams, func(f string) bool {
				return strings.HasPrefix(f, "tensor.(Float") || strings.HasPrefix(f, "tensor.prepData") || strings.HasPrefix(f, "tensor.handleFuncOpts")
			}, 2)
			rules.T12(rc)
			rules.T6(rc)
			rules.K1w(rc, func(stem string) bool { return strings.Contains(stem, "denseTranspose") }, 4)
			rules.TMask(rc)
		},
	})
	register(&Property{
		ID:        "C18",
		Technique: "static analysis: inventory and classification of all package-level state, call-graph reachability from the operation set, must-hold lockset dataflow over SSA, pool-hygiene mod-set, exactly-once return of pooled scratch headers by abstract interpretation",
		Explain: "Decides the shared-state clauses of race freedom: (P4) every package-level variable of the library is a synchronisation primitive, never written after initialisation, written only by configuration calls, or accessed only under its mutex on every access reachable (CHA call graph; VTA in the thorough tier) from the ~3 600 exported operations (intra-procedural must-hold lockset, meet = intersection); (O6) objects recycled through the tensor pool carry no state to the next borrower; (M7) the pooled scalar scratch header of every generated tensor-scalar method is handed back to the header pool at most once on every mode path (a double return makes the pool serve one header to two goroutines); (O7) only function-local tensors are recycled. With no unsynchronised shared writes and stateless pool objects each goroutine's result is a function of its own inputs. " +
			"Not decided: anything about actual schedules; races inside sync.Pool/channels/BLAS (trusted); read-only-operand purity of the hand-written operations (findings 13, 14, 16 of DESIGN.md are listed there, not decided by this check). Round 7: (PO) an object handed to a pool is not touched afterwards, deferred calls included.",
		Assume: []string{"locks are taken on package-level mutexes by direct calls (the repo's only idiom); interprocedural lock holding is not modelled"},
		Run: func(rc *rules.RC) {
			rules.PO(rc, 4)
			rules.SC(rc)
			rules.CF(rc)
			rules.O8(rc)
			rules.O9(rc, 20)
			rules.RP(rc, nil, 0)
			rules.WC(rc, 15)
			rules.O6opt(rc)
			rules.P4(rc)
			rules.P2(rc, nil, 70)
			rules.O6(rc)
			oa := rules.NewOAnalysis(rc.P)
			rules.O7(rc, oa)
			rules.M7(rc, 300)
		},
	})
	register(&Property{
		ID:        "C19",
		Technique: "static analysis: interprocedural ownership analysis over go/ssa (origin tracing with fixpoint summaries returns-param / retains / writes / recycles), mod-set of the recycle function, unique-owner rule for pool-managed access patterns",
		Explain: "A history-quantified property becomes per-site ownership invariants decided over every function: (O1,O2,O3) no exported function recycles, retains or mutates a caller's []int/Shape/[]Slice/[]bool argument, directly or through any chain of callees (summaries by fixpoint; documented sharing is a named exception table); (O6) ReturnTensor stores a zero value into every leaf field of Dense before pooling it; (O7) ReturnTensor inside the library receives only tensors created in that function, or a parameter under the not-the-reuse-tensor guard; (O8) an access pattern (whose shape/strides slices AP.zero and SetShape return to the ints pool) read out of one object is stored elsewhere only as a move or after Clone, no exported function returns such an alias, no local alias is zeroed into the pool; (T2) the lazy-transpose triple is cleared together; (O10) every freeScalar call lies under the newAlloc flag of scalarToHeader/prepDataVS/prepDataSV, so a scalar operand that is a tensor (aliased, not copied) is never zeroed and pooled. If no live object can reach a slice in the free list and no caller slice is kept, written or recycled, no operation history can corrupt through that channel. " +
			"Not decided: corruption through backing arrays the API documents as shared; use-after-return inside one function (O9) beyond the rules above. Round 7: (PO) publish-last in the pool return functions; (EP) a refused call leaves its receiver and arguments unchanged. Round 11: (P2) no exported read-only operation writes an operand, through any chain of callees; (O13); (AD). Round 13: (SR) no operation returns a second header of an operand as its result; (SA). Round 15: (T1/T2) old and transposeWith are cleared together; (O6p). Round 17: (CSF) the clone of a sparse matrix shares no slice or storage field with its source.",
		Assume: []string{"interface calls resolve to the module's implementing types (CHA restricted to the module)", "flow-insensitive origin tracing through locals and captured variables (over-approximates aliases)"},
		Run: func(rc *rules.RC) {
			rules.O6p(rc)
			rules.T12(rc)
			rules.SA(rc)
			rules.SR(rc)
			rules.P2(rc, nil, 70)
			rules.O13(rc)
			rules.AD(rc)
			rules.PO(rc, 4)
			rules.SC(rc)
			rules.CF(rc)
			rules.CSF(rc)
			rules.O11(rc, 1)
			rules.EP(rc, nil, 100)
			rules.LGuards(rc, "C19")
			rules.M2W(rc, 700)
			rules.MK(rc, 15)
			rules.T7(rc)
			rules.O9(rc, 20)
			rules.V2(rc, 2)
			rules.RP(rc, nil, 0)
			rules.WC(rc, 15)
			rules.O6opt(rc)
			oa := rules.O123(rc)
			rules.O4(rc, oa, 100)
			rules.O6(rc)
			rules.O7(rc, oa)
			rules.O8(rc)
			rules.O12(rc) // replaces O10: since finding 84 no scalar operand is aliased, so an unguarded freeScalar is harmless
		},
	})
	register(&Property{
		ID:        "C07",
		Technique: "static analysis: abstract interpretation of every option-mode case of the generated engine methods over a symbolic term domain, checked against the mode contract",
		Explain: "Decides, for each of the generated StdEng arithmetic, comparison, min/max and unary methods (and Clamp) and for every scenario = option mode {safe, unsafe, reuse, incr} x scalar side x result kind x iterator/raw path x {destination distinct, destination aliasing an operand} x {many elements, one element}: which tensor is returned, that its buffer finally holds Op(L,R) of the original operand values in operand order (incr: destination + Op), that no buffer other than the designated destination, fresh tensors and the scalar scratch header is written (M2), and that every buffer is indexed through its own iterator, never a nil or already consumed one (M3). " +
			"Not decided: that the kernels compute Op (rules K1/K2 of C06/C11/C12 do), that iterators deliver matching coordinates (C05), the hand-written operations' value semantics. Round 11: (RS) raw reshape typestate; (LP) a product's destination comes from handleReuse or is created by the method; (HS) only comparisons and prepReduce waive the destination's element type check; (AD). Round 17: (SP) handleFuncOptsF32 and handleFuncOptsF64 are mirror images (the incr guard of the destination's relabelling).",
		Assume: []string{"the summaries of E-level dispatch (destination = first non-scalar operand; Incr adds; Recv stores) and of storage.Copy/CopyIter/Fill, which rules K1arms/K2 check against the kernels", "sparse operands (swap) are outside the dense properties"},
		Run: func(rc *rules.RC) {
			rules.RA(rc)
			rules.SP(rc, "C07", 1)
			rules.HS(rc)
			rules.RS(rc)
			rules.LP(rc)
			rules.AD(rc)
			rules.K1(rc, rules.Families(rc.P), func(f string) bool { return strings.HasPrefix(f, "internal/execution.") }, 2000)
			rules.O9(rc, 20)
			rules.K1op(rc, []string{"defaultengine_arith.go", "defaultengine_cmp.go", "defaultengine_unary.go", "defaultengine_minmax.go", "defaultengine_misc.go"}, 30)
			rules.WC(rc, 15)
			rules.O6opt(rc)
			rules.M2(rc, nil, 40, 900)
			rules.M7(rc, 300)
			rules.LC(rc, 18) // a flat kernel or copy added to the hand-written option handling (handleIncr, handleReuse)
			rules.O12(rc)    // the interpreter's frame treats the scalar's scratch header as writable: it never aliases an operand
			rules.IP3(rc)
			rules.L0(rc, nil)
			rules.M4(rc, nil, 40)
			rules.LGuards(rc, "C07")
			rules.P3map(rc)
			rules.EC(rc, fileFilterName("defaultengine_prep.go", "defaultengine_arith.go", "defaultengine_cmp.go", "defaultengine_unary.go", "defaultengine_minmax.go", "defaultengine_misc.go", "defaultengine_mapreduce.go", "dense_linalg.go", "utils.go", "flags.go"), 50)
		},
	})
	kmExplain := func(what, groups string) string {
		return "Decides exhaustively for " + what + ": (K1) all type specialisations of each kernel template agree after type erasure; (K2/K7) each kernel's guarded updates equal the operator table's term for its operation, variant and type class - operator, operand order, destination, every slice indexed through its own iterator, body guarded by all validity flags; (K1arms/K3) every arm of every dispatcher in internal/execution/" + groups + " uses only constructs of its own label type and agrees with its sibling arms; (K5) every dispatcher refuses unlisted types with an error; (K11) the type-class tables that gate the operations are the sets go/types predicts; (M2/M3) every option-mode case of the generated engine methods returns the designated tensor holding Op(L,R) in operand order and pairs buffers with their own iterators; (M4) type/shape gates dominate every kernel call; (M5) the package functions and Dense methods delegate to the engine method of their own name with operands in order; (K4, round 7) the arm for type T of one operation's dispatcher equals the arm for T of its sibling operations of the same variant, so an edit made identically in every arm of one dispatcher is reported; (IP3) the operand preparation hands out each participant's own fresh iterator. " +
			"Not decided: IEEE/overflow behaviour of the Go operator (the kernel provably *is* the Go operator), vecf32/vecf64/math bodies (trusted by name), and that iterators deliver matching coordinates (C05)."
	}
	register(&Property{
		ID:        "C06",
		Technique: "static analysis: canonical-form comparison of kernels against an operator table and against sibling specialisations; type-token coherence of dispatch arms; abstract interpretation of option-mode cases (AST + go/types)",
		Explain:   kmExplain("the arithmetic (Add Sub Mul Div Mod Pow) and min/max kernels, dispatchers and engine methods", "eng_arith.go, eng_minmaxbetween.go") + " Round 11: (SP) Float32Engine.Add mirrors Float64Engine.Add.",
		Assume:    []string{"see C07 for the interpreter's summaries"},
		Run: func(rc *rules.RC) {
			rules.SP(rc, "C06", 1)
			rules.ND(rc, 36)
			rules.IP3(rc)
			fams := rules.Families(rc.P)
			f := groupFilter("arith", "minmax")
			rules.K1(rc, fams, f, 1200)
			rules.K2(rc, fams, f, 1200)
			rules.K3(rc, fileFilter("eng_arith.go", "eng_minmaxbetween.go", "eng_arith_manual.go"), 30, 430)
			rules.M2(rc, mGroup("arith", "minmax"), 16, 350)
			rules.L0(rc, nil)
			rules.M4(rc, mGroup("arith", "minmax"), 16)
			rules.K1op(rc, []string{"api_arith.go", "api_minmax.go", "dense_arith.go", "defaultengine_arith.go", "defaultengine_minmax.go"}, 20)
			rules.K5(rc, map[string]bool{"eng_arith.go": true, "eng_minmaxbetween.go": true}, 10)
			rules.K4(rc, []string{"eng_arith.go", "eng_minmaxbetween.go"}, 400)
			rules.K11(rc)
		},
	})
	register(&Property{
		ID:        "C11",
		Technique: "static analysis: canonical-form comparison of comparison kernels against an operator table and siblings; type-token coherence of dispatch arms; abstract interpretation of option-mode cases",
		Explain:   kmExplain("the comparison (Gt Gte Lt Lte Eq Ne) kernels in their bool and same-type forms, dispatchers and engine methods", "eng_cmp.go") + " Round 11: (RT) whether a comparison checks a caller-supplied destination against Bool - on the pinned tree none does (known finding 92).",
		Assume:    []string{"see C07 for the interpreter's summaries"},
		Run: func(rc *rules.RC) {
			rules.RT(rc)
			rules.ND(rc, 36)
			rules.IP3(rc)
			fams := rules.Families(rc.P)
			f := groupFilter("cmp")
			rules.K1(rc, fams, f, 1040)
			rules.K2(rc, fams, f, 1040)
			rules.K3(rc, fileFilter("eng_cmp.go"), 24, 345)
			rules.M2(rc, mGroup("cmp"), 12, 300)
			rules.L0(rc, nil)
			rules.M4(rc, mGroup("cmp"), 12)
			rules.K1op(rc, []string{"api_cmp.go", "dense_cmp.go", "defaultengine_cmp.go"}, 20)
			rules.K5(rc, map[string]bool{"eng_cmp.go": true}, 10)
			rules.K4(rc, []string{"eng_cmp.go"}, 340)
			rules.K11(rc)
		},
	})
	register(&Property{
		ID:        "C12",
		Technique: "static analysis: canonical-form comparison of unary/map kernels against an operator table and siblings; type-token coherence of dispatch arms; abstract interpretation of option-mode cases",
		Explain:   kmExplain("the unary (Neg Inv Square Cube Abs Sign Clamp Sqrt Cbrt InvSqrt Exp Log Log2 Log10 Tanh) and Map kernels, dispatchers and engine methods", "eng_unary.go, eng_map.go") + " Round 11: (HS) Clamp no longer waives the destination's element type check (finding 91).",
		Assume:    []string{"see C07 for the interpreter's summaries", "math/math32/cmplx routines are trusted by name"},
		Run: func(rc *rules.RC) {
			rules.HS(rc)
			fams := rules.Families(rc.P)
			f := groupFilter("unary", "map")
			rules.K1(rc, fams, f, 340)
			rules.K2(rc, fams, f, 340)
			rules.K3(rc, fileFilter("eng_unary.go", "eng_map.go"), 30, 250)
			rules.M2(rc, mGroup("unary"), 15, 178)
			rules.L0(rc, nil)
			rules.M4(rc, mGroup("unary"), 15)
			rules.P3map(rc)
			rules.K1op(rc, []string{"api_unary.go", "defaultengine_unary.go", "defaultengine_misc.go"}, 10)
			rules.K5(rc, map[string]bool{"eng_unary.go": true, "eng_map.go": true}, 10)
			rules.K4(rc, []string{"eng_unary.go"}, 200)
			rules.K11(rc)
		},
	})
	register(&Property{
		ID:        "C17",
		Technique: "static analysis: type-erased canonical forms of all generated specialisations compared within each family (sibling agreement), and type-token coherence of every arm of every type switch, over the type-checked AST",
		Explain: "Decides, for every generated per-type function of the module (kernels, typed accessors, native converters) and every arm of every switch over element types: (K1) all specialisations of one template that belong to one type class have the same canonical form after erasing their own element type; (K1arms) the same for the arms of one switch; (K3) every typed accessor, specialised kernel, Dtype/reflect token, BLAS precision letter and type assertion in an arm denotes the arm's label type; (K2) the canonical form of each arithmetic/comparison/unary/min-max kernel equals the operator table's definition for its operation, variant and type class. " +
			"Not decided: behaviour of the Go operators themselves, accuracy of math routines, and agreement of results after conversion between types (a runtime relation). Round 7: (K4) the arm for type T of one operation's dispatcher equals the arm for T of its sibling operations; (K12) dispatchers do not return successfully in front of the switch; (K3) arms serving several types use no construct specific to one of them. Round 11: (CVI) an IsInf(x, s) branch yields the infinity of sign s. Round 13: (T8) over every transpose kernel including the byte-copying one. Round 17: (ITW) as in C04, for Memset.",
		Assume: []string{"sibling specialisations are meant to be instances of one template (the genlib2 design)", "a template-wide change that K2's operator table does not cover is not detected by sibling comparison"},
		Run: func(rc *rules.RC) {
			rules.ITW(rc)
			rules.T8(rc)
			rules.CVI(rc)
			rules.SP(rc, "C17", 3)
			rules.DA(rc, 50)
			fams := rules.Families(rc.P)
			rules.K1(rc, fams, nil, 2900)
			rules.K3(rc, nil, 150, 1700)
			rules.K2(rc, fams, nil, 2550)
			rules.K9(rc, fams, 120)
			rules.K8(rc, 100)
			rules.K5(rc, map[string]bool{"eng_arith.go": true, "eng_cmp.go": true, "eng_unary.go": true, "eng_minmaxbetween.go": true, "eng_map.go": true, "eng_reduce.go": true, "eng_argmethods.go": true, "reduction_specialization.go": true}, 100)
			rules.K11(rc)
			rules.K1op(rc, []string{"api_arith.go", "api_cmp.go", "api_unary.go", "api_minmax.go", "dense_arith.go", "dense_cmp.go", "defaultengine_arith.go", "defaultengine_cmp.go", "defaultengine_unary.go", "defaultengine_minmax.go"}, 90)
			rules.K4(rc, []string{"eng_arith.go", "eng_minmaxbetween.go", "eng_cmp.go", "eng_unary.go"}, 1000)
			rules.K12(rc, 80)
			rules.KB(rc)
			rules.RG(rc)
		},
	})
}
