package main

import (
	"strings"

	"tcheck/load"
	"tcheck/rules"
	"tcheck/spec"
)

// Property describes how one property is decided.
type Property struct {
	ID        string
	Technique string
	Explain   string
	Assume    []string
	Run       func(rc *rules.RC)
	// Configs analysed per tier.
	Quick, Thorough []string
}

var allConfigs = []string{"default", "noasm", "inplacetranspose", "noasm,inplacetranspose", "386"}

var trusted = []string{
	"go/parser, go/types, go/ssa, go/cfg (golang.org/x/tools v0.29.0) and go/packages loading of /repo's working tree",
	"semantics of Go's built-in operators",
	"math, math32, math/cmplx, vecf32, vecf64 and gonum BLAS routines mean what their names say (bodies not analysed)",
	"divmod_amd64.s (assembly is outside the analysable program)",
	"the oracle tables in checker/spec (operator table, variant contract, mode contract, exception tables)",
}

func execFamily(fam string) (spec.Variant, bool) {
	const pre = "internal/execution."
	if !strings.HasPrefix(fam, pre) {
		return spec.Variant{}, false
	}
	return spec.ParseFamily(fam[len(pre):])
}

func groupFilter(groups ...string) rules.FamilyFilter {
	return func(fam string) bool {
		v, ok := execFamily(fam)
		if !ok {
			return false
		}
		for _, g := range groups {
			if v.Group == g {
				return true
			}
		}
		return false
	}
}

func fileFilter(files ...string) func(fi *load.FuncInfo) bool {
	return func(fi *load.FuncInfo) bool {
		for _, f := range files {
			if fi.File == f {
				return true
			}
		}
		return false
	}
}

var properties = map[string]*Property{}

func register(p *Property) {
	if len(p.Quick) == 0 {
		p.Quick = []string{"default"}
	}
	if len(p.Thorough) == 0 {
		p.Thorough = allConfigs
	}
	properties[p.ID] = p
}

func init() {
	register(&Property{
		ID:        "C17",
		Technique: "static analysis: type-erased canonical forms of all generated specialisations compared within each family (sibling agreement), and type-token coherence of every arm of every type switch, over the type-checked AST",
		Explain: "Decides, for every generated per-type function of the module (kernels, typed accessors, native converters) and every arm of every switch over element types: (K1) all specialisations of one template that belong to one type class have the same canonical form after erasing their own element type; (K1arms) the same for the arms of one switch; (K3) every typed accessor, specialised kernel, Dtype/reflect token, BLAS precision letter and type assertion in an arm denotes the arm's label type; (K2) the canonical form of each arithmetic/comparison/unary/min-max kernel equals the operator table's definition for its operation, variant and type class. " +
			"Not decided: behaviour of the Go operators themselves, accuracy of math routines, and agreement of results after conversion between types (a runtime relation).",
		Assume: []string{"sibling specialisations are meant to be instances of one template (the genlib2 design)", "a template-wide change that K2's operator table does not cover is not detected by sibling comparison"},
		Run: func(rc *rules.RC) {
			fams := rules.Families(rc.P)
			rules.K1(rc, fams, nil, 2900)
			rules.K3(rc, nil, 150, 1700)
			rules.K2(rc, fams, nil, 2550)
			rules.K9(rc, fams, 120)
			rules.K8(rc, 100)
		},
	})
}
