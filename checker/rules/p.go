package rules

import (
	"fmt"
	"go/token"
	"go/types"
	"sort"
	"strings"

	"golang.org/x/tools/go/callgraph"
	"golang.org/x/tools/go/ssa"

	"tcheck/load"
)

// Engine P: global state and locksets (C18).
//
// P4: every package-level variable of the module is inventoried and classified:
//   sync      - its type is a synchronisation primitive (Mutex, Pool, channel, array of Pool);
//   constant  - never written outside its declaration / init;
//   config    - written only by functions outside the operation set (Use, UsePool, …);
//   shared    - written by code reachable from the operation set.
// For a shared global, every access reachable from the operation set must happen while its
// mutex is held (intra-procedural must-hold lockset over the SSA CFG; meet = intersection).

type gAccess struct {
	fn    *ssa.Function
	ins   ssa.Instruction
	write bool
	held  map[*ssa.Global]bool
	what  string
}

// configuration entry points: not operations on tensors (appendix A3 of DESIGN.md)
var pConfigFuncs = map[string]string{
	"tensor.Use":         "selects the BLAS implementation (configuration)",
	"tensor.UsePool":     "configuration",
	"tensor.DontUsePool": "configuration",
}

func isSyncType(t types.Type) bool {
	switch x := t.(type) {
	case *types.Pointer:
		return isSyncType(x.Elem())
	case *types.Chan:
		return true
	case *types.Array:
		return isSyncType(x.Elem())
	case *types.Named:
		if x.Obj().Pkg() != nil && x.Obj().Pkg().Path() == "sync" {
			return true
		}
	}
	return false
}

// globalRoot: the global an address is rooted at.
func globalRoot(v ssa.Value) *ssa.Global {
	for i := 0; i < 20; i++ {
		switch x := v.(type) {
		case *ssa.Global:
			return x
		case *ssa.FieldAddr:
			v = x.X
		case *ssa.IndexAddr:
			v = x.X
		case *ssa.UnOp:
			// pointer loaded from a global (e.g. allTypes is *typeclass): the pointee is
			// shared state of that global
			if x.Op == token.MUL {
				v = x.X
			} else {
				return nil
			}
		default:
			return nil
		}
	}
	return nil
}

// locksets computes, per instruction index, the set of mutex globals that must be held.
func locksets(fn *ssa.Function) map[ssa.Instruction]map[*ssa.Global]bool {
	type set = map[*ssa.Global]bool
	in := map[*ssa.BasicBlock]set{}
	out := map[*ssa.BasicBlock]set{}
	res := map[ssa.Instruction]set{}
	lockOp := func(ins ssa.Instruction) (*ssa.Global, string) {
		c, ok := ins.(*ssa.Call)
		if !ok {
			return nil, ""
		}
		f := c.Common().StaticCallee()
		if f == nil || f.Pkg == nil || f.Pkg.Pkg.Path() != "sync" || len(c.Common().Args) == 0 {
			return nil, ""
		}
		g := globalRoot(c.Common().Args[0])
		if g == nil {
			return nil, ""
		}
		switch f.Name() {
		case "Lock", "RLock":
			return g, "lock"
		case "Unlock", "RUnlock":
			return g, "unlock"
		}
		return nil, ""
	}
	copySet := func(s set) set {
		n := set{}
		for k := range s {
			n[k] = true
		}
		return n
	}
	var universe set
	changed := true
	for iter := 0; changed && iter < 50; iter++ {
		changed = false
		for _, b := range fn.Blocks {
			var cur set
			if len(b.Preds) == 0 {
				cur = set{}
			} else {
				first := true
				for _, p := range b.Preds {
					o, ok := out[p]
					if !ok {
						continue // optimistic: unvisited predecessor
					}
					if first {
						cur = copySet(o)
						first = false
					} else {
						for k := range cur {
							if !o[k] {
								delete(cur, k)
							}
						}
					}
				}
				if cur == nil {
					cur = copySet(universe)
				}
			}
			in[b] = cur
			s := copySet(cur)
			for _, ins := range b.Instrs {
				res[ins] = copySet(s)
				if g, op := lockOp(ins); g != nil {
					if op == "lock" {
						s[g] = true
					} else {
						delete(s, g)
					}
				}
			}
			old, had := out[b]
			same := had && len(old) == len(s)
			if same {
				for k := range s {
					if !old[k] {
						same = false
					}
				}
			}
			if !same {
				out[b] = s
				changed = true
			}
		}
	}
	return res
}

func P4(rc *RC) {
	rc.S.Declare("P4", "global state: every package-level variable is a synchronisation primitive, never written after initialisation, written only by configuration calls, or - when code reachable from tensor operations writes it - accessed only while its mutex is held", 30)
	p := rc.P
	p.SSA()
	cg := p.CHA()
	if rc.Thorough() {
		cg = p.VTA()
	}
	// operation set: exported functions and methods of the module, minus configuration
	inModule := func(fn *ssa.Function) bool {
		return fn != nil && fn.Pkg != nil && strings.HasPrefix(fn.Pkg.Pkg.Path(), load.Module)
	}
	var roots []*ssa.Function
	for _, fn := range p.ModuleFuncs() {
		if fn.Parent() != nil || !oExported(fn) {
			continue
		}
		if _, isCfg := pConfigFuncs[oFnKey(fn)]; isCfg {
			continue
		}
		if strings.HasPrefix(fn.Name(), "Register") {
			continue
		}
		roots = append(roots, fn)
	}
	reach := map[*ssa.Function]bool{}
	var stack []*ssa.Function
	for _, r := range roots {
		reach[r] = true
		stack = append(stack, r)
	}
	for len(stack) > 0 {
		fn := stack[len(stack)-1]
		stack = stack[:len(stack)-1]
		n := cg.Nodes[fn]
		if n == nil {
			continue
		}
		for _, e := range n.Out {
			c := e.Callee.Func
			if !inModule(c) || reach[c] {
				continue
			}
			reach[c] = true
			stack = append(stack, c)
		}
		// anonymous functions defined in fn
		for _, af := range fn.AnonFuncs {
			if !reach[af] {
				reach[af] = true
				stack = append(stack, af)
			}
		}
	}
	rc.S.Count("P4.operation-set-roots", len(roots))
	rc.S.Count("P4.reachable-functions", len(reach))
	_ = callgraph.CalleesOf
	// accesses
	acc := map[*ssa.Global][]gAccess{}
	for _, fn := range p.ModuleFuncs() {
		if !inModule(fn) {
			continue
		}
		var ls map[ssa.Instruction]map[*ssa.Global]bool
		get := func(ins ssa.Instruction) map[*ssa.Global]bool {
			if ls == nil {
				ls = locksets(fn)
			}
			return ls[ins]
		}
		for _, b := range fn.Blocks {
			for _, ins := range b.Instrs {
				switch x := ins.(type) {
				case *ssa.Store:
					if g := globalRoot(x.Addr); g != nil {
						acc[g] = append(acc[g], gAccess{fn, ins, true, get(ins), "store"})
					}
				case *ssa.UnOp:
					if x.Op == token.MUL {
						if g, ok := x.X.(*ssa.Global); ok {
							acc[g] = append(acc[g], gAccess{fn, ins, false, get(ins), "load"})
						} else if g := globalRoot(x.X); g != nil {
							acc[g] = append(acc[g], gAccess{fn, ins, false, get(ins), "load through"})
						}
					}
				case *ssa.MapUpdate:
					if u, ok := x.Map.(*ssa.UnOp); ok {
						if g := globalRoot(u.X); g != nil {
							acc[g] = append(acc[g], gAccess{fn, ins, true, get(ins), "map update"})
						}
					}
				}
			}
		}
	}
	// writes through a pointer that was handed to a callee: a fixpoint summary "callee writes
	// through its parameter j" (direct store at an address rooted in the parameter, or the
	// parameter passed on to a writing callee) turns `bump(allTypes)` into a write access of the
	// global at the call site.
	paramRoot := func(fn *ssa.Function, v ssa.Value) int {
		for i := 0; i < 30; i++ {
			switch x := v.(type) {
			case *ssa.Parameter:
				for k, pp := range fn.Params {
					if pp == x {
						return k
					}
				}
				return -1
			case *ssa.FieldAddr:
				v = x.X
			case *ssa.IndexAddr:
				v = x.X
			case *ssa.UnOp:
				if x.Op != token.MUL {
					return -1
				}
				v = x.X
			case *ssa.Slice:
				v = x.X
			default:
				return -1
			}
		}
		return -1
	}
	writesParam := map[*ssa.Function]map[int]bool{}
	mark := func(fn *ssa.Function, k int) bool {
		if k < 0 {
			return false
		}
		if writesParam[fn] == nil {
			writesParam[fn] = map[int]bool{}
		}
		if writesParam[fn][k] {
			return false
		}
		writesParam[fn][k] = true
		return true
	}
	for iter := 0; iter < 20; iter++ {
		changed := false
		for _, fn := range p.ModuleFuncs() {
			if !inModule(fn) {
				continue
			}
			for _, b := range fn.Blocks {
				for _, ins := range b.Instrs {
					switch x := ins.(type) {
					case *ssa.Store:
						if mark(fn, paramRoot(fn, x.Addr)) {
							changed = true
						}
					case *ssa.MapUpdate:
						if mark(fn, paramRoot(fn, x.Map)) {
							changed = true
						}
					case ssa.CallInstruction:
						g := x.Common().StaticCallee()
						if g == nil || writesParam[g] == nil {
							continue
						}
						for j := range writesParam[g] {
							if j < len(x.Common().Args) {
								if mark(fn, paramRoot(fn, x.Common().Args[j])) {
									changed = true
								}
							}
						}
					}
				}
			}
		}
		if !changed {
			break
		}
	}
	nIndirect := 0
	for _, fn := range p.ModuleFuncs() {
		if !inModule(fn) {
			continue
		}
		var ls map[ssa.Instruction]map[*ssa.Global]bool
		for _, b := range fn.Blocks {
			for _, ins := range b.Instrs {
				ci, ok := ins.(ssa.CallInstruction)
				if !ok {
					continue
				}
				g := ci.Common().StaticCallee()
				if g == nil || writesParam[g] == nil {
					continue
				}
				for j := range writesParam[g] {
					if j >= len(ci.Common().Args) {
						continue
					}
					arg := ci.Common().Args[j]
					gl := globalRoot(arg)
					if gl == nil {
						if u, ok := arg.(*ssa.UnOp); ok && u.Op == token.MUL {
							gl = globalRoot(u.X)
						}
					}
					if gl == nil {
						continue
					}
					if ls == nil {
						ls = locksets(fn)
					}
					nIndirect++
					acc[gl] = append(acc[gl], gAccess{fn, ins, true, ls[ins], "write through " + g.Name() + "()"})
				}
			}
		}
	}
	rc.S.Count("P4.writes-through-callee-parameters", nIndirect)
	// slices handed to an appender: append(g, …) whose result goes elsewhere, bytes.NewBuffer(g)
	// (the buffer takes ownership and appends in place while capacity lasts)
	appendedThrough := map[*ssa.Global]string{}
	initVal := map[*ssa.Global]ssa.Value{}
	loadedGlobal := func(v ssa.Value) *ssa.Global {
		for i := 0; i < 5; i++ {
			switch x := v.(type) {
			case *ssa.UnOp:
				if x.Op == token.MUL {
					if g, ok := x.X.(*ssa.Global); ok {
						return g
					}
				}
				return nil
			case *ssa.Slice:
				v = x.X
			case *ssa.ChangeType:
				v = x.X
			default:
				return nil
			}
		}
		return nil
	}
	for _, fn := range p.ModuleFuncs() {
		if !inModule(fn) {
			continue
		}
		root := fn
		for root.Parent() != nil {
			root = root.Parent()
		}
		isInit := root.Name() == "init" || strings.HasPrefix(root.Name(), "init#")
		for _, b := range fn.Blocks {
			for _, ins := range b.Instrs {
				if st, ok := ins.(*ssa.Store); ok && isInit {
					if g, ok := st.Addr.(*ssa.Global); ok {
						initVal[g] = st.Val
					}
				}
				ci, ok := ins.(ssa.CallInstruction)
				if !ok || len(ci.Common().Args) == 0 {
					continue
				}
				what := ""
				if bi, ok := ci.Common().Value.(*ssa.Builtin); ok && bi.Name() == "append" {
					what = "append"
				} else if c := ci.Common().StaticCallee(); c != nil && c.Pkg != nil && c.Pkg.Pkg.Path() == "bytes" && c.Name() == "NewBuffer" {
					what = "bytes.NewBuffer"
				}
				if what == "" {
					continue
				}
				if g := loadedGlobal(ci.Common().Args[0]); g != nil && !isInit {
					appendedThrough[g] = what + " in " + oFnKey(fn)
				}
			}
		}
	}
	var globals []*ssa.Global
	for path, sp := range p.SSAPkgs {
		if !strings.HasPrefix(path, load.Module) || strings.HasSuffix(path, "/genlib2") {
			continue // genlib2 is the code generator, not part of the library
		}
		for _, m := range sp.Members {
			if g, ok := m.(*ssa.Global); ok {
				globals = append(globals, g)
			}
		}
	}
	sort.Slice(globals, func(i, j int) bool { return globals[i].String() < globals[j].String() })
	for _, g := range globals {
		name := load.Short(g.Pkg.Pkg.Path()) + "." + g.Name()
		if strings.HasPrefix(g.Name(), "init$") {
			continue
		}
		pos := p.Pos(g.Pos())
		elem := g.Type().(*types.Pointer).Elem()
		if isSyncType(elem) {
			rc.S.Ok("P4", name, pos, "synchronisation primitive ("+elem.String()+")").Trivial = true
			continue
		}
		var writes, opWrites []gAccess
		for _, a := range acc[g] {
			if !a.write {
				continue
			}
			root := a.fn
			for root.Parent() != nil {
				root = root.Parent()
			}
			if root.Name() == "init" || strings.HasPrefix(root.Name(), "init#") {
				continue
			}
			writes = append(writes, a)
			if reach[a.fn] {
				opWrites = append(opWrites, a)
			}
		}
		switch {
		case len(writes) == 0:
			if use := appendedThrough[g]; use != "" {
				if why := spareCapacity(initVal[g]); why != "" {
					o := rc.S.Viol("P4", name, pos, fmt.Sprintf("global %s is never assigned after initialisation, but %s appends through it and its initial value %s: the appended bytes land in the shared backing array, so concurrent operations overwrite each other's data", name, use, why))
					o.Sig = "append through shared slice with spare capacity"
					continue
				}
				rc.S.Ok("P4", name, pos, "never written after initialisation; "+use+" appends through it, and its initial value has no spare capacity (the first append reallocates)")
				continue
			}
			rc.S.Ok("P4", name, pos, "never written after initialisation")
		case len(opWrites) == 0:
			var who []string
			for _, w := range writes {
				who = append(who, oFnKey(w.fn))
			}
			rc.S.Ok("P4", name, pos, "written only by configuration calls outside the operation set: "+strings.Join(uniqSorted(who), ", "))
		default:
			// the mutex: the one held at every operation-set write
			var common map[*ssa.Global]bool
			for i, w := range opWrites {
				if i == 0 {
					common = map[*ssa.Global]bool{}
					for k := range w.held {
						common[k] = true
					}
				} else {
					for k := range common {
						if !w.held[k] {
							delete(common, k)
						}
					}
				}
			}
			if len(common) == 0 {
				w := opWrites[0]
				o := rc.S.Viol("P4", name, p.Pos(w.ins.Pos()), fmt.Sprintf("global %s is written (%s in %s) by code reachable from tensor operations without holding any mutex: concurrent operations race on it", name, w.what, oFnKey(w.fn)))
				o.Sig = "unsynchronised write in " + oFnKey(w.fn)
				continue
			}
			var mu *ssa.Global
			for k := range common {
				if mu == nil || k.Name() < mu.Name() {
					mu = k
				}
			}
			var bad []string
			n := 0
			for _, a := range acc[g] {
				if !reach[a.fn] {
					continue
				}
				n++
				if !a.held[mu] {
					bad = append(bad, fmt.Sprintf("%s of %s in %s at %s without holding %s", a.what, name, oFnKey(a.fn), p.Pos(a.ins.Pos()), mu.Name()))
				}
			}
			if len(bad) > 0 {
				o := rc.S.Viol("P4", name, pos, strings.Join(bad, "; "))
				o.Sig = fmt.Sprintf("%d unlocked accesses: %s", len(bad), stripPos(bad[0]))
			} else {
				rc.S.Ok("P4", name, pos, fmt.Sprintf("%d accesses reachable from operations, all under %s", n, mu.Name()))
			}
		}
	}
}

// spareCapacity says why the initial value of a package-level slice may have cap > len ("" when
// it provably has none: nil, a composite literal, a conversion of a constant string, or
// make with equal length and capacity).
func spareCapacity(v ssa.Value) string {
	switch x := v.(type) {
	case nil:
		return ""
	case *ssa.Const:
		return ""
	case *ssa.Slice:
		if _, ok := x.X.(*ssa.Alloc); ok && x.Low == nil && x.High == nil && x.Max == nil {
			return "" // composite literal: the whole fresh array
		}
		return "is a reslice (capacity may exceed length)"
	case *ssa.Convert:
		if _, ok := x.X.(*ssa.Const); ok {
			return "" // []byte("…") of a constant at package level is laid out statically, len == cap
		}
		return "is a conversion of a non-constant value"
	case *ssa.MakeSlice:
		if x.Len == x.Cap {
			return ""
		}
		if a, ok := x.Len.(*ssa.Const); ok {
			if b, ok := x.Cap.(*ssa.Const); ok && a.Int64() == b.Int64() {
				return ""
			}
		}
		return "is made with a capacity larger than its length"
	case *ssa.Call:
		if bi, ok := x.Call.Value.(*ssa.Builtin); ok && bi.Name() == "append" {
			return "is built with append (capacity beyond the length is unspecified)"
		}
		return "comes from a call whose result may have spare capacity"
	}
	return "is not provably len == cap"
}

func uniqSorted(s []string) []string {
	sort.Strings(s)
	return uniq(s)
}
