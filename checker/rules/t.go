package rules

import (
	"fmt"
	"go/types"
	"regexp"
	"sort"
	"strconv"
	"strings"

	"golang.org/x/tools/go/ssa"

	"tcheck/ir"
	"tcheck/load"
)

// Engine T: typestate of the lazy-transpose triple (old, transposeWith, AP) of Dense.
//
// Per function (closures included) and per object, the events on the three fields are
// collected from the SSA form: a field is *set* by a store of a non-zero value or by
// CloneTo(&x.f), and *cleared* by a store of a zero value or by zero()/zeroOnly() on it.
//   T1  whoever sets old also sets transposeWith and AP on that object;
//   T2  whoever clears old also clears transposeWith, and vice versa.

type tEvents struct {
	set, clear map[string]bool
	pos        map[string]string
}

func fieldOfDense(fa *ssa.FieldAddr) (string, bool) {
	pt, ok := fa.X.Type().Underlying().(*types.Pointer)
	if !ok {
		return "", false
	}
	n, ok := pt.Elem().(*types.Named)
	if !ok || n.Obj().Name() != "Dense" {
		return "", false
	}
	st := n.Underlying().(*types.Struct)
	return st.Field(fa.Field).Name(), true
}

// tAddr resolves an address to (object, field of Dense) for the fields AP, old, transposeWith.
func tAddr(v ssa.Value) (ssa.Value, string, bool) {
	switch x := v.(type) {
	case *ssa.FieldAddr:
		if f, ok := fieldOfDense(x); ok {
			if f == "AP" || f == "old" || f == "transposeWith" {
				return x.X, f, true
			}
			return nil, "", false
		}
		// a sub-field of AP/old: &x.old.shape
		if obj, f, ok := tAddr(x.X); ok {
			return obj, f + ".*", true
		}
	case *ssa.Call:
		// accessor methods that hand out the address of old
		if f := x.Common().StaticCallee(); f != nil && f.Name() == "oldAP" && len(x.Common().Args) == 1 {
			return x.Common().Args[0], "old", true
		}
		if x.Common().IsInvoke() && x.Common().Method.Name() == "oldAP" {
			return x.Common().Value, "old", true
		}
	}
	return nil, "", false
}

func T12(rc *RC) {
	rc.S.Declare("T1", "lazy-transpose triple is set together: a function that gives an object a non-zero old also gives it transposeWith and AP", 3)
	rc.S.Declare("T2", "lazy-transpose triple is cleared together: a function that clears an object's old also clears its transposeWith and vice versa", 3)
	p := rc.P
	p.SSA()
	// group closures with their parents
	type unit struct {
		root *ssa.Function
		fns  []*ssa.Function
	}
	units := map[*ssa.Function]*unit{}
	var roots []*ssa.Function
	for _, fn := range p.ModuleFuncs() {
		if fn.Pkg == nil || fn.Pkg.Pkg.Path() != load.Module {
			continue
		}
		r := fn
		for r.Parent() != nil {
			r = r.Parent()
		}
		if units[r] == nil {
			units[r] = &unit{root: r}
			roots = append(roots, r)
		}
		units[r].fns = append(units[r].fns, fn)
	}
	sort.Slice(roots, func(i, j int) bool { return oFnKey(roots[i]) < oFnKey(roots[j]) })
	objName := func(v ssa.Value) string {
		switch x := v.(type) {
		case *ssa.Parameter:
			return x.Name()
		case *ssa.FreeVar:
			return x.Name()
		case *ssa.Alloc:
			return "new object"
		case *ssa.UnOp:
			if fv, ok := x.X.(*ssa.FreeVar); ok {
				return fv.Name()
			}
			if al, ok := x.X.(*ssa.Alloc); ok {
				return al.Comment
			}
		}
		n := v.Name()
		if c, ok := v.(*ssa.Call); ok {
			if f := c.Common().StaticCallee(); f != nil {
				return "result of " + f.Name()
			}
		}
		return n
	}
	for _, r := range roots {
		if strings.HasPrefix(p.FileOf(r.Pos()), "sparse") {
			continue
		}
		switch r.Name() {
		case "setOldAP", "setAP", "setTransposeAxes":
			continue // field setters: their callers are accounted for
		}
		ev := map[string]*tEvents{} // by object name
		get := func(obj ssa.Value) *tEvents {
			// the same tensor seen through an interface value and through its asserted
			// concrete type (d, ok := x.(*Dense)) is one object
			for i := 0; i < 8; i++ {
				switch x := obj.(type) {
				case *ssa.TypeAssert:
					obj = x.X
					continue
				case *ssa.Extract:
					if ta, ok := x.Tuple.(*ssa.TypeAssert); ok && x.Index == 0 {
						obj = ta.X
						continue
					}
				case *ssa.ChangeInterface:
					obj = x.X
					continue
				case *ssa.MakeInterface:
					obj = x.X
					continue
				}
				break
			}
			k := objName(obj)
			if ev[k] == nil {
				ev[k] = &tEvents{set: map[string]bool{}, clear: map[string]bool{}, pos: map[string]string{}}
			}
			return ev[k]
		}
		for _, fn := range units[r].fns {
			for _, b := range fn.Blocks {
				for _, ins := range b.Instrs {
					switch x := ins.(type) {
					case *ssa.Store:
						obj, f, ok := tAddr(x.Addr)
						if !ok || strings.HasSuffix(f, ".*") {
							continue
						}
						e := get(obj)
						if isZeroValue(x.Val) {
							e.clear[f] = true
						} else {
							e.set[f] = true
						}
						e.pos[f] = p.Pos(x.Pos())
					case ssa.CallInstruction:
						cc := x.Common()
						f := cc.StaticCallee()
						if f == nil {
							continue
						}
						switch f.Name() {
						case "zero", "zeroOnly":
							if len(cc.Args) > 0 {
								if obj, fld, ok := tAddr(cc.Args[0]); ok && !strings.HasSuffix(fld, ".*") {
									get(obj).clear[fld] = true
									get(obj).pos[fld] = p.Pos(ins.Pos())
								}
							}
						case "CloneTo":
							if len(cc.Args) > 1 {
								if obj, fld, ok := tAddr(cc.Args[1]); ok && !strings.HasSuffix(fld, ".*") {
									get(obj).set[fld] = true
									get(obj).pos[fld] = p.Pos(ins.Pos())
								}
							}
						case "setOldAP":
							if len(cc.Args) > 0 {
								get(cc.Args[0]).set["old"] = true
							}
						case "setAP":
							if len(cc.Args) > 0 {
								get(cc.Args[0]).set["AP"] = true
							}
						case "setTransposeAxes":
							if len(cc.Args) > 0 {
								get(cc.Args[0]).set["transposeWith"] = true
							}
						}
					}
				}
			}
		}
		var names []string
		for k := range ev {
			names = append(names, k)
		}
		sort.Strings(names)
		for _, k := range names {
			e := ev[k]
			key := oFnKey(r) + "#" + k
			pos := p.Pos(r.Pos())
			if e.set["old"] {
				var miss []string
				if !e.set["transposeWith"] {
					miss = append(miss, "transposeWith")
				}
				if !e.set["AP"] {
					miss = append(miss, "AP")
				}
				if len(miss) > 0 {
					rc.S.Viol("T1", key, e.pos["old"], fmt.Sprintf("%s gives %s a saved access pattern (old) but not %s: a later Transpose()/UT() of that object works from an incomplete thunk", oFnKey(r), k, strings.Join(miss, ", "))).Sig = "old without " + strings.Join(miss, ",")
				} else {
					rc.S.Ok("T1", key, pos, "old, transposeWith and AP set together")
				}
			}
			if e.clear["old"] || e.clear["transposeWith"] {
				if e.clear["old"] && !e.clear["transposeWith"] && !e.set["transposeWith"] {
					rc.S.Viol("T2", key, e.pos["old"], fmt.Sprintf("%s clears old of %s but leaves transposeWith (a stale, possibly recycled, axes slice)", oFnKey(r), k)).Sig = "old cleared, transposeWith kept"
				} else if e.clear["transposeWith"] && !e.clear["old"] && !e.set["old"] {
					rc.S.Viol("T2", key, e.pos["transposeWith"], fmt.Sprintf("%s clears transposeWith of %s but leaves old", oFnKey(r), k)).Sig = "transposeWith cleared, old kept"
				} else {
					rc.S.Ok("T2", key, pos, "old and transposeWith cleared together")
				}
			}
		}
	}
}

// T4 + S8: stride recomputation after a physical transpose and stride-routine selection by
// data order.
func T4(rc *RC) {
	rc.S.Declare("T4", "Dense.Transpose recomputes default strides for the current shape by data order (column-major -> CalcStridesColMajor, else CalcStrides) and copies them into AP.strides after the data moved; UT restores exactly the saved AP", 3)
	if fi := anchor(rc, "T4", "tensor.(*Dense).Transpose"); fi != nil {
		pos := rc.P.Pos(fi.Decl.Pos())
		_, tree := sCanon(rc, fi)
		txt := ir.Render(tree)
		var bad []string
		// order mapping
		okMap := false
		for _, n := range flatten(tree) {
			if n.Kind == "if" && (n.Head == "$r.AP.o.IsColMajor()" || n.Head == "$r.o.IsColMajor()" || n.Head == "$r.DataOrder().IsColMajor()") {
				thenT, elseT := ir.Render(n.Kids), ir.Render(n.Else)
				if strings.Contains(thenT, ".CalcStridesColMajor()") && strings.Contains(elseT, ".CalcStrides()") && !strings.Contains(elseT, "ColMajor") {
					okMap = true
				}
			}
		}
		// or through the order dispatcher of the access pattern (whose own selection is checked below)
		if strings.Contains(txt, "$r.AP.calcStrides()") || strings.Contains(txt, "$r.calcStrides()") {
			okMap = true
		}
		if !okMap {
			bad = append(bad, "expected strides are not chosen by data order (IsColMajor -> CalcStridesColMajor, else CalcStrides)")
		}
		if !strings.Contains(txt, "copy($r.AP.strides, %expStrides)") && !strings.Contains(txt, "copy($r.strides, %expStrides)") {
			bad = append(bad, "the recomputed strides are not copied into AP.strides")
		}
		if !strings.Contains(txt, "$r.old.zero()") || !strings.Contains(txt, "$r.transposeWith = nil") {
			bad = append(bad, "the thunk (old, transposeWith) is not discarded after the move")
		}
		if len(bad) > 0 {
			rc.S.Viol("T4", "tensor.(*Dense).Transpose", pos, strings.Join(bad, "; ")).Sig = strings.Join(bad, "; ")
		} else {
			rc.S.Ok("T4", "tensor.(*Dense).Transpose", pos, "strides recomputed by order and installed; thunk discarded")
		}
	}
	if fi := anchor(rc, "T4", "tensor.(*Dense).UT"); fi != nil {
		pos := rc.P.Pos(fi.Decl.Pos())
		_, tree := sCanon(rc, fi)
		txt := strings.TrimSpace(ir.Render(tree))
		want := "if !$r.old.IsZero()\n  ReturnInts($r.transposeWith)\n  $r.AP = $r.old\n  $r.old.zeroOnly()\n  $r.transposeWith = nil"
		if txt == want {
			rc.S.Ok("T4", "tensor.(*Dense).UT", pos, "restores AP = old, clears the thunk")
		} else {
			// tolerate reordering: required statements present under the guard, nothing else touching AP
			need := []string{"$r.AP = $r.old", "$r.old.zeroOnly()", "$r.transposeWith = nil"}
			var miss []string
			for _, n := range need {
				if !strings.Contains(txt, n) {
					miss = append(miss, n)
				}
			}
			extra := strings.Count(txt, "$r.AP") - strings.Count(txt, "$r.AP = $r.old")
			// the guard may be the nested form or an early return on the opposite test
			guarded := strings.HasPrefix(txt, "if !$r.old.IsZero()") || strings.HasPrefix(txt, "if $r.old.IsZero()\n  return")
			// AP must take old before old is cleared
			if i, j := strings.Index(txt, "$r.AP = $r.old"), strings.Index(txt, "$r.old.zeroOnly()"); i >= 0 && j >= 0 && j < i {
				miss = append(miss, "($r.AP = $r.old before $r.old.zeroOnly())")
			}
			if len(miss) > 0 || extra > 0 || !guarded {
				rc.S.Viol("T4", "tensor.(*Dense).UT", pos, "UT does not restore exactly the saved access pattern: "+strings.ReplaceAll(txt, "\n", " ; ")).Sig = "UT"
			} else {
				rc.S.Ok("T4", "tensor.(*Dense).UT", pos, "restores AP = old, clears the thunk")
			}
		}
	}
	if fi := anchor(rc, "T4", "tensor.(*AP).calcStrides"); fi != nil {
		pos := rc.P.Pos(fi.Decl.Pos())
		_, tree := sCanon(rc, fi)
		paths, ok := ir.EnumPaths(tree, 64)
		if !ok {
			rc.S.Undec("T4", "tensor.(*AP).calcStrides", pos, "too many paths")
			return
		}
		var bad []string
		for _, pth := range paths {
			f := pathF(pth)
			col := ir.Implies(f, ir.BAtom("$r.o.IsColMajor()")) || ir.Implies(f, ir.BNot(ir.BAtom("$r.o.IsRowMajor()")))
			row := ir.Implies(f, ir.BAtom("$r.o.IsRowMajor()")) || ir.Implies(f, ir.BNot(ir.BAtom("$r.o.IsColMajor()")))
			all := pth.Ret + " " + stepsText(pth)
			if strings.Contains(all, "CalcStridesColMajor()") && !col {
				bad = append(bad, "column-major strides computed on a path that is not established column-major")
			}
			if strings.Contains(all, ".CalcStrides()") && !row {
				bad = append(bad, "row-major strides computed on a path that is not established row-major")
			}
		}
		if len(bad) > 0 {
			rc.S.Viol("T4", "tensor.(*AP).calcStrides", pos, strings.Join(bad, "; ")).Sig = strings.Join(bad, "; ")
		} else {
			rc.S.Ok("T4", "tensor.(*AP).calcStrides", pos, "stride routine selected by data order")
		}
	}
}

func flatten(ns []*ir.Node) []*ir.Node {
	var out []*ir.Node
	var walk func(ns []*ir.Node)
	walk = func(ns []*ir.Node) {
		for _, n := range ns {
			out = append(out, n)
			walk(n.Kids)
			walk(n.Else)
		}
	}
	walk(ns)
	return out
}

// alphaNorm renames every parameter/local token ($x, %x) by order of first appearance, so two
// code fragments compare equal iff they are alpha-equivalent.
func alphaNorm(s string) string {
	var b strings.Builder
	names := map[string]string{}
	for i := 0; i < len(s); {
		c := s[i]
		if c == '$' || c == '%' {
			j := i + 1
			for j < len(s) && (s[j] == '_' || s[j] >= '0' && s[j] <= '9' || s[j] >= 'a' && s[j] <= 'z' || s[j] >= 'A' && s[j] <= 'Z') {
				j++
			}
			tok := s[i:j]
			if _, ok := names[tok]; !ok {
				// parameters and locals are numbered separately: the role (argument vs
				// computed value) is part of the comparison
				cls := "p"
				if c == '%' {
					cls = "l"
				}
				n := 0
				for _, v := range names {
					if strings.HasPrefix(v, cls) {
						n++
					}
				}
				names[tok] = fmt.Sprintf("%s%d", cls, n)
			}
			b.WriteString(names[tok])
			i = j
			continue
		}
		b.WriteByte(c)
		i++
	}
	return b.String()
}

// T6: the two implementations of the transposed-index computation (Dense.transposeIndex,
// used by the in-place transpose, and the exported TransposeIndex) accumulate the same sum.
const t6Want = "range p0 as @r\n  l0 = (l0 + (p1[@r] * l1[p0[@r]]))\n"

func T6(rc *RC) {
	rc.S.Declare("T6", "sibling agreement: Dense.transposeIndex and TransposeIndex accumulate oldCoord[pattern[k]] * newStrides[k] by alpha-equivalent loops", 1)
	var forms []string
	var poss []string
	for _, key := range []string{"tensor.(*Dense).transposeIndex", "tensor.TransposeIndex"} {
		fi := anchor(rc, "T6", key)
		if fi == nil {
			return
		}
		_, tree := sCanon(rc, fi)
		// the accumulation loop: the loop of the canonical accumulation form if there is one, else the
		// last loop of the function (the sum is the last step; a coordinate decomposition written out
		// before it - the column-major branch added by the fix of finding 93 - is not the sum)
		var loopTxt string
		for _, lp := range ir.FindLoops(tree) {
			txt := ir.Render([]*ir.Node{lp})
			if alphaNorm(txt) == t6Want {
				loopTxt = txt
				break
			}
			loopTxt = txt
		}
		if loopTxt == "" {
			rc.S.Undec("T6", key, rc.P.Pos(fi.Decl.Pos()), "no accumulation loop found")
			return
		}
		forms = append(forms, alphaNorm(loopTxt))
		poss = append(poss, rc.P.Pos(fi.Decl.Pos()))
	}
	want := t6Want
	switch {
	case forms[0] != forms[1]:
		rc.S.Viol("T6", "transposeIndex~TransposeIndex", poss[0], fmt.Sprintf("the two transposed-index computations differ:\n Dense.transposeIndex: %s\n TransposeIndex:       %s", strings.ReplaceAll(forms[0], "\n", " "), strings.ReplaceAll(forms[1], "\n", " "))).Sig = forms[0] + " <> " + forms[1]
	case forms[0] != want:
		rc.S.Viol("T6", "transposeIndex~TransposeIndex", poss[0], "both computations deviate from sum_k oldCoord[pattern[k]] * newStrides[k]: "+strings.ReplaceAll(forms[0], "\n", " ")).Sig = forms[0]
	default:
		rc.S.Ok("T6", "transposeIndex~TransposeIndex", poss[0], strings.ReplaceAll(forms[0], "\n", " "))
	}
}

// TMask: the physical transpose moves the mask together with the data: denseTranspose calls
// transposeMask before dispatching on the element width (in whichever build is loaded). The
// string kernel is a data kernel like the others: a string tensor can carry a mask (finding 88 -
// the rule used to exempt it, which was the rule's mistake).
func TMask(rc *RC) {
	rc.S.Declare("TMask", "mask travels with data: on every path of denseTranspose that calls a data kernel (string kernel included) transposeMask was called before", 1)
	fi := anchor(rc, "TMask", "tensor.(StdEng).denseTranspose")
	if fi == nil {
		return
	}
	pos := rc.P.Pos(fi.Decl.Pos())
	_, tree := sCanon(rc, fi)
	paths, ok := ir.EnumPaths(tree, 128)
	if !ok {
		rc.S.Undec("TMask", "tensor.(StdEng).denseTranspose", pos, "too many paths")
		return
	}
	var bad []string
	n := 0
	for _, p := range paths {
		moved, masked := -1, -1
		for i, st := range p.Steps {
			if strings.Contains(st.Head, "$r.transposeMask(") && masked < 0 {
				masked = i
			}
			if strings.Contains(st.Head, "$r.denseTranspose") && moved < 0 {
				moved = i
			}
		}
		if moved < 0 {
			continue
		}
		n++
		if masked < 0 || masked > moved {
			bad = append(bad, "data is moved without (or before) transposeMask on path "+p.String())
		}
	}
	if n == 0 {
		bad = append(bad, "no data-moving path found")
	}
	if len(bad) > 0 {
		rc.S.Viol("TMask", "tensor.(StdEng).denseTranspose", pos, strings.Join(bad, "; ")).Sig = fmt.Sprint(len(bad)) + " paths"
	} else {
		rc.S.Ok("TMask", "tensor.(StdEng).denseTranspose", pos, fmt.Sprintf("%d data-moving paths, all after transposeMask", n))
	}
}

// T13: AP.T on vectors (finding 65). (a) No path leaves AP.T by a bare return without having
// set the error or built the result with MakeAP: the caller installs whatever comes back with a
// nil error, and a zero access pattern over live data breaks every later access. (b) The
// branch for vectors takes at least the long axis' stride from the source pattern: a strided
// view of a vector is not unit-strided, so constants alone cannot be its transposed strides.
var t13SameAxis = regexp.MustCompile(`^%strides\[([^\]]+)\] = (?:\$r\.strides|%currentStride)\[([^\]]+)\]$`)

var t13ByAxes = regexp.MustCompile(`(?:hape|trides)\w*\[[^\]]+\] = [^\n]*\$axes\[`)

var (
	t13RankAtom  = regexp.MustCompile(`^\((\d+) == (?:len\(\$r\.shape\)|\$r\.Dims\(\)|%dims|len\(\$axes\))\)$|^\((?:len\(\$r\.shape\)|\$r\.Dims\(\)|%dims|len\(\$axes\)) == (\d+)\)$`)
	t13AxisAtom  = regexp.MustCompile(`^\(\$axes\[(\d+)\] == (\d+)\)$|^\((\d+) == \$axes\[(\d+)\]\)$`)
	t13ElemStore = regexp.MustCompile(`^%(shape|strides)\[(\d+)\]$`)
	t13ElemSrc   = regexp.MustCompile(`^(?:\$r\.|%current)(?:shape|strides|Shape|Stride)\[(\d+)\]$`)
)

// t13Pinned returns the permutation when the path's guards determine the rank and every axis.
func t13Pinned(f []*ir.BExpr) []int {
	n := -1
	axes := map[int]int{}
	for _, g := range f {
		for _, a := range g.Atoms() {
			if !ir.Implies(f, ir.BAtom(a)) {
				continue
			}
			if m := t13RankAtom.FindStringSubmatch(a); m != nil {
				v := m[1] + m[2]
				n, _ = strconv.Atoi(v)
			}
			if m := t13AxisAtom.FindStringSubmatch(a); m != nil {
				if m[1] != "" {
					k, _ := strconv.Atoi(m[1])
					c, _ := strconv.Atoi(m[2])
					axes[k] = c
				} else {
					k, _ := strconv.Atoi(m[4])
					c, _ := strconv.Atoi(m[3])
					axes[k] = c
				}
			}
		}
	}
	if n < 1 {
		return nil
	}
	perm := make([]int, n)
	for k := 0; k < n; k++ {
		c, ok := axes[k]
		if !ok || c < 0 || c >= n {
			return nil
		}
		perm[k] = c
	}
	return perm
}

// t13StoresAgainst compares the element stores of the path with the pinned permutation.
func t13StoresAgainst(p ir.Path, perm []int) string {
	seen := 0
	check := func(target, value string) string {
		mt := t13ElemStore.FindStringSubmatch(target)
		ms := t13ElemSrc.FindStringSubmatch(value)
		if mt == nil || ms == nil {
			return ""
		}
		i, _ := strconv.Atoi(mt[2])
		j, _ := strconv.Atoi(ms[1])
		seen++
		if i < len(perm) && perm[i] != j {
			return fmt.Sprintf("it stores %s = %s where the axes ask for element %d", target, value, perm[i])
		}
		return ""
	}
	for _, st := range p.Steps {
		switch st.Kind {
		case "store", "let":
			if w := check(st.Target, st.Value); w != "" {
				return w
			}
		case "tuple":
			vals := splitArgs(strings.TrimSuffix(strings.TrimPrefix(st.Value, "("), ")"))
			if len(vals) == len(st.Targets) {
				for i := range vals {
					if w := check(st.Targets[i], vals[i]); w != "" {
						return w
					}
				}
			}
		}
	}
	if seen < 2*len(perm) {
		return "it does not store every element of shape and strides from the source pattern"
	}
	return ""
}

func T13(rc *RC) {
	rc.S.Declare("T13", "AP.T: no bare return with neither an error nor a built pattern; the vector branch derives the transposed strides from the source's strides, not from constants alone; the general branch permutes by the requested axes (UnsafePermute or stores indexed by them) on every path", 3)
	key := "tensor.(*AP).T"
	fi := anchor(rc, "T13", key)
	if fi == nil {
		return
	}
	pos := rc.P.Pos(fi.Decl.Pos())
	_, tree := sCanon(rc, fi)
	paths, ok := ir.EnumPaths(tree, 4000)
	if !ok {
		rc.S.Undec("T13", key+"#returns", pos, "too many paths")
		return
	}
	var bad []string
	vec, vecFromSource := 0, 0
	var sameAxis []string
	general := 0
	var notPermuted []string
	for _, p := range paths {
		f := pathG(p)
		isVec := ir.Implies(f, ir.BAtom("$r.IsVector()"))
		if p.Exit == "return" && p.Ret == "" {
			set := false
			for _, st := range p.Steps {
				if (st.Kind == "let" || st.Kind == "store") && (st.Target == "$ret2" || (st.Target == "$ret0" && strings.HasPrefix(st.Value, "MakeAP("))) {
					set = true
				}
				if st.Kind == "tuple" {
					for _, t := range st.Targets {
						if t == "$ret2" {
							set = true
						}
					}
				}
			}
			if !set && !ir.Implies(f, ir.BAtom("$r.IsScalar()")) {
				bad = append(bad, fmt.Sprintf("the path [%s] returns without an error and without a built pattern: the caller installs a zero access pattern", strings.Join(p.Guards, " && ")))
			}
		}
		if !isVec {
			// (c) the general branch: a pattern built for explicit axes is the source pattern
			// permuted BY those axes - through UnsafePermute or by stores indexed with them
			builds, consults := false, false
			for _, st := range p.Steps {
				txt := st.Head
				if st.Kind == "loop" || st.Kind == "range" {
					txt = ir.Render([]*ir.Node{st})
				}
				if strings.Contains(st.Head, "MakeAP(") && !strings.Contains(st.Head, "$r.Clone()") {
					builds = true
				}
				if strings.Contains(txt, "UnsafePermute(") || t13ByAxes.MatchString(txt) {
					consults = true
				}
			}
			if builds && !consults {
				// a special case whose guards pin the rank and every axis (dims == 2, axes == (1, 0))
				// needs no consulting: its stores are compared with the permutation the guards name
				if perm := t13Pinned(f); perm != nil {
					if wrong := t13StoresAgainst(p, perm); wrong != "" {
						notPermuted = append(notPermuted, fmt.Sprintf("the path [%s] is taken for the axes %v only, and %s", strings.Join(p.Guards, " && "), perm, wrong))
					}
					general++
					continue
				}
			}
			if builds {
				general++
				if !consults {
					notPermuted = append(notPermuted, fmt.Sprintf("the path [%s] builds the transposed pattern without permuting shape and strides by the requested axes (no UnsafePermute, no store indexed by them): whatever it does is right for some axes only, and invalid axes are not refused", strings.Join(p.Guards, " && ")))
				}
			}
		}
		if isVec {
			reaches := false
			fromSource := false
			for _, st := range p.Steps {
				if strings.Contains(st.Head, "MakeAP(") {
					reaches = true
				}
				if (st.Kind == "store" || st.Kind == "tuple" || st.Kind == "let" || st.Kind == "call") && strings.Contains(st.Head, "trides") && (strings.Contains(st.Value, "$r.strides") || strings.Contains(st.Value, "%currentStride")) && !strings.HasPrefix(st.Value, "make(") {
					fromSource = true
				}
			}
			if reaches {
				vec++
				if fromSource {
					vecFromSource++
				}
				// the two axes are exchanged: a transposed stride never comes from the same axis
				// of the source
				for _, st := range p.Steps {
					if m := t13SameAxis.FindStringSubmatch(st.Head); m != nil && m[1] == m[2] {
						sameAxis = append(sameAxis, st.Head)
					}
				}
			}
		}
	}
	if len(bad) > 0 {
		rc.S.Viol("T13", key+"#returns", pos, strings.Join(uniq(bad), "; ")).Sig = "bare return"
	} else {
		rc.S.Ok("T13", key+"#returns", pos, fmt.Sprintf("%d paths: every bare return has set the error or built the pattern", len(paths)))
	}
	if len(notPermuted) > 0 {
		rc.S.Viol("T13", key+"#general-permutation", pos, strings.Join(uniq(notPermuted), "; ")).Sig = "pattern built without the axes"
	} else {
		rc.S.Ok("T13", key+"#general-permutation", pos, fmt.Sprintf("%d non-vector paths build the pattern, each through UnsafePermute or stores indexed by the axes", general))
	}
	if len(sameAxis) > 0 {
		rc.S.Viol("T13", key+"#vector-strides", pos, fmt.Sprintf("the vector branch takes a transposed stride from the same axis of the source (%s): the two axes are not exchanged", strings.Join(uniq(sameAxis), "; "))).Sig = "same-axis stride"
		return
	}
	switch {
	case vec == 0:
		rc.S.Ok("T13", key+"#vector-strides", pos, "no separate vector branch: vectors are permuted like any other pattern")
	case vecFromSource == 0:
		rc.S.Viol("T13", key+"#vector-strides", pos, fmt.Sprintf("none of the %d paths through the vector branch takes a stride from the source pattern: the transposed strides are constants, which is wrong for a strided view of a vector", vec)).Sig = "constant strides"
	default:
		rc.S.Ok("T13", key+"#vector-strides", pos, fmt.Sprintf("%d of %d vector paths carry a source stride over", vecFromSource, vec))
	}
}
