package rules

import (
	"go/ast"
	"go/types"
	"strings"
	"sync"

	"tcheck/load"
	"tcheck/spec"
)

// Tokens resolves type-specific identifiers of the module to the basic kind they denote.
type Tokens struct {
	Vars map[types.Object]types.BasicKind // Dtype / reflect.Type package variables
}

var tokCache sync.Map

// TokensOf builds (once per program) the table of Dtype/reflect.Type variables by reading
// their initialisers: any package-level `X = … reflect.TypeOf(arg) …` denotes arg's type.
func TokensOf(p *load.Program) *Tokens {
	if t, ok := tokCache.Load(p); ok {
		return t.(*Tokens)
	}
	t := &Tokens{Vars: map[types.Object]types.BasicKind{}}
	for _, pk := range p.Pkgs {
		for _, f := range pk.Syntax {
			for _, d := range f.Decls {
				gd, ok := d.(*ast.GenDecl)
				if !ok {
					continue
				}
				for _, sp := range gd.Specs {
					vs, ok := sp.(*ast.ValueSpec)
					if !ok || len(vs.Values) != len(vs.Names) {
						continue
					}
					for i, n := range vs.Names {
						if k, ok := typeOfCallKind(pk.TypesInfo, vs.Values[i]); ok {
							if o := pk.TypesInfo.Defs[n]; o != nil {
								t.Vars[o] = k
							}
						}
					}
				}
			}
		}
	}
	tokCache.Store(p, t)
	return t
}

func typeOfCallKind(info *types.Info, e ast.Expr) (types.BasicKind, bool) {
	var kind types.BasicKind
	found := 0
	ast.Inspect(e, func(n ast.Node) bool {
		call, ok := n.(*ast.CallExpr)
		if !ok || len(call.Args) != 1 {
			return true
		}
		sel, ok := call.Fun.(*ast.SelectorExpr)
		if !ok || sel.Sel.Name != "TypeOf" {
			return true
		}
		if id, ok := sel.X.(*ast.Ident); ok {
			if pn, ok := info.Uses[id].(*types.PkgName); ok && pn.Imported().Path() == "reflect" {
				if tv, ok := info.Types[call.Args[0]]; ok {
					if k, ok := KindOfType(tv.Type); ok {
						kind = k
						found++
					}
				}
			}
		}
		return true
	})
	return kind, found == 1
}

// KindOfType maps a Go type to the basic kind of a supported element type.
func KindOfType(t types.Type) (types.BasicKind, bool) {
	if b, ok := t.(*types.Basic); ok {
		k := b.Kind()
		switch k {
		case types.UntypedBool:
			return types.Bool, true
		case types.UntypedString:
			return types.String, true
		case types.UntypedInt:
			return types.Int, true
		case types.UntypedFloat:
			return types.Float64, true
		}
		if spec.SuffixOf(k) != "" {
			return k, true
		}
	}
	return 0, false
}

// Tok implements ir.Options.TokKind.
func (t *Tokens) Tok(o types.Object) (types.BasicKind, string, bool) {
	switch ob := o.(type) {
	case *types.Var:
		if k, ok := t.Vars[o]; ok {
			return k, "τDtype", true
		}
	case *types.Func:
		if k, name, ok := blasRoutine(ob); ok {
			return k, name, true
		}
		if k, stem, _, ok := SpecialisationOf(ob); ok {
			if stem == "<T>s" {
				return k, "<T>s", true
			}
			return k, stem + "_", true
		}
	case *types.Const:
		if ob.Pkg() != nil && ob.Pkg().Path() == "reflect" {
			if k, ok := spec.DtypeVar[ob.Name()]; ok {
				return k, "reflect.τKind", true
			}
		}
	}
	return 0, "", false
}

// blasRoutine: a method of a gonum BLAS interface is typed by its precision letter.
func blasRoutine(f *types.Func) (types.BasicKind, string, bool) {
	if f.Pkg() == nil || !strings.HasPrefix(f.Pkg().Path(), "gonum.org/v1/gonum/blas") {
		return 0, "", false
	}
	sig := f.Type().(*types.Signature)
	if sig.Recv() == nil || len(f.Name()) < 3 {
		return 0, "", false
	}
	n := f.Name()
	var k types.BasicKind
	switch n[0] {
	case 'S':
		k = types.Float32
	case 'D':
		k = types.Float64
	case 'C':
		k = types.Complex64
	case 'Z':
		k = types.Complex128
	default:
		return 0, "", false
	}
	if !mentionsKind(sig, k, 0) {
		return 0, "", false
	}
	return k, "τ" + n[1:], true
}

// ReleaseProgram drops per-program caches.
func ReleaseProgram(p *load.Program) { tokCache.Delete(p) }
