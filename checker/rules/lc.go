package rules

import (
	"fmt"
	"regexp"
	"sort"
	"strings"

	"tcheck/ir"
)

// LC: raw-primitive census. Every call of a whole-buffer copy primitive in the hand-written
// code is an instance. The sites present on the reviewed tree are listed in lcCensus (their
// guards are the business of the LG table and the known findings); a site that is NOT in the
// census is new code: every path to it must have established, by a branch, that some tensor
// does not require an iterator / is not materialisable / the iterator decision was negative.
// A new fast path gated only by data order or contiguity flags (which a lazy transpose or a
// mask does not clear) is reported.

var lcPrims = regexp.MustCompile(`\b(copyDense|copyDenseSliced|copyArray|copyArraySliced|copySliced)\(|\.E\.[A-Z][A-Za-z]*\(|storage\.(Copy|CopySliced|Fill)\(|\.Memcpy\(|\bcopy\([^)]*\.(hdr\(\)\.Raw|Raw\b|arr\(\)|Data\(\)|Float64s\(\)|Float32s\(\)|Ints\(\)|byteSlice\(\)|<T>s\(\))`)

var lcGenerated = map[string]bool{"defaultengine_arith.go": true, "defaultengine_cmp.go": true, "defaultengine_unary.go": true, "defaultengine_minmax.go": true, "defaultengine_misc.go": true,
	"dense_generated.go": true, "array_getset.go": true, "dense_maskcmp_methods.go": true}

var layoutAtom = regexp.MustCompile(`(\.RequiresIterator\(\)|\.IsMaterializable\(\)|%useIter|%allNoMat|\.IsView\(\)|\.viewOf == 0\)|\.old\.IsZero\(\)|\.oldAP\(\)\.IsZero\(\))$`)

// LCSites enumerates the raw-primitive call sites (key -> position).
func LCSites(rc *RC) (map[string]string, map[string][]ir.Path) {
	sites := map[string]string{}
	paths := map[string][]ir.Path{}
	for _, fi := range rc.P.AnalysisFuncs() {
		if fi.Pkg != rc.P.Root || fi.Decl.Body == nil || lcGenerated[fi.File] || strings.HasPrefix(fi.File, "sparse") {
			continue
		}
		switch fi.Obj.Name() {
		case "copyDense", "copyDenseSliced", "copyArray", "copyArraySliced", "copySliced", "copyDenseIter", "Memcpy":
			continue // the primitives themselves
		}
		_, tree := sCanon(rc, fi)
		txt := stripFuncLits(ir.Render(tree))
		if !lcPrims.MatchString(txt) {
			continue
		}
		ps, ok := ir.EnumPaths(tree, 20000)
		if !ok {
			ps = nil
		}
		count := map[string]int{}
		seen := map[*ir.Node]string{}
		var walk func(ns []*ir.Node)
		walk = func(ns []*ir.Node) {
			for _, n := range ns {
				if n.Kind != "if" && n.Kind != "loop" && n.Kind != "range" && n.Kind != "switch" && n.Kind != "case" {
					for _, m := range lcPrims.FindAllString(stripFuncLits(n.Head), -1) {
						name := strings.TrimSuffix(strings.TrimPrefix(strings.TrimSuffix(m, "("), "."), "(")
						if i := strings.Index(name, "("); i >= 0 {
							name = name[:i]
						}
						// the flat kernels of internal/execution walk whole buffers position by
						// position; their Iter variants are given each buffer's own iterator
						if i := strings.LastIndex(name, ".E."); i >= 0 {
							name = name[i+1:]
						}
						if strings.HasPrefix(name, "E.") && strings.Contains(name, "Iter") {
							continue
						}
						count[name]++
						key := fmt.Sprintf("%s#%s%d", fi.Key, name, count[name])
						sites[key] = rc.P.Pos(n.Pos)
						seen[n] = key
					}
				}
				walk(n.Kids)
				walk(n.Else)
			}
		}
		walk(tree)
		for n, key := range seen {
			for _, p := range ps {
				for _, st := range p.Steps {
					if st == n || ((st.Kind == "loop" || st.Kind == "range" || st.Kind == "switch") && containsNode(st, n)) {
						paths[key] = append(paths[key], p)
						break
					}
				}
			}
		}
	}
	return sites, paths
}

var lcTwoTensor = regexp.MustCompile(`#(copyDense|copyDenseSliced|copyArray|copyArraySliced|E\.(?:Add|Sub|Mul|Div|Pow|Mod|Gt|Gte|Lt|Lte|Eq|Ne|MaxBetween|MinBetween)[A-Za-z]*)\d+$`)

var lcAPTransfer = regexp.MustCompile(`\.AP = |\.setAP\(|\.CloneTo\(|\.AP\.o = |\.o = |\.SetAP\(|\.copyMetadata\(`)

// lcOrderEstablished: the path carries a positive same-order test, a row-major test of an
// operand, or a statement handing an access pattern / data order to a tensor.
func lcOrderEstablished(p ir.Path) bool {
	f := pathG(p)
	for _, fm := range f {
		for _, a := range fm.Atoms() {
			atom := ir.BAtom(a)
			switch {
			case strings.Contains(a, "HasSameOrder("), strings.HasSuffix(a, ".IsRowMajor()"):
				if ir.Implies(f, atom) {
					return true
				}
			case strings.HasSuffix(a, ".IsColMajor()"):
				if ir.Implies(f, ir.BNot(atom)) {
					return true
				}
			}
		}
	}
	for _, st := range p.Steps {
		if st.Kind == "if" || st.Kind == "loop" || st.Kind == "range" || st.Kind == "switch" || st.Kind == "case" {
			continue
		}
		if lcAPTransfer.MatchString(stripFuncLits(st.Head)) {
			return true
		}
	}
	return false
}

func containsNode(root, n *ir.Node) bool {
	for _, k := range flatten([]*ir.Node{root}) {
		if k == n {
			return true
		}
	}
	return false
}

func LC(rc *RC, floor int) {
	rc.S.Declare("LC", "raw-primitive census: every call of a whole-buffer copy primitive in hand-written code is a reviewed site (census table) or, if new, is reached only after a branch established that a tensor needs no iterator", floor)
	sites, paths := LCSites(rc)
	var keys []string
	for k := range sites {
		keys = append(keys, k)
	}
	sort.Strings(keys)
	for _, k := range keys {
		if why, ok := lcCensus[k]; ok {
			rc.S.Ok("LC", k, sites[k], "reviewed site: "+why)
			continue
		}
		ps := paths[k]
		if len(ps) == 0 {
			rc.S.Viol("LC", k, sites[k], "new raw-primitive call site whose paths could not be enumerated").Sig = "new site"
			continue
		}
		bad := ""
		for _, p := range ps {
			f := pathG(p)
			guarded := false
			for _, fm := range f {
				for _, a := range fm.Atoms() {
					if !layoutAtom.MatchString(a) {
						continue
					}
					atom := ir.BAtom(a)
					neg := ir.BNot(atom)
					if strings.HasSuffix(a, "IsZero()") || strings.HasSuffix(a, "== 0)") || a == "%allNoMat" {
						neg = atom // "old is zero", "viewOf == 0", "all operands need no iterator" are the safe outcomes
					}
					if ir.Implies(f, neg) {
						guarded = true
					}
				}
			}
			if !guarded {
				bad = fmt.Sprintf("reached with [%s]: no branch established that a tensor needs no iterator (data-order and contiguity flags do not exclude lazy transposes or masks)", strings.Join(p.Guards, " && "))
				break
			}
		}
		if bad == "" && lcTwoTensor.MatchString(k) {
			// second clause for tensor-to-tensor copies: storage order is copied verbatim, so
			// destination and source must be known to share a data order on every path
			for _, p := range ps {
				if !lcOrderEstablished(p) {
					bad = fmt.Sprintf("reached with [%s]: nothing on the path relates the data order of the destination to that of the source (same-order test, row-major test of the source before a fresh destination, or the destination taking the source's access pattern); a storage-order copy between a column-major and a row-major tensor permutes the elements", strings.Join(p.Guards, " && "))
					break
				}
			}
		}
		if bad != "" {
			rc.S.Viol("LC", k, sites[k], "new whole-buffer copy (not in the census of reviewed sites): "+bad).Sig = "new unguarded site"
		} else {
			rc.S.Ok("LC", k, sites[k], "new site, layout-guarded on every path")
		}
	}
	// census entries that vanished are fine (code removed); nothing to report
}

// stripFuncLits blanks the bodies of function literals rendered inline in a statement head:
// literals are analysed as units of their own (Program.AnalysisFuncs), so their contents must
// not be attributed to the enclosing statement a second time.
func stripFuncLits(s string) string {
	for {
		i := strings.Index(s, "func(")
		if i < 0 {
			return s
		}
		// find the body's opening brace: first '{' at parenthesis depth 0 after the signature
		d := 0
		j := i + len("func")
		open := -1
		for ; j < len(s); j++ {
			switch s[j] {
			case '(':
				d++
			case ')':
				d--
			case '{':
				if d == 0 {
					open = j
				}
			}
			if open >= 0 {
				break
			}
			if d == 0 && j > i+len("func") && s[j] != ')' && s[j] != '(' && s[j] != ' ' && !isIdentByte(s[j]) && s[j] != '.' && s[j] != '*' && s[j] != '[' && s[j] != ']' && s[j] != ',' {
				break // a function *type*, not a literal
			}
		}
		if open < 0 {
			return s[:i] + "fn(" + stripFuncLits(s[i+len("func("):])
		}
		d = 0
		k := open
		for ; k < len(s); k++ {
			if s[k] == '{' {
				d++
			} else if s[k] == '}' {
				d--
				if d == 0 {
					break
				}
			}
		}
		if k >= len(s) {
			return s[:i] + "fn{…}"
		}
		s = s[:i] + "fn{…}" + s[k+1:]
	}
}

func isIdentByte(c byte) bool {
	return c == '_' || c >= '0' && c <= '9' || c >= 'a' && c <= 'z' || c >= 'A' && c <= 'Z' || c >= 0x80
}
