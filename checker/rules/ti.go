package rules

import (
	"fmt"
	"go/ast"
	"strings"
)

// TI: the in-place transposer's index decomposition consults the data order (finding 93, fixed in
// /repo 32b675b). Itol peels coordinates off a flat index by dividing by the strides in axis
// order, which is right for row-major strides only; (*Dense).transposeIndex feeds it the
// tensor's own saved strides. Structural necessary condition: every call of Itol in
// transposeIndex lies in a branch of an if/else (or switch) whose condition asks the tensor's
// data order (IsColMajor / IsRowMajor). A function that does not call Itol is not judged.
func TI(rc *RC) {
	rc.S.Declare("TI", "in-place transpose index: every call of Itol in (*Dense).transposeIndex is in a branch of a test of the tensor's data order (Itol's division order is row-major)", 1)
	key := "tensor.(*Dense).transposeIndex"
	fi := anchor(rc, "TI", key)
	if fi == nil {
		return
	}
	pos := rc.P.Pos(fi.Decl.Pos())
	asksOrder := func(e ast.Expr) bool {
		found := false
		ast.Inspect(e, func(n ast.Node) bool {
			if s, ok := n.(*ast.SelectorExpr); ok && (s.Sel.Name == "IsColMajor" || s.Sel.Name == "IsRowMajor") {
				found = true
			}
			return !found
		})
		return found
	}
	n := 0
	var bad []string
	var visit func(node ast.Node, guarded bool)
	visit = func(node ast.Node, guarded bool) {
		switch x := node.(type) {
		case nil:
			return
		case *ast.IfStmt:
			if x.Init != nil {
				visit(x.Init, guarded)
			}
			g := guarded || asksOrder(x.Cond)
			visit(x.Body, g)
			if x.Else != nil {
				visit(x.Else, g)
			}
			return
		case *ast.SwitchStmt:
			g := guarded
			if x.Tag != nil && asksOrder(x.Tag) {
				g = true
			}
			for _, cc := range x.Body.List {
				c := cc.(*ast.CaseClause)
				cg := g
				for _, e := range c.List {
					if asksOrder(e) {
						cg = true
					}
				}
				// a later case of a tagless switch is the else of the earlier order tests
				for _, s := range c.Body {
					visit(s, cg)
				}
				for _, e := range c.List {
					if asksOrder(e) {
						g = true
					}
				}
			}
			return
		case *ast.CallExpr:
			if id, ok := x.Fun.(*ast.Ident); ok && id.Name == "Itol" {
				n++
				if !guarded {
					bad = append(bad, fmt.Sprintf("Itol is called at %s on a path that never asked the tensor's data order: its division order is right for row-major strides only (a column-major tensor's in-place transposition panics or lands on the wrong offsets)", rc.P.Pos(x.Pos())))
				}
			}
		}
		// generic descent
		ast.Inspect(node, func(m ast.Node) bool {
			if m == node || m == nil {
				return true
			}
			switch m.(type) {
			case *ast.IfStmt, *ast.SwitchStmt, *ast.CallExpr:
				visit(m, guarded)
				return false
			}
			return true
		})
	}
	visit(fi.Decl.Body, false)
	switch {
	case len(bad) > 0:
		rc.S.Viol("TI", key, pos, strings.Join(uniq(bad), "; ")).Sig = "Itol without order test"
	case n == 0:
		rc.S.Ok("TI", key, pos, "no call of Itol in this function (another form): not judged")
	default:
		rc.S.Ok("TI", key, pos, fmt.Sprintf("%d call(s) of Itol, each in a branch of a data-order test", n))
	}
}
