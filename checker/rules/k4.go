package rules

import (
	"fmt"
	"go/ast"
	"go/types"
	"regexp"
	"sort"
	"strings"

	"tcheck/ir"
	"tcheck/load"
	"tcheck/spec"
)

// K4: cross-operation arm agreement of the typed dispatchers in internal/execution.
//
// E.Add, E.Sub, … E.GtIter, E.LteSameIter, … are one template instantiated per operation ×
// variant; each instance is one switch over the element type whose arm for type T fetches the
// typed slices and calls the kernel <Op><Variant><T>. K1arms compares the arms of ONE switch
// with each other and K3 ties each arm to its label, so an edit applied identically to every
// arm of one operation's dispatcher (iterators handed over in the wrong order, the increment
// buffer in an operand's place, another operation's kernel family) is invisible to both. This
// rule compares the arm for type T of one operation with the arm for T of its sibling
// operations (same file, same variant, same group), after erasing the element type and the
// member's own operation name: the arms must be identical. Operations differ in the set of
// types they support and integer division reports an error the others do not have; so the
// comparison is per arm, and `err = K(…)` is the statement `K(…)` for this purpose.

type k4Member struct {
	fi   *load.FuncInfo
	op   string
	arms map[string]string // label -> canonical text
	pos  map[string]string
	note []string
	// frame: the function with every typed arm removed
	frame string
}

// eOpOf parses a dispatcher name into operation, variant and group.
func eOpOf(name string) (op, variant, group string, ok bool) {
	try := func(g string, ops []string) bool {
		for _, o := range ops {
			if strings.HasPrefix(name, o) {
				rest := name[len(o):]
				switch rest {
				case "", "Iter", "Incr", "IterIncr", "Recv", "Same", "SameIter", "Between", "BetweenIter":
					op, variant, group = o, rest, g
					return true
				}
			}
		}
		return false
	}
	if try("arith", spec.ArithOps) || try("cmp", spec.CmpOps) || try("unary", spec.UnaryOps) || try("minmax", spec.MinMaxOps) {
		return op, variant, group, true
	}
	return "", "", "", false
}

// k4Subgroup: operations of one group that are written from different templates.
func k4Subgroup(group, op string) string {
	switch group {
	case "cmp":
		if op == "Eq" || op == "Ne" {
			return "cmp-eq"
		}
	case "unary":
		switch op {
		case "Abs", "Sign":
			return "unary-signed"
		case "Clamp":
			return "unary-clamp"
		}
	}
	return group
}

var k4AccRe = regexp.MustCompile(`\$r\.(?:Add|Op)\((\$0, \$3, \$1)\)`)

func K4(rc *RC, files []string, floor int) {
	rc.S.Declare("K4", "cross-operation arm agreement: the arm for element type T of one operation's typed dispatcher equals the arm for T of its sibling operations (same variant) after erasing the type and the operation name; an edit made identically in every arm of one dispatcher stands out", floor)
	inFile := map[string]bool{}
	for _, f := range files {
		inFile[f] = true
	}
	groups := map[string][]*k4Member{}
	for _, fi := range rc.P.SortedFuncs() {
		if !inFile[fi.File] || fi.Decl == nil || fi.Decl.Body == nil || fi.Decl.Recv == nil {
			continue
		}
		if !strings.HasSuffix(fi.Pkg.PkgPath, "internal/execution") {
			continue
		}
		op, variant, group, ok := eOpOf(fi.Obj.Name())
		if !ok {
			continue
		}
		tss := TypedSwitches(rc.P, fi)
		if len(tss) == 0 {
			continue
		}
		ts := tss[0]
		m := &k4Member{fi: fi, op: op, arms: map[string]string{}, pos: map[string]string{}}
		conv := map[string]string{"Gt": "Lt", "Lt": "Gt", "Gte": "Lte", "Lte": "Gte"}[op]
		erase := func(s string) string {
			s = eraseOpWord(s, op, "Op")
			if conv != "" {
				s = eraseOpWord(s, conv, "OpConverse")
			}
			return s
		}
		for _, arm := range ts.Arms {
			if len(arm.Kinds) != 1 {
				continue
			}
			label := arm.Kinds[0]
			c := ir.NewCanon(rc.P.Fset, fi.Pkg.TypesInfo, ir.Options{ElemType: kindType(label), EraseInt: true, Suffix: spec.SuffixOf(label), TokKind: TokensOf(rc.P).Tok, Kind: label, HasKind: true, BitSize: bitSize(label), MapCallee: erase})
			text := ir.Render(k4Fold(c.Stmts(fi.Decl, arm.Clause.Body)))
			text = erase(eraseInStrings(text, op)) // kernel names resolved as type tokens bypass MapCallee
			// integer division reports an error its siblings do not have
			text = strings.ReplaceAll(text, "$ret0 = ", "")
			// the one-element arm of the Incr variants folds the result into the increment with
			// e.Add(t, incr, a) whatever the operation: for Add itself that name was erased
			if strings.Contains(variant, "Incr") {
				text = k4AccRe.ReplaceAllString(text, "$$r.Accumulate($1)")
			}
			m.arms[types.Typ[label].Name()] = text
			m.pos[types.Typ[label].Name()] = rc.P.Pos(arm.Clause.Pos())
			m.note = append(m.note, c.Notes...)
		}
		// the frame: what the function does around the typed arms (scalar detection, the
		// refusal of a scalar increment, the default arm)
		{
			c := ir.NewCanon(rc.P.Fset, fi.Pkg.TypesInfo, ir.Options{MapCallee: erase})
			var frame []ast.Stmt
			for _, st := range fi.Decl.Body.List {
				if st != ts.Node {
					frame = append(frame, st)
				}
			}
			text := canonArm(c, fi.Decl, frame)
			if ts.Deflt != nil {
				text += "default:\n" + canonArm(c, fi.Decl, ts.Deflt.Body)
			}
			text = erase(eraseInStrings(text, op))
			m.arms["(frame)"] = text
			m.pos["(frame)"] = rc.P.Pos(fi.Decl.Pos())
			m.note = append(m.note, c.Notes...)
		}
		key := fi.File + "|E.Op" + variant + "|" + k4Subgroup(group, op)
		groups[key] = append(groups[key], m)
	}
	var keys []string
	for k := range groups {
		keys = append(keys, k)
	}
	sort.Strings(keys)
	for _, k := range keys {
		ms := groups[k]
		labels := map[string]bool{}
		for _, m := range ms {
			for l := range m.arms {
				labels[l] = true
			}
		}
		var ls []string
		for l := range labels {
			ls = append(ls, l)
		}
		sort.Strings(ls)
		for _, l := range ls {
			var have []*k4Member
			for _, m := range ms {
				if _, ok := m.arms[l]; ok {
					have = append(have, m)
				}
			}
			byText := map[string][]*k4Member{}
			for _, m := range have {
				byText[m.arms[l]] = append(byText[m.arms[l]], m)
			}
			best := ""
			for t, g := range byText {
				if best == "" || len(g) > len(byText[best]) || (len(g) == len(byText[best]) && t < best) {
					best = t
				}
			}
			for _, m := range have {
				okey := k + ":" + m.fi.Obj.Name() + "/" + l
				if len(m.note) > 0 {
					rc.S.Undec("K4", okey, m.pos[l], "canonicaliser: "+strings.Join(m.note, "; "))
					continue
				}
				if len(have) == 1 {
					rc.S.Ok("K4", okey, m.pos[l], "no sibling operation has an arm for this type").Trivial = true
					continue
				}
				if m.arms[l] == best && (len(byText[best])*2 > len(have) || len(byText) == 1) {
					rc.S.Ok("K4", okey, m.pos[l], fmt.Sprintf("%d of %d operations share this arm", len(byText[best]), len(have)))
					continue
				}
				ref := byText[best][0]
				if ref == m {
					for t, g := range byText {
						if t != m.arms[l] {
							ref = g[0]
						}
					}
				}
				d := firstDiff(m.arms[l], ref.arms[l])
				rc.S.Viol("K4", okey, m.pos[l], fmt.Sprintf("the %s arm of %s differs from the %s arm of its sibling %s after erasing type and operation name: %s", l, m.fi.Obj.Name(), l, ref.fi.Obj.Name(), d)).Sig = d
			}
		}
	}
}

// k4Fold is a normal form for the comparison of sibling arms: a branch of an if/else-if chain
// (or a case of a tagless switch) whose body is the body of the chain's final else (default) is
// dropped - `case as && bs: K(a, b)` in front of `default: K(a, b)` says nothing the default does
// not say. One operation's dispatcher may spell the redundant case out and its sibling may not.
func k4Fold(ns []*ir.Node) []*ir.Node {
	var out []*ir.Node
	for _, n := range ns {
		out = append(out, k4FoldNode(n)...)
	}
	return out
}

func k4FoldNode(n *ir.Node) []*ir.Node {
	switch n.Kind {
	case "if":
		n.Kids = k4Fold(n.Kids)
		if n.Else != nil {
			n.Else = k4Fold(n.Else)
			// the final else of the chain
			last := n.Else
			for len(last) == 1 && last[0].Kind == "if" && last[0].Else != nil {
				last = last[0].Else
			}
			if len(n.Else) == 1 && n.Else[0].Kind == "if" && k4Body(n.Kids) == k4Body(last) {
				return n.Else
			}
		}
	case "switch":
		var deflt *ir.Node
		for _, k := range n.Kids {
			k.Kids = k4Fold(k.Kids)
			if k.Head == "default" {
				deflt = k
			}
		}
		if deflt != nil && strings.TrimSpace(n.Head) == "switch" {
			var kids []*ir.Node
			for _, k := range n.Kids {
				if k != deflt && k4Body(k.Kids) == k4Body(deflt.Kids) {
					continue
				}
				kids = append(kids, k)
			}
			n.Kids = kids
		}
	case "loop", "range", "case":
		n.Kids = k4Fold(n.Kids)
	}
	return []*ir.Node{n}
}

// k4Body renders a branch body for the fold comparison (the error result of the integer
// division kernels is assigned in some branches and dropped in others).
func k4Body(ns []*ir.Node) string {
	return strings.ReplaceAll(ir.Render(ns), "$ret0 = ", "")
}
