package rules

import (
	"fmt"
	"go/ast"
	"go/constant"
	"go/parser"
	"go/token"
	"go/types"
	"regexp"
	"sort"
	"strconv"
	"strings"

	"tcheck/ir"
	"tcheck/load"
)

// Rules of round 11 (seeds RBC*). Each is a structural necessary condition of the property it
// is wired into; what it does not decide is said in its comment.

func walkNodes(ns []*ir.Node, f func(n *ir.Node)) {
	for _, n := range ns {
		f(n)
		walkNodes(n.Kids, f)
		walkNodes(n.Else, f)
	}
}

// ---------------------------------------------------------------------------------------------
// O13: a built access pattern owns its slices. MakeAP stores the two slices it is given; the
// access pattern of a live tensor gives its shape and strides back to the ints pool when it is
// reshaped or returned (ReturnInts zeroes them). A MakeAP whose shape or strides argument is
// the very slice of the receiver's or a parameter's pattern (x.shape, x.strides, x.Shape(),
// x.Strides() - after forward substitution of single-assignment locals) therefore makes two
// owners of one pooled slice. A slice expression of a scratch buffer (it.shape[:n]) and the
// fields of a local pattern that the function itself obtained (ownership moves) are not
// instances.
var o13Arg = regexp.MustCompile(`^(?:tensor\.Shape\()?\$[A-Za-z_]\w*(?:\.AP|\.Info\(\))?\.(?:shape|strides|Shape\(\)|Strides\(\))\)?$`)

func O13(rc *RC) {
	rc.S.Declare("O13", "a built access pattern owns its slices: no MakeAP call takes the shape or strides slice of the receiver's or a parameter's own access pattern without a copy (the source pattern gives those slices back to the pool, which zeroes them)", 3)
	n := 0
	for _, fi := range rc.P.SortedFuncs() {
		if fi.Pkg != rc.P.Root || fi.Decl == nil || fi.Decl.Body == nil || strings.HasSuffix(fi.File, "_test.go") || fi.Key == "tensor.MakeAP" {
			continue
		}
		has := false
		ast.Inspect(fi.Decl.Body, func(m ast.Node) bool {
			if c, ok := m.(*ast.CallExpr); ok {
				if id, ok := c.Fun.(*ast.Ident); ok && id.Name == "MakeAP" {
					has = true
				}
			}
			return !has
		})
		if !has {
			continue
		}
		_, tree := sCanon(rc, fi)
		pos := rc.P.Pos(fi.Decl.Pos())
		k := 0
		walkNodes(tree, func(nd *ir.Node) {
			for _, txt := range []string{nd.Head} {
				rest := txt
				for {
					j := strings.Index(rest, "MakeAP(")
					if j < 0 {
						break
					}
					args, end := callArgsAt(rest, j+len("MakeAP("))
					rest = rest[end:]
					if len(args) < 2 {
						continue
					}
					k++
					n++
					key := fmt.Sprintf("%s#MakeAP%d", fi.Key, k)
					var shared []string
					for _, a := range args[:2] {
						if o13Arg.MatchString(a) {
							shared = append(shared, a)
						}
					}
					if len(shared) > 0 {
						o := rc.S.Viol("O13", key, pos, fmt.Sprintf("MakeAP(%s) stores %s, the live slice of another access pattern: both patterns now own it, and either one gives it back to the ints pool (ReturnInts zeroes it) while the other still reads it", strings.Join(args, ", "), strings.Join(shared, " and ")))
						o.Sig = "shared " + strings.Join(shared, ",")
						o.Firm = true
					} else {
						rc.S.Ok("O13", key, pos, "shape and strides are copies, scratch slices or locals of the function: "+strings.Join(args[:2], ", "))
					}
				}
			}
		})
	}
	rc.S.Count("O13.MakeAP-sites", n)
}

// callArgsAt splits the arguments of the call whose argument list starts at s[i:]; returns the
// index just after the closing parenthesis.
func callArgsAt(s string, i int) ([]string, int) {
	d := 1
	j := i
	for j < len(s) && d > 0 {
		switch s[j] {
		case '(', '[', '{':
			d++
		case ')', ']', '}':
			d--
		}
		j++
	}
	if d != 0 {
		return nil, len(s)
	}
	return splitArgs(s[i : j-1]), j
}

// ---------------------------------------------------------------------------------------------
// T15: a lazy transposition installs the pattern AP.T built, as it is. AP.T returns the
// permuted shape and strides together with an order flag that carries the Transposed mark -
// the only thing that tells AP.S (and so every later slice) that the strides are not those of
// the data order. A function that records a lazy transposition on an object (stores its old
// pattern and the axes) must install the value AP.T returned; rebuilding it from its parts with
// another order flag keeps the permuted strides and loses the mark.
var t15Tuple = regexp.MustCompile(`\.T\(`)

func T15(rc *RC) {
	rc.S.Declare("T15", "a lazy transposition installs AP.T's pattern unchanged: where a function records old pattern and axes on an object, the AP it stores there is the first result of the AP.T call (or is rebuilt with that result's own order flag)", 2)
	for _, key := range []string{"tensor.(*Dense).T", "tensor.(*Dense).SafeT"} {
		fi := anchor(rc, "T15", key)
		if fi == nil {
			continue
		}
		pos := rc.P.Pos(fi.Decl.Pos())
		_, tree := sCanon(rc, fi)
		transforms := map[string]bool{}
		walkNodes(tree, func(n *ir.Node) {
			if n.Kind == "tuple" && len(n.Targets) > 0 && strings.HasPrefix(n.Targets[0], "%") && t15Tuple.MatchString(n.Value) && strings.Contains(n.Value, ".T(") {
				transforms[n.Targets[0]] = true
			}
		})
		if len(transforms) == 0 {
			rc.S.Ok("T15", key, pos, "no local holds the result of AP.T (another form): not judged")
			continue
		}
		var bad []string
		stores := 0
		walkNodes(tree, func(n *ir.Node) {
			if (n.Kind != "store" && n.Kind != "let") || !strings.HasSuffix(n.Target, ".AP") {
				return
			}
			v := n.Value
			mentions := ""
			for t := range transforms {
				if v == t {
					stores++
					return
				}
				if strings.Contains(v, t+".") {
					mentions = t
				}
			}
			if mentions == "" {
				return // another source (restore of old, a clone): not this rule's business
			}
			stores++
			if strings.HasPrefix(v, "MakeAP(") {
				args, _ := callArgsAt(v, len("MakeAP("))
				if len(args) >= 3 && args[2] != mentions+".o" {
					bad = append(bad, fmt.Sprintf("%s = %s: shape and strides are those AP.T permuted but the order flag is %s, not %s.o - the Transposed mark is lost, and a later slice of the result is taken for contiguous", n.Target, v, args[2], mentions))
				}
			}
		})
		if len(bad) > 0 {
			rc.S.Viol("T15", key, pos, strings.Join(bad, "; ")).Sig = "rebuilt pattern"
		} else {
			rc.S.Ok("T15", key, pos, fmt.Sprintf("%d store(s) of the transposed pattern, each the value AP.T returned", stores))
		}
	}
}

// ---------------------------------------------------------------------------------------------
// AD: no decision on where a buffer starts, where elements are reached through iterators. In a
// function that walks its operands with iterators the buffers handed in are the operands' whole
// storage windows: two different views of one parent start at the same element (parent[:,0]
// and parent[0,:]) without being the same set of elements. A comparison of the addresses of two
// buffers' first elements (&a[0] == &b[0], Uintptr() == Uintptr(), Pointer() == Pointer()) in
// such a function decides something the addresses cannot know. Expected count: zero; the
// matcher is run on a built-in positive example on every run.
func AD(rc *RC) {
	rc.S.Declare("AD", "no decision on buffer start addresses under iterators: a function that takes an iterator never compares the addresses of two buffers' first elements (two different views of one parent may start at the same element)", 0)
	isAddr := func(e ast.Expr) bool {
		for {
			if p, ok := e.(*ast.ParenExpr); ok {
				e = p.X
				continue
			}
			if c, ok := e.(*ast.CallExpr); ok && len(c.Args) == 1 {
				// conversions: unsafe.Pointer(x), uintptr(x)
				switch f := c.Fun.(type) {
				case *ast.SelectorExpr:
					if f.Sel.Name == "Pointer" {
						if id, ok := f.X.(*ast.Ident); ok && id.Name == "unsafe" {
							e = c.Args[0]
							continue
						}
					}
				case *ast.Ident:
					if f.Name == "uintptr" {
						e = c.Args[0]
						continue
					}
				}
			}
			break
		}
		switch x := e.(type) {
		case *ast.UnaryExpr:
			if x.Op == token.AND {
				_, isIdx := x.X.(*ast.IndexExpr)
				return isIdx
			}
		case *ast.CallExpr:
			if s, ok := x.Fun.(*ast.SelectorExpr); ok && len(x.Args) == 0 && (s.Sel.Name == "Uintptr" || s.Sel.Name == "Pointer") {
				return true
			}
		}
		return false
	}
	match := func(fd *ast.FuncDecl) []*ast.BinaryExpr {
		takesIter := false
		if fd.Type.Params != nil {
			for _, f := range fd.Type.Params.List {
				if strings.HasSuffix(types.ExprString(f.Type), "Iterator") {
					takesIter = true
				}
			}
		}
		if !takesIter || fd.Body == nil {
			return nil
		}
		var out []*ast.BinaryExpr
		ast.Inspect(fd.Body, func(m ast.Node) bool {
			if b, ok := m.(*ast.BinaryExpr); ok && (b.Op == token.EQL || b.Op == token.NEQ) && isAddr(b.X) && isAddr(b.Y) {
				out = append(out, b)
			}
			return true
		})
		return out
	}
	fset := token.NewFileSet()
	src := "package p\ntype Iterator interface{ Next() (int, error) }\nfunc cp(dst, src []byte, di, si Iterator) int { if len(dst) > 0 && &dst[0] == &src[0] { return 0 }; return 1 }\n"
	f, err := parser.ParseFile(fset, "ad.go", src, 0)
	ok := err == nil
	if ok {
		n := 0
		for _, d := range f.Decls {
			if fd, isF := d.(*ast.FuncDecl); isF {
				n += len(match(fd))
			}
		}
		ok = n == 1
	}
	if !ok {
		rc.S.Undec("AD", "self-test", "-", "the matcher no longer recognises its built-in positive example")
		return
	}
	n := 0
	for _, fi := range rc.P.SortedFuncs() {
		if fi.Decl == nil || fi.Decl.Body == nil || strings.HasSuffix(fi.File, "_test.go") {
			continue
		}
		if fi.Pkg != rc.P.Root && fi.Pkg != rc.P.Stor && fi.Pkg != rc.P.Exec {
			continue
		}
		ms := match(fi.Decl)
		if fi.Decl.Type.Params != nil {
			for _, f := range fi.Decl.Type.Params.List {
				if strings.HasSuffix(types.ExprString(f.Type), "Iterator") {
					n++
					break
				}
			}
		}
		for i, b := range ms {
			rc.S.Viol("AD", fmt.Sprintf("%s#addr%d", fi.Key, i+1), rc.P.Pos(b.Pos()), fmt.Sprintf("%s compares where two buffers start, in a function that reaches the elements through iterators: two different views of one parent can start at the same element, so equal addresses do not mean the same elements", types.ExprString(b))).Firm = true
		}
	}
	rc.S.Count("AD.iterator-taking-functions", n)
	rc.S.Ok("AD", "module", "-", fmt.Sprintf("%d iterator-taking functions scanned", n))
}

// ---------------------------------------------------------------------------------------------
// I15: exhaustion is flagged on the last axis of the walk. An odometer loop visits the axes in
// carry order; on the last axis it visits there is no further axis to carry into, so every way
// of moving on from that axis (`continue`, or falling off the end of the body) means the walk
// is over and must have set the done flag. Paths are enumerated over the loop body with the
// loop variable pinned to the last axis: guards (i == L) / (i != L) are decided, guards that
// compare the loop variable with anything else are left open (both outcomes feasible).
var (
	i15LoopDown = regexp.MustCompile(`^for \((%\w+) >= 0\) ; (%\w+) = \((%\w+) - 1\)$`)
	i15LoopUp   = regexp.MustCompile(`^for \((.+) >= (%\w+)\) ; (%\w+) = \((%\w+) \+ 1\)$`)
	i15LoopUpLt = regexp.MustCompile(`^for \((.+) > (%\w+)\) ; (%\w+) = \((%\w+) \+ 1\)$`)
)

func I15(rc *RC) {
	rc.S.Declare("I15", "exhaustion on the last axis: in every odometer loop that sets the done flag, each path of the loop body that moves on from the last axis of the walk (continue / end of body) has set done (loop variable pinned to that axis; comparisons with other terms left open)", 2)
	for _, fi := range rc.P.SortedFuncs() {
		if fi.Pkg != rc.P.Root || fi.Decl == nil || fi.Decl.Body == nil || fi.Decl.Recv == nil || !strings.Contains(fi.Key, "(*FlatIterator)") || strings.HasSuffix(fi.File, "_test.go") {
			continue
		}
		_, tree := sCanon(rc, fi)
		pos := rc.P.Pos(fi.Decl.Pos())
		walkNodes(tree, func(n *ir.Node) {
			if n.Kind != "loop" || !strings.Contains(ir.Render(n.Kids), "$r.done = true") {
				return
			}
			var iv, last string
			if m := i15LoopDown.FindStringSubmatch(n.Head); m != nil && m[1] == m[2] && m[2] == m[3] {
				iv, last = m[1], "0"
			} else if m := i15LoopUp.FindStringSubmatch(n.Head); m != nil && m[2] == m[3] && m[3] == m[4] {
				iv, last = m[2], m[1]
			} else if m := i15LoopUpLt.FindStringSubmatch(n.Head); m != nil && m[2] == m[3] && m[3] == m[4] {
				iv, last = m[2], "("+m[1]+" - 1)"
			} else {
				rc.S.Ok("I15", fi.Key, pos, "the loop header is of another form ("+n.Head+"): its last axis is not identified, not judged")
				return
			}
			paths, ok := ir.EnumPaths(n.Kids, 500)
			if !ok {
				rc.S.Undec("I15", fi.Key, pos, "too many paths through the loop body")
				return
			}
			eqRe := regexp.MustCompile(`^\(` + regexp.QuoteMeta(iv) + ` (==|!=) (.+)\)$|^\((.+) (==|!=) ` + regexp.QuoteMeta(iv) + `\)$`)
			isInt := func(s string) bool { _, err := strconv.Atoi(s); return err == nil }
			var bad []string
			judged := 0
			for _, p := range paths {
				if p.Exit != "continue" && p.Exit != "" {
					continue
				}
				fs := ir.PathFormulas(p)
				var prem []*ir.BExpr
				prem = append(prem, fs...)
				seen := map[string]bool{}
				for _, f := range fs {
					for _, a := range f.Atoms() {
						if seen[a] {
							continue
						}
						seen[a] = true
						m := eqRe.FindStringSubmatch(a)
						if m == nil {
							continue
						}
						op, other := m[1], m[2]
						if m[1] == "" {
							op, other = m[4], m[3]
						}
						var val, known bool
						switch {
						case other == last:
							val, known = op == "==", true
						case isInt(other) && isInt(last):
							val, known = op == "!=", true
						}
						if known {
							if val {
								prem = append(prem, ir.BAtom(a))
							} else {
								prem = append(prem, ir.BNot(ir.BAtom(a)))
							}
						}
					}
				}
				if ir.Implies(prem, ir.BConst(false)) {
					continue // not taken on the last axis
				}
				judged++
				set := false
				for _, st := range p.Steps {
					if (st.Kind == "store" || st.Kind == "let") && st.Target == "$r.done" && st.Value == "true" {
						set = true
					}
				}
				if !set {
					how := "continues"
					if p.Exit == "" {
						how = "reaches the end of the loop body"
					}
					bad = append(bad, fmt.Sprintf("with %s on the last axis of the walk (%s) the path [%s] %s without setting done: there is no further axis, the iterator is never reported exhausted and walks on", iv, last, strings.Join(p.Guards, " && "), how))
				}
			}
			if len(bad) > 0 {
				sort.Strings(bad)
				rc.S.Viol("I15", fi.Key, pos, strings.Join(uniq(bad), "; ")).Sig = "moves on from the last axis without done"
			} else {
				rc.S.Ok("I15", fi.Key, pos, fmt.Sprintf("last axis %s: %d path(s) move on from it, each after done = true", last, judged))
			}
		})
	}
}

// ---------------------------------------------------------------------------------------------
// RS: the raw reshape is used only where no lazy transposition can be pending. Dense.reshape
// overwrites shape and strides and knows nothing of a saved access pattern: on a tensor with a
// pending T() it leaves old/transposeWith behind (the next T() or UT() "restores" a pattern of
// another shape) and ignores that the data are not in the order the new default strides
// describe. The exported Reshape materialises first. Every call of the raw method is either a
// reviewed site (census, with the reason why no transposition is pending there or how the
// leftovers are cleaned), or is made on a tensor the function created itself, or comes after
// UT()/Transpose() on the same object, or is followed by clearing the saved pattern.
var rsCensus = map[string]string{
	"tensor.(*Dense).Reshape":     "after the pending transposition was materialised (Transpose) on the same path",
	"tensor.reuseCheckShape":      "followed by oldAP().zero(): the pending transposition of a reuse destination is dropped on purpose (DESIGN finding list: result order then is the raw order)",
	"tensor.(*Dense).Norm":        "second header, after UT() on it",
	"tensor.(StdEng).denseConcat": "second headers (ShallowClone) of the operands; pre-existing",
	"tensor.(StdEng).Dot":         "scalar result written into a reuse tensor, reshape() to the scalar shape; pre-existing",
}

var rsFresh = regexp.MustCompile(`^(?:New|NewDense|recycledDense|recycledDenseNoFix|borrowDense|newDense)\(`)

func RS(rc *RC) {
	rc.S.Declare("RS", "raw reshape typestate: Dense.reshape (no materialisation, saved pattern untouched) is called only at the reviewed sites, on a tensor the function created, after UT()/Transpose() on the same object, or before the saved pattern is cleared", 5)
	for _, fi := range rc.P.SortedFuncs() {
		if fi.Pkg != rc.P.Root || fi.Decl == nil || fi.Decl.Body == nil || strings.HasSuffix(fi.File, "_test.go") || strings.HasPrefix(fi.File, "sparse") {
			continue
		}
		var calls []*ast.CallExpr
		ast.Inspect(fi.Decl.Body, func(m ast.Node) bool {
			if c, ok := m.(*ast.CallExpr); ok {
				if s, ok := c.Fun.(*ast.SelectorExpr); ok && s.Sel.Name == "reshape" {
					calls = append(calls, c)
				}
			}
			return true
		})
		if len(calls) == 0 {
			continue
		}
		if why, ok := rsCensus[fi.Key]; ok {
			for i, c := range calls {
				rc.S.Ok("RS", fmt.Sprintf("%s#reshape%d", fi.Key, i+1), rc.P.Pos(c.Pos()), "reviewed site: "+why)
			}
			continue
		}
		// a new site: judged on the canonical form without substitution
		c := ir.NewCanon(rc.P.Fset, fi.Pkg.TypesInfo, ir.Options{ParamNames: true, KeepNames: true, NoSubst: true})
		tree := c.Func(fi.Decl)
		defs := map[string][]string{}
		walkNodes(tree, func(n *ir.Node) {
			if n.Kind == "let" || n.Kind == "store" {
				defs[n.Target] = append(defs[n.Target], n.Value)
			}
			if n.Kind == "tuple" && len(n.Targets) > 0 {
				defs[n.Targets[0]] = append(defs[n.Targets[0]], n.Value)
			}
		})
		paths, ok := ir.EnumPaths(tree, 4000)
		pos := rc.P.Pos(fi.Decl.Pos())
		if !ok {
			rc.S.Undec("RS", fi.Key+"#reshape", pos, "a new call of the raw reshape in a function with too many paths to follow")
			continue
		}
		re := regexp.MustCompile(`([$%][\w.]+?)\.reshape\(`)
		bad := map[string]string{}
		okSites := map[string]bool{}
		for _, p := range paths {
			for i, st := range p.Steps {
				m := re.FindStringSubmatch(st.Head)
				if m == nil {
					continue
				}
				x := m[1]
				fresh := len(defs[x]) > 0
				for _, d := range defs[x] {
					if !rsFresh.MatchString(d) {
						fresh = false
					}
				}
				established := fresh
				for _, prev := range p.Steps[:i] {
					if strings.Contains(prev.Head, x+".UT()") || strings.Contains(prev.Head, x+".Transpose()") {
						established = true
					}
				}
				for _, g := range p.Guards {
					if g == x+".old.IsZero()" || g == "!"+x+".IsMaterializable()" {
						established = true
					}
				}
				for _, next := range p.Steps[i+1:] {
					if strings.Contains(next.Head, x+".old.zero") || strings.Contains(next.Head, x+".oldAP().zero") || strings.Contains(next.Head, x+".UT()") {
						established = true
					}
				}
				if established {
					okSites[st.Head] = true
				} else if _, dup := bad[st.Head]; !dup {
					bad[st.Head] = fmt.Sprintf("%s on the path [%s]: %s may carry a pending lazy transposition here (not created by this function, no UT()/Transpose() before, saved pattern not cleared after) - the raw reshape keeps old/transposeWith of the former shape and re-labels data that are not in default order", st.Head, strings.Join(p.Guards, " && "), x)
				}
			}
		}
		if len(bad) > 0 {
			var bs []string
			for _, b := range bad {
				bs = append(bs, b)
			}
			sort.Strings(bs)
			rc.S.Viol("RS", fi.Key+"#reshape", pos, "new call of the raw reshape (not a reviewed site): "+strings.Join(bs, "; ")).Sig = "new raw reshape"
		} else {
			rc.S.Ok("RS", fi.Key+"#reshape", pos, fmt.Sprintf("new site(s), each on a tensor without a pending transposition: %d", len(okSites)))
		}
	}
}

// ---------------------------------------------------------------------------------------------
// LP: provenance of a product's destination. The engine's MatVecMul/MatMul/Outer address their
// destination by shape and data order only. The tensor methods that parse the options hand
// them a destination that handleReuse normalised (shape set, strides reset, pending
// transposition and view marker dropped) or that they created themselves; a WithIncr tensor is
// added to afterwards by the layout-aware Add (handleIncr). A destination that reaches the
// engine call from the options by any other way has not been normalised.
var lpVar = regexp.MustCompile(`^[%$][A-Za-z_]\w*$`)
var lpCall = regexp.MustCompile(`[%$]\w+\.(MatVecMul|MatMul|Outer)\(`)

func LP(rc *RC) {
	rc.S.Declare("LP", "product destinations are normalised: in Dense.MatVecMul/MatMul/Outer the third argument of the engine call is a variable that only handleReuse(...) or recycledDense(...) ever assigned", 3)
	for _, key := range []string{"tensor.(*Dense).MatVecMul", "tensor.(*Dense).MatMul", "tensor.(*Dense).Outer"} {
		fi := anchor(rc, "LP", key)
		if fi == nil {
			continue
		}
		pos := rc.P.Pos(fi.Decl.Pos())
		c := ir.NewCanon(rc.P.Fset, fi.Pkg.TypesInfo, ir.Options{ParamNames: true, KeepNames: true, NoSubst: true})
		tree := c.Func(fi.Decl)
		defs := map[string][]string{}
		walkNodes(tree, func(n *ir.Node) {
			if n.Kind == "let" || n.Kind == "store" {
				defs[n.Target] = append(defs[n.Target], n.Value)
			}
			if n.Kind == "tuple" {
				for _, t := range n.Targets {
					defs[t] = append(defs[t], n.Value)
				}
			}
		})
		var bad []string
		sites := 0
		walkNodes(tree, func(n *ir.Node) {
			txt := n.Head
			if n.Kind == "if" || n.Kind == "switch" || n.Kind == "loop" || n.Kind == "range" {
				return
			}
			loc := lpCall.FindStringIndex(txt)
			if loc == nil {
				return
			}
			args, _ := callArgsAt(txt, loc[1])
			if len(args) != 3 {
				return
			}
			sites++
			z := args[2]
			// follow plain copies (dst := handleReuse(...); retVal = dst)
			var ds []string
			seen := map[string]bool{}
			var follow func(v string)
			follow = func(v string) {
				if seen[v] {
					return
				}
				seen[v] = true
				for _, d := range defs[v] {
					if lpVar.MatchString(d) {
						follow(d)
					} else {
						ds = append(ds, d)
					}
				}
			}
			follow(z)
			if len(ds) == 0 {
				bad = append(bad, fmt.Sprintf("%s: the destination %s is not a variable this function assigned", strings.TrimSpace(txt), z))
				return
			}
			for _, d := range ds {
				if !strings.HasPrefix(d, "handleReuse(") && !strings.HasPrefix(d, "recycledDense(") {
					bad = append(bad, fmt.Sprintf("%s: the destination %s comes from %s - not from handleReuse (which resets strides and drops a pending transposition and the view marker) nor a tensor created here; the engine addresses it by shape and order alone", strings.TrimSpace(txt), z, firstN(d, 80)))
				}
			}
		})
		switch {
		case len(bad) > 0:
			rc.S.Viol("LP", key, pos, strings.Join(uniq(bad), "; ")).Sig = "unnormalised destination"
		case sites == 0:
			rc.S.Ok("LP", key, pos, "no three-argument engine call (another form): not judged")
		default:
			rc.S.Ok("LP", key, pos, fmt.Sprintf("%d engine call(s), destination assigned only by handleReuse / recycledDense", sites))
		}
	}
}

// ---------------------------------------------------------------------------------------------
// NC: the non-contiguity mark is not cleared on the strength of gaplessness alone. AP.S sets
// NonContiguous on a view; the mark keeps the raw paths (memcpy, Reshape, the flat kernels) away
// from it. A view that fills its window without gaps is still not in default order when its
// parent is lazily transposed (the strides are permuted). Clearing the bit is therefore only
// ever right under a condition that also excludes a pending transposition; a bit-clear of
// NonContiguous whose enclosing conditions say nothing about transposition is reported.
// Expected count of bit-clears: zero; the matcher runs on a built-in example on every run.
func NC(rc *RC) {
	rc.S.Declare("NC", "the NonContiguous mark of an access pattern is never cleared (&^ NonContiguous, & ^NonContiguous) except under a condition that excludes a pending transposition (IsTransposed / old.IsZero consulted)", 0)
	isNC := func(e ast.Expr) bool {
		for {
			if p, ok := e.(*ast.ParenExpr); ok {
				e = p.X
				continue
			}
			break
		}
		switch x := e.(type) {
		case *ast.Ident:
			return x.Name == "NonContiguous"
		case *ast.SelectorExpr:
			return x.Sel.Name == "NonContiguous"
		}
		return false
	}
	type hit struct {
		n     ast.Node
		conds []string
	}
	match := func(body ast.Node) []hit {
		var out []hit
		var stack []ast.Node
		ast.Inspect(body, func(m ast.Node) bool {
			if m == nil {
				stack = stack[:len(stack)-1]
				return true
			}
			stack = append(stack, m)
			found := false
			switch x := m.(type) {
			case *ast.AssignStmt:
				if x.Tok == token.AND_NOT_ASSIGN && len(x.Rhs) == 1 && isNC(x.Rhs[0]) {
					found = true
				}
			case *ast.BinaryExpr:
				if x.Op == token.AND_NOT && isNC(x.Y) {
					found = true
				}
				if x.Op == token.AND {
					for _, s := range []ast.Expr{x.X, x.Y} {
						if u, ok := s.(*ast.UnaryExpr); ok && u.Op == token.XOR && isNC(u.X) {
							found = true
						}
					}
				}
			}
			if found {
				h := hit{n: m}
				for _, a := range stack {
					if is, ok := a.(*ast.IfStmt); ok {
						h.conds = append(h.conds, types.ExprString(is.Cond))
					}
				}
				out = append(out, h)
			}
			return true
		})
		return out
	}
	fset := token.NewFileSet()
	f, err := parser.ParseFile(fset, "nc.go", "package p\ntype DataOrder byte\nconst NonContiguous DataOrder = 2\nfunc f(o DataOrder, full bool) DataOrder { if full { o &^= NonContiguous }; return o &^ NonContiguous }\n", 0)
	if err != nil || len(match(f)) != 2 {
		rc.S.Undec("NC", "self-test", "-", "the matcher no longer recognises its built-in positive example")
		return
	}
	n := 0
	for _, fi := range rc.P.SortedFuncs() {
		if fi.Pkg != rc.P.Root || fi.Decl == nil || fi.Decl.Body == nil || strings.HasSuffix(fi.File, "_test.go") || strings.HasPrefix(fi.File, "sparse") {
			continue
		}
		n++
		for i, h := range match(fi.Decl.Body) {
			key := fmt.Sprintf("%s#clear%d", fi.Key, i+1)
			all := strings.Join(h.conds, " && ")
			if strings.Contains(all, "IsTransposed") || strings.Contains(all, "old.IsZero") || strings.Contains(all, "oldAP()") {
				rc.S.Ok("NC", key, rc.P.Pos(h.n.Pos()), "cleared under a condition that consults the transposition state: "+all)
				continue
			}
			rc.S.Viol("NC", key, rc.P.Pos(h.n.Pos()), fmt.Sprintf("the NonContiguous mark is cleared under [%s], which says nothing about a pending transposition: a view that fills its window is still in permuted order when its parent is lazily transposed, and without the mark Reshape, the raw copies and the flat kernels take it for default order", all)).Sig = "clears NonContiguous"
		}
	}
	rc.S.Ok("NC", "module", "-", fmt.Sprintf("%d functions scanned", n))
}

// ---------------------------------------------------------------------------------------------
// F7: the npy header the writer emits is the header the reader's patterns accept. WriteNpy
// builds the header from two format strings; ReadNpy takes it apart with three regular
// expressions held in package variables. Both sides are constants of the program: the format
// strings are instantiated with the texts Shape's formatter produces for ranks 0 to 4 (its
// three literals "(", ", " and ")" are checked to be there), the patterns are compiled by the
// analyser, and each pattern must match each header with the expected capture. No code of the
// library runs.
var (
	f7Verb = regexp.MustCompile(`%[vdsq]`)
	f7OneD = regexp.MustCompile(`\(%[vds],\)`)
)

func F7(rc *RC) {
	rc.S.Declare("F7", "npy header agreement: every header WriteNpy's format strings can produce (ranks 0-4) is matched by ReadNpy's description, order and shape patterns, the shape pattern capturing exactly the inside of the tuple (constants of the program evaluated by the analyser)", 1)
	w := anchor(rc, "F7", "tensor.(*Dense).WriteNpy")
	r := anchor(rc, "F7", "tensor.(*Dense).ReadNpy")
	if w == nil || r == nil {
		return
	}
	pos := rc.P.Pos(r.Decl.Pos())
	info := rc.P.Root.TypesInfo
	// writer formats
	var formats []string
	ast.Inspect(w.Decl.Body, func(m ast.Node) bool {
		if bl, ok := m.(*ast.BasicLit); ok && bl.Kind == token.STRING {
			if s, err := strconv.Unquote(bl.Value); err == nil && strings.Contains(s, "'shape'") {
				formats = append(formats, s)
			}
		}
		return true
	})
	if len(formats) == 0 {
		rc.S.Undec("F7", "tensor.(*Dense).WriteNpy#formats", pos, "no header format literal with a 'shape' key found in WriteNpy")
		return
	}
	// Shape's formatter prints "(", ", ", ")"
	if sf := rc.P.Func("tensor.(Shape).Format"); sf != nil {
		lits := map[string]bool{}
		ast.Inspect(sf.Decl.Body, func(m ast.Node) bool {
			if bl, ok := m.(*ast.BasicLit); ok && bl.Kind == token.STRING {
				if s, err := strconv.Unquote(bl.Value); err == nil {
					lits[s] = true
				}
			}
			return true
		})
		if !lits["("] || !lits[", "] || !lits[")"] {
			rc.S.Undec("F7", "tensor.(Shape).Format", pos, "Shape.Format no longer writes the literals \"(\", \", \" and \")\": the header texts assumed for %v are not its output")
			return
		}
	} else {
		rc.S.Undec("F7", "tensor.(Shape).Format", pos, "unresolved anchor")
		return
	}
	// reader patterns: package variables initialised with regexp.MustCompile(<constant>) and used in ReadNpy
	pats := map[string]string{}
	used := map[types.Object]bool{}
	ast.Inspect(r.Decl.Body, func(m ast.Node) bool {
		if c, ok := m.(*ast.CallExpr); ok {
			if s, ok := c.Fun.(*ast.SelectorExpr); ok && strings.HasPrefix(s.Sel.Name, "Find") {
				if id, ok := s.X.(*ast.Ident); ok {
					if o := info.Uses[id]; o != nil {
						used[o] = true
					}
				}
			}
		}
		return true
	})
	for _, file := range rc.P.Root.Syntax {
		for _, d := range file.Decls {
			gd, ok := d.(*ast.GenDecl)
			if !ok || gd.Tok != token.VAR {
				continue
			}
			for _, sp := range gd.Specs {
				vs := sp.(*ast.ValueSpec)
				for i, nm := range vs.Names {
					if !used[info.Defs[nm]] || i >= len(vs.Values) {
						continue
					}
					if c, ok := vs.Values[i].(*ast.CallExpr); ok && len(c.Args) == 1 {
						if tv, ok := info.Types[c.Args[0]]; ok && tv.Value != nil && tv.Value.Kind() == constant.String {
							pats[nm.Name] = constant.StringVal(tv.Value)
						}
					}
				}
			}
		}
	}
	role := func(p string) string {
		switch {
		case strings.Contains(p, "'shape'"):
			return "shape"
		case strings.Contains(p, "'descr'"):
			return "descr"
		case strings.Contains(p, "'fortran_order'"):
			return "order"
		}
		return ""
	}
	byRole := map[string]*regexp.Regexp{}
	for nm, p := range pats {
		if ro := role(p); ro != "" {
			re, err := regexp.Compile(p)
			if err != nil {
				rc.S.Viol("F7", "tensor."+nm, pos, "the pattern does not compile: "+err.Error())
				return
			}
			byRole[ro] = re
		}
	}
	if byRole["shape"] == nil || byRole["descr"] == nil || byRole["order"] == nil {
		rc.S.Undec("F7", "tensor.(*Dense).ReadNpy#patterns", pos, fmt.Sprintf("the three header patterns were not all found as constant regexp.MustCompile initialisers (found %d)", len(byRole)))
		return
	}
	shapes := [][]int{{}, {3}, {1}, {2, 3}, {1, 1}, {1, 2, 1, 3}, {4, 1, 2}}
	inner := func(s []int, one bool) string {
		var parts []string
		for _, d := range s {
			parts = append(parts, strconv.Itoa(d))
		}
		if one {
			return parts[0] + ","
		}
		return strings.Join(parts, ", ")
	}
	var bad []string
	checked := 0
	for _, fm := range formats {
		oneD := f7OneD.MatchString(fm)
		for _, s := range shapes {
			if oneD != (len(s) == 1) {
				continue
			}
			in := inner(s, oneD)
			// the first verb is the element type, the second the shape (or its only dimension)
			k := 0
			h := f7Verb.ReplaceAllStringFunc(fm, func(string) string {
				k++
				switch {
				case k == 1:
					return "f8"
				case k == 2 && oneD:
					return strconv.Itoa(s[0])
				case k == 2:
					return "(" + in + ")"
				}
				return ""
			})
			if k != 2 {
				rc.S.Undec("F7", "tensor.(*Dense).WriteNpy#formats", pos, fmt.Sprintf("the header format %q has %d verbs, not the two (element type, shape) this rule instantiates", fm, k))
				return
			}
			checked++
			if m := byRole["descr"].FindStringSubmatch(h); m == nil || m[1] != "<f8" {
				bad = append(bad, fmt.Sprintf("the description pattern does not take '<f8' out of %q", h))
			}
			if m := byRole["order"].FindStringSubmatch(h); m == nil || m[1] != "False" {
				bad = append(bad, fmt.Sprintf("the order pattern does not take False out of %q", h))
			}
			if m := byRole["shape"].FindStringSubmatch(h); m == nil {
				bad = append(bad, fmt.Sprintf("the shape pattern %q does not match the header %q that WriteNpy emits for shape %v: the file is written and cannot be read back", byRole["shape"].String(), h, s))
			} else if m[1] != in {
				bad = append(bad, fmt.Sprintf("the shape pattern captures %q, not %q, from %q", m[1], in, h))
			}
		}
	}
	if len(bad) > 0 {
		rc.S.Viol("F7", "tensor.(*Dense).ReadNpy#header", pos, strings.Join(uniq(bad), "; ")).Sig = "header not accepted"
	} else {
		rc.S.Ok("F7", "tensor.(*Dense).ReadNpy#header", pos, fmt.Sprintf("%d header texts (ranks 0-4) from %d format string(s): all three patterns match with the expected captures", checked, len(formats)))
	}
}

// ---------------------------------------------------------------------------------------------
// F8: writer and reader name the element type the same way. The protobuf and flatbuffers
// encoders store a string for the element type; their decoders look the type up by comparing
// that string with a string computed from each registered Dtype. Dtype has two such strings
// (String() and the embedded reflect.Type's Name()), equal for the built-in numeric types and
// different for user-registered types and unsafe.Pointer. Both sides of a format must use the
// same method.
func F8(rc *RC) {
	rc.S.Declare("F8", "element type naming agreement: in each of the protobuf and flatbuffers pairs the encoder and the decoder compute the element type's name with the same method of Dtype (String or Name)", 2)
	methods := func(fi *load.FuncInfo) map[string]bool {
		out := map[string]bool{}
		info := fi.Pkg.TypesInfo
		ast.Inspect(fi.Decl.Body, func(m ast.Node) bool {
			c, ok := m.(*ast.CallExpr)
			if !ok || len(c.Args) != 0 {
				return true
			}
			s, ok := c.Fun.(*ast.SelectorExpr)
			if !ok || (s.Sel.Name != "String" && s.Sel.Name != "Name") {
				return true
			}
			if tv, ok := info.Types[s.X]; ok && tv.Type != nil && strings.HasSuffix(tv.Type.String(), "tensor.Dtype") {
				out[s.Sel.Name] = true
			}
			return true
		})
		return out
	}
	set := func(m map[string]bool) string {
		var s []string
		for k := range m {
			s = append(s, k+"()")
		}
		sort.Strings(s)
		return strings.Join(s, ",")
	}
	for _, pr := range [][2]string{{"tensor.(*Dense).FBEncode", "tensor.(*Dense).FBDecode"}, {"tensor.(*Dense).PBEncode", "tensor.(*Dense).PBDecode"}} {
		e, d := anchor(rc, "F8", pr[0]), anchor(rc, "F8", pr[1])
		if e == nil || d == nil {
			continue
		}
		pos := rc.P.Pos(e.Decl.Pos())
		key := pr[0] + "~" + strings.TrimPrefix(pr[1], "tensor.")
		em, dm := methods(e), methods(d)
		if len(em) == 0 || len(dm) == 0 {
			rc.S.Ok("F8", key, pos, "one side names the element type by other means: not judged")
			continue
		}
		if set(em) != set(dm) {
			rc.S.Viol("F8", key, pos, fmt.Sprintf("the encoder names the element type with %s, the decoder looks it up with %s: for a registered user type (and unsafe.Pointer) the two strings differ and the decoder does not find the type", set(em), set(dm))).Sig = set(em) + " vs " + set(dm)
		} else {
			rc.S.Ok("F8", key, pos, "both sides use "+set(em))
		}
	}
}

// ---------------------------------------------------------------------------------------------
// MI: queries about positions in a masked tensor walk it with an iterator. The edge and run
// finders answer in positions of the flattened logical tensor; the mask is stored in storage
// order, which is the logical order only for a plain row-major tensor. Every path of these
// functions that computes an answer from the mask has created an iterator over the tensor; the
// only other exit is the early answer for a tensor without a mask.
var miFuncs = []string{"tensor.(*Dense).FlatNotMaskedEdges", "tensor.(*Dense).FlatMaskedEdges", "tensor.(*Dense).FlatNotMaskedContiguous", "tensor.(*Dense).FlatMaskedContiguous"}
var miIter = regexp.MustCompile(`Iterator`)
var miMethod = regexp.MustCompile(`\$r\.([A-Za-z_]\w*)\(`)
var miWhole = regexp.MustCompile(`[(,] ?\$r[,)]`)

func MI(rc *RC) {
	rc.S.Declare("MI", "order-sensitive mask queries go through an iterator: every returning path of the edge and run finders either answers for an unmasked tensor or has created an iterator over the receiver (the mask's storage order is not the logical order of a transposed, column-major or sliced tensor)", 4)
	for _, key := range miFuncs {
		fi := anchor(rc, "MI", key)
		if fi == nil {
			continue
		}
		pos := rc.P.Pos(fi.Decl.Pos())
		c := ir.NewCanon(rc.P.Fset, fi.Pkg.TypesInfo, ir.Options{ParamNames: true, KeepNames: true, NoSubst: true})
		tree := c.Func(fi.Decl)
		paths, ok := ir.EnumPaths(tree, 2000)
		if !ok {
			rc.S.Undec("MI", key, pos, "too many paths")
			continue
		}
		var bad []string
		n := 0
		handsOver := false
		for _, p := range paths {
			if p.Exit != "return" {
				continue
			}
			n++
			f := ir.PathFormulas(p)
			if ir.Implies(f, ir.BNot(ir.BAtom("$r.IsMasked()"))) {
				continue
			}
			it := false
			for _, st := range p.Steps {
				if st.Kind != "ret" && miIter.MatchString(st.Head) {
					it = true
				}
				if (st.Kind == "loop" || st.Kind == "range") && miIter.MatchString(ir.Render([]*ir.Node{st})) {
					it = true
				}
			}
			if !it {
				for _, st := range p.Steps {
					if miWhole.MatchString(st.Head) {
						handsOver = true // a callee that receives the tensor could build the iterator itself
					}
					for _, m := range miMethod.FindAllStringSubmatch(st.Head, -1) {
						if rc.NewHelpers()[m[1]] {
							handsOver = true // so could a new method of the tensor
						}
					}
				}
				bad = append(bad, fmt.Sprintf("the path [%s] returns %s for a masked tensor without an iterator over it: positions read off the mask in storage order are not positions of the logical tensor when it is transposed, column-major or a view", strings.Join(p.Guards, " && "), firstN(p.Ret, 60)))
			}
		}
		if len(bad) > 0 {
			o := rc.S.Viol("MI", key, pos, strings.Join(uniq(bad), "; "))
			o.Sig = "answer without iterator"
			o.Firm = !handsOver
		} else {
			rc.S.Ok("MI", key, pos, fmt.Sprintf("%d returning paths: unmasked early answer or through an iterator", n))
		}
	}
}

// ---------------------------------------------------------------------------------------------
// MM: makeMask only where there is no mask yet. makeMask sizes the mask by the SHAPE and clears
// it. The mask of a view is the parent's mask over the view's storage window - longer than the
// view's element count and indexed by storage offset; cutting it to TotalSize() misaligns every
// flag and detaches it from the parent. A call on the receiver or a parameter is made only on a
// path that established that there is no (sufficient) mask; tensors the function created and
// MaskFromSlice (documented to replace the mask) are the exceptions.
var mmCall = regexp.MustCompile(`^([$%][\w.]+)\.makeMask\(\)$`)

func MM(rc *RC) {
	rc.S.Declare("MM", "makeMask under no-mask guard: a call X.makeMask() on the receiver or a parameter is reached only on paths that established !X.IsMasked() (or that the mask is shorter than the data); a view's mask is its parent's window and must not be cut to the view's element count", 10)
	except := map[string]string{"tensor.(*Dense).MaskFromSlice": "documented: makes a new mask from the supplied slice"}
	for _, fi := range rc.P.SortedFuncs() {
		if fi.Pkg != rc.P.Root || fi.Decl == nil || fi.Decl.Body == nil || strings.HasSuffix(fi.File, "_test.go") {
			continue
		}
		has := false
		ast.Inspect(fi.Decl.Body, func(m ast.Node) bool {
			if s, ok := m.(*ast.SelectorExpr); ok && s.Sel.Name == "makeMask" {
				has = true
			}
			return !has
		})
		if !has {
			continue
		}
		if why, ok := except[fi.Key]; ok {
			rc.S.Except("MM "+fi.Key, why)
			continue
		}
		pos := rc.P.Pos(fi.Decl.Pos())
		c := ir.NewCanon(rc.P.Fset, fi.Pkg.TypesInfo, ir.Options{ParamNames: true, KeepNames: true, NoSubst: true})
		tree := c.Func(fi.Decl)
		paths, ok := ir.EnumPaths(tree, 4000)
		if !ok {
			// the generated mask comparison methods have one switch arm per element type: judge the
			// statements before the first switch, which is where the mask is prepared
			var head []*ir.Node
			for _, n := range tree {
				if n.Kind == "switch" {
					break
				}
				head = append(head, n)
			}
			paths, ok = ir.EnumPaths(head, 4000)
			if !ok {
				rc.S.Undec("MM", fi.Key, pos, "too many paths")
				continue
			}
		}
		var bad []string
		sites := 0
		for _, p := range paths {
			f := ir.PathFormulas(p)
			for _, st := range p.Steps {
				m := mmCall.FindStringSubmatch(strings.TrimSpace(st.Head))
				if m == nil {
					continue
				}
				x := m[1]
				sites++
				if strings.HasPrefix(x, "%") || strings.HasPrefix(x, "$ret") {
					continue // a tensor of the function's own
				}
				if ir.Implies(f, ir.BNot(ir.BAtom(x+".IsMasked()"))) {
					continue
				}
				short := false
				for _, g := range p.Guards {
					if strings.Contains(g, "len("+x+".mask)") && !strings.HasPrefix(g, "!") {
						short = true
					}
				}
				if short {
					continue
				}
				bad = append(bad, fmt.Sprintf("%s.makeMask() on the path [%s], which has not established that %s has no mask: an existing mask - for a view the parent's whole window - is cut to the element count of the shape and cleared", x, strings.Join(p.Guards, " && "), x))
			}
		}
		if len(bad) > 0 {
			rc.S.Viol("MM", fi.Key, pos, strings.Join(uniq(bad), "; ")).Sig = "unguarded makeMask"
		} else if sites > 0 {
			rc.S.Ok("MM", fi.Key, pos, "makeMask only where no mask exists yet, or on the function's own tensor")
		}
	}
}

// ---------------------------------------------------------------------------------------------
// CVI: a test for an infinity of one sign selects the infinity of that sign. Where a case or if
// tests math.IsInf / math32.IsInf (x, s) with a constant s and the branch assigns math.Inf(s'),
// s and s' have the same non-zero sign: IsInf(x, 0) is true for both infinities, and a branch
// taken for both that assigns a fixed-sign infinity loses the sign of one of them.
func CVI(rc *RC) {
	rc.S.Declare("CVI", "infinity sign agreement: a branch selected by IsInf(x, s) (math, math32) that yields math.Inf(s') has s and s' of the same non-zero sign", 2)
	sign := func(info *types.Info, e ast.Expr) (int, bool) {
		if tv, ok := info.Types[e]; ok && tv.Value != nil {
			if v, ok := constant.Int64Val(constant.ToInt(tv.Value)); ok {
				switch {
				case v > 0:
					return 1, true
				case v < 0:
					return -1, true
				}
				return 0, true
			}
		}
		return 0, false
	}
	isInfTest := func(info *types.Info, e ast.Expr) (int, bool) {
		c, ok := e.(*ast.CallExpr)
		if !ok || len(c.Args) != 2 {
			return 0, false
		}
		s, ok := c.Fun.(*ast.SelectorExpr)
		if !ok || s.Sel.Name != "IsInf" {
			return 0, false
		}
		return sign(info, c.Args[1])
	}
	infIn := func(info *types.Info, body []ast.Stmt) []int {
		var out []int
		for _, st := range body {
			ast.Inspect(st, func(m ast.Node) bool {
				if c, ok := m.(*ast.CallExpr); ok && len(c.Args) == 1 {
					if s, ok := c.Fun.(*ast.SelectorExpr); ok && s.Sel.Name == "Inf" {
						if v, ok := sign(info, c.Args[0]); ok {
							out = append(out, v)
						}
					}
				}
				return true
			})
		}
		return out
	}
	n := 0
	for _, fi := range rc.P.SortedFuncs() {
		if fi.Pkg != rc.P.Root || fi.Decl == nil || fi.Decl.Body == nil || strings.HasSuffix(fi.File, "_test.go") {
			continue
		}
		info := fi.Pkg.TypesInfo
		k := 0
		judge := func(cond ast.Expr, body []ast.Stmt, at token.Pos) {
			s, ok := isInfTest(info, cond)
			if !ok {
				return
			}
			signs := map[int]bool{}
			for _, s2 := range infIn(info, body) {
				signs[s2] = true
			}
			if len(signs) == 0 {
				return
			}
			k++
			n++
			key := fmt.Sprintf("%s#inf%d", fi.Key, k)
			switch {
			case s == 0 && len(signs) == 1:
				// one fixed-sign infinity for both (a branch that yields both signs selects between
				// them by a test of its own)
				for s2 := range signs {
					rc.S.Viol("CVI", key, rc.P.Pos(at), fmt.Sprintf("%s is true for both infinities, and the branch yields only the infinity of sign %+d: the sign of the other one is lost", types.ExprString(cond), s2)).Firm = true
				}
			case s != 0 && !signs[s]:
				rc.S.Viol("CVI", key, rc.P.Pos(at), fmt.Sprintf("%s selects an infinity of sign %+d and the branch yields only the one of the opposite sign", types.ExprString(cond), s)).Firm = true
			default:
				rc.S.Ok("CVI", key, rc.P.Pos(at), fmt.Sprintf("%s yields the infinity of the tested sign (or selects between both signs itself)", types.ExprString(cond)))
			}
		}
		ast.Inspect(fi.Decl.Body, func(m ast.Node) bool {
			switch x := m.(type) {
			case *ast.CaseClause:
				for _, e := range x.List {
					judge(e, x.Body, x.Pos())
				}
			case *ast.IfStmt:
				judge(x.Cond, x.Body.List, x.Pos())
			}
			return true
		})
	}
	rc.S.Count("CVI.branches", n)
}

// ---------------------------------------------------------------------------------------------
// I16: the direction setters of all iterator types do the same two things. SetReverse and
// SetForward are methods of the Iterator interface; FlatIterator and FlatSparseIterator write
// their reverse flag and rewind themselves. Every iterator type that has a reverse flag of its
// own must do both in its setters: the flag is read by its NextValid/NextInvalid (sign of the
// skip count), and its own stepping state (done, last indices) belongs to the old direction
// (finding 89: MultIterator only forwarded the call to its blocks).
func I16(rc *RC) {
	rc.S.Declare("I16", "direction setters agree across iterator types: SetReverse/SetForward of every type with a reverse field of its own write that field (true/false) and call Reset() on the receiver on every path", 4)
	for _, fi := range rc.P.SortedFuncs() {
		if fi.Pkg != rc.P.Root || fi.Decl == nil || fi.Decl.Body == nil || fi.Decl.Recv == nil || strings.HasSuffix(fi.File, "_test.go") {
			continue
		}
		name := fi.Obj.Name()
		if name != "SetReverse" && name != "SetForward" {
			continue
		}
		sig := fi.Obj.Type().(*types.Signature)
		rt := sig.Recv().Type()
		if p, ok := rt.(*types.Pointer); ok {
			rt = p.Elem()
		}
		st, ok := rt.Underlying().(*types.Struct)
		if !ok {
			continue
		}
		own := false
		for i := 0; i < st.NumFields(); i++ {
			if st.Field(i).Name() == "reverse" && !st.Field(i).Embedded() {
				own = true
			}
		}
		if !own {
			continue
		}
		pos := rc.P.Pos(fi.Decl.Pos())
		c := ir.NewCanon(rc.P.Fset, fi.Pkg.TypesInfo, ir.Options{ParamNames: true, KeepNames: true, NoSubst: true})
		paths, ok := ir.EnumPaths(c.Func(fi.Decl), 500)
		if !ok {
			rc.S.Undec("I16", fi.Key, pos, "too many paths")
			continue
		}
		want := "true"
		if name == "SetForward" {
			want = "false"
		}
		var bad []string
		for _, p := range paths {
			if p.Exit == "panic" {
				continue
			}
			flag, reset := "", false
			for _, s := range p.Steps {
				if (s.Kind == "store" || s.Kind == "let") && s.Target == "$r.reverse" {
					flag = s.Value
				}
				if strings.Contains(s.Head, "$r.Reset()") {
					reset = true
				}
			}
			switch {
			case flag == "":
				bad = append(bad, fmt.Sprintf("the path [%s] does not write the receiver's reverse flag: its NextValid/NextInvalid keep counting in the old direction", strings.Join(p.Guards, " && ")))
			case flag != want:
				bad = append(bad, fmt.Sprintf("the path [%s] writes reverse = %s", strings.Join(p.Guards, " && "), flag))
			}
			if !reset {
				bad = append(bad, fmt.Sprintf("the path [%s] does not call Reset() on the receiver: its own exhaustion flag and last indices belong to the old direction (after a complete walk the switched iterator yields nothing)", strings.Join(p.Guards, " && ")))
			}
		}
		if len(bad) > 0 {
			rc.S.Viol("I16", fi.Key, pos, strings.Join(uniq(bad), "; ")).Sig = "setter incomplete"
		} else {
			rc.S.Ok("I16", fi.Key, pos, "writes reverse = "+want+" and rewinds the receiver on every path")
		}
	}
}

// ---------------------------------------------------------------------------------------------
// F9: decoding into a used receiver. A decoder overwrites what the wire format carries; what
// it does not carry must not survive from the receiver's previous contents. (a) Every decoder
// clears the saved access pattern and the transposition axes: a pending lazy transposition of
// the old contents would be "undone" by the next T()/UT() into a pattern of another shape
// (findings 87, 90). (b) Where a decoder sets the data order by a switch over the serialised
// order, every case assigns it - an empty case keeps the receiver's old order (finding 90:
// protobuf's row-major case, while flatbuffers' assigns 0).
var f9Decoders = []string{"tensor.(*Dense).GobDecode", "tensor.(*Dense).PBDecode", "tensor.(*Dense).FBDecode", "tensor.(*Dense).ReadCSV", "tensor.(*Dense).ReadNpy"}

func F9(rc *RC) {
	rc.S.Declare("F9", "decoders reset the receiver: each of GobDecode/PBDecode/FBDecode/ReadCSV/ReadNpy clears the saved access pattern (old) and the transposition axes; every case of a switch that sets the data order from the serialised order assigns it", 5)
	for _, key := range f9Decoders {
		fi := anchor(rc, "F9", key)
		if fi == nil {
			continue
		}
		pos := rc.P.Pos(fi.Decl.Pos())
		c := ir.NewCanon(rc.P.Fset, fi.Pkg.TypesInfo, ir.Options{ParamNames: true, KeepNames: true, NoSubst: true})
		tree := c.Func(fi.Decl)
		clearsOld, clearsAxes := false, false
		var emptyCases []string
		walkNodes(tree, func(n *ir.Node) {
			h := n.Head
			if strings.Contains(h, "$r.old.zero()") || strings.Contains(h, "$r.old.zeroOnly()") || ((n.Kind == "store" || n.Kind == "let") && n.Target == "$r.old") {
				clearsOld = true
			}
			if (n.Kind == "store" || n.Kind == "let") && n.Target == "$r.transposeWith" && n.Value == "nil" {
				clearsAxes = true
			}
			if n.Kind == "switch" {
				sets := 0
				var empties []string
				for _, cs := range n.Kids {
					if strings.Contains(ir.Render(cs.Kids), "$r.o = ") || strings.Contains(ir.Render(cs.Kids), "$r.AP.o = ") {
						sets++
					} else if cs.Head != "default" {
						empties = append(empties, cs.Head)
					}
				}
				if sets > 0 {
					emptyCases = append(emptyCases, empties...)
				}
			}
		})
		var bad []string
		if !clearsOld {
			bad = append(bad, "the saved access pattern (old) of the receiver is never cleared: a lazy transposition pending on the previous contents survives the decode, and the next T()/UT() restores a pattern of the previous shape over the decoded data")
		}
		if !clearsAxes {
			bad = append(bad, "the transposition axes (transposeWith) of the receiver are never cleared")
		}
		for _, cs := range emptyCases {
			bad = append(bad, fmt.Sprintf("the data-order switch has a case (%s) that assigns no order: a receiver that was column-major stays column-major over row-major data", cs))
		}
		if len(bad) > 0 {
			rc.S.Viol("F9", key, pos, strings.Join(bad, "; ")).Sig = fmt.Sprintf("old:%v axes:%v emptycases:%d", clearsOld, clearsAxes, len(emptyCases))
		} else {
			rc.S.Ok("F9", key, pos, "clears old and transposeWith; every data-order case assigns the order")
		}
	}
}

// ---------------------------------------------------------------------------------------------
// HS: who may waive the destination's element type check. handleFuncOpts compares the element
// type of a caller-supplied destination with the expected one only when its `strict` argument
// is true (or AsSameType was given). The flag is false for the operations whose result type
// is not the operand's: comparisons (Bool unless AsSameType) and the reducers' preparation.
// Anywhere else a false waives the only element type check the destination gets, and the
// kernels then write elements of one type into storage of another (finding 91: Clamp).
var hsMayWaive = regexp.MustCompile(`^tensor\.\(StdEng\)\.(Gt|Gte|Lt|Lte|ElEq|ElNe|GtScalar|GteScalar|LtScalar|LteScalar|EqScalar|NeScalar|prepReduce)$`)

func HS(rc *RC) {
	rc.S.Declare("HS", "the destination's element type check is waived (handleFuncOpts strict=false) only by the comparisons and the reducers' preparation, whose result type is not the operand's", 30)
	n := 0
	for _, fi := range rc.P.SortedFuncs() {
		if fi.Pkg != rc.P.Root || fi.Decl == nil || fi.Decl.Body == nil || strings.HasSuffix(fi.File, "_test.go") {
			continue
		}
		info := fi.Pkg.TypesInfo
		k := 0
		ast.Inspect(fi.Decl.Body, func(m ast.Node) bool {
			c, ok := m.(*ast.CallExpr)
			if !ok {
				return true
			}
			id, ok := c.Fun.(*ast.Ident)
			if !ok || id.Name != "handleFuncOpts" || len(c.Args) < 4 {
				return true
			}
			k++
			n++
			key := fmt.Sprintf("%s#handleFuncOpts%d", fi.Key, k)
			tv, isConst := info.Types[c.Args[3]]
			switch {
			case !isConst || tv.Value == nil:
				rc.S.Ok("HS", key, rc.P.Pos(c.Pos()), "strict is computed: "+types.ExprString(c.Args[3]))
			case constant.BoolVal(tv.Value):
				rc.S.Ok("HS", key, rc.P.Pos(c.Pos()), "strict")
			case hsMayWaive.MatchString(fi.Key):
				rc.S.Ok("HS", key, rc.P.Pos(c.Pos()), "waived by an operation whose result type differs from the operand's")
			default:
				rc.S.Viol("HS", key, rc.P.Pos(c.Pos()), fmt.Sprintf("%s passes strict=false: a WithReuse/WithIncr destination of another element type than %s is accepted, and the kernels write into it as if it had that type", fi.Key, types.ExprString(c.Args[1]))).Firm = true
			}
			return true
		})
	}
	rc.S.Count("HS.handleFuncOpts-calls", n)
}

// ---------------------------------------------------------------------------------------------
// RT: a comparison's destination has the documented result type. Without AsSameType a
// comparison produces Bool; handleFuncOpts (strict=false) checks the destination's element
// type only under AsSameType, so the method itself must compare a supplied destination's
// Dtype with Bool before the bool kernels write into it. One obligation for the whole family
// of generated methods (they come from one template).
func RT(rc *RC) {
	rc.S.Declare("RT", "comparison destination type: every StdEng comparison that waives handleFuncOpts' type check compares a caller-supplied destination's element type with Bool (the documented result type without AsSameType) before the kernels write into it", 1)
	var lacking, all []string
	pos := "-"
	for _, fi := range rc.P.SortedFuncs() {
		if fi.Pkg != rc.P.Root || fi.Decl == nil || fi.Decl.Body == nil || !hsMayWaive.MatchString(fi.Key) || strings.HasSuffix(fi.Key, ".prepReduce") {
			continue
		}
		waives := false
		checks := false
		ast.Inspect(fi.Decl.Body, func(m ast.Node) bool {
			switch x := m.(type) {
			case *ast.CallExpr:
				if id, ok := x.Fun.(*ast.Ident); ok && id.Name == "handleFuncOpts" && len(x.Args) >= 4 && types.ExprString(x.Args[3]) == "false" {
					waives = true
				}
			case *ast.BinaryExpr:
				if x.Op == token.EQL || x.Op == token.NEQ {
					l, r := types.ExprString(x.X), types.ExprString(x.Y)
					if (strings.Contains(l, "reuse.Dtype()") && r == "Bool") || (strings.Contains(r, "reuse.Dtype()") && l == "Bool") {
						checks = true
					}
				}
			}
			return true
		})
		if !waives {
			continue
		}
		if pos == "-" {
			pos = rc.P.Pos(fi.Decl.Pos())
		}
		all = append(all, fi.Obj.Name())
		if !checks {
			lacking = append(lacking, fi.Obj.Name())
		}
	}
	key := "tensor.(StdEng).<comparisons>#reuse-dtype"
	switch {
	case len(all) == 0:
		rc.S.Undec("RT", key, pos, "no comparison method that waives the type check was found")
	case len(lacking) > 0:
		rc.S.Viol("RT", key, pos, fmt.Sprintf("%d of %d comparison methods (%s) never compare the destination's element type with Bool: Lt(a, b, WithReuse(float64 tensor)) without AsSameType writes bools into float64 storage and returns it with a nil error", len(lacking), len(all), strings.Join(lacking, ", "))).Sig = fmt.Sprintf("%d of %d lack the check", len(lacking), len(all))
	default:
		rc.S.Ok("RT", key, pos, fmt.Sprintf("%d comparison methods check the destination against Bool", len(all)))
	}
}

// =============================================================================================
// Rules of round 13 (seeds RDC*).

// LN: the products are the textbook sums of products, not their conjugated variants. No
// conjugating BLAS routine (?dotc, ?gerc) is called by the library: Inner is sum a_i*b_i,
// Outer is x_i*y_j. Expected count zero; the number of BLAS calls seen is reported.
var lnConj = regexp.MustCompile(`^[CZ](dotc|gerc)$`)
var lnBlas = regexp.MustCompile(`^[SDCZ](dot|dotu|dotc|ger|geru|gerc|gemv|gemm)$`)

func LN(rc *RC) {
	rc.S.Declare("LN", "no conjugating BLAS routine: the linear-algebra gateways call ?dotu/?geru (and the real routines), never ?dotc/?gerc, in any element-type arm", 8)
	n := 0
	for _, fi := range rc.P.SortedFuncs() {
		if fi.Pkg != rc.P.Root || fi.Decl == nil || fi.Decl.Body == nil || strings.HasSuffix(fi.File, "_test.go") {
			continue
		}
		k := 0
		ast.Inspect(fi.Decl.Body, func(m ast.Node) bool {
			c, ok := m.(*ast.CallExpr)
			if !ok {
				return true
			}
			s, ok := c.Fun.(*ast.SelectorExpr)
			if !ok || !lnBlas.MatchString(s.Sel.Name) {
				return true
			}
			n++
			k++
			key := fmt.Sprintf("%s#%s%d", fi.Key, s.Sel.Name, k)
			if lnConj.MatchString(s.Sel.Name) {
				rc.S.Viol("LN", key, rc.P.Pos(c.Pos()), fmt.Sprintf("%s conjugates one operand: the product is sum conj(a_i)*b_i (x_i*conj(y_j)), not the sum of products the property states", s.Sel.Name)).Firm = true
			} else {
				rc.S.Ok("LN", key, rc.P.Pos(c.Pos()), s.Sel.Name)
			}
			return true
		})
	}
	rc.S.Count("LN.blas-calls", n)
}

// F10: AP.Init installs what it is given. GobDecode hands it the decoded shape and strides and
// sets the data order afterwards: a stride computed inside Init is computed for the receiver's
// previous order (seed RDC14b; seed R9C01b made the same mistake in GobDecode itself).
func F10(rc *RC) {
	rc.S.Declare("F10", "AP.Init stores the shape and the strides it is given and derives neither", 1)
	key := "tensor.(*AP).Init"
	fi := anchor(rc, "F10", key)
	if fi == nil {
		return
	}
	pos := rc.P.Pos(fi.Decl.Pos())
	c := ir.NewCanon(rc.P.Fset, fi.Pkg.TypesInfo, ir.Options{KeepNames: true, NoSubst: true})
	txt := ir.Render(c.Func(fi.Decl))
	var bad []string
	if !strings.Contains(txt, "$r.shape = $0") {
		bad = append(bad, "the shape argument is not stored")
	}
	if !strings.Contains(txt, "$r.strides = $1") {
		bad = append(bad, "the strides argument is not stored: strides derived here are derived for the data order the receiver had before the decoder set the decoded one")
	}
	if strings.Contains(txt, "alcStrides") {
		bad = append(bad, "strides are computed inside Init, from an order flag the caller sets only afterwards")
	}
	if len(bad) > 0 {
		rc.S.Viol("F10", key, pos, strings.Join(bad, "; ")).Sig = "derives"
	} else {
		rc.S.Ok("F10", key, pos, "stores both arguments")
	}
}

// F11: addMask installs its argument on every path. GobDecode relies on addMask(nil) to drop a
// mask the receiver had before; a path that returns without the store keeps it.
func F11(rc *RC) {
	rc.S.Declare("F11", "addMask stores its argument into the receiver's mask on every returning path (an empty argument clears a previous mask)", 1)
	key := "tensor.(*Dense).addMask"
	fi := anchor(rc, "F11", key)
	if fi == nil {
		return
	}
	pos := rc.P.Pos(fi.Decl.Pos())
	c := ir.NewCanon(rc.P.Fset, fi.Pkg.TypesInfo, ir.Options{ParamNames: true, KeepNames: true, NoSubst: true})
	paths, ok := ir.EnumPaths(c.Func(fi.Decl), 200)
	if !ok {
		rc.S.Undec("F11", key, pos, "too many paths")
		return
	}
	var bad []string
	for _, p := range paths {
		if p.Exit == "panic" {
			continue
		}
		set := false
		for _, st := range p.Steps {
			if (st.Kind == "store" || st.Kind == "let") && st.Target == "$r.mask" {
				set = true
			}
		}
		if !set {
			bad = append(bad, fmt.Sprintf("the path [%s] returns without storing the mask: a mask the receiver had before stays", strings.Join(p.Guards, " && ")))
		}
	}
	if len(bad) > 0 {
		rc.S.Viol("F11", key, pos, strings.Join(bad, "; ")).Sig = "path without store"
	} else {
		rc.S.Ok("F11", key, pos, "every returning path stores the mask")
	}
}

// SW: Slice and SliceInto cut the same window. Both hand AP.S the length of the storage window
// the new offsets are relative to; for a view with gaps the element count is smaller than
// that. The first argument of the AP.S call is the same term in both.
var swCall = regexp.MustCompile(`\.AP\.S\(`)

func SW(rc *RC) {
	rc.S.Declare("SW", "Slice and SliceInto pass the same window length to AP.S (sibling agreement on the first argument)", 1)
	arg := func(key string) (string, string, bool) {
		fi := rc.P.Func(key)
		if fi == nil {
			return "", "-", false
		}
		c := ir.NewCanon(rc.P.Fset, fi.Pkg.TypesInfo, ir.Options{ParamNames: true, KeepNames: true})
		out := ""
		walkNodes(c.Func(fi.Decl), func(n *ir.Node) {
			if loc := swCall.FindStringIndex(n.Head); loc != nil && out == "" {
				if args, _ := callArgsAt(n.Head, loc[1]); len(args) > 0 {
					out = args[0]
				}
			}
		})
		return out, rc.P.Pos(fi.Decl.Pos()), out != ""
	}
	a, pos, ok1 := arg("tensor.(*Dense).Slice")
	b, _, ok2 := arg("tensor.(*Dense).SliceInto")
	key := "tensor.(*Dense).Slice~SliceInto"
	switch {
	case !ok1 || !ok2:
		rc.S.Ok("SW", key, pos, "one of the two no longer calls AP.S directly: not compared")
	case a != b:
		rc.S.Viol("SW", key, pos, fmt.Sprintf("Slice passes %s to AP.S, SliceInto passes %s: for a parent that is itself a view with gaps the two differ, and the window of the new view is cut at the wrong end", a, b)).Sig = a + " vs " + b
	default:
		rc.S.Ok("SW", key, pos, "both pass "+a)
	}
}

// SR: a second header is not a result. A value obtained from ShallowClone() shares the
// operand's storage and mask; handing it back as the result of an operation gives the caller a
// "new" tensor whose in-place use changes the operand. Only ShallowClone itself returns one.
var srDef = regexp.MustCompile(`\.ShallowClone\(\)`)

func SR(rc *RC) {
	rc.S.Declare("SR", "a second header is not a result: no function returns (or assigns to its result) a value it obtained from ShallowClone()", 5)
	n := 0
	for _, fi := range rc.P.SortedFuncs() {
		if fi.Pkg != rc.P.Root || fi.Decl == nil || fi.Decl.Body == nil || strings.HasSuffix(fi.File, "_test.go") || fi.Obj.Name() == "ShallowClone" {
			continue
		}
		c := ir.NewCanon(rc.P.Fset, fi.Pkg.TypesInfo, ir.Options{ParamNames: true, KeepNames: true, NoSubst: true})
		tree := c.Func(fi.Decl)
		if !srDef.MatchString(ir.Render(tree)) {
			continue
		}
		n++
		seconds := map[string]bool{}
		walkNodes(tree, func(nd *ir.Node) {
			if (nd.Kind == "let" || nd.Kind == "store") && srDef.MatchString(nd.Value) && lpVar.MatchString(nd.Target) {
				seconds[nd.Target] = true
			}
		})
		var bad []string
		walkNodes(tree, func(nd *ir.Node) {
			for s := range seconds {
				if nd.Kind == "ret" {
					for _, v := range splitArgs(nd.Value) {
						if v == s || strings.HasPrefix(v, s+".(") {
							bad = append(bad, "returns "+s+", a ShallowClone of an operand")
						}
					}
				}
				if (nd.Kind == "let" || nd.Kind == "store") && strings.HasPrefix(nd.Target, "$ret") && (nd.Value == s || strings.HasPrefix(nd.Value, s+".(")) {
					bad = append(bad, fmt.Sprintf("assigns %s, a ShallowClone of an operand, to the result %s", s, nd.Target))
				}
			}
		})
		pos := rc.P.Pos(fi.Decl.Pos())
		if len(bad) > 0 {
			rc.S.Viol("SR", fi.Key, pos, strings.Join(uniq(bad), "; ")+": the caller receives a tensor that shares the operand's storage and mask, and any in-place use of it changes the operand").Sig = "second header returned"
		} else {
			rc.S.Ok("SR", fi.Key, pos, "second headers stay local")
		}
	}
	rc.S.Count("SR.functions-with-second-headers", n)
}

// UP: UnsafePermute moves elements by its pattern. On every successful path through the
// general case each loop that stores into the slices consults pattern[...]; the only case that
// needs no consulting is rank 2, where validity and the preceding identity test leave (1, 0).
func UP(rc *RC) {
	rc.S.Declare("UP", "UnsafePermute permutes by its pattern: on every returning path outside the rank-2 case, every loop that stores elements of the permuted slices reads pattern[...]", 1)
	key := "tensor.UnsafePermute"
	fi := anchor(rc, "UP", key)
	if fi == nil {
		return
	}
	pos := rc.P.Pos(fi.Decl.Pos())
	c := ir.NewCanon(rc.P.Fset, fi.Pkg.TypesInfo, ir.Options{ParamNames: true, KeepNames: true, NoSubst: true})
	paths, ok := ir.EnumPaths(c.Func(fi.Decl), 4000)
	if !ok {
		rc.S.Undec("UP", key, pos, "too many paths")
		return
	}
	elemStore := regexp.MustCompile(`\[[^\]\n]+\]\)? = `)
	var bad []string
	movers := 0
	for _, p := range paths {
		if p.Exit != "return" {
			continue
		}
		g := strings.Join(p.Guards, " && ")
		for _, st := range p.Steps {
			if st.Kind != "loop" && st.Kind != "range" {
				continue
			}
			txt := ir.Render([]*ir.Node{st})
			if !elemStore.MatchString(txt) || strings.Contains(txt, "%seen[") && !strings.Contains(txt, "], ") {
				continue
			}
			if !regexp.MustCompile(`\([%$]?\w+(?:\[[^\]\n]+\])+, [%$]?\w+(?:\[[^\]\n]+\])+\) = `).MatchString(txt) {
				continue // not a swap of elements
			}
			movers++
			if strings.Contains(txt, "$pattern[") || strings.Contains(g, "case 2") {
				continue
			}
			bad = append(bad, fmt.Sprintf("on the path [%s] elements are exchanged by a loop that never reads the pattern: whatever it does is right for some patterns only", firstN(g, 300)))
		}
	}
	switch {
	case len(bad) > 0:
		rc.S.Viol("UP", key, pos, strings.Join(uniq(bad), "; ")).Sig = "moves without the pattern"
	case movers == 0:
		rc.S.Ok("UP", key, pos, "no element-exchanging loop recognised (another form): not judged")
	default:
		rc.S.Ok("UP", key, pos, fmt.Sprintf("%d exchanging loop(s) on returning paths, each reads the pattern or is the rank-2 case", movers))
	}
}

// IM: a masked tensor gets a masked iterator. In IteratorFromDense the single-tensor case
// returns the masked iterator on every path on which the tensor is masked, whatever else the
// path tests (a one-element tensor "requires no iterator" and is still masked).
func IM(rc *RC) {
	rc.S.Declare("IM", "IteratorFromDense: on every path that returns the plain flat iterator for a single tensor, the tensor was found not to be masked (or not to be a MaskedTensor)", 1)
	key := "tensor.IteratorFromDense"
	fi := anchor(rc, "IM", key)
	if fi == nil {
		return
	}
	pos := rc.P.Pos(fi.Decl.Pos())
	_, tree := sCanon(rc, fi)
	paths, ok := ir.EnumPaths(tree, 500)
	if !ok {
		rc.S.Undec("IM", key, pos, "too many paths")
		return
	}
	var bad []string
	n := 0
	for _, p := range paths {
		if p.Exit != "return" || !strings.HasPrefix(p.Ret, "FlatIteratorFromDense(") {
			continue
		}
		n++
		f := pathG(p)
		notMasked := false
		var masked, oks []string
		for _, g := range f {
			for _, a := range g.Atoms() {
				if strings.HasSuffix(a, ".IsMasked()") {
					masked = append(masked, a)
				}
				if a == "%ok" || strings.HasSuffix(a, "ok") {
					oks = append(oks, a)
				}
			}
		}
		for _, a := range masked {
			if ir.Implies(f, ir.BNot(ir.BAtom(a))) {
				notMasked = true
			}
			for _, o := range oks {
				// not a MaskedTensor, or not masked
				if ir.Implies(f, ir.BOr(ir.BNot(ir.BAtom(o)), ir.BNot(ir.BAtom(a)))) {
					notMasked = true
				}
			}
		}
		for _, o := range oks {
			if ir.Implies(f, ir.BNot(ir.BAtom(o))) {
				notMasked = true
			}
		}
		if !notMasked {
			bad = append(bad, fmt.Sprintf("the path [%s] returns the plain iterator without having found the tensor unmasked: a masked tensor on this path is walked as if every element were valid", strings.Join(p.Guards, " && ")))
		}
	}
	if len(bad) > 0 {
		rc.S.Viol("IM", key, pos, strings.Join(uniq(bad), "; ")).Sig = "plain iterator for a possibly masked tensor"
	} else {
		rc.S.Ok("IM", key, pos, fmt.Sprintf("%d path(s) return the plain iterator, each for a tensor found unmasked", n))
	}
}

// WP: wrapper parity. The package-level Narrow and the method (*Dense).Narrow are the same
// three statements; a refusal or normalisation added to one of them makes the two entry points
// of one operation disagree.
func WP(rc *RC) {
	rc.S.Declare("WP", "wrapper parity: tensor.Narrow and (*Dense).Narrow are the same code up to the receiver", 1)
	text := func(key, recv string) (string, string, bool) {
		fi := rc.P.Func(key)
		if fi == nil {
			return "", "-", false
		}
		c := ir.NewCanon(rc.P.Fset, fi.Pkg.TypesInfo, ir.Options{ParamNames: true, KeepNames: true})
		t := stringLit.ReplaceAllString(ir.Render(c.Func(fi.Decl)), `"…"`)
		if recv != "" {
			t = ir.ReplaceWord(t, recv, "$r")
		}
		return alphaNormKeepRecv(t), rc.P.Pos(fi.Decl.Pos()), true
	}
	a, pos, ok1 := text("tensor.Narrow", "$t")
	b, _, ok2 := text("tensor.(*Dense).Narrow", "")
	key := "tensor.Narrow~(*Dense).Narrow"
	switch {
	case !ok1 || !ok2:
		rc.S.Undec("WP", key, pos, "unresolved anchor")
	case a == b:
		rc.S.Ok("WP", key, pos, "same code")
	case sameSkeleton(a, b):
		rc.S.Viol("WP", key, pos, "the two entry points of Narrow differ: "+firstDiff(a, b)).Sig = firstDiff(a, b)
	default:
		// one of them has statements the other lacks: a refusal or a normalisation of its own
		rc.S.Viol("WP", key, pos, "the two entry points of Narrow are no longer the same code (one validates, clamps or normalises where the other does not): "+firstDiff(a, b)).Sig = "different statements"
	}
}

// SA: append(s[:0], s...) is not a copy. It appends the slice onto its own array; the result
// shares storage with s. Expected count zero; self-tested.
func SA(rc *RC) {
	rc.S.Declare("SA", "no self-append taken for a copy: append(s[:0], s...) returns s's own storage", 0)
	match := func(body ast.Node) []*ast.CallExpr {
		var out []*ast.CallExpr
		ast.Inspect(body, func(m ast.Node) bool {
			c, ok := m.(*ast.CallExpr)
			if !ok || len(c.Args) != 2 || !c.Ellipsis.IsValid() {
				return true
			}
			if id, ok := c.Fun.(*ast.Ident); !ok || id.Name != "append" {
				return true
			}
			sl, ok := c.Args[0].(*ast.SliceExpr)
			if !ok || sl.Low != nil && types.ExprString(sl.Low) != "0" || sl.High == nil || types.ExprString(sl.High) != "0" {
				return true
			}
			if types.ExprString(sl.X) == types.ExprString(c.Args[1]) {
				out = append(out, c)
			}
			return true
		})
		return out
	}
	fset := token.NewFileSet()
	f, err := parser.ParseFile(fset, "sa.go", "package p\nfunc f(b []float64) []float64 { b = append(b[:0], b...); return b }\n", 0)
	if err != nil || len(match(f)) != 1 {
		rc.S.Undec("SA", "self-test", "-", "the matcher no longer recognises its built-in positive example")
		return
	}
	n := 0
	for _, fi := range rc.P.SortedFuncs() {
		if fi.Pkg != rc.P.Root || fi.Decl == nil || fi.Decl.Body == nil || strings.HasSuffix(fi.File, "_test.go") {
			continue
		}
		n++
		for i, c := range match(fi.Decl.Body) {
			rc.S.Viol("SA", fmt.Sprintf("%s#selfappend%d", fi.Key, i+1), rc.P.Pos(c.Pos()), fmt.Sprintf("%s appends the slice onto its own array: nothing is copied and the result shares its storage", types.ExprString(c))).Firm = true
		}
	}
	rc.S.Ok("SA", "module", "-", fmt.Sprintf("%d functions scanned", n))
}

// VH: Vstack joins along axis 0 and Hstack along axis 1 (axis 0 for vectors): the axis argument
// of their Concat calls is that constant, not a term of the rank.
func VH(rc *RC) {
	rc.S.Declare("VH", "Vstack concatenates along axis 0; Hstack along axis 1 (0 for vectors): the axis handed to Concat is that literal", 2)
	call := regexp.MustCompile(`\$r\.Concat\(`)
	for _, e := range []struct {
		key     string
		allowed map[string]bool
		must    string
	}{{"tensor.(*Dense).Vstack", map[string]bool{"0": true}, "0"}, {"tensor.(*Dense).Hstack", map[string]bool{"0": true, "1": true}, "1"}} {
		fi := anchor(rc, "VH", e.key)
		if fi == nil {
			continue
		}
		pos := rc.P.Pos(fi.Decl.Pos())
		_, tree := sCanon(rc, fi)
		var bad []string
		seen := map[string]bool{}
		walkNodes(tree, func(n *ir.Node) {
			txt := n.Head
			if n.Kind == "ret" {
				txt = "return " + n.Value
			}
			if loc := call.FindStringIndex(txt); loc != nil {
				if args, _ := callArgsAt(txt, loc[1]); len(args) > 0 {
					seen[args[0]] = true
					if !e.allowed[args[0]] && (strings.Contains(args[0], "$") || strings.Contains(args[0], "(")) {
						bad = append(bad, fmt.Sprintf("Concat is called with axis %s", args[0]))
					}
				}
			}
		})
		switch {
		case len(bad) > 0:
			rc.S.Viol("VH", e.key, pos, strings.Join(uniq(bad), "; ")+": the stacking axis is a constant of the operation, whatever the rank of the operands").Sig = "axis term"
		case len(seen) == 0:
			rc.S.Ok("VH", e.key, pos, "no direct Concat call (another form): not judged")
		case !seen[e.must] && func() bool {
			for a := range seen {
				if !e.allowed[a] {
					return false // a named constant: not judged
				}
			}
			return true
		}():
			rc.S.Viol("VH", e.key, pos, "no Concat call along axis "+e.must).Sig = "axis missing"
		default:
			rc.S.Ok("VH", e.key, pos, "Concat along the operation's own axis")
		}
	}
}

// O6p: every reset in ReturnTensor is unconditional in the tensor's other state. O6 (on SSA,
// flow-insensitive) shows that each field is stored with its zero value somewhere; a reset
// that sits under a condition on ANOTHER field of the tensor (seed RFC13a: the saved pattern
// cleared only when the tensor is not a view) leaves that field as it was on the other branch.
// A condition on the field itself (`if transposeWith != nil { … transposeWith = nil }`) is the
// usual release idiom and is accepted.
var o6pField = regexp.MustCompile(`(%\w+)\.([A-Za-z_]\w*)`)

func O6p(rc *RC) {
	rc.S.Declare("O6p", "pool hygiene, path clause: no reset of a field of the recycled tensor in ReturnTensor is guarded by a condition on another field of that tensor", 1)
	key := "tensor.ReturnTensor"
	fi := anchor(rc, "O6p", key)
	if fi == nil {
		return
	}
	pos := rc.P.Pos(fi.Decl.Pos())
	c := ir.NewCanon(rc.P.Fset, fi.Pkg.TypesInfo, ir.Options{ParamNames: true, KeepNames: true, NoSubst: true})
	tree := c.Func(fi.Decl)
	var bad []string
	guards := 0
	walkNodes(tree, func(n *ir.Node) {
		if n.Kind != "if" {
			return
		}
		cf := map[string]bool{}
		obj := ""
		for _, m := range o6pField.FindAllStringSubmatch(n.Head, -1) {
			cf[m[2]] = true
			obj = m[1]
		}
		if obj == "" {
			return
		}
		guards++
		walkNodes(append(append([]*ir.Node{}, n.Kids...), n.Else...), func(k *ir.Node) {
			for _, m := range o6pField.FindAllStringSubmatch(k.Head, -1) {
				if m[1] == obj && !cf[m[2]] && (k.Kind == "call" || k.Kind == "store" || k.Kind == "let") && strings.HasPrefix(strings.TrimSpace(k.Head), obj+".") {
					bad = append(bad, fmt.Sprintf("%s is reset only under [%s], a condition on another field: on the other branch the pooled tensor keeps it, and the next borrower inherits it", obj+"."+m[2], n.Head))
				}
			}
		})
	})
	if len(bad) > 0 {
		rc.S.Viol("O6p", key, pos, strings.Join(uniq(bad), "; ")).Sig = "conditional reset"
	} else {
		rc.S.Ok("O6p", key, pos, fmt.Sprintf("%d guard(s) on the tensor's fields, each guarding only the release of that same field", guards))
	}
}

// MC: makeMask yields a cleared mask. Every returning path either allocates the mask afresh
// and/or clears it with memsetBools(mask, false) after the last store to it: MaskFromSlice and
// the predicates start from an all-false mask (seed RFC15b: the re-sliced old mask is returned
// as it is when its capacity suffices).
func MC(rc *RC) {
	rc.S.Declare("MC", "makeMask yields an all-false mask: on every returning path the last thing done to the mask is memsetBools(mask, false) (or it was just allocated)", 1)
	key := "tensor.(*Dense).makeMask"
	fi := anchor(rc, "MC", key)
	if fi == nil {
		return
	}
	pos := rc.P.Pos(fi.Decl.Pos())
	c := ir.NewCanon(rc.P.Fset, fi.Pkg.TypesInfo, ir.Options{ParamNames: true, KeepNames: true, NoSubst: true})
	paths, ok := ir.EnumPaths(c.Func(fi.Decl), 500)
	if !ok {
		rc.S.Undec("MC", key, pos, "too many paths")
		return
	}
	var bad []string
	for _, p := range paths {
		if p.Exit == "panic" {
			continue
		}
		state := "unknown"
		for _, st := range p.Steps {
			switch {
			case (st.Kind == "store" || st.Kind == "let") && st.Target == "$r.mask" && strings.HasPrefix(st.Value, "make("):
				state = "fresh"
			case (st.Kind == "store" || st.Kind == "let") && st.Target == "$r.mask" && strings.HasPrefix(st.Value, "$r.mask["):
				// a reslice keeps what the state was (fresh stays fresh, old stays old)
				if state != "fresh" && state != "cleared" {
					state = "old"
				}
			case (st.Kind == "store" || st.Kind == "let") && st.Target == "$r.mask":
				state = "old"
			case strings.Contains(st.Head, "memsetBools($r.mask, false)"):
				state = "cleared"
			}
		}
		if state != "fresh" && state != "cleared" {
			bad = append(bad, fmt.Sprintf("the path [%s] returns a mask that was neither allocated nor cleared: marks of the previous mask survive", strings.Join(p.Guards, " && ")))
		}
	}
	if len(bad) > 0 {
		rc.S.Viol("MC", key, pos, strings.Join(uniq(bad), "; ")).Sig = "uncleared path"
	} else {
		rc.S.Ok("MC", key, pos, "every returning path ends with a cleared or freshly allocated mask")
	}
}

// TR: Trace walks the diagonal by the matrix's own strides. One step along the diagonal is one
// step along each axis: stride[0] + stride[1]. A step derived from the shape and the data order
// is right only for a matrix whose strides are the defaults of its shape - not for a lazily
// transposed non-square matrix or a view that cuts columns (seed RFC09a).
func TR(rc *RC) {
	rc.S.Declare("TR", "Trace's diagonal step is taken from both strides of the operand (stride of axis 0 plus stride of axis 1), not derived from shape and data order", 1)
	key := "tensor.(StdEng).Trace"
	fi := anchor(rc, "TR", key)
	if fi == nil {
		return
	}
	pos := rc.P.Pos(fi.Decl.Pos())
	_, tree := sCanon(rc, fi)
	txt := ir.Render(tree)
	has := func(k string) bool {
		return strings.Contains(txt, ".Strides()["+k+"]") || strings.Contains(txt, ".strides["+k+"]")
	}
	switch {
	case has("0") && has("1"):
		rc.S.Ok("TR", key, pos, "both strides are read")
	case !strings.Contains(txt, "range") && !strings.Contains(txt, "for "):
		rc.S.Ok("TR", key, pos, "no loop over the diagonal in this function (another form): not judged")
	default:
		rc.S.Viol("TR", key, pos, "the diagonal is walked without reading both strides of the operand: a step computed from the shape or the data order is wrong for every matrix whose strides are not the defaults of its shape (a lazily transposed non-square matrix, a view that cuts columns)").Sig = "step not from strides"
	}
}
