package rules

import (
	"go/types"
	"regexp"
	"strings"

	"tcheck/ir"
)

// FL: flag-set constructors. A variadic function over a named integer flag type that returns
// the same type (MakeDataOrder, MakeMemoryFlag) is the union of its arguments: slicing,
// transposition and the constructors build "what the source was | what the operation adds"
// with it, so every accumulation into the result inside the loop over the arguments must be a
// bitwise OR of the result and the element. Any other operator (xor, and, and-not, plain
// assignment) drops a flag the source already carried - e.g. the NonContiguous flag of a view
// that is sliced again.
var flAccum = regexp.MustCompile(`^(\$ret\d+) = \((.*)\)$`)

func FL(rc *RC, floor int) {
	rc.S.Declare("FL", "flag-set constructors (variadic over a flag type, returning it) accumulate their arguments with bitwise OR only, so a flag carried by any argument is carried by the result", floor)
	for _, fi := range rc.P.AnalysisFuncs() {
		if fi.Pkg != rc.P.Root || fi.Decl == nil || fi.Decl.Body == nil || fi.Obj == nil {
			continue
		}
		sig, ok := fi.Obj.Type().(*types.Signature)
		if !ok || !sig.Variadic() || sig.Recv() != nil || sig.Params().Len() != 1 || sig.Results().Len() != 1 {
			continue
		}
		sl, ok := sig.Params().At(0).Type().(*types.Slice)
		if !ok || !types.Identical(sl.Elem(), sig.Results().At(0).Type()) {
			continue
		}
		nt, ok := sl.Elem().(*types.Named)
		if !ok {
			continue
		}
		if b, ok := nt.Underlying().(*types.Basic); !ok || b.Info()&types.IsInteger == 0 {
			continue
		}
		_, tree := sCanon(rc, fi)
		pos := rc.P.Pos(fi.Decl.Pos())
		bad := ""
		n := 0
		for _, st := range flatten(tree) {
			if st.Kind != "range" && st.Kind != "loop" {
				continue
			}
			for _, k := range flatten(st.Kids) {
				if k.Kind == "if" || k.Kind == "range" || k.Kind == "loop" || k.Kind == "switch" || k.Kind == "case" {
					continue
				}
				if !ir.HasWord(k.Head, "$ret0") {
					continue
				}
				n++
				m := flAccum.FindStringSubmatch(k.Head)
				okForm := false
				if m != nil {
					parts := strings.Split(m[2], " | ")
					if len(parts) == 2 && (parts[0] == m[1] || parts[1] == m[1]) {
						other := parts[0]
						if other == m[1] {
							other = parts[1]
						}
						okForm = !strings.ContainsAny(other, "&^|~!")
					}
				}
				if !okForm {
					bad = "accumulates with `" + k.Head + "`, which is not result | element"
					pos = rc.P.Pos(k.Pos)
				}
			}
		}
		switch {
		case bad != "":
			rc.S.Viol("FL", fi.Key, pos, bad+": a flag carried by an argument can be missing from the result").Sig = "not a union"
		case n == 0:
			rc.S.Viol("FL", fi.Key, pos, "no accumulation of the arguments into the result found inside a loop over them").Sig = "no accumulation"
		default:
			rc.S.Ok("FL", fi.Key, pos, "result accumulates every argument with bitwise OR")
		}
	}
}
