package rules

// lcCensus: raw-primitive call sites of the reviewed tree (enumerated by `dbg census`, then
// annotated). Values say why the site is acceptable or where its defect is recorded.
var lcCensus = map[string]string{
	"tensor.(*Dense).Clone#copyDense1":                    "layout-preserving copy: the clone receives the source access pattern (V1); over-copy of a strided window is finding 31",
	"tensor.(*Dense).CopyTo#copyDense1":                   "documented storage-level copy that ignores the destination metadata",
	"tensor.(*Dense).SafeT#copyDense1":                    "layout-preserving copy into a fresh tensor that receives the source access pattern (V1)",
	"tensor.(*array).fromSliceOrArrayer#copyArray1":       "constructor operating on the tensor under construction",
	"tensor.(StdEng).Dot#copyDense1":                      "hand-over of a fresh TensorMul result into reuse together with its AP",
	"tensor.(StdEng).OptimizedReduce#storage.CopySliced1": "after prepReduce refused iterator-requiring operands (LG L1)",
	"tensor.(StdEng).Reduce#storage.CopySliced1":          "after prepReduce refused iterator-requiring operands (LG L1)",
	"tensor.(StdEng).denseConcat#copyArray1":              "scalar-equivalent operand and slot: one element",
	"tensor.(StdEng).denseRepeat#copyDenseSliced1":        "views and lazily transposed operands are materialised first (LG L1; finding 32 fixed)",
	"tensor.(StdEng).denseSimpleStack#copyDense1":         "reached only under the layout accumulator (LA, LG L1)",
	"tensor.(StdEng).denseSimpleStack#copyDenseSliced1":   "reached only under the layout accumulator (LA, LG L1)",
	"tensor.(StdEng).denseSimpleStack#copyDenseSliced2":   "reached only under the layout accumulator (LA, LG L1)",
	"tensor.(StdEng).denseSimpleStack#copyDenseSliced3":   "reached only under the layout accumulator (LA, LG L1)",
	"tensor.(StdEng).fastCopyDenseRepeat#copy1":           "reached from denseRepeat after views were materialised (LG L1; finding 32 fixed)",
	"tensor.(StdEng).fastCopyDenseRepeat#storage.Copy1":   "reached from denseRepeat after views were materialised (LG L1; finding 32 fixed)",
	"tensor.(StdEng).selectByIdx#storage.CopySliced1":     "SelectByIndices is outside every property",
	"tensor.(StdEng).selectByIdx#storage.CopySliced2":     "SelectByIndices is outside every property",
	"tensor.AsFortran$1#copyArray1":                         "constructor operating on the tensor under construction",
	"tensor.AsFortran$1#copyArray2":                         "constructor operating on the tensor under construction",
	"tensor.Copy#copyDense1":                              "guarded by LG L1 (neither side requires an iterator)",
	"tensor.ToMat64#copy1":                                "guarded by LG L1 (!IsMaterializable)",
}
