package rules

import (
	"fmt"
	"go/types"
	"regexp"
	"sort"
	"strings"

	"tcheck/ir"
	"tcheck/load"
)

// EP: refusal before effect. A function that decides by itself to refuse a call - it returns an
// error it constructs on the spot (errors.Errorf / errors.New), as opposed to passing on the
// failure of something it called - must do so before it has changed the tensor it was called on
// or was handed: the caller is told "not done", so nothing may be done. The effects that count
// are stores through the receiver or a parameter (fields, elements), calls of the receiver's /
// parameter's own mutating methods, and - the form that is easy to miss - deferred closures
// that were registered earlier on the path and will still run when the refusal returns.
//
// Paths are enumerated on the canonical form; the mutating methods are found by a fixpoint over
// the methods of the module (a method that stores through its receiver, or calls one that does).

var (
	epRecvStore  = regexp.MustCompile(`^\$([A-Za-z_]\w*)(\.[\w.]+|\[.*\])$`)
	epResult     = regexp.MustCompile(`^\$ret\d+`)
	epCallOnRoot = regexp.MustCompile(`\$([A-Za-z_]\w*)(?:\.(?:AP|array|old))?\.([A-Za-z_]\w*)\(`)
	epCopyInto   = regexp.MustCompile(`copy\(\$([A-Za-z_]\w*)[.\[]`)
	epStoreIn    = regexp.MustCompile(`\$([A-Za-z_]\w*)\.[\w.]+(?:\[[^\]]*\])? = `)
)

var epSafeRoll = regexp.MustCompile(`\.RollAxis\([^()]*, true\)`)

// epExempt: functions whose receiver is the destination being (re)filled from an external
// source: a decoder that fails half-way has by contract no usable result, and the caller was
// told so.
var epExempt = map[string]string{
	"tensor.(*Dense).ReadNpy":   "decoder: the receiver is the destination being filled; a failed decode leaves no usable tensor by contract",
	"tensor.(*Dense).ReadCSV":   "decoder (see ReadNpy)",
	"tensor.(*Dense).GobDecode": "decoder (see ReadNpy)",
	"tensor.(*Dense).PBDecode":  "decoder (see ReadNpy)",
	"tensor.(*Dense).FBDecode":  "decoder (see ReadNpy)",
}

// epMutators: names of methods (of the module's own types) that write through their receiver.
func epMutators(rc *RC) map[string]bool {
	mut := map[string]bool{}
	type m struct {
		name string
		text string
	}
	var ms []m
	for _, fi := range rc.P.SortedFuncs() {
		if fi.Pkg != rc.P.Root || fi.Decl == nil || fi.Decl.Body == nil || fi.Decl.Recv == nil || strings.HasSuffix(fi.File, "_test.go") {
			continue
		}
		// pointer receivers only: a value receiver cannot change the caller's object
		// (maps/slices inside it apart, which the metadata types do not have behind value methods)
		sig := fi.Obj.Type().(*types.Signature)
		ptr, isPtr := sig.Recv().Type().(*types.Pointer)
		if !isPtr {
			continue
		}
		// the objects whose state the properties speak of: the tensor, its access pattern, its array
		// (iterators, option structs and sparse matrices have methods of the same names)
		if named, isNamed := ptr.Elem().(*types.Named); !isNamed || !map[string]bool{"Dense": true, "AP": true, "array": true}[named.Obj().Name()] {
			continue
		}
		c := ir.NewCanon(rc.P.Fset, fi.Pkg.TypesInfo, ir.Options{ParamNames: true, KeepNames: true, NoSubst: true})
		ms = append(ms, m{fi.Obj.Name(), ir.Render(c.Func(fi.Decl))})
	}
	direct := regexp.MustCompile(`(?m)^\s*\$r(\.[\w.]+)?(\[[^\]]*\])? = |copy\(\$r[.\[]|(?m)^\s*\(\$r\.`)
	for _, x := range ms {
		if direct.MatchString(x.text) {
			mut[x.name] = true
		}
	}
	for changed := true; changed; {
		changed = false
		for _, x := range ms {
			if mut[x.name] {
				continue
			}
			for _, c := range epCallOnRoot.FindAllStringSubmatch(x.text, -1) {
				if c[1] == "r" && mut[c[2]] {
					mut[x.name] = true
					changed = true
					break
				}
			}
		}
	}
	// queries that the syntactic test takes for writers
	for _, n := range []string{"Iterator", "Shape", "Strides", "Info", "Dtype", "Data", "hdr", "arr", "Engine", "String", "Format"} {
		delete(mut, n)
	}
	return mut
}

// epEffect names the effect of one step on an object reachable from the receiver or a parameter.
func epEffect(n *ir.Node, mut map[string]bool, params map[string]bool) string {
	root := func(name string) bool { return name == "r" || params[name] }
	switch n.Kind {
	case "store", "let":
		if m := epRecvStore.FindStringSubmatch(n.Target); m != nil && !epResult.MatchString(n.Target) && root(m[1]) {
			return "store to " + n.Target
		}
	case "tuple":
		for _, t := range n.Targets {
			if m := epRecvStore.FindStringSubmatch(t); m != nil && !epResult.MatchString(t) && root(m[1]) {
				return "store to " + t
			}
		}
	}
	text := n.Head
	if n.Kind == "loop" || n.Kind == "range" {
		text = ir.Render([]*ir.Node{n})
	}
	if n.Kind == "defer" || n.Kind == "call" || n.Kind == "loop" || n.Kind == "range" || n.Kind == "store" || n.Kind == "let" || n.Kind == "tuple" {
		for _, c := range epCallOnRoot.FindAllStringSubmatch(text, -1) {
			if root(c[1]) && !epResult.MatchString("$"+c[1]) && mut[c[2]] {
				if c[2] == "RollAxis" && epSafeRoll.MatchString(text) {
					continue // RollAxis(axis, start, safe=true) returns a copy
				}
				return "call of the mutating method " + c[2] + " on $" + c[1]
			}
		}
		if n.Kind == "defer" || n.Kind == "loop" || n.Kind == "range" {
			if m := epCopyInto.FindStringSubmatch(text); m != nil && root(m[1]) {
				return "copy into $" + m[1]
			}
			if m := epStoreIn.FindStringSubmatch(text); m != nil && root(m[1]) && !epResult.MatchString("$"+m[1]) {
				return "store through $" + m[1]
			}
		}
		if n.Kind == "call" {
			if m := epCopyInto.FindStringSubmatch(text); m != nil && root(m[1]) {
				return "copy into $" + m[1]
			}
		}
	}
	return ""
}

func EP(rc *RC, filter func(fi *load.FuncInfo) bool, floor int) {
	rc.S.Declare("EP", "refusal before effect: on every path that ends in an error the function constructs itself (errors.Errorf/New) nothing was stored through the receiver or a parameter, none of their mutating methods was called and no deferred closure that does so is pending", floor)
	mut := epMutators(rc)
	for _, fi := range rc.P.SortedFuncs() {
		if fi.Pkg != rc.P.Root || fi.Decl == nil || fi.Decl.Body == nil || strings.HasSuffix(fi.File, "_test.go") {
			continue
		}
		if filter != nil && !filter(fi) {
			continue
		}
		if strings.HasPrefix(fi.File, "sparse") {
			continue // the sparse matrix type is outside the dense properties
		}
		if why, ok := epExempt[fi.Key]; ok {
			rc.S.Except("EP "+fi.Key, why)
			continue
		}
		sig := fi.Obj.Type().(*types.Signature)
		hasErr := false
		for i := 0; i < sig.Results().Len(); i++ {
			if sig.Results().At(i).Type().String() == "error" {
				hasErr = true
			}
		}
		if !hasErr {
			continue
		}
		c := ir.NewCanon(rc.P.Fset, fi.Pkg.TypesInfo, ir.Options{ParamNames: true, KeepNames: true, NoSubst: true})
		tree := c.Func(fi.Decl)
		txt := ir.Render(tree)
		if !strings.Contains(txt, "errors.Errorf(") && !strings.Contains(txt, "errors.New(") {
			continue
		}
		paths, ok := ir.EnumPaths(tree, 4000)
		if !ok {
			continue // too many paths: not an instance (the generated engine methods are M4's)
		}
		params := map[string]bool{}
		for i := 0; i < sig.Params().Len(); i++ {
			p := sig.Params().At(i)
			switch p.Type().Underlying().(type) {
			case *types.Pointer, *types.Interface, *types.Slice, *types.Map:
				params[p.Name()] = true
			}
		}
		pos := rc.P.Pos(fi.Decl.Pos())
		n := 0
		var bad []string
		for _, p := range paths {
			if p.Exit != "return" || len(p.Steps) == 0 {
				continue
			}
			steps := p.Steps[:len(p.Steps)-1]
			fresh := func(s string) bool {
				return (strings.Contains(s, "errors.Errorf(") || strings.Contains(s, "errors.New(")) && !strings.Contains(s, "errors.Wrap")
			}
			refusal := fresh(p.Ret)
			if !refusal && strings.TrimSpace(p.Ret) == "" && len(steps) > 0 {
				last := steps[len(steps)-1]
				if (last.Kind == "store" || last.Kind == "let") && epResult.MatchString(last.Target) && fresh(last.Value) {
					refusal = true
					steps = steps[:len(steps)-1]
				}
			}
			if !refusal {
				continue
			}
			n++
			for _, st := range steps {
				if e := epEffect(st, mut, params); e != "" {
					what := "before"
					if st.Kind == "defer" {
						what = "in a deferred call that is still pending at"
					}
					bad = append(bad, fmt.Sprintf("%s %s the refusal %q", e, what, strings.TrimSpace(firstN(p.Ret+lastValue(p), 70))))
					break
				}
			}
		}
		if n == 0 {
			continue
		}
		if len(bad) > 0 {
			bad = uniq(bad)
			sort.Strings(bad)
			rc.S.Viol("EP", fi.Key, pos, strings.Join(bad, "; ")).Sig = fmt.Sprintf("%d effect(s) before a refusal", len(bad))
		} else {
			rc.S.Ok("EP", fi.Key, pos, fmt.Sprintf("%d refusing paths, none after an effect on the receiver or a parameter", n))
		}
	}
}

func firstN(s string, n int) string {
	if len(s) > n {
		return s[:n] + "…"
	}
	return s
}

func lastValue(p ir.Path) string {
	if strings.TrimSpace(p.Ret) != "" || len(p.Steps) < 2 {
		return ""
	}
	return p.Steps[len(p.Steps)-2].Value
}
