package rules

import (
	"fmt"
	"go/ast"
	"go/token"
	"sort"
	"strings"

	"tcheck/load"
	"tcheck/spec"
)

// Engine M: option modes of the generated StdEng methods.
//
// Each generated method (defaultengine_{arith,cmp,unary,minmax}.go, Clamp) is interpreted
// abstractly, statement by statement, once per *scenario* = option mode x scalar side x
// result kind x iterator/raw path x aliasing of the destination. Buffers carry symbolic
// terms; the E-level kernels, storage.Copy/CopyIter/Fill and Clone act on them by the
// summaries of K4/M1. No path search and no solver: every branch condition is a boolean
// combination of the scenario's flags and is evaluated, an unknown condition or statement
// makes the case undecided. The final state must satisfy the mode contract (M2), iterators
// must be paired with their own buffer and reset between consumers (M3).

type tri int

const (
	tF tri = iota
	tT
	tU
)

type mIter struct {
	owner    string // buffer symbol it was built from
	consumed bool
}

type mState struct {
	flags    map[string]tri
	tens     map[string]string // tensor variable -> buffer symbol ("" = nil)
	hdr      map[string]string // header variable -> buffer symbol
	iters    map[string]*mIter
	term     map[string]string // buffer symbol -> term
	layout   map[string]string // buffer symbol -> symbol whose layout (iterator) it shares
	fresh    map[string]bool
	scratch  map[string]bool // scalar headers
	written  map[string]bool
	ret      string
	hasRet   bool
	nfresh   int
	issues   []string
	undec    []string
	done     bool
	scalarS  string // symbol of the scalar operand ("" if none)
	trace    []string
	pooled   map[string]int // scratch header symbol -> times handed to returnHeader
	deferred [][]ast.Stmt   // bodies of deferred closures, run at return (LIFO)
}

func (s *mState) issue(f string, a ...interface{}) { s.issues = append(s.issues, fmt.Sprintf(f, a...)) }
func (s *mState) und(f string, a ...interface{})   { s.undec = append(s.undec, fmt.Sprintf(f, a...)) }

// scenario
type mScenario struct {
	Mode       string // safe, unsafe, reuse, incr
	LeftTensor tri    // tU for tensor-tensor / unary methods
	Same       tri    // tU when the method has no `same` flag
	UseIter    bool
	Alias      string // "", "R=A", "R=B"
	SS         bool   // every operand has one element
}

func (sc mScenario) String() string {
	s := sc.Mode
	if sc.LeftTensor == tT {
		s += ",tensor-left"
	} else if sc.LeftTensor == tF {
		s += ",scalar-left"
	}
	if sc.Same == tT {
		s += ",same"
	} else if sc.Same == tF {
		s += ",bool"
	}
	if sc.UseIter {
		s += ",iter"
	} else {
		s += ",raw"
	}
	if sc.Alias != "" {
		s += "," + sc.Alias
	}
	if sc.SS {
		s += ",one-element"
	}
	return s
}

type MMethod struct {
	fi     *load.FuncInfo
	name   string
	op     string
	Group  string // arith, minmax, cmp, unary
	Scalar bool   // <Op>Scalar
	arity  int    // tensor operands: 2 (VV), 1 (scalar or unary)
}

func classifyStdEng(fi *load.FuncInfo) (*MMethod, bool) {
	if fi.Decl.Recv == nil || load.RecvName(fi.Decl.Recv.List[0].Type) != "StdEng" {
		return nil, false
	}
	switch fi.File {
	case "defaultengine_arith.go", "defaultengine_cmp.go", "defaultengine_unary.go", "defaultengine_minmax.go", "defaultengine_misc.go":
	default:
		return nil, false
	}
	name := fi.Obj.Name()
	m := &MMethod{fi: fi, name: name}
	base := name
	if strings.HasSuffix(base, "Scalar") {
		base = strings.TrimSuffix(base, "Scalar")
		m.Scalar = true
	}
	if strings.HasSuffix(base, "Between") { // MinBetween, MaxBetween
		base = strings.TrimSuffix(base, "Between")
	}
	if strings.HasPrefix(base, "El") { // ElEq, ElNe
		base = strings.TrimPrefix(base, "El")
	}
	v, ok := spec.ParseFamily(base)
	if !ok || !v.Scalar {
		return nil, false
	}
	m.op, m.Group = v.Op, v.Group
	switch m.Group {
	case "arith", "minmax", "cmp":
		m.arity = 2
		if m.Scalar {
			m.arity = 1
		}
	case "unary":
		m.arity = 1
	default:
		return nil, false
	}
	return m, true
}

// ---------------------------------------------------------------------------------------

func (s *mState) newFresh(prefix, term, layout string) string {
	s.nfresh++
	sym := fmt.Sprintf("%s%d", prefix, s.nfresh)
	s.term[sym] = term
	s.fresh[sym] = true
	s.layout[sym] = layout
	return sym
}

func (s *mState) evalCond(e ast.Expr) tri {
	switch x := e.(type) {
	case *ast.ParenExpr:
		return s.evalCond(x.X)
	case *ast.Ident:
		if x.Name == "true" {
			return tT
		}
		if x.Name == "false" {
			return tF
		}
		if v, ok := s.flags[x.Name]; ok {
			return v
		}
		return tU
	case *ast.UnaryExpr:
		if x.Op == token.NOT {
			switch s.evalCond(x.X) {
			case tT:
				return tF
			case tF:
				return tT
			}
			return tU
		}
	case *ast.BinaryExpr:
		switch x.Op {
		case token.LAND:
			a, b := s.evalCond(x.X), s.evalCond(x.Y)
			if a == tF || b == tF {
				return tF
			}
			if a == tT && b == tT {
				return tT
			}
			return tU
		case token.LOR:
			a, b := s.evalCond(x.X), s.evalCond(x.Y)
			if a == tT || b == tT {
				return tT
			}
			if a == tF && b == tF {
				return tF
			}
			return tU
		case token.NEQ, token.EQL:
			// len(dataX.Raw) == int(typ.Size()): the operand has exactly one element
			if x.Op == token.EQL && strings.HasPrefix(exprStr(x.X), "len(data") && strings.HasSuffix(exprStr(x.X), ".Raw)") && exprStr(x.Y) == "int(typ.Size())" {
				return s.flags["$oneElement"]
			}
			// x != nil / x == nil for tensors, iterators and err
			if id, ok := x.Y.(*ast.Ident); ok && id.Name == "nil" {
				if l, ok := x.X.(*ast.Ident); ok {
					isNil := tU
					if l.Name == "err" {
						isNil = tT
					} else if sym, ok := s.tens[l.Name]; ok {
						if sym == "" {
							isNil = tT
						} else {
							isNil = tF
						}
					} else if it, ok := s.iters[l.Name]; ok {
						if it == nil {
							isNil = tT
						} else {
							isNil = tF
						}
					}
					if isNil == tU {
						return tU
					}
					if (x.Op == token.EQL) == (isNil == tT) {
						return tT
					}
					return tF
				}
			}
		}
	case *ast.CallExpr:
		// t.Shape().IsScalarEquiv(), a.IsScalar()
		if sel, ok := x.Fun.(*ast.SelectorExpr); ok {
			switch sel.Sel.Name {
			case "IsScalarEquiv", "IsScalar":
				return s.flags["$oneElement"]
			}
		}
	}
	return tU
}

func exprStr(e ast.Expr) string {
	switch x := e.(type) {
	case *ast.Ident:
		return x.Name
	case *ast.SelectorExpr:
		return exprStr(x.X) + "." + x.Sel.Name
	case *ast.CallExpr:
		var as []string
		for _, a := range x.Args {
			as = append(as, exprStr(a))
		}
		return exprStr(x.Fun) + "(" + strings.Join(as, ",") + ")"
	case *ast.TypeAssertExpr:
		return exprStr(x.X)
	case *ast.ParenExpr:
		return exprStr(x.X)
	case *ast.StarExpr:
		return "*" + exprStr(x.X)
	case *ast.UnaryExpr:
		return x.Op.String() + exprStr(x.X)
	case *ast.BasicLit:
		return x.Value
	}
	return fmt.Sprintf("<%T>", e)
}

// bufOf resolves a header-valued expression to a buffer symbol.
func (s *mState) bufOf(e ast.Expr) (string, bool) {
	switch x := e.(type) {
	case *ast.Ident:
		if b, ok := s.hdr[x.Name]; ok {
			return b, true
		}
	case *ast.CallExpr:
		if sel, ok := x.Fun.(*ast.SelectorExpr); ok && sel.Sel.Name == "hdr" && len(x.Args) == 0 {
			return s.tensOf(sel.X)
		}
	}
	return "", false
}

func (s *mState) tensOf(e ast.Expr) (string, bool) {
	switch x := e.(type) {
	case *ast.Ident:
		if b, ok := s.tens[x.Name]; ok {
			return b, b != ""
		}
	case *ast.TypeAssertExpr:
		return s.tensOf(x.X)
	case *ast.ParenExpr:
		return s.tensOf(x.X)
	}
	return "", false
}

// useIter checks M3 for one (buffer, iterator) argument pair.
func (s *mState) useIter(what string, buf string, it ast.Expr, needed bool) {
	name := exprStr(it)
	if name == "nil" {
		if needed {
			s.issue("M3 %s: buffer %s is iterated with a nil iterator", what, buf)
		}
		return
	}
	iter, ok := s.iters[name]
	if !ok {
		s.und("%s: unknown iterator expression %s", what, name)
		return
	}
	if iter == nil {
		if needed {
			s.issue("M3 %s: buffer %s is indexed through iterator %s, which is nil on this path", what, buf, name)
		}
		return
	}
	if !needed {
		return // the kernel ignores the iterator of a scalar operand
	}
	own := iter.owner
	lay := s.layout[buf]
	if lay == "" {
		lay = buf
	}
	ownLay := s.layout[own]
	if ownLay == "" {
		ownLay = own
	}
	if own != buf && ownLay != lay {
		s.issue("M3 %s: buffer %s is indexed through iterator %s, which belongs to %s", what, buf, name, own)
	}
	if iter.consumed {
		s.issue("M3 %s: iterator %s is consumed a second time without Reset()", what, name)
	}
	iter.consumed = true
}

// rawOnIterPath: once the layout predicate said "iterate", no whole-buffer kernel may touch a
// tensor buffer (rule L2 in template form). Filling a fresh clone with the scalar is the one
// accepted raw write: every element of the clone's window is overwritten with one value.
func (s *mState) rawOnIterPath(what string, bufs ...string) {
	if s.flags["useIter"] != tT {
		return
	}
	for _, b := range bufs {
		if b == "" || s.isScalarBuf(b) {
			continue
		}
		if what == "storage.Fill" && s.fresh[b] {
			continue
		}
		s.issue("M3 %s: whole-buffer (raw) access to %s on the iterator path", what, symName(b))
		return
	}
}

func (s *mState) isScalarBuf(b string) bool { return s.scratch[b] || b == s.scalarS }

func (s *mState) write(buf, term string) {
	s.term[buf] = term
	s.written[buf] = true
}

// call interprets a call statement.
func (s *mState) call(c *ast.CallExpr) {
	fn := exprStr(c.Fun)
	switch {
	case fn == "storage.Copy" || fn == "storage.CopyIter" || fn == "storage.Fill":
		if len(c.Args) < 3 {
			s.und("call %s: arity", fn)
			return
		}
		d, ok1 := s.bufOf(c.Args[1])
		src, ok2 := s.bufOf(c.Args[2])
		if !ok1 || !ok2 {
			s.und("call %s: unresolved header argument", fn)
			return
		}
		s.trace = append(s.trace, fmt.Sprintf("%s(%s<-%s)", strings.TrimPrefix(fn, "storage."), d, src))
		if fn != "storage.CopyIter" {
			s.rawOnIterPath(fn, d, src)
		}
		if fn == "storage.CopyIter" {
			if len(c.Args) != 5 {
				s.und("CopyIter arity")
				return
			}
			s.useIter(fn, d, c.Args[3], true)
			s.useIter(fn, src, c.Args[4], true)
		}
		s.write(d, s.term[src])
	case strings.HasPrefix(fn, "e.E."):
		name := strings.TrimPrefix(fn, "e.E.")
		v, ok := spec.ParseFamily(strings.Replace(name, "Between", "", 1))
		if !ok {
			s.und("unknown E method %s", name)
			return
		}
		args := c.Args[1:] // drop typ
		s.trace = append(s.trace, name)
		if v.Group == "unary" {
			if len(args) < 1 {
				s.und("E.%s arity", name)
				return
			}
			x, ok := s.bufOf(args[0])
			if !ok {
				s.und("E.%s: unresolved header", name)
				return
			}
			nExtra := 0
			if v.Op == "Clamp" {
				nExtra = 2
			}
			if !v.Iter {
				s.rawOnIterPath("E."+name, x)
			}
			if v.Iter {
				if len(args) != 2+nExtra {
					s.und("E.%s arity", name)
					return
				}
				s.useIter("E."+name, x, args[1], true)
			}
			s.write(x, v.Op+"("+s.term[x]+")")
			return
		}
		if len(args) < 2 {
			s.und("E.%s arity", name)
			return
		}
		x, ok1 := s.bufOf(args[0])
		y, ok2 := s.bufOf(args[1])
		if !ok1 || !ok2 {
			s.und("E.%s: unresolved header", name)
			return
		}
		t := opTerm2(v.Op, s.term[x], s.term[y])
		xs, ys := s.isScalarBuf(x), s.isScalarBuf(y)
		one := s.flags["$oneElement"] == tT
		dest := x
		if xs && !ys && !one {
			dest = y
		}
		var third string
		if v.Incr || v.Recv || (v.Group == "cmp" && !v.Same) {
			if len(args) < 3 {
				s.und("E.%s arity", name)
				return
			}
			z, ok := s.bufOf(args[2])
			if !ok {
				s.und("E.%s: unresolved third header", name)
				return
			}
			third = z
		}
		if !v.Iter {
			s.rawOnIterPath("E."+name, x, y, third)
		}
		if v.Iter {
			n := 2
			if third != "" {
				n = 3
			}
			if len(args) != 2*n {
				s.und("E.%s arity", name)
				return
			}
			s.useIter("E."+name, x, args[n], !(xs && !one))
			s.useIter("E."+name, y, args[n+1], !(ys && !one))
			if third != "" {
				s.useIter("E."+name, third, args[n+2], true)
			}
		}
		switch {
		case v.Incr:
			if one {
				// E's scalar–scalar arm computes into its first operand before adding (M1)
				s.write(x, t)
			}
			s.write(third, opTerm2("Add", s.term[third], t))
		case v.Recv:
			s.write(third, t)
		case v.Group == "cmp" && !v.Same:
			s.write(third, "bool:"+t)
		case v.Group == "cmp" && v.Same:
			s.write(dest, "same:"+t)
		default:
			s.write(dest, t)
		}
	case strings.HasSuffix(fn, ".Reset"):
		it := strings.TrimSuffix(fn, ".Reset")
		if iter, ok := s.iters[it]; ok {
			if iter != nil {
				iter.consumed = false
			}
		} else {
			s.und("Reset of unknown iterator %s", it)
		}
	case fn == "returnHeader":
		if len(c.Args) == 1 {
			if b, ok := s.bufOf(c.Args[0]); ok {
				s.pooled[b]++
			} else {
				s.und("returnHeader of an unresolved header %s", exprStr(c.Args[0]))
			}
		}
	case fn == "freeScalar" || fn == "ReturnTensor":
	case fn == "panic":
		s.issue("reaches %s(%s)", fn, exprStr(c.Args[0]))
		s.done = true
	case fn == "binaryCheck" || fn == "unaryCheck" || fn == "scalarDtypeCheck" || fn == "typeclassCheck":
		// gates: their presence on every path is rule M4
	default:
		s.und("unhandled call %s", fn)
	}
}

// assign interprets `lhs = rhs` for the variables the interpreter tracks.
func (s *mState) assign(lhs []ast.Expr, rhs []ast.Expr, m *MMethod, sc mScenario) {
	if len(lhs) == len(rhs) {
		for i := range lhs {
			s.assign1(lhs[i], rhs[i])
		}
		return
	}
	if len(rhs) == 1 {
		if c, ok := rhs[0].(*ast.CallExpr); ok {
			fn := exprStr(c.Fun)
			switch {
			case strings.HasPrefix(fn, "handleFuncOpts"):
				// reuse, safe, toReuse, incr, same, err
				names := identNames(lhs)
				if len(names) != 6 {
					s.und("handleFuncOpts result arity")
					return
				}
				set := func(i int, v tri) {
					if names[i] != "_" {
						s.flags[names[i]] = v
					}
				}
				b2t := func(b bool) tri {
					if b {
						return tT
					}
					return tF
				}
				if names[0] != "_" {
					switch sc.Mode {
					case "reuse", "incr":
						s.tens[names[0]] = "R"
						if mAliasHook != "" {
							s.tens[names[0]] = mAliasHook
						}
					default:
						s.tens[names[0]] = ""
					}
				}
				set(1, b2t(sc.Mode != "unsafe"))
				set(2, b2t(sc.Mode == "reuse"))
				set(3, b2t(sc.Mode == "incr"))
				if sc.Same != tU {
					set(4, sc.Same)
				} else {
					set(4, tF)
				}
				return
			case strings.HasPrefix(fn, "prepData"):
				s.prep(fn, identNames(lhs), c, sc)
				return
			}
		}
	}
	s.und("unhandled tuple assignment %s", exprStr(rhs[0]))
}

func identNames(es []ast.Expr) []string {
	var out []string
	for _, e := range es {
		if id, ok := e.(*ast.Ident); ok {
			out = append(out, id.Name)
		} else {
			out = append(out, "?")
		}
	}
	return out
}

// prep models prepDataVV / VS / SV / Unary (their own definitions are checked by L0).
func (s *mState) prep(fn string, names []string, c *ast.CallExpr, sc mScenario) {
	mkIter := func(name, owner string) {
		if name == "_" {
			return
		}
		if sc.UseIter && owner != "" && !s.isScalarBuf(owner) {
			s.iters[name] = &mIter{owner: owner}
		} else {
			s.iters[name] = nil
		}
	}
	reuseSym := ""
	b2t := func(b bool) tri {
		if b {
			return tT
		}
		return tF
	}
	switch {
	case strings.HasPrefix(fn, "prepDataVV"):
		// dataA, dataB, dataReuse, ait, bit, iit, useIter, swap, err
		if len(names) != 9 || len(c.Args) != 3 {
			s.und("prepDataVV shape")
			return
		}
		a, _ := s.tensOf(c.Args[0])
		b, _ := s.tensOf(c.Args[1])
		reuseSym, _ = s.tensOf(c.Args[2])
		s.hdr[names[0]], s.hdr[names[1]], s.hdr[names[2]] = a, b, reuseSym
		mkIter(names[3], a)
		mkIter(names[4], b)
		mkIter(names[5], reuseSym)
		s.flags[names[6]] = b2t(sc.UseIter)
		s.flags[names[7]] = tF // swap: sparse operands only, outside the dense properties
	case strings.HasPrefix(fn, "prepDataVS"):
		// dataA, dataB, dataReuse, ait, iit, useIter, newAlloc, err   (t, s, reuse)
		if len(names) != 8 || len(c.Args) != 3 {
			s.und("prepDataVS shape")
			return
		}
		a, _ := s.tensOf(c.Args[0])
		reuseSym, _ = s.tensOf(c.Args[2])
		s.hdr[names[0]], s.hdr[names[1]], s.hdr[names[2]] = a, "S", reuseSym
		mkIter(names[3], a)
		mkIter(names[4], reuseSym)
		s.flags[names[5]] = b2t(sc.UseIter)
		s.flags[names[6]] = tU
	case strings.HasPrefix(fn, "prepDataSV"):
		// dataA, dataB, dataReuse, bit, iit, useIter, newAlloc, err   (s, t, reuse)
		if len(names) != 8 || len(c.Args) != 3 {
			s.und("prepDataSV shape")
			return
		}
		b, _ := s.tensOf(c.Args[1])
		reuseSym, _ = s.tensOf(c.Args[2])
		s.hdr[names[0]], s.hdr[names[1]], s.hdr[names[2]] = "S", b, reuseSym
		mkIter(names[3], b)
		mkIter(names[4], reuseSym)
		s.flags[names[5]] = b2t(sc.UseIter)
		s.flags[names[6]] = tU
	case strings.HasPrefix(fn, "prepDataUnary"):
		// dataA, dataReuse, ait, rit, useIter, err
		if len(names) != 6 || len(c.Args) != 2 {
			s.und("prepDataUnary shape")
			return
		}
		a, _ := s.tensOf(c.Args[0])
		reuseSym, _ = s.tensOf(c.Args[1])
		s.hdr[names[0]], s.hdr[names[1]] = a, reuseSym
		mkIter(names[2], a)
		mkIter(names[3], reuseSym)
		s.flags[names[4]] = b2t(sc.UseIter)
	default:
		s.und("unknown prep function %s", fn)
	}
}

func (s *mState) assign1(l, r ast.Expr) {
	lid, ok := l.(*ast.Ident)
	if !ok {
		s.und("assignment to %s", exprStr(l))
		return
	}
	name := lid.Name
	if name == "_" {
		return
	}
	if name == "err" {
		if c, ok := r.(*ast.CallExpr); ok {
			s.call(c)
		}
		return
	}
	// flags
	if id, ok := r.(*ast.Ident); ok && (id.Name == "true" || id.Name == "false") {
		if id.Name == "true" {
			s.flags[name] = tT
		} else {
			s.flags[name] = tF
		}
		return
	}
	rs := exprStr(r)
	switch {
	case name == "typ" || name == "name" || name == "fn":
		return
	case strings.HasSuffix(rs, ".Clone()"):
		// a.Clone().(Tensor)
		var inner ast.Expr = r
		if ta, ok := inner.(*ast.TypeAssertExpr); ok {
			inner = ta.X
		}
		call := inner.(*ast.CallExpr)
		recv := call.Fun.(*ast.SelectorExpr).X
		srcSym, ok := s.tensOf(recv)
		if !ok {
			s.und("Clone of unknown tensor %s", exprStr(recv))
			return
		}
		s.tens[name] = s.newFresh("C", s.term[srcSym], srcSym)
		s.trace = append(s.trace, fmt.Sprintf("%s=Clone(%s)", s.tens[name], srcSym))
	case strings.HasPrefix(rs, "NewDense("):
		s.tens[name] = s.newFresh("F", "zero", "")
		s.trace = append(s.trace, s.tens[name]+"=NewDense")
	case strings.HasSuffix(rs, ".hdr()"):
		b, ok := s.bufOf(r)
		if !ok {
			s.und("hdr of unknown tensor in %s", rs)
			return
		}
		s.hdr[name] = b
	case strings.HasPrefix(rs, "IteratorFromDense(") || strings.HasSuffix(rs, ".Iterator()"):
		var own ast.Expr
		c := r.(*ast.CallExpr)
		if len(c.Args) == 1 {
			own = c.Args[0]
		} else {
			own = c.Fun.(*ast.SelectorExpr).X
		}
		sym, ok := s.tensOf(own)
		if !ok {
			s.und("iterator of unknown tensor %s", exprStr(own))
			return
		}
		s.iters[name] = &mIter{owner: sym}
	default:
		// aliasing of tracked variables
		if id, ok := r.(*ast.Ident); ok {
			if sym, ok := s.tens[id.Name]; ok {
				s.tens[name] = sym
				return
			}
			if b, ok := s.hdr[id.Name]; ok {
				s.hdr[name] = b
				return
			}
			if id.Name == "nil" {
				if _, ok := s.tens[name]; ok {
					s.tens[name] = ""
					return
				}
			}
		}
		if ta, ok := r.(*ast.TypeAssertExpr); ok {
			if sym, ok := s.tensOf(ta.X); ok {
				s.tens[name] = sym
				return
			}
		}
		s.und("unhandled assignment %s = %s", name, rs)
	}
}

func (s *mState) stmts(list []ast.Stmt, m *MMethod, sc mScenario) {
	for _, st := range list {
		if s.done {
			return
		}
		s.stmt(st, m, sc)
	}
}

func (s *mState) stmt(st ast.Stmt, m *MMethod, sc mScenario) {
	switch x := st.(type) {
	case *ast.EmptyStmt:
	case *ast.DeclStmt:
		if gd, ok := x.Decl.(*ast.GenDecl); ok {
			for _, sp := range gd.Specs {
				vs, ok := sp.(*ast.ValueSpec)
				if !ok || len(vs.Values) > 0 {
					if ok && len(vs.Values) == len(vs.Names) {
						for i := range vs.Names {
							s.assign1(vs.Names[i], vs.Values[i])
						}
					}
					continue
				}
				switch exprStr(vs.Type) {
				case "Iterator":
					for _, n := range vs.Names {
						s.iters[n.Name] = nil
					}
				case "DenseTensor", "Tensor":
					for _, n := range vs.Names {
						s.tens[n.Name] = ""
					}
				}
			}
		}
	case *ast.AssignStmt:
		if len(x.Lhs) == 1 && len(x.Rhs) == 1 {
			if id, ok := x.Lhs[0].(*ast.Ident); ok && id.Name == "retVal" {
				if sym, ok := s.tensOf(x.Rhs[0]); ok {
					s.tens["retVal"] = sym
					return
				}
			}
		}
		s.assign(x.Lhs, x.Rhs, m, sc)
	case *ast.ExprStmt:
		if c, ok := x.X.(*ast.CallExpr); ok {
			s.call(c)
		} else {
			s.und("expression statement")
		}
	case *ast.IfStmt:
		if x.Init != nil {
			s.stmt(x.Init, m, sc)
		}
		switch s.evalCond(x.Cond) {
		case tT:
			s.stmts(x.Body.List, m, sc)
		case tF:
			switch e := x.Else.(type) {
			case *ast.BlockStmt:
				s.stmts(e.List, m, sc)
			case *ast.IfStmt:
				s.stmt(e, m, sc)
			}
		default:
			// a branch whose body only frees scratch memory does not matter
			if onlyHousekeeping(x.Body.List) && x.Else == nil {
				return
			}
			s.und("condition %s is not determined by the scenario", exprStr2(x.Cond))
		}
	case *ast.SwitchStmt:
		if x.Tag != nil || x.Init != nil {
			s.und("tagged switch")
			return
		}
		var deflt *ast.CaseClause
		for _, cl := range x.Body.List {
			cc := cl.(*ast.CaseClause)
			if cc.List == nil {
				deflt = cc
				continue
			}
			v := tF
			for _, e := range cc.List {
				switch s.evalCond(e) {
				case tT:
					v = tT
				case tU:
					if v != tT {
						v = tU
					}
				}
			}
			if v == tT {
				s.trace = append(s.trace, "case["+exprStr2(cc.List[0])+"]")
				s.stmts(cc.Body, m, sc)
				return
			}
			if v == tU {
				s.und("case condition %s is not determined by the scenario", exprStr2(cc.List[0]))
				return
			}
		}
		if deflt != nil {
			s.trace = append(s.trace, "default")
			s.stmts(deflt.Body, m, sc)
		}
	case *ast.ReturnStmt:
		s.done = true
		if len(x.Results) > 0 {
			if sym, ok := s.tensOf(x.Results[0]); ok {
				s.tens["retVal"] = sym
			} else if exprStr(x.Results[0]) != "nil" {
				s.und("return of %s", exprStr(x.Results[0]))
			}
		}
	case *ast.BlockStmt:
		s.stmts(x.List, m, sc)
	case *ast.DeferStmt:
		if fl, ok := x.Call.Fun.(*ast.FuncLit); ok && len(x.Call.Args) == 0 {
			s.deferred = append(s.deferred, fl.Body.List)
		} else if exprStr(x.Call.Fun) == "returnHeader" {
			s.deferred = append(s.deferred, []ast.Stmt{&ast.ExprStmt{X: x.Call}})
		}
	default:
		s.und("unhandled statement %T", st)
	}
}

func onlyHousekeeping(list []ast.Stmt) bool {
	for _, st := range list {
		es, ok := st.(*ast.ExprStmt)
		if !ok {
			return false
		}
		c, ok := es.X.(*ast.CallExpr)
		if !ok {
			return false
		}
		switch exprStr(c.Fun) {
		case "freeScalar", "returnHeader":
		default:
			return false
		}
	}
	return true
}

func exprStr2(e ast.Expr) string {
	switch x := e.(type) {
	case *ast.BinaryExpr:
		return exprStr2(x.X) + " " + x.Op.String() + " " + exprStr2(x.Y)
	case *ast.UnaryExpr:
		return x.Op.String() + exprStr2(x.X)
	case *ast.ParenExpr:
		return "(" + exprStr2(x.X) + ")"
	}
	return exprStr(e)
}

// run interprets the method under one scenario.
func mRun(m *MMethod, sc mScenario) *mState {
	s := &mState{flags: map[string]tri{}, tens: map[string]string{}, hdr: map[string]string{}, iters: map[string]*mIter{}, term: map[string]string{}, layout: map[string]string{}, fresh: map[string]bool{}, scratch: map[string]bool{}, written: map[string]bool{}, pooled: map[string]int{}}
	// parameters
	params := m.fi.Decl.Type.Params.List
	var pnames []string
	for _, f := range params {
		for _, n := range f.Names {
			pnames = append(pnames, n.Name)
		}
	}
	s.term["A"], s.term["B"], s.term["R"], s.term["S"] = "A", "B", "R", "S"
	if sc.SS {
		s.flags["$oneElement"] = tT
	} else {
		s.flags["$oneElement"] = tF
	}
	switch {
	case m.arity == 2:
		s.tens[pnames[0]], s.tens[pnames[1]] = "A", "B"
	case m.Scalar:
		// (t Tensor, s interface{}, leftTensor bool, opts...)
		s.tens[pnames[0]] = "A"
		s.scalarS = "S"
		s.scratch["S"] = true
		s.flags[pnames[2]] = sc.LeftTensor
	default:
		s.tens[pnames[0]] = "A"
	}
	s.tens["retVal"] = ""
	s.stmts(m.fi.Decl.Body.List, m, sc)
	// deferred closures run at function exit, last registered first
	for i := len(s.deferred) - 1; i >= 0; i-- {
		s.done = false
		s.stmts(s.deferred[i], m, sc)
	}
	s.done = true
	s.ret = s.tens["retVal"]
	return s
}

// applyAlias re-runs are expensive to thread through; instead aliasing is modelled by
// making R resolve to the operand's symbol from the start.
func mRunAliased(m *MMethod, sc mScenario) *mState {
	if sc.Alias == "" {
		return mRun(m, sc)
	}
	// run with a post-hoc substitution: interpret normally but with tens[reuse] bound to the
	// operand symbol. handleFuncOpts binds "R"; we intercept by renaming after the fact.
	aliasTarget := "A"
	if sc.Alias == "R=B" {
		aliasTarget = "B"
	}
	mAliasHook = aliasTarget
	defer func() { mAliasHook = "" }()
	return mRun(m, sc)
}

var mAliasHook string

// expected contract for the scenario.
func mContract(m *MMethod, sc mScenario, s *mState) []string {
	var bad []string
	// operand terms in operand order
	opTerm := ""
	tensorOperand := "A"
	switch {
	case m.Group == "unary":
		opTerm = m.op + "(A)"
	case m.arity == 2:
		opTerm = opTerm2(m.op, "A", "B")
	case sc.LeftTensor == tT:
		opTerm = opTerm2(m.op, "A", "S")
	default:
		opTerm = opTerm2(m.op, "S", "A")
	}
	dest := s.ret
	if !s.done && dest == "" {
		bad = append(bad, "no result is returned on this path")
		return bad
	}
	R := "R"
	switch sc.Alias {
	case "R=A":
		R = "A"
	case "R=B":
		R = "B"
	}
	wantTerm := opTerm
	isCmp := m.Group == "cmp"
	same := sc.Same == tT || (isCmp && sc.Mode == "unsafe")
	if isCmp {
		if same {
			wantTerm = "same:" + opTerm
		} else {
			wantTerm = "bool:" + opTerm
		}
	}
	switch sc.Mode {
	case "incr":
		if dest != R {
			bad = append(bad, fmt.Sprintf("incr mode returns %s, want the increment tensor %s", symName(dest), R))
		}
		wantTerm = opTerm2("Add", R, opTerm)
	case "reuse":
		if dest != R {
			bad = append(bad, fmt.Sprintf("reuse mode returns %s, want the reuse tensor %s", symName(dest), R))
		}
	case "unsafe":
		if dest != tensorOperand {
			bad = append(bad, fmt.Sprintf("unsafe mode returns %s, want the first tensor operand", symName(dest)))
		}
	case "safe":
		if !s.fresh[dest] {
			bad = append(bad, fmt.Sprintf("safe mode returns %s, want a tensor created in this call", symName(dest)))
		}
	}
	if dest != "" {
		got := s.term[dest]
		if got != wantTerm {
			bad = append(bad, fmt.Sprintf("returned buffer holds %s, want %s", got, wantTerm))
		}
	}
	// frame: only the destination, fresh buffers and the scalar scratch header may be written
	var ws []string
	for b := range s.written {
		ws = append(ws, b)
	}
	sort.Strings(ws)
	for _, b := range ws {
		if b == dest || s.fresh[b] || s.scratch[b] {
			continue
		}
		bad = append(bad, fmt.Sprintf("writes %s, which is not the destination of %s mode", symName(b), sc.Mode))
	}
	return bad
}

func symName(s string) string {
	switch {
	case s == "":
		return "nothing (nil)"
	case s == "A":
		return "operand A"
	case s == "B":
		return "operand B"
	case s == "R":
		return "the reuse/incr tensor"
	case s == "S":
		return "the scalar's scratch header"
	case strings.HasPrefix(s, "C"):
		return "a clone (" + s + ")"
	case strings.HasPrefix(s, "F"):
		return "a new tensor (" + s + ")"
	}
	return s
}

// opTerm2 builds a normalised binary term: converse comparisons are folded
// (Lt(x,y) = Gt(y,x), Lte(x,y) = Gte(y,x)) and the operands of the exactly commutative
// operations (Add, Mul, Eq, Ne, and Min/Max, whose kernels are symmetric up to the order of
// equal or NaN operands) are sorted; Sub, Div, Mod, Pow, Gt, Gte keep operand order.
func opTerm2(op, x, y string) string {
	switch op {
	case "Lt":
		op, x, y = "Gt", y, x
	case "Lte":
		op, x, y = "Gte", y, x
	case "Add", "Mul", "Eq", "Ne", "Min", "Max":
		if y < x {
			x, y = y, x
		}
	}
	return op + "(" + x + "," + y + ")"
}

// scenarios of a method.
func mScenarios(m *MMethod, thorough bool) []mScenario {
	var out []mScenario
	lefts := []tri{tU}
	if m.Scalar {
		lefts = []tri{tT, tF}
	}
	sames := []tri{tU}
	if m.Group == "cmp" {
		sames = []tri{tF, tT}
	}
	for _, mode := range []string{"safe", "unsafe", "reuse", "incr"} {
		if (m.Group == "cmp" || m.Group == "minmax") && mode == "incr" {
			continue
		}
		for _, l := range lefts {
			for _, sm := range sames {
				for _, it := range []bool{false, true} {
					out = append(out, mScenario{Mode: mode, LeftTensor: l, Same: sm, UseIter: it})
					if !it && m.arity != 0 && m.Group != "unary" {
						out = append(out, mScenario{Mode: mode, LeftTensor: l, Same: sm, UseIter: it, SS: true})
					}
					if mode == "reuse" || mode == "incr" {
						out = append(out, mScenario{Mode: mode, LeftTensor: l, Same: sm, UseIter: it, Alias: "R=A"})
						if m.arity == 2 {
							out = append(out, mScenario{Mode: mode, LeftTensor: l, Same: sm, UseIter: it, Alias: "R=B"})
						}
					}
				}
			}
		}
	}
	return out
}

// M2 interprets every generated method under every scenario.
func M2(rc *RC, filter func(m *MMethod) bool, floorMethods, floorCases int) {
	mRun3(rc, filter, floorMethods, floorCases, true, false)
}

// M7: the pooled scalar scratch header of the tensor-scalar methods goes back to the header
// pool at most once on every mode path.
func M7(rc *RC, floorCases int) {
	mRun3(rc, func(m *MMethod) bool { return m.Scalar }, 0, floorCases, false, true)
}

func mRun3(rc *RC, filter func(m *MMethod) bool, floorMethods, floorCases int, doM23, doM7 bool) {
	if doM7 {
		rc.S.Declare("M7", "pooled scratch headers: on every mode path of every generated tensor-scalar method (deferred closures included) the scalar's header is handed to returnHeader at most once", floorCases)
	}
	if !doM23 {
		for _, fi := range rc.P.SortedFuncs() {
			m, ok := classifyStdEng(fi)
			if !ok || (filter != nil && !filter(m)) {
				continue
			}
			for _, sc := range mScenarios(m, rc.Thorough()) {
				if sc.Alias != "" {
					continue
				}
				st := mRunAliased(m, sc)
				key := fi.Key + "[" + sc.String() + "]"
				pos := rc.P.Pos(fi.Decl.Pos())
				if len(st.undec) > 0 {
					rc.S.Undec("M7", key, pos, "interpreter met a construct outside the generated template: "+strings.Join(st.undec, "; "))
					continue
				}
				bad := ""
				for b, n := range st.pooled {
					if n > 1 {
						bad = fmt.Sprintf("%s is handed to returnHeader %d times on this path: the header pool then serves one header to two borrowers", symName(b), n)
					}
				}
				if bad != "" {
					rc.S.Viol("M7", key, pos, bad+"   [path: "+strings.Join(st.trace, " ; ")+"]").Sig = "double return"
				} else {
					rc.S.Ok("M7", key, pos, fmt.Sprintf("returnHeader events: %v", st.pooled))
				}
			}
		}
		return
	}
	rc.S.Declare("M2", "mode contract: per generated StdEng method and scenario (mode x scalar side x result kind x iterator/raw path) the interpreted case returns the designated tensor, holding Op(L,R) in operand order, and writes no other operand", floorCases)
	rc.S.Declare("M3", "iterator pairing and reset typestate inside the mode cases: every buffer is indexed through its own (or its clone source's) iterator, never a nil or already consumed one", floorCases)
	rc.S.Declare("M2.methods", "generated StdEng methods recognised by the interpreter", floorMethods)
	for _, fi := range rc.P.SortedFuncs() {
		m, ok := classifyStdEng(fi)
		if !ok {
			continue
		}
		if filter != nil && !filter(m) {
			continue
		}
		rc.S.Ok("M2.methods", fi.Key, rc.P.Pos(fi.Decl.Pos()), fmt.Sprintf("op=%s group=%s scalar=%v", m.op, m.Group, m.Scalar))
		for _, sc := range mScenarios(m, rc.Thorough()) {
			st := mRunAliased(m, sc)
			key := fi.Key + "[" + sc.String() + "]"
			pos := rc.P.Pos(fi.Decl.Pos())
			rc.S.Count("M2.cases", 1)
			if len(st.undec) > 0 {
				rc.S.Undec("M2", key, pos, "interpreter met a construct outside the generated template: "+strings.Join(st.undec, "; "))
				rc.S.Undec("M3", key, pos, "not interpreted (see M2): "+strings.Join(st.undec, "; "))
				continue
			}
			bad := mContract(m, sc, st)
			var m3 []string
			var other []string
			for _, is := range st.issues {
				if strings.HasPrefix(is, "M3 ") {
					m3 = append(m3, strings.TrimPrefix(is, "M3 "))
				} else {
					other = append(other, is)
				}
			}
			bad = append(bad, other...)
			tr := strings.Join(st.trace, " ; ")
			if len(bad) > 0 {
				o := rc.S.Viol("M2", key, pos, strings.Join(bad, "; ")+"   [path: "+tr+"]")
				o.Sig = eraseOps(strings.Join(bad, "; "))
			} else {
				rc.S.Ok("M2", key, pos, fmt.Sprintf("returns %s = %s   [path: %s]", symName(st.ret), st.term[st.ret], tr))
			}
			if len(m3) > 0 {
				o := rc.S.Viol("M3", key, pos, strings.Join(m3, "; ")+"   [path: "+tr+"]")
				o.Sig = eraseOps(strings.Join(m3, "; "))
			} else {
				rc.S.Ok("M3", key, pos, "iterators paired and fresh   [path: "+tr+"]")
			}
		}
	}
}

// eraseOps replaces operation names by "Op" so that one template-level finding has one
// deviation signature across the operations generated from that template.
func eraseOps(s string) string {
	var names []string
	for _, g := range [][]string{spec.ArithOps, spec.MinMaxOps, spec.CmpOps, spec.UnaryOps} {
		names = append(names, g...)
	}
	sort.Slice(names, func(i, j int) bool { return len(names[i]) > len(names[j]) })
	for _, n := range names {
		s = strings.ReplaceAll(s, n+"Between", "Op")
		s = strings.ReplaceAll(s, n+"(", "Op(")
		s = strings.ReplaceAll(s, "E."+n, "E.Op")
	}
	return s
}

// M2W: the frame clause of the mode contract alone, for the ownership property: per generated
// StdEng method and non-aliased scenario, the interpreted case writes nothing but its
// destination, buffers created in the call and the scalar's scratch header, and safe mode
// returns a tensor created in the call. Wrong values are the business of M2 under the
// arithmetic properties; a write into an operand is reported here too.
func M2W(rc *RC, floorCases int) {
	rc.S.Declare("M2W", "write frame of the generated engine methods: per method and scenario (mode x scalar side x result kind x iterator/raw path) only the designated destination, tensors created in the call and the scalar's scratch header are written; safe mode returns a tensor created in the call", floorCases)
	for _, fi := range rc.P.SortedFuncs() {
		m, ok := classifyStdEng(fi)
		if !ok {
			continue
		}
		for _, sc := range mScenarios(m, rc.Thorough()) {
			if sc.Alias != "" {
				continue
			}
			st := mRunAliased(m, sc)
			key := fi.Key + "[" + sc.String() + "]"
			pos := rc.P.Pos(fi.Decl.Pos())
			if len(st.undec) > 0 {
				rc.S.Undec("M2W", key, pos, "interpreter met a construct outside the generated template: "+strings.Join(st.undec, "; "))
				continue
			}
			var bad []string
			for _, b := range mContract(m, sc, st) {
				if strings.HasPrefix(b, "writes ") || strings.HasPrefix(b, "safe mode returns") {
					bad = append(bad, b)
				}
			}
			tr := strings.Join(st.trace, " ; ")
			if len(bad) > 0 {
				rc.S.Viol("M2W", key, pos, strings.Join(bad, "; ")+"   [path: "+tr+"]").Sig = eraseOps(strings.Join(bad, "; "))
			} else {
				rc.S.Ok("M2W", key, pos, "writes only "+symName(st.ret)+" and call-local buffers   [path: "+tr+"]")
			}
		}
	}
}
