package rules

import (
	"fmt"
	"regexp"
	"strings"

	"tcheck/ir"
)

// E1: no use of a result on its own error path. For `(v, err) = f(…)` followed by
// `if err != nil { … }`, the then-branch must not use v except inside an error/format
// constructor: with a non-nil error v is not meaningful (often nil), and a branch that
// works on v under err != nil is the inverted-condition deviant pattern.
func E1(rc *RC, files func(string) bool, floor int) {
	rc.S.Declare("E1", "no use of a call's value result inside the err != nil branch of that same call (inverted-condition pattern)", floor)
	word := func(s, w string) bool { return ir.ReplaceWord(s, w, "\x00") != s }
	errCtor := regexp.MustCompile(`(errors|fmt)\.[A-Za-z]+\((?:[^()]|\([^()]*\))*\)`)
	for _, fi := range rc.P.AnalysisFuncs() {
		if fi.Pkg != rc.P.Root || fi.Decl.Body == nil || (files != nil && !files(fi.File)) {
			continue
		}
		c := ir.NewCanon(rc.P.Fset, fi.Pkg.TypesInfo, ir.Options{ParamNames: true, KeepNames: true, NoSubst: true})
		tree := c.Func(fi.Decl)
		n := 0
		var walk func(ns []*ir.Node)
		walk = func(ns []*ir.Node) {
			for i, nd := range ns {
				if nd.Kind == "tuple" && len(nd.Targets) >= 2 && strings.Contains(nd.Value, "(") {
					errv := nd.Targets[len(nd.Targets)-1]
					if errv != "_" && i+1 < len(ns) && ns[i+1].Kind == "if" && (ns[i+1].Head == "("+errv+" != nil)" || ns[i+1].Head == "(nil != "+errv+")") {
						n++
						// returning the (meaningless) value together with the error is not a use
						var kept []*ir.Node
						var strip func(ns []*ir.Node) []*ir.Node
						strip = func(ns []*ir.Node) []*ir.Node {
							var out []*ir.Node
							for _, k := range ns {
								if k.Kind == "ret" {
									continue
								}
								cp := *k
								cp.Kids = strip(k.Kids)
								cp.Else = strip(k.Else)
								out = append(out, &cp)
							}
							return out
						}
						kept = strip(ns[i+1].Kids)
						branch := ir.Render(kept)
						stripped := errCtor.ReplaceAllString(branch, "ERRCTOR")
						bad := ""
						for _, v := range nd.Targets[:len(nd.Targets)-1] {
							if v == "_" || !strings.HasPrefix(v, "%") {
								continue
							}
							if word(stripped, v) {
								// re-assignment of v in the branch is not a use
								if regexp.MustCompile(`(?m)^\s*`+regexp.QuoteMeta(v)+` = `).MatchString(stripped) && !word(regexp.MustCompile(`(?m)^\s*`+regexp.QuoteMeta(v)+` = .*$`).ReplaceAllString(stripped, ""), v) {
									continue
								}
								bad = v
							}
						}
						key := fmt.Sprintf("%s#%d", fi.Key, n)
						pos := rc.P.Pos(ns[i+1].Pos)
						if bad != "" {
							rc.S.Viol("E1", key, pos, fmt.Sprintf("%s uses %s, a result of %s, inside the branch taken when that call failed", fi.Key, bad, firstWordsN(nd.Value, 60))).Sig = "uses result on error path"
						} else {
							rc.S.Ok("E1", key, pos, "value results unused on the error path")
						}
					}
				}
				walk(nd.Kids)
				walk(nd.Else)
			}
		}
		walk(tree)
	}
}

func firstWordsN(s string, n int) string {
	if len(s) > n {
		return s[:n] + "…"
	}
	return s
}
