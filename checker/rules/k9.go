package rules

import (
	"fmt"
	"strings"

	"tcheck/spec"
)

// K9: reduction anchors. The lossless canonical form (level A) of the small reduction and
// arg-reduction kernels is compared with the table below: Sum accumulates with + from the
// zero value, Prod with * from 1, Argmax/Argmin update on a strict comparison (first index of
// the extreme), masked variants skip masked elements, SliceMin/SliceMax fold with Min_/Max_.

func argForm(max, masked bool, cls string) string {
	var b strings.Builder
	b.WriteString("range $0 as @r\n")
	if masked {
		b.WriteString("  if $1[@r]\n    continue\n")
	}
	b.WriteString("  if !%0\n    %1 = $0[@r]\n    %2 = @r\n    %0 = true\n    continue\n")
	if cls == "float" {
		sign := "-1"
		if max {
			sign = "1"
		}
		b.WriteString("  if (M.IsNaN($0[@r]) || M.IsInf($0[@r], " + sign + "))\n    %2 = @r\n    return %2\n")
	}
	if max {
		b.WriteString("  if ($0[@r] > %1)\n")
	} else {
		b.WriteString("  if (%1 > $0[@r])\n")
	}
	b.WriteString("    %2 = @r\n    %1 = $0[@r]\nreturn %2\n")
	return b.String()
}

func k9Expected(stem, cls string) (string, bool) {
	switch stem {
	case "Sum":
		return "range $0 as @r\n  %0 = ($0[@r] + %0)\nreturn %0\n", true
	case "Prod":
		return "if (0 == len($0))\n  return 0\n%0 = 1\nrange $0 as @r\n  %0 = ($0[@r] * %0)\nreturn %0\n", true
	case "Argmax":
		return argForm(true, false, cls), true
	case "Argmin":
		return argForm(false, false, cls), true
	case "ArgmaxMasked":
		return argForm(true, true, cls), true
	case "ArgminMasked":
		return argForm(false, true, cls), true
	case "SliceMin":
		return "if (1 > len($0))\n  panic(\"Max of empty slice is meaningless\")\nreturn Reduce_(Min_, $0[0], $0[1:]...)\n", true
	case "SliceMax":
		return "if (1 > len($0))\n  panic(\"Max of empty slice is meaningless\")\nreturn Reduce_(Max_, $0[0], $0[1:]...)\n", true
	case "reduceDefault":
		// middle-axis fold: per leading-axis slab ($4 = slab length) the outputs are walked in
		// order; the input cursor %2 advances by 1 per output and, after every $5 (= stride)
		// outputs, skips the remaining ($3 - 1) * $5 inputs of the reduced axis ($3 = its length).
		return "%0 = 0\nfor ($2 > %0) ; %0 = (%0 + 1)\n  %1 = 0\n  for ($6 > %1) ; %1 = (%1 + 1)\n    $1[(%1 + ($6 * %0))] = $0[($4 * %0):($4 + ($4 * %0))][%2]\n    %3 = 1\n    for ($3 > %3) ; %3 = (%3 + 1)\n      $1[(%1 + ($6 * %0))] = $7($1[(%1 + ($6 * %0))], $0[($4 * %0):($4 + ($4 * %0))][(%2 + ($5 * %3))])\n    %4 = (%4 + 1)\n    if (%4 >= $5)\n      %4 = 0\n      %2 = (%2 + ($5 * ($3 - 1)))\n    %2 = (%2 + 1)\n", true
	case "Reduce":
		return "$ret0 = $1\nif (0 == len($2))\n  return \nrange $2 as @r\n  $ret0 = $0($ret0, $2[@r])\nreturn \n", true
	}
	return "", false
}

func K9(rc *RC, fams map[string][]*Member, floor int) {
	rc.S.Declare("K9", "reduction anchors: Sum/Prod/Argmax/Argmin(/Masked)/SliceMin/SliceMax/Reduce/reduceDefault kernels equal the table's canonical definition (accumulator, initial value, strict comparison, mask skip)", floor)
	for _, fam := range sortedFamilies(fams) {
		if !strings.HasPrefix(fam, "internal/execution.") {
			continue
		}
		stem := strings.TrimPrefix(fam, "internal/execution.")
		v, ok := spec.ParseFamily(stem)
		if !ok || v.Group != "reduce" {
			continue
		}
		for _, m := range fams[fam] {
			want, ok := k9Expected(stem, m.Class)
			if !ok {
				continue // covered by K1 only (axis-specialised reducers)
			}
			m.Canonicalise(rc.P)
			key := fam + "/" + m.Class + ":" + m.FI.Obj.Name()
			pos := rc.P.Pos(m.FI.Decl.Pos())
			got := m.Text[strings.Index(m.Text, "\n")+1:]
			if stem == "SliceMin" || stem == "SliceMax" {
				// the panic message is not behaviour the rule is about
				got = normPanic(got)
				want = normPanic(want)
			}
			if sameModInt(got, want) {
				rc.S.Ok("K9", key, pos, strings.ReplaceAll(strings.TrimSpace(got), "\n", " | "))
				continue
			}
			if !sameSkeleton(got, want) {
				rc.S.Undec("K9", key, pos, fmt.Sprintf("the kernel no longer has the statement skeleton of its table definition (restructured: %s); its terms are not compared", firstDiff(got, want)))
				continue
			}
			o := rc.S.Viol("K9", key, pos, fmt.Sprintf("reduction kernel differs from its table definition: %s", firstDiff(got, want)))
			o.Sig = lineDiff(got, want)
		}
	}
}

func normPanic(s string) string {
	i := strings.Index(s, "panic(")
	if i < 0 {
		return s
	}
	j := strings.Index(s[i:], "\n")
	if j < 0 {
		return s[:i] + "panic(…)"
	}
	return s[:i] + "panic(…)" + s[i+j:]
}
