package rules

import (
	"fmt"
	"sort"
	"strings"

	"tcheck/ir"
)

// Engine L, guard goals (LG). A table names, per hand-written function, the raw
// (whole-buffer / external) accesses and the layout facts every control path must have
// established before reaching them. Paths are enumerated on the canonical form; a goal is
// an implication from the path condition, decided by truth table after folding synonymous
// spellings of one layout fact (IsRowMajor = !IsColMajor, IsContiguous = !IsNotContiguous,
// IsView = viewOf != 0). `Decides` goals require that the path has branched on a predicate
// at all (either outcome) - "the layout was consulted" - which is what the BLAS gateways
// need: each trans flag must come from a test of that operand.

type lgEntry struct {
	Rule      string   // L1 raw access guard, L3 order agreement, L4 exporter order, LB BLAS gateway
	Func      string   // function key
	Site      string   // substring of the statement that performs the access
	Goal      string   // canonical boolean formula that must hold ("" = none)
	Decides   []string // atoms the path must have branched on
	OrStep    string   // alternatively, a statement containing this text occurs earlier on the path
	NotAfter  string   // paths on which a statement containing this text occurs are not instances (error exits)
	MustStep  string   // a statement containing this text must occur earlier on the path
	MustAfter string   // a statement containing this text must occur later on the path
	Props     []string
	Why       string
}

var lgTable = []lgEntry{
	// ---- whole-tensor writers and copies (C04) -------------------------------------------------
	{Rule: "L1", Func: "tensor.(*Dense).Memset", Site: "$r.array.Memset(", Goal: "!$r.IsMaterializable()", Props: []string{"C04"}, Why: "a raw fill through a view or lazy transpose writes outside the view"},
	{Rule: "L1", Func: "tensor.(*Dense).Zero", Site: "$r.array.Zero()", Goal: "!$r.IsMaterializable()", Props: []string{"C04"}, Why: "a raw zero through a view clears parent elements outside the view"},
	{Rule: "L1", Func: "tensor.Copy", Site: "copyDense(%dt, %ts)", Goal: "(!%ts.RequiresIterator() && !%dt.RequiresIterator())", Props: []string{"C04"}, Why: "raw memcpy is only the logical copy when neither side needs an iterator"},
	{Rule: "L3", Func: "tensor.Copy", Site: "copyDense(%dt, %ts)", Goal: "%ts.DataOrder().HasSameOrder(%dt.DataOrder())", Props: []string{"C16"}, Why: "a raw copy between a row-major and a column-major tensor rearranges the elements"},
	{Rule: "L1", Func: "tensor.(*Dense).Transpose", Site: "%transposer.Transpose($r,", Goal: "(!$r.old.IsZero() && !$r.o.IsNotContiguous())", Props: []string{"C04", "C03"}, Why: "materialising a lazy transpose rewrites the tensor's whole window in place: for a non-contiguous view the window holds parent elements that are not the view's, and the clone of such a view keeps the gaps in its own memory (finding 78)"},
	{Rule: "L1", Func: "tensor.(*Dense).Materialize", Site: "return $r", Goal: "!$r.IsMaterializable()", Props: []string{"C04"}, Why: "only a tensor that is neither a view nor lazily transposed may stand for its own materialisation"},
	{Rule: "L1", Func: "tensor.ToMat64", Site: "copy(%data, $t.Float64s())", Goal: "!$t.IsMaterializable()", Props: []string{"C04", "C14"}, Why: "raw export of a view/lazy transpose emits storage order, not logical order"},
	{Rule: "L1", Func: "tensor.ToMat64", Site: "convToFloat64s($t)", Goal: "!$t.IsMaterializable()", Props: []string{"C04", "C14"}, Why: "raw export of a view/lazy transpose emits storage order, not logical order"},
	{Rule: "L4", Func: "tensor.ToMat64", Site: "copy(%data, $t.Float64s())", Goal: "!$t.DataOrder().IsColMajor()", Props: []string{"C16"}, Why: "mat.Dense is row-major: only a row-major tensor may hand over its backing array as it is (the iterator branch handles every order)"},
	{Rule: "L4", Func: "tensor.ToMat64", Site: "convToFloat64s($t", Goal: "(!$t.DataOrder().IsColMajor() || $t.IsMaterializable())", Props: []string{"C16"}, Why: "mat.Dense is row-major: only a row-major tensor may hand over its backing array as it is - directly (where L1 already demands that it is not materializable) or through Materialize(), which is the identity on a tensor that is neither a view nor lazily transposed: a contiguous column-major tensor comes back as it is"},
	{Rule: "L1", Func: "tensor.copyDenseIter", Site: "copyDense($dst, $src)", Goal: "((!$dst.RequiresIterator() && !$src.RequiresIterator()) && $dst.DataOrder().HasSameOrder($src.DataOrder()))", Props: []string{"C04", "C16", "C02", "C10"}, Why: "the raw memcpy inside the iterator copy is only the logical copy when neither side needs an iterator and both have the same data order"},
	{Rule: "L1", Func: "tensor.handleFuncOpts", Site: "return ", NotAfter: "= errors.", Goal: "(!$ret2 || !(($expShape.TotalSize() != $ret0.len()) && !$expShape.IsScalar()))", Props: []string{"C04", "C07"}, Why: "a reuse/incr destination is accepted only if its storage length equals the result size (a strided view, whose storage is longer than its element count, is refused)"},
	{Rule: "L1", Func: "tensor.handleFuncOptsF32", Site: "return ", NotAfter: "= errors.", Goal: "(!$ret2 || !(($expShape.TotalSize() != $ret0.len()) && !$expShape.IsScalar()))", Props: []string{"C04", "C07", "C20"}, Why: "a reuse/incr destination is accepted only if its storage length equals the result size"},
	{Rule: "L1", Func: "tensor.handleFuncOptsF64", Site: "return ", NotAfter: "= errors.", Goal: "(!$ret2 || !(($expShape.TotalSize() != $ret0.len()) && !$expShape.IsScalar()))", Props: []string{"C04", "C07", "C20"}, Why: "a reuse/incr destination is accepted only if its storage length equals the result size"},
	// ---- reductions (C08, C16) --------------------------------------------------------------------
	{Rule: "L1", Func: "tensor.(StdEng).Sum", Site: "$r.reduce(", Goal: "!(%ok && %v.IsMaterializable())", OrStep: ".Materialize()", Props: []string{"C08"}, Why: "views are materialised before the raw reducers run"},
	{Rule: "L1", Func: "tensor.(StdEng).Min", Site: "$r.reduce(", Goal: "!(%ok && %v.IsMaterializable())", OrStep: ".Materialize()", Props: []string{"C08"}, Why: "views are materialised before the raw reducers run"},
	{Rule: "L1", Func: "tensor.(StdEng).Max", Site: "$r.reduce(", Goal: "!(%ok && %v.IsMaterializable())", OrStep: ".Materialize()", Props: []string{"C08"}, Why: "views are materialised before the raw reducers run"},
	{Rule: "L1", Func: "tensor.(StdEng).reduce", Site: "$monotonicMethod(", Goal: "(((%monotonic && %incr1) && ($a.Dims() == len($along))) || (0 == len($along)))", Props: []string{"C08"}, Why: "the whole-tensor fold answers a reduction only when every axis is reduced (all axes listed, or none given): for any other request the axes matter, whatever the shape"},
	{Rule: "L1", Func: "tensor.handleReuse", Site: "return ", NotAfter: "errors.", Goal: "(!($reuse != nil) || !$safe)", OrStep: "reuseCheckShape($ret0, $expectedShape)", Props: []string{"C09", "C07"}, Why: "a reuse destination is normalised by reuseCheckShape on every accepting path (strides reset, pending lazy transpose and view marker dropped) - also when its shape already is the expected one"},
	{Rule: "L1", Func: "tensor.(StdEng).prepReduce", Site: "return ", NotAfter: "$ret4 = errors.", Goal: "(%ok && !%useIter)", Props: []string{"C08"}, Why: "iterator-requiring inputs are refused, not folded from raw storage"},
	{Rule: "L3", Func: "tensor.(StdEng).OptimizedReduce", Site: "$r.E.ReduceFirst(", Goal: "!%at.DataOrder().IsColMajor()", Props: []string{"C08", "C16"}, Why: "the first-axis kernel assumes row-major storage"},
	{Rule: "L3", Func: "tensor.(StdEng).OptimizedReduce", Site: "$r.E.ReduceLast(", Goal: "!%at.DataOrder().IsColMajor()", Props: []string{"C08", "C16"}, Why: "the last-axis kernel assumes row-major storage"},
	{Rule: "L3", Func: "tensor.(StdEng).OptimizedReduce", Site: "$r.E.ReduceDefault(", Goal: "!%at.DataOrder().IsColMajor()", Props: []string{"C08", "C16"}, Why: "the middle-axis kernel assumes row-major storage (its siblings refuse column-major; this arm must as well)"},
	{Rule: "L3", Func: "tensor.(StdEng).Reduce", Site: "$r.E.ReduceDefault(", Goal: "!%at.DataOrder().IsColMajor()", Props: []string{"C08", "C16"}, Why: "the middle-axis kernel assumes row-major storage"},
	{Rule: "L3", Func: "tensor.(StdEng).Reduce", Site: "$r.E.ReduceFirst(", Goal: "!%at.DataOrder().IsColMajor()", Props: []string{"C08", "C16"}, Why: "the first-axis kernel assumes row-major storage"},
	{Rule: "L3", Func: "tensor.(StdEng).Reduce", Site: "$r.E.ReduceLast(", Goal: "!%at.DataOrder().IsColMajor()", Props: []string{"C08", "C16"}, Why: "the last-axis kernel assumes row-major storage"},
	{Rule: "L1", Func: "tensor.(StdEng).argmaxDenseTensor", Site: "$r.E.ArgmaxFlat(", Goal: "!(%ok && %d.IsMaterializable())", OrStep: ".Materialize()", Props: []string{"C08"}, Why: "the flat arg-reduction scans raw storage: views and lazily transposed tensors are materialised first"},
	{Rule: "L1", Func: "tensor.(StdEng).argminDenseTensor", Site: "$r.E.ArgminFlat(", Goal: "!(%ok && %d.IsMaterializable())", OrStep: ".Materialize()", Props: []string{"C08"}, Why: "the flat arg-reduction scans raw storage: views and lazily transposed tensors are materialised first"},
	{Rule: "L1", Func: "tensor.(StdEng).argmaxDenseTensor", Site: "$r.E.ArgmaxFlat", Goal: "($axis == AllAxes)", Props: []string{"C08"}, Why: "the flat arg-reduction answers the all-axes request only: any explicit axis - also of a row or column vector, which has two - goes through the per-lane kernels and keeps the result's shape"},
	{Rule: "L1", Func: "tensor.(StdEng).argminDenseTensor", Site: "$r.E.ArgminFlat", Goal: "($axis == AllAxes)", Props: []string{"C08"}, Why: "the flat arg-reduction answers the all-axes request only"},
	{Rule: "L3", Func: "tensor.(StdEng).argmaxDenseTensor", Site: "$r.E.ArgmaxFlat(", Goal: "!($t.DataOrder().IsColMajor() && !$t.IsVector())", Props: []string{"C08", "C16"}, Why: "the flat index is a row-major index"},
	{Rule: "L3", Func: "tensor.(StdEng).argminDenseTensor", Site: "$r.E.ArgminFlat(", Goal: "!($t.DataOrder().IsColMajor() && !$t.IsVector())", Props: []string{"C08", "C16"}, Why: "the flat index is a row-major index"},
	// ---- BLAS gateways (C09, C16) ----------------------------------------------------------------
	{Rule: "LB", Func: "tensor.(StdEng).MatMul", Site: "whichblas.", Decides: []string{"%ad.oldAP().IsZero()", "%bd.oldAP().IsZero()", "$a.DataOrder().IsColMajor()", "$b.DataOrder().IsColMajor()", "$prealloc.DataOrder().IsColMajor()"}, Props: []string{"C09", "C16"}, Why: "each trans flag and leading dimension must come from that operand's own lazy-transpose state and data order"},
	{Rule: "LB", Func: "tensor.(StdEng).MatVecMul", Site: "whichblas.", Decides: []string{"%ad.oldAP().IsZero()", "$a.DataOrder().IsColMajor()"}, Props: []string{"C09", "C16"}, Why: "the trans flag must come from the matrix' lazy-transpose state and data order"},
	{Rule: "LB", Func: "tensor.(StdEng).Outer", Site: "whichblas.", Decides: []string{"%pd.DataOrder().IsColMajor()"}, Props: []string{"C09", "C16"}, Why: "the result's data order decides the operand order of the rank-1 update"},
	{Rule: "L1", Func: "tensor.(StdEng).MatMul", Site: "whichblas.", MustStep: "$r.checkThreeFloatComplexTensors($a, $b, $prealloc)", Props: []string{"C09"}, Why: "every path to BLAS passes the shared operand check (which refuses views with gaps)"},
	{Rule: "L1", Func: "tensor.(StdEng).MatVecMul", Site: "whichblas.", MustStep: "$r.checkThreeFloatComplexTensors($a, $b, $prealloc)", Props: []string{"C09"}, Why: "every path to BLAS passes the shared operand check"},
	{Rule: "L1", Func: "tensor.(StdEng).Outer", Site: "whichblas.", MustStep: "$r.checkThreeFloatComplexTensors($a, $b, $prealloc)", Props: []string{"C09"}, Why: "every path to BLAS passes the shared operand check"},
	{Rule: "L1", Func: "tensor.(StdEng).Inner", Site: "whichblas.", MustStep: "$r.checkTwoFloatComplexTensors($a, $b)", Props: []string{"C09"}, Why: "every path to BLAS passes the shared operand check"},
	{Rule: "L1", Func: "tensor.(Float64Engine).Inner", Site: "whichblas.", Goal: "(%AD.DataOrder().IsContiguous() && %BD.DataOrder().IsContiguous())", Props: []string{"C09", "C20"}, Why: "the specialised engine's dot product walks both backing arrays with unit stride: views with gaps are refused as the default engine refuses them (finding 79)"},
	{Rule: "L1", Func: "tensor.(Float32Engine).Inner", Site: "whichblas.", Goal: "(%AD.DataOrder().IsContiguous() && %BD.DataOrder().IsContiguous())", Props: []string{"C09", "C20"}, Why: "the specialised engine's dot product walks both backing arrays with unit stride: views with gaps are refused as the default engine refuses them (finding 79)"},
	{Rule: "L1", Func: "tensor.(StdEng).checkThreeFloatComplexTensors", Site: "return ", NotAfter: "errors.", Goal: "(($ret0.DataOrder().IsContiguous() && $ret1.DataOrder().IsContiguous()) && $ret2.DataOrder().IsContiguous())", Props: []string{"C09"}, Why: "a view with gaps is not the matrix BLAS is told about: the check accepts only packed operands and result (a pending lazy transpose is expressed through the flags, rule LD)"},
	{Rule: "L1", Func: "tensor.(StdEng).checkTwoFloatComplexTensors", Site: "return ", NotAfter: "errors.", Goal: "($ret0.DataOrder().IsContiguous() && $ret1.DataOrder().IsContiguous())", Props: []string{"C09"}, Why: "a view with gaps is not the vector BLAS is told about"},
	// ---- transposition shortcuts (C03) and destination normalisation (C09, C07) ----------------------
	{Rule: "L1", Func: "tensor.(*Dense).T", Site: "$r.UT()", Goal: "(!$r.old.IsZero() && ($r.IsVector() || %isReversed))", Props: []string{"C03"}, Why: "a second lazy transpose may be answered by an untranspose only for a true vector or when the requested pattern is the saved one"},
	{Rule: "L1", Func: "tensor.reuseCheckShape", Site: "return nil", MustStep: "$reuse.reshape(", Decides: []string{"$reuse.oldAP().IsZero()", "($reuse.transposeAxes() == nil)", "($reuse.parentTensor() == nil)"}, Props: []string{"C09", "C07"}, Why: "a reuse destination is normalised (reshaped to default strides, pending transpose and view marker dropped) on every accepting path, whatever its current shape"},
	// ---- axis selection of the stacking shorthands (C10) -----------------------------------------------
	{Rule: "L1", Func: "tensor.(*Dense).Hstack", Site: "$r.Concat(0,", Goal: "($r.Dims() == 1)", Props: []string{"C10"}, Why: "only a rank-1 receiver is stacked along axis 0 by Hstack"},
	// ---- stacking / repetition (C10) -----------------------------------------------------------------
	{Rule: "L1", Func: "tensor.(StdEng).denseRepeat", Site: "fastCopyDenseRepeat(", Goal: "!(%ok && %td.IsMaterializable())", OrStep: ".Materialize()", Props: []string{"C10"}, Why: "block copies read the operand's raw storage: views and lazily transposed operands are materialised first"},
	{Rule: "L1", Func: "tensor.(StdEng).denseRepeat", Site: "copyDenseSliced(", Goal: "!(%ok && %td.IsMaterializable())", OrStep: ".Materialize()", Props: []string{"C10"}, Why: "block copies read the operand's raw storage: views and lazily transposed operands are materialised first"},
	{Rule: "L3", Func: "tensor.(StdEng).denseRepeat", Site: "fastCopyDenseRepeat(", Goal: "!(%ok && %td.DataOrder().IsColMajor())", OrStep: ".Materialize()|= copyDenseIter(", Props: []string{"C10", "C16"}, Why: "block copies read the operand as row-major storage: a column-major operand is copied into row-major form first (finding 61)"},
	{Rule: "L3", Func: "tensor.(StdEng).denseRepeat", Site: "copyDenseSliced(", Goal: "!(%ok && %td.DataOrder().IsColMajor())", OrStep: ".Materialize()|= copyDenseIter(", Props: []string{"C10", "C16"}, Why: "block copies read the operand as row-major storage: a column-major operand is copied into row-major form first (finding 61)"},
	{Rule: "L3", Func: "tensor.(StdEng).denseRepeat", Site: "fastCopyDenseRepeat(", Goal: "!%d.DataOrder().IsColMajor()", Props: []string{"C10", "C16"}, Why: "block copies fill the destination in row-major storage order: a column-major reuse tensor is refused"},
	{Rule: "L3", Func: "tensor.(StdEng).denseRepeat", Site: "copyDenseSliced(", Goal: "!%d.DataOrder().IsColMajor()", Props: []string{"C10", "C16"}, Why: "block copies fill the destination in row-major storage order: a column-major reuse tensor is refused"},
	{Rule: "L1", Func: "tensor.(StdEng).SoftMax", Site: "$r.softMax", Goal: "!($ret1 != nil)", MustStep: "$ret1 = softMaxLayout($x, %reuse)", Props: []string{"C16"}, Why: "the softmax kernels walk the backing arrays of operands and result as contiguous row-major storage: the layout gate (rule SM) sees every one of them and its refusal is honoured (finding 63)"},
	{Rule: "L1", Func: "tensor.(StdEng).LogSoftMax", Site: "$r.softMax", Goal: "!($ret1 != nil)", MustStep: "$ret1 = softMaxLayout($x, %reuse)", Props: []string{"C16"}, Why: "the softmax kernels walk the backing arrays of operands and result as contiguous row-major storage: the layout gate (rule SM) sees every one of them and its refusal is honoured (finding 63)"},
	{Rule: "L1", Func: "tensor.(StdEng).SoftMaxB", Site: "$r.softMax", Goal: "!($ret1 != nil)", MustStep: "$ret1 = softMaxLayout($output, $grad, %reuse)", Props: []string{"C16"}, Why: "the softmax kernels walk the backing arrays of operands and result as contiguous row-major storage: the layout gate (rule SM) sees every one of them and its refusal is honoured (finding 63)"},
	{Rule: "L1", Func: "tensor.(StdEng).LogSoftMaxB", Site: "$r.softMax", Goal: "!($ret1 != nil)", MustStep: "$ret1 = softMaxLayout($output, $grad, %reuse)", Props: []string{"C16"}, Why: "the softmax kernels walk the backing arrays of operands and result as contiguous row-major storage: the layout gate (rule SM) sees every one of them and its refusal is honoured (finding 63)"},
	{Rule: "L1", Func: "tensor.(*Dense).Eq", Site: "$r.array.Eq(", Goal: "(!$r.RequiresIterator() && !%ot.RequiresIterator())", Props: []string{"C16", "C04"}, Why: "the array comparison pairs the two backing arrays position by position (finding 62)"},
	{Rule: "L3", Func: "tensor.(*Dense).Eq", Site: "$r.array.Eq(", Goal: "$r.DataOrder().HasSameOrder(%ot.DataOrder())", Props: []string{"C16"}, Why: "the array comparison pairs the two backing arrays position by position: a row-major and a column-major tensor with the same contents differ in storage (finding 62)"},
	{Rule: "L1", Func: "tensor.(*Dense).CopyTo", Site: "copyDense($other, $r)", Goal: "(($r.viewOf == 0) && ($other.viewOf == 0))", Props: []string{"C19", "C04"}, Why: "the storage-level copy fills the destination's whole backing array: neither side may be a view (a view's array is a window of its parent's)"},
	{Rule: "L2", Func: "tensor.(*Dense).Inner", Site: ".Inner($r, $other)", Goal: "($other.Dtype() == $r.t)", Props: []string{"C09", "C20"}, Why: "the specialised engines read both backing arrays as their own element type: a float32 vector against a float64 vector is refused, not reinterpreted (finding 86)"},
	{Rule: "L2", Func: "tensor.(*Dense).Inner", Site: ".Inner($r, $other)", Goal: "($other.DataSize() == $r.len())", Props: []string{"C09"}, Why: "the BLAS dot product walks both backing arrays with one length: the storage lengths must agree, not the logical sizes"},
	{Rule: "L3", Func: "tensor.(*Dense).TensorMul", Site: "Dot(%doT, %doOther)", Goal: "%doOther.DataOrder().HasSameOrder(%doT.DataOrder())", OrStep: "orderOf(%doT.DataOrder())", Props: []string{"C09", "C16"}, Why: "both operands are flattened by Reshape, which follows each tensor's own data order: they must share one, or the second is copied into a tensor built in the first's order (finding 68b)"},
	{Rule: "L2", Func: "tensor.(StdEng).Dot", Site: "$r.Inner(", Goal: "((%reuse == nil) && (%incr == nil))", Props: []string{"C09", "C07"}, Why: "the vector inner product is returned as a new scalar tensor: a reuse or increment destination would be silently ignored, so it is refused (finding 75)"},
	{Rule: "L2", Func: "tensor.(StdEng).Dot", Site: ".TensorMul(", Goal: "(%incr == nil)", Props: []string{"C09", "C07"}, Why: "the rank >= 3 contraction builds its own result and only copies it into a reuse tensor: an increment destination would be silently ignored, so it is refused (finding 75)"},
	{Rule: "L1", Func: "tensor.(StdEng).RepeatReuse", Site: "$r.denseRepeat(", Goal: "(%ok && $reuse.Shape().Eq(%newShape))", Props: []string{"C10", "C13"}, Why: "a reuse destination is accepted only when its shape is the computed result shape: the repeat fills it by the result's geometry, and the returned tensor must have the shape the shape-only calculator predicts"},
	{Rule: "S21", Func: "tensor.(Shape).Concat", Site: "return ", NotAfter: "errors.", Goal: "(!(0 > $axis) && (!($axis >= $r.Dims()) || !($axis >= len($r))))", Props: []string{"C13", "C10"}, Why: "the concatenation axis is an axis of the operands: an axis equal to the rank is accepted by no execution path (denseConcat indexes the shape with it)"},
	{Rule: "S21", Func: "tensor.(Shape).Repeat", Site: "$ret0 = tensor.Shape{", Goal: "((($axis == AllAxes) || $r.IsScalar()) || (0 == len($r)))", Props: []string{"C13", "C10"}, Why: "the literal result shapes belong to the flattening request and to true scalars: a (1,1) or (1,1,1) operand has axes, keeps them and is repeated along the one asked for (IsScalarEquiv is not IsScalar)"},
	// ---- mask inspection (C15) -----------------------------------------------------------------------
	{Rule: "L1", Func: "tensor.doMaskAll", Site: "range %ts.mask", Goal: "(%ts.IsMasked() && (%ts.Size() == len(%ts.mask)))", Props: []string{"C15"}, Why: "the whole-mask fold is the fold over the tensor's elements only when the mask covers exactly those elements (a view's mask window is longer)"},
	{Rule: "L1", Func: "tensor.doMaskAny", Site: "range %ts.mask", Goal: "(%ts.IsMasked() && (%ts.Size() == len(%ts.mask)))", Props: []string{"C15"}, Why: "the whole-mask fold is the fold over the tensor's elements only when the mask covers exactly those elements"},
	{Rule: "L1", Func: "tensor.doMaskCt", Site: "range %ts.mask", Goal: "(%ts.IsMasked() && (%ts.Size() == len(%ts.mask)))", Props: []string{"C15"}, Why: "the whole-mask count is the count over the tensor's elements only when the mask covers exactly those elements"},
	{Rule: "L1", Func: "tensor.(StdEng).Dot", Site: "copyDense(%reuse, %rd)", MustAfter: "%reuse.setAP(", Props: []string{"C09", "C16"}, Why: "the raw copy hands the result's storage over to the reuse tensor as it is laid out: the reuse tensor must adopt the result's access pattern (strides and data order), not recompute strides from its own order"},
	// ---- native (zero-copy) conversions: windows of the raw backing array ------------------------
	{Rule: "L1", Func: "native.checkNativeIterable", Site: "return nil", Goal: "(!$t.RequiresIterator() && !$t.F())", Props: []string{"C04", "C16"}, Why: "the native [][]T / [][][]T views are windows of the raw backing array: only a tensor that needs no iterator (not sliced with gaps, not lazily transposed, not masked) and is row-major may be converted"},
	{Rule: "L1", Func: "native.checkNativeSelectable", Site: "return nil", Goal: "(!$t.RequiresIterator() && !$t.F())", Props: []string{"C04", "C16"}, Why: "native selection hands out windows of the raw backing array"},
	{Rule: "F6", Func: "tensor.(*Dense).ReadNpy", Site: "$r.setShape(%shape...)", MustStep: "$r.AP.o = 0", Props: []string{"C14", "C16"}, Why: "a .npy file that is accepted is C-ordered: a receiver that was column-major before must not keep its order flag, or the decoded rows are addressed as columns (finding 87)"},
	{Rule: "F6", Func: "tensor.(*Dense).ReadNpy", Site: "$r.setShape(%shape...)", MustStep: "$r.old.zero()", Props: []string{"C14", "C03"}, Why: "a pending lazy transpose of the receiver belongs to its previous contents: a later UT() would restore the stale shape (finding 87)"},
	// ---- writers (C14) -------------------------------------------------------------------------------
	{Rule: "L1", Func: "tensor.(*Dense).WriteNpy", Site: "for ($r.len() > %i)", Decides: []string{"$r.RequiresIterator()"}, Props: []string{"C14", "C16"}, Why: "the flat Get(i) loop emits storage order; .npy is declared C-ordered"},
	{Rule: "L1", Func: "tensor.(*Dense).GobEncode", Site: ".Encode(&%data)", Decides: []string{"$r.IsMaterializable()"}, OrStep: ".Materialize()", Props: []string{"C14"}, Why: "a view's whole storage window is written under the view's shape: the decoder's sanity check rejects it"},
	{Rule: "F5", Func: "tensor.(*Dense).WriteNpy", Site: "'shape': (%d,)", Goal: "($r.Dims() == 1)", Props: []string{"C14"}, Why: "the one-element tuple header is only the shape of a rank-1 tensor"},
	// ---- float engines (C20) ---------------------------------------------------------------------
	{Rule: "L1", Func: "tensor.(Float64Engine).Add", Site: "V.", Goal: "(!$a.RequiresIterator() && !$b.RequiresIterator())", Props: []string{"C20"}, Why: "the vecf fast path reads raw storage of both operands"},
	{Rule: "L1", Func: "tensor.(Float32Engine).Add", Site: "V.", Goal: "(!$a.RequiresIterator() && !$b.RequiresIterator())", Props: []string{"C20"}, Why: "the vecf fast path reads raw storage of both operands"},
	{Rule: "L3", Func: "tensor.(Float64Engine).Add", Site: "V.", Goal: "$a.DataOrder().HasSameOrder($b.DataOrder())", Props: []string{"C20", "C16"}, Why: "raw addition of a row-major and a column-major operand pairs the wrong elements"},
	{Rule: "L3", Func: "tensor.(Float32Engine).Add", Site: "V.", Goal: "$a.DataOrder().HasSameOrder($b.DataOrder())", Props: []string{"C20", "C16"}, Why: "raw addition of a row-major and a column-major operand pairs the wrong elements"},
	{Rule: "L2", Func: "tensor.(Float64Engine).Add", Site: "V.", Goal: "!%useIter", Props: []string{"C20", "C16", "C07"}, Why: "the iterator decision of the shared operand preparation covers the destination (it requires an iterator, or has the other data order): the flat vecf kernels must not run once it was positive (finding 80)"},
	{Rule: "L2", Func: "tensor.(Float32Engine).Add", Site: "V.", Goal: "!%useIter", Props: []string{"C20", "C16", "C07"}, Why: "the iterator decision of the shared operand preparation covers the destination: the flat vecf kernels must not run once it was positive (finding 80)"},
	{Rule: "L2", Func: "tensor.(Float64Engine).FMA", Site: "V.", Goal: "!%useIter", Props: []string{"C20"}, Why: "the raw kernel must not run once the iterator decision was taken"},
	{Rule: "L2", Func: "tensor.(Float32Engine).FMA", Site: "V.", Goal: "!%useIter", Props: []string{"C20"}, Why: "the raw kernel must not run once the iterator decision was taken"},
	{Rule: "L2", Func: "tensor.(Float64Engine).FMAScalar", Site: "execution.MulIncrVS", Goal: "!%useIter", Props: []string{"C20"}, Why: "the raw kernel must not run after the iterator kernel already did the work"},
	{Rule: "L2", Func: "tensor.(Float32Engine).FMAScalar", Site: "execution.MulIncrVS", Goal: "!%useIter", Props: []string{"C20"}, Why: "the raw kernel must not run after the iterator kernel already did the work"},
}

// suffix synonyms for layout atoms on any receiver expression
func normAtomsGeneral(b *ir.BExpr) *ir.BExpr {
	if b == nil {
		return nil
	}
	switch b.Op {
	case "atom":
		a := b.Atom
		// X.o and X.AP.o are the field DataOrder() returns
		if strings.Contains(a, ".o.Is") || strings.Contains(a, ".o.Has") {
			a = strings.Replace(strings.Replace(a, ".AP.o.", ".DataOrder().", -1), ".o.", ".DataOrder().", -1)
			if a != b.Atom {
				return normAtomsGeneral(ir.BAtom(a))
			}
		}
		switch {
		case strings.HasSuffix(a, ".IsRowMajor()"):
			return ir.BNot(ir.BAtom(strings.TrimSuffix(a, ".IsRowMajor()") + ".IsColMajor()"))
		case strings.HasSuffix(a, ".IsContiguous()"):
			return ir.BNot(ir.BAtom(strings.TrimSuffix(a, ".IsContiguous()") + ".IsNotContiguous()"))
		case strings.HasSuffix(a, ".IsView()"):
			return ir.BNot(ir.BAtom("(" + strings.TrimSuffix(a, ".IsView()") + ".viewOf == 0)"))
		}
		// X.HasSameOrder(Y) is "both column-major or both row-major" (its definition is rule L0's):
		// expanded, a test written as X.IsColMajor() == Y.IsColMajor() establishes the same fact
		if i := strings.Index(a, ".HasSameOrder("); i > 0 && strings.HasSuffix(a, ")") {
			l, r := a[:i], a[i+len(".HasSameOrder("):len(a)-1]
			if balancedParens(l) && balancedParens(r) {
				x, y := ir.BAtom(l+".IsColMajor()"), ir.BAtom(r+".IsColMajor()")
				return ir.BOr(ir.BAnd(x, y), ir.BAnd(ir.BNot(x), ir.BNot(y)))
			}
		}
		if strings.HasPrefix(a, "(0 == ") && strings.HasSuffix(a, ".viewOf)") {
			return ir.BAtom("(" + strings.TrimSuffix(strings.TrimPrefix(a, "(0 == "), ")") + " == 0)")
		}
		return b
	case "const":
		return b
	}
	return &ir.BExpr{Op: b.Op, L: normAtomsGeneral(b.L), R: normAtomsGeneral(b.R)}
}

func pathG(p ir.Path) []*ir.BExpr {
	var out []*ir.BExpr
	for _, f := range ir.PathFormulas(p) {
		out = append(out, normAtomsGeneral(f))
	}
	return out
}

func stepMatches(n *ir.Node, site string) bool {
	if strings.Contains(n.Head, site) {
		return true
	}
	switch n.Kind {
	case "loop", "range", "switch":
		return strings.Contains(ir.Render([]*ir.Node{n}), site)
	}
	return false
}

// LGuards runs the table entries of one property.
func LGuards(rc *RC, prop string) {
	for _, r := range [][2]string{
		{"L1", "raw access needs a layout guard: every path to a whole-buffer access of a tensor has established that the tensor does not require an iterator / is not a view (table of sites)"},
		{"L2", "branch exclusivity: no raw kernel on a path on which the iterator decision was positive"},
		{"L3", "order agreement: a raw access that pairs the storage of two tensors, or assumes row-major storage, is conditioned on their data order"},
		{"L4", "exporters into a row-major external format consult the tensor's data order"},
		{"F5", "npy header: the rank-1 header form is used only for rank-1 tensors"},
		{"F6", "decoding into a reused receiver: what the wire format does not carry (data order of a C-ordered .npy file, a pending lazy transpose) is reset before the decoded shape is installed"},
		{"S21", "axis bounds of the shape calculators: every accepting path has established 0 <= axis < rank (the calculator fails exactly when the operation fails)"},
		{"LB", "BLAS gateway: each trans flag / leading dimension is derived from a test of that operand's lazy-transpose state and data order on every path to the BLAS call"},
	} {
		rc.S.Declare(r[0], r[1], 0)
	}
	byFunc := map[string][]lgEntry{}
	var keys []string
	for _, e := range lgTable {
		use := false
		for _, p := range e.Props {
			if p == prop {
				use = true
			}
		}
		if !use {
			continue
		}
		if _, ok := byFunc[e.Func]; !ok {
			keys = append(keys, e.Func)
		}
		byFunc[e.Func] = append(byFunc[e.Func], e)
	}
	sort.Strings(keys)
	for _, fk := range keys {
		fi := rc.P.Func(fk)
		if fi == nil {
			for _, e := range byFunc[fk] {
				rc.S.Undec(e.Rule, fk+"@"+e.Site, "-", "unresolved anchor: function no longer exists")
			}
			continue
		}
		pos := rc.P.Pos(fi.Decl.Pos())
		_, tree := sCanon(rc, fi)
		paths, ok := ir.EnumPaths(tree, 20000)
		if !ok {
			for _, e := range byFunc[fk] {
				rc.S.Undec(e.Rule, fk+"@"+e.Site, pos, "too many paths")
			}
			continue
		}
		rc.S.Count("LG.paths", len(paths))
		for _, e := range byFunc[fk] {
			key := fk + "@" + e.Site
			if e.Goal != "" {
				key += " ⊨ " + e.Goal
			}
			for _, d := range e.Decides {
				key += " ?" + d
			}
			var bad []string
			var undec []string
			sites := 0
			for _, p := range paths {
				hit := -1
				for i, st := range p.Steps {
					if stepMatches(st, e.Site) {
						hit = i
						break
					}
				}
				if hit < 0 && e.Site == "return " && p.Exit == "return" && p.Ret == "" {
					hit = len(p.Steps)
				}
				if hit < 0 && strings.HasPrefix(e.Site, "return ") && p.Exit == "return" && "return "+p.Ret == e.Site {
					hit = len(p.Steps)
				}
				if hit < 0 {
					continue
				}
				if e.NotAfter != "" {
					skip := false
					for _, st := range p.Steps {
						if strings.Contains(st.Head, e.NotAfter) {
							skip = true
						}
					}
					if skip {
						continue
					}
				}
				sites++
				f := pathG(p)
				nBadBefore := len(bad)
				// a helper introduced since the reviewed tree can establish a fact only where it is
				// called before the access (or in a guard); one called after the access cannot
				helper := rc.NewHelperIn(p.Guards...)
				if helper == "" {
					for _, st := range p.Steps[:min(hit+1, len(p.Steps))] {
						if h := rc.NewHelperIn(st.Head); h != "" {
							helper = h
							break
						}
					}
				}
				if helper == "" && e.MustAfter != "" {
					helper = rc.PathNewHelper(p)
				}
				if e.MustStep != "" {
					found := false
					for _, st := range p.Steps[:min(hit, len(p.Steps))] {
						if strings.Contains(st.Head, e.MustStep) {
							found = true
						}
					}
					if !found {
						bad = append(bad, fmt.Sprintf("reached with [%s] without a test of the mandatory step %s", strings.Join(p.Guards, " && "), e.MustStep))
					}
				}
				if e.MustAfter != "" {
					found := false
					for _, st := range p.Steps[min(hit, len(p.Steps)):] {
						if strings.Contains(st.Head, e.MustAfter) {
							found = true
						}
					}
					if !found {
						bad = append(bad, fmt.Sprintf("reached with [%s] and not followed by the mandatory step %s", strings.Join(p.Guards, " && "), e.MustAfter))
					}
				}
				if e.OrStep != "" {
					found := false
					for _, st := range p.Steps[:min(hit, len(p.Steps))] {
						if orStepMatches(st.Head, e.OrStep) {
							found = true
						}
					}
					if found {
						continue
					}
				}
				if e.Goal != "" {
					g := normAtomsGeneral(ir.ParseBool(e.Goal))
					if !ir.Implies(f, g) {
						bad = append(bad, fmt.Sprintf("reached with [%s], which does not establish %s", strings.Join(p.Guards, " && "), e.Goal))
					}
				}
				for _, d := range e.Decides {
					a := normAtomsGeneral(ir.ParseBool(d))
					if !ir.Implies(f, a) && !ir.Implies(f, ir.BNot(a)) && !ir.DependsOn(f, a) {
						bad = append(bad, fmt.Sprintf("reached with [%s] without a test of %s", strings.Join(p.Guards, " && "), d))
					}
				}
				if len(bad) > nBadBefore && helper != "" {
					// the path runs through a helper the reviewed tree did not have: what it
					// establishes is outside what this table can read
					bad = bad[:nBadBefore]
					undec = append(undec, fmt.Sprintf("the path [%s] calls %s(), a helper introduced since the reviewed tree; what it establishes is not followed", strings.Join(p.Guards, " && "), helper))
				}
			}
			if sites == 0 {
				rc.S.Undec(e.Rule, key, pos, "the access this entry is keyed to was not found in "+fk+" (site "+e.Site+")")
				continue
			}
			if len(bad) == 0 && len(undec) > 0 {
				rc.S.Undec(e.Rule, key, pos, undec[0])
				continue
			}
			if len(bad) > 0 {
				sort.Strings(bad)
				bad = uniq(bad)
				o := rc.S.Viol(e.Rule, key, pos, fmt.Sprintf("%s: %s (%s)", fk, bad[0], e.Why))
				o.Firm = true // new helpers were already considered path by path above
				if len(bad) > 1 {
					o.Detail += fmt.Sprintf(" … and %d more paths", len(bad)-1)
				}
				var kinds []string
				for _, b := range bad {
					if i := strings.Index(b, "], which"); i >= 0 {
						kinds = append(kinds, "goal")
					} else if i := strings.Index(b, "without a test of "); i >= 0 {
						kinds = append(kinds, b[i:])
					}
				}
				sort.Strings(kinds)
				o.Sig = strings.Join(uniq(kinds), "; ")
			} else {
				rc.S.Ok(e.Rule, key, pos, fmt.Sprintf("%d path(s) reach the access, all guarded (%s)", sites, e.Why))
			}
		}
	}
}

// LA: conjunctive accumulator. StackDense decides the raw block-copy path with a boolean
// accumulated over all operands; the accumulator must be true only if no operand requires
// an iterator: its initial value implies !t.RequiresIterator(), and every path through the
// loop over the other operands either leaves it false, or keeps/assigns a value that
// implies (old value && !others[i].RequiresIterator()); a path that leaves the loop early
// must have it false.
func LA(rc *RC) {
	rc.S.Declare("LA", "layout accumulator: the flag guarding StackDense's raw block-copy path is true only if no operand requires an iterator or is column-major (initial value and every loop path checked by implication)", 1)
	key := "tensor.(StdEng).StackDense"
	fi := anchor(rc, "LA", key)
	if fi == nil {
		return
	}
	pos := rc.P.Pos(fi.Decl.Pos())
	_, tree := sCanon(rc, fi)
	// the accumulator: the bare local guarding denseSimpleStack
	// (or its negation: `if viewStack { …denseViewStack…; return }` in front of the block copy)
	acc := ""
	neg := false
	for _, n := range flatten(tree) {
		if n.Kind == "if" && strings.HasPrefix(n.Head, "%") && !strings.ContainsAny(n.Head, " (") && strings.Contains(ir.Render(n.Kids), "$r.denseSimpleStack(") {
			acc = n.Head
		}
		if n.Kind == "if" && strings.HasPrefix(n.Head, "!%") && !strings.ContainsAny(n.Head, " (") && strings.Contains(ir.Render(n.Kids), "$r.denseSimpleStack(") {
			acc, neg = n.Head[1:], true
		}
	}
	if acc == "" {
		// the block copy after an early exit of the other polarity
		for i, n := range tree {
			if n.Kind == "if" && strings.HasPrefix(n.Head, "%") && !strings.ContainsAny(n.Head, " (") && n.Else == nil && len(n.Kids) > 0 && n.Kids[len(n.Kids)-1].Kind == "ret" && !strings.Contains(ir.Render(n.Kids), "$r.denseSimpleStack(") && strings.Contains(ir.Render(tree[i+1:]), "$r.denseSimpleStack(") {
				acc, neg = n.Head, true
			}
		}
	}
	if acc == "" {
		if strings.Contains(ir.Render(tree), "$r.denseSimpleStack(") {
			rc.S.Viol("LA", key, pos, "the block-copy stack is called without a boolean layout flag guarding it").Sig = "no flag"
		} else {
			rc.S.Undec("LA", key, pos, "no call of the block-copy stack found")
		}
		return
	}
	// the flag as "every operand can be read as a flat row-major block"
	flagOf := func(f *ir.BExpr) *ir.BExpr {
		if neg {
			return ir.BNot(f)
		}
		return f
	}
	var bad []string
	riT := ir.BAtom("$t.RequiresIterator()")
	initOK := false
	for _, n := range tree {
		if n.Kind == "let" && n.Target == acc {
			f := flagOf(normAtomsGeneral(ir.ParseBool(n.Value)))
			if ir.Implies([]*ir.BExpr{f}, ir.BNot(riT)) {
				initOK = true
			} else {
				bad = append(bad, "initial value "+n.Value+" does not imply !t.RequiresIterator()")
			}
			if !ir.Implies([]*ir.BExpr{f}, ir.BNot(ir.BAtom("$t.DataOrder().IsColMajor()"))) {
				bad = append(bad, "initial value "+n.Value+" does not imply that t is row-major: the block copy lays a column-major operand out in storage order")
			}
		}
	}
	if !initOK && len(bad) == 0 {
		bad = append(bad, "the accumulator has no initial value derived from t")
	}
	loops := 0
	for _, lp := range tree {
		if lp.Kind != "range" || !strings.HasPrefix(lp.Head, "range $others as ") {
			continue
		}
		if !strings.Contains(ir.Render(lp.Kids), acc) {
			continue
		}
		loops++
		idx := strings.TrimPrefix(lp.Head, "range $others as ")
		riO := ir.BAtom("$others[" + idx + "].RequiresIterator()")
		old := flagOf(ir.BAtom(acc))
		paths, ok := ir.EnumPaths(lp.Kids, 256)
		if !ok {
			rc.S.Undec("LA", key, pos, "too many paths in the accumulation loop")
			return
		}
		for _, p := range paths {
			f := pathG(p)
			var final *ir.BExpr = old
			assigned := false
			for _, st := range p.Steps {
				if st.Kind == "let" && st.Target == acc {
					final = flagOf(normAtomsGeneral(ir.ParseBool(st.Value)))
					assigned = true
				}
			}
			_ = assigned
			goal := ir.BAnd(old, ir.BAnd(ir.BNot(riO), ir.BNot(ir.BAtom("$others["+idx+"].DataOrder().IsColMajor()"))))
			prem := append(append([]*ir.BExpr{}, f...), final)
			if !ir.Implies(prem, goal) {
				bad = append(bad, fmt.Sprintf("on the loop path [%s] the flag can stay/become true although an operand requires an iterator or is column-major (or an earlier one was)", strings.Join(p.Guards, " && ")))
			}
			if p.Exit == "break" || p.Exit == "return" {
				if !ir.Implies(prem, ir.BConst(false)) && !ir.Implies(append(append([]*ir.BExpr{}, f...), final), ir.BNot(final)) {
					// leaving early is only sound when the flag is false
					if !ir.Implies(prem, ir.BNot(old)) || !ir.Implies(prem, ir.BNot(final)) {
						bad = append(bad, fmt.Sprintf("the loop is left early on [%s] with the flag possibly true: later operands are never examined", strings.Join(p.Guards, " && ")))
					}
				}
			}
		}
	}
	if loops == 0 {
		bad = append(bad, "no loop over the other operands updates the accumulator")
	}
	if len(bad) > 0 {
		sort.Strings(bad)
		rc.S.Viol("LA", key, pos, strings.Join(uniq(bad), "; ")).Sig = fmt.Sprintf("%d defects", len(uniq(bad)))
	} else {
		rc.S.Ok("LA", key, pos, "flag "+acc+" = !RI(t) && for all i: !RI(others[i])")
	}
}

// E2: loop cursor discipline. When a loop body ends by advancing a cursor that lives outside
// the loop (x = x + step as a trailing, unconditional statement), the advance is part of
// every iteration: a path that reaches `continue` without it processes the next element with
// a stale cursor (the classic "continue skips the increment" deviant pattern).
func E2(rc *RC, files func(file string) bool, floor int) {
	rc.S.Declare("E2", "loop cursor discipline: a cursor advanced unconditionally at the end of a loop body is also advanced on every `continue` path of that body", floor)
	for _, fi := range rc.P.SortedFuncs() {
		if fi.Pkg != rc.P.Root || (files != nil && !files(fi.File)) || fi.Decl.Body == nil {
			continue
		}
		c := ir.NewCanon(rc.P.Fset, fi.Pkg.TypesInfo, ir.Options{ParamNames: true, KeepNames: true, NoSubst: true})
		tree := c.Func(fi.Decl)
		for li, lp := range ir.FindLoops(tree) {
			body := lp.Kids
			// trailing cursor updates
			var cursors []string
			for i := len(body) - 1; i >= 0; i-- {
				n := body[i]
				if n.Kind == "let" && strings.HasPrefix(n.Target, "%") && (strings.HasPrefix(n.Value, "("+n.Target+" + ") || strings.HasPrefix(n.Value, "("+n.Target+" - ") || strings.Contains(n.Value, " + "+n.Target+")")) {
					cursors = append(cursors, n.Target)
					continue
				}
				break
			}
			if len(cursors) == 0 {
				continue
			}
			// the cursor must live outside the loop: it is not (re)initialised inside the body
			paths, ok := ir.EnumPaths(body, 4096)
			if !ok {
				continue
			}
			hasContinue := false
			for _, p := range paths {
				if p.Exit == "continue" {
					hasContinue = true
				}
			}
			key := fmt.Sprintf("%s#loop%d", fi.Key, li)
			pos := rc.P.Pos(lp.Pos)
			if !hasContinue {
				rc.S.Ok("E2", key, pos, fmt.Sprintf("cursor(s) %v advanced on every iteration (no continue)", cursors)).Trivial = true
				continue
			}
			var bad []string
			for _, p := range paths {
				if p.Exit != "continue" {
					continue
				}
				for _, cur := range cursors {
					adv := false
					initd := false
					for _, st := range p.Steps {
						if st.Kind == "let" && st.Target == cur {
							adv = true
							if !strings.Contains(st.Value, cur) {
								initd = true
							}
						}
					}
					if !adv && !initd {
						bad = append(bad, fmt.Sprintf("cursor %s is not advanced on the continue path [%s]", cur, strings.Join(p.Guards, " && ")))
					}
				}
			}
			if len(bad) > 0 {
				rc.S.Viol("E2", key, pos, fi.Key+": "+strings.Join(bad, "; ")).Sig = fmt.Sprintf("%d continue paths skip the advance", len(bad))
			} else {
				rc.S.Ok("E2", key, pos, fmt.Sprintf("cursor(s) %v advanced on every continue path", cursors))
			}
		}
	}
}

// P3map: operand dependence of the hand-written StdEng.Map. The buffer handed to the map
// kernel must hold the operand's elements: it is the operand's own buffer (unsafe mode), or
// the destination was created on this path as Clone/Materialize of the operand, or the
// operand was copied into it. Otherwise the result is f applied to whatever the destination
// held before.
func P3map(rc *RC) {
	rc.S.Declare("P3", "operand dependence: on every path of StdEng.Map the buffer given to the map kernel holds the operand's elements (own buffer, clone/materialisation of the operand, or a preceding copy)", 1)
	key := "tensor.(StdEng).Map"
	fi := anchor(rc, "P3", key)
	if fi == nil {
		return
	}
	pos := rc.P.Pos(fi.Decl.Pos())
	_, tree := sCanon(rc, fi)
	paths, ok := ir.EnumPaths(tree, 20000)
	if !ok {
		rc.S.Undec("P3", key, pos, "too many paths")
		return
	}
	var bad []string
	n := 0
	for _, p := range paths {
		kernel := -1
		for i, st := range p.Steps {
			if strings.Contains(st.Head, "$r.E.Map(") || strings.Contains(st.Head, "$r.E.MapIter(") {
				kernel = i
			}
		}
		if kernel < 0 {
			continue
		}
		// infeasible combinations of the three option switches are skipped
		f := pathG(p)
		if ir.Implies(f, ir.BConst(false)) {
			continue
		}
		// an operand that is not a View is not a dense tensor (sparse): outside the properties
		notDense := false
		for _, g := range p.Guards {
			if g == "!%ok" {
				notDense = true
			}
		}
		if notDense {
			continue
		}
		n++
		used := ""
		holds := false
		for _, st := range p.Steps[:kernel] {
			if st.Kind == "let" && st.Target == "%used" {
				used = st.Value
			}
			if st.Kind == "let" && st.Target == "%reuse" && (strings.Contains(st.Value, ".Materialize()") || strings.Contains(st.Value, ".Clone()")) && (strings.HasPrefix(st.Value, "%v.") || strings.HasPrefix(st.Value, "$a.")) {
				holds = true
			}
			if strings.Contains(st.Head, "storage.Copy(") || strings.Contains(st.Head, "copyDense(%reuse, $a") || strings.Contains(st.Head, "storage.CopyIter(") {
				holds = true
			}
		}
		switch {
		case used == "%dataA":
		case used == "%dataReuse" && holds:
		case used == "":
			bad = append(bad, "the buffer given to the kernel is not one of dataA/dataReuse")
		default:
			bad = append(bad, fmt.Sprintf("on [%s] the kernel maps over the destination's previous contents: the operand was never copied into it", strings.Join(p.Guards, " && ")))
		}
	}
	if n == 0 {
		bad = append(bad, "no path reaches the map kernel")
	}
	if len(bad) > 0 {
		sort.Strings(bad)
		bad = uniq(bad)
		o := rc.S.Viol("P3", key, pos, bad[0])
		if len(bad) > 1 {
			o.Detail += fmt.Sprintf(" … and %d more paths", len(bad)-1)
		}
		o.Sig = fmt.Sprintf("%d of %d kernel paths", len(bad), n)
	} else {
		rc.S.Ok("P3", key, pos, fmt.Sprintf("%d kernel paths, all over the operand's elements", n))
	}
}

// SO: stack result order. Both copy schemes of StackDense (block copy and iterator copy) write
// the result block after block in row-major storage order. The access pattern the result is
// given must therefore be row-major whatever the operands are: its strides are the fixed
// row-major recurrence over the new shape and its data-order argument has had the column-major
// bit cleared by the statement that last touches it before the MakeAP call
// (`if o.IsColMajor() { o = o.toggleColMajor() }`, or a constant without the bit). A result
// flagged column-major, or given column-major strides, reads every block back from the wrong
// place (finding 60).
func SO(rc *RC) {
	rc.S.Declare("SO", "stack result order: the access pattern StackDense builds for its result has row-major strides over the new shape and an order argument whose column-major bit was cleared on every path", 1)
	key := "tensor.(StdEng).StackDense"
	fi := anchor(rc, "SO", key)
	if fi == nil {
		return
	}
	_, tree := sCanon(rc, fi)
	idx := -1
	for i, n := range tree {
		if (n.Kind == "let" || n.Kind == "store") && strings.HasPrefix(n.Value, "MakeAP(") {
			idx = i
		}
	}
	if idx < 0 {
		rc.S.Undec("SO", key, rc.P.Pos(fi.Decl.Pos()), "no top-level `x = MakeAP(…)` statement found")
		return
	}
	n := tree[idx]
	pos := rc.P.Pos(n.Pos)
	args := splitArgs(strings.TrimSuffix(strings.TrimPrefix(n.Value, "MakeAP("), ")"))
	if len(args) != 4 {
		rc.S.Undec("SO", key, pos, "MakeAP call with an unexpected argument list: "+n.Value)
		return
	}
	for i := range args {
		args[i] = strings.TrimSpace(args[i])
	}
	var bad []string
	// strides: the row-major recurrence over the shape argument (directly or through a local
	// assigned exactly once at top level)
	strides := args[1]
	if ldIdent.FindString(strides) == strides {
		cnt := 0
		for _, m := range flatten(tree) {
			if (m.Kind == "let" || m.Kind == "store") && m.Target == strides {
				cnt++
				strides = m.Value
			}
		}
		if cnt != 1 {
			bad = append(bad, "the strides argument "+args[1]+" is assigned on more than one path (a data-order dependent choice)")
		}
	}
	if strides != args[0]+".CalcStrides()" {
		bad = append(bad, "the strides argument is "+strides+", want the row-major recurrence "+args[0]+".CalcStrides()")
	}
	// order: constant without the bit, or normalised by the last statement that touches it
	o := args[2]
	switch {
	case o == "0" || o == "tensor.DataOrder(0)" || o == "MakeDataOrder()":
	case ldIdent.FindString(o) != o:
		bad = append(bad, "the order argument "+o+" is taken from an operand as it is: a column-major operand makes the result column-major")
	default:
		norm := false
		for j := idx - 1; j >= 0; j-- {
			m := tree[j]
			txt := ir.Render([]*ir.Node{m})
			if !ir.HasWord(txt, o) {
				continue
			}
			if m.Kind == "if" && m.Head == o+".IsColMajor()" && len(m.Else) == 0 && len(m.Kids) == 1 && m.Kids[0].Kind == "let" && m.Kids[0].Target == o && m.Kids[0].Value == o+".toggleColMajor()" {
				norm = true
			}
			break
		}
		if !norm {
			bad = append(bad, "the statement that last touches the order argument "+o+" before the MakeAP call does not clear its column-major bit")
		}
	}
	if len(bad) > 0 {
		rc.S.Viol("SO", key, pos, strings.Join(bad, "; ")).Sig = "result not row-major"
	} else {
		rc.S.Ok("SO", key, pos, "strides "+strides+", order "+o+" with the column-major bit cleared")
	}
}

// orStepMatches: OrStep is a `|`-separated list of alternatives.
func orStepMatches(head, or string) bool {
	for _, alt := range strings.Split(or, "|") {
		if alt != "" && strings.Contains(head, alt) {
			return true
		}
	}
	return false
}

// SM: the layout gate of the softmax family. softMaxLayout returns nil only if none of the
// tensors it is shown requires an iterator or is column-major: inside the loop over its
// arguments the refusing branch is taken at least under each of the two facts, the only
// skipped argument is a nil one, and nil is returned only after the loop.
func SM(rc *RC) {
	rc.S.Declare("SM", "softmax layout gate: softMaxLayout refuses (returns a non-nil error for) every argument that requires an iterator or is column-major", 1)
	key := "tensor.softMaxLayout"
	fi := anchor(rc, "SM", key)
	if fi == nil {
		return
	}
	pos := rc.P.Pos(fi.Decl.Pos())
	_, tree := sCanon(rc, fi)
	var bad []string
	loops := 0
	for _, n := range tree {
		switch {
		case n.Kind == "range" && strings.HasPrefix(n.Head, "range $ts as "):
			loops++
			idx := strings.TrimPrefix(n.Head, "range $ts as ")
			el := "$ts[" + idx + "]"
			paths, ok := ir.EnumPaths(n.Kids, 64)
			if !ok {
				rc.S.Undec("SM", key, pos, "too many paths in the loop body")
				return
			}
			for _, p := range paths {
				f := pathG(p)
				refuses := p.Exit == "return" && p.Ret != "nil" && p.Ret != ""
				if refuses {
					continue
				}
				// a non-refusing path: the element is nil, or neither fact can hold
				isNil := ir.Implies(f, ir.ParseBool("("+el+" == nil)"))
				if isNil {
					continue
				}
				for _, fact := range []string{el + ".RequiresIterator()", el + ".DataOrder().IsColMajor()"} {
					if !ir.Implies(f, ir.BNot(ir.BAtom(fact))) {
						bad = append(bad, fmt.Sprintf("an argument with %s can pass the loop body without refusal on [%s]", fact, strings.Join(p.Guards, " && ")))
					}
				}
				if p.Exit == "return" || p.Exit == "break" {
					bad = append(bad, "the loop is left early without a refusal: later arguments are never examined")
				}
			}
		case n.Kind == "ret":
		case n.Kind == "if":
			bad = append(bad, "a branch outside the loop over the arguments decides the result: "+n.Head)
		}
	}
	if loops != 1 {
		bad = append(bad, fmt.Sprintf("%d loops over the arguments, want 1", loops))
	}
	if len(bad) > 0 {
		rc.S.Viol("SM", key, pos, strings.Join(uniqSorted(bad), "; ")).Sig = "gate too weak"
	} else {
		rc.S.Ok("SM", key, pos, "every argument is refused when it requires an iterator or is column-major")
	}
}

func balancedParens(s string) bool {
	d := 0
	for i := 0; i < len(s); i++ {
		switch s[i] {
		case '(':
			d++
		case ')':
			d--
			if d < 0 {
				return false
			}
		}
	}
	return d == 0
}

// SK: stack operand shapes (finding 70). Every operand of StackDense contributes one block of
// the first operand's shape; the block arithmetic of both copy schemes assumes it. Before the
// result is allocated a loop over the further operands must refuse (error return) an operand of
// another rank and an operand with a differing dimension.
func SK(rc *RC) {
	rc.S.Declare("SK", "stack operand shapes: before allocating its result StackDense refuses, in a loop over the further operands, an operand whose rank or any dimension differs from the first operand's", 1)
	key := "tensor.(StdEng).StackDense"
	fi := anchor(rc, "SK", key)
	if fi == nil {
		return
	}
	pos := rc.P.Pos(fi.Decl.Pos())
	_, tree := sCanon(rc, fi)
	rank, dim := false, false
	for _, n := range tree {
		if (n.Kind == "let" || n.Kind == "store") && strings.Contains(n.Value, "recycledDense(") {
			break
		}
		if n.Kind != "range" || !strings.HasPrefix(n.Head, "range $others as ") {
			continue
		}
		for _, k := range flatten(n.Kids) {
			if k.Kind != "if" || !strings.Contains(k.Head, "!=") {
				continue
			}
			refuses := false
			for _, b := range flatten(k.Kids) {
				if b.Kind == "let" && b.Target == "$ret1" && strings.Contains(b.Value, "rrors.") {
					refuses = true
				}
			}
			if !refuses {
				continue
			}
			if strings.Contains(k.Head, "len(") || strings.Contains(k.Head, ".Dims()") {
				rank = true
			} else if strings.Contains(k.Head, "[@r") {
				dim = true
			}
		}
	}
	switch {
	case rank && dim:
		rc.S.Ok("SK", key, pos, "operands of another rank or with a differing dimension are refused before the result is built")
	default:
		var miss []string
		if !rank {
			miss = append(miss, "an operand of another rank")
		}
		if !dim {
			miss = append(miss, "an operand with a differing dimension")
		}
		rc.S.Viol("SK", key, pos, "no refusal of "+strings.Join(miss, " nor of ")+" before the result is allocated: the block copies read and write by the first operand's geometry").Sig = "no shape check"
	}
}
