package rules

import (
	"fmt"
	"go/ast"
	"go/token"
	"go/types"
	"sort"
	"strings"

	"tcheck/load"
)

// DA: dead accumulator. A local slice that is built up with append (and reset with x[:0]) but
// never read - never passed to a call, indexed, ranged over, returned or stored - states a
// belief ("this lane's mask is needed") that the code then contradicts by using something
// else. Finding 55: ArgmaxIterMasked collected the lane's mask bits in newMask and handed the
// kernel the whole mask. Resolved through go/types (objects, not names).
func DA(rc *RC, floor int) {
	rc.S.Declare("DA", "dead accumulator: no local slice is only ever appended to / resliced and never read (the value was collected for a use that then takes a different variable)", floor)
	var fis []*load.FuncInfo
	for _, fi := range rc.P.SortedFuncs() {
		if fi.Decl.Body == nil || strings.HasSuffix(fi.File, "_test.go") || strings.HasSuffix(fi.Pkg.PkgPath, "/genlib2") {
			continue
		}
		fis = append(fis, fi)
	}
	n := 0
	for _, fi := range fis {
		info := fi.Pkg.TypesInfo
		type use struct{ self, read int }
		uses := map[*types.Var]*use{}
		appended := map[*types.Var]token.Pos{}
		// parent map for classification
		var stack []ast.Node
		ast.Inspect(fi.Decl.Body, func(nd ast.Node) bool {
			if nd == nil {
				stack = stack[:len(stack)-1]
				return true
			}
			stack = append(stack, nd)
			id, ok := nd.(*ast.Ident)
			if !ok {
				return true
			}
			v, ok := info.Uses[id].(*types.Var)
			if !ok || v.IsField() || v.Parent() == nil || v.Parent() == v.Pkg().Scope() {
				return true
			}
			if _, isSlice := v.Type().Underlying().(*types.Slice); !isSlice {
				return true
			}
			// skip parameters and named results
			if sig, ok := fi.Obj.Type().(*types.Signature); ok {
				for i := 0; i < sig.Params().Len(); i++ {
					if sig.Params().At(i) == v {
						return true
					}
				}
				for i := 0; i < sig.Results().Len(); i++ {
					if sig.Results().At(i) == v {
						return true
					}
				}
			}
			u := uses[v]
			if u == nil {
				u = &use{}
				uses[v] = u
			}
			// classify: find the enclosing assignment, if the ident is (in) its LHS or in an
			// append(x, …)/x[:…] RHS assigned to x itself
			self := false
			for i := len(stack) - 2; i >= 0; i-- {
				as, ok := stack[i].(*ast.AssignStmt)
				if !ok {
					continue
				}
				if len(as.Lhs) == 1 && len(as.Rhs) == 1 {
					if l, ok := as.Lhs[0].(*ast.Ident); ok && info.ObjectOf(l) == v {
						if l == id {
							self = true
						} else if call, ok := as.Rhs[0].(*ast.CallExpr); ok {
							if f, ok := call.Fun.(*ast.Ident); ok && f.Name == "append" && len(call.Args) > 0 {
								if a0, ok := call.Args[0].(*ast.Ident); ok && a0 == id {
									self = true
									appended[v] = as.Pos()
								}
							}
						} else if sl, ok := as.Rhs[0].(*ast.SliceExpr); ok {
							if x, ok := sl.X.(*ast.Ident); ok && x == id {
								self = true
							}
						}
					}
				}
				break
			}
			if self {
				u.self++
			} else {
				u.read++
			}
			return true
		})
		// only accumulators that start as fresh storage: `x := y[:0]` appends *into y* (an
		// in-place write through an alias), which is a read of nothing but a real effect
		fresh := map[*types.Var]bool{}
		ast.Inspect(fi.Decl.Body, func(nd ast.Node) bool {
			switch x := nd.(type) {
			case *ast.AssignStmt:
				if x.Tok == token.DEFINE && len(x.Lhs) == len(x.Rhs) {
					for i, l := range x.Lhs {
						if id, ok := l.(*ast.Ident); ok {
							if v, ok := info.Defs[id].(*types.Var); ok {
								fresh[v] = isFreshSlice(x.Rhs[i])
							}
						}
					}
				}
			case *ast.ValueSpec:
				for i, id := range x.Names {
					if v, ok := info.Defs[id].(*types.Var); ok {
						if len(x.Values) == 0 {
							fresh[v] = true
						} else if i < len(x.Values) {
							fresh[v] = isFreshSlice(x.Values[i])
						}
					}
				}
			}
			return true
		})
		var vs []*types.Var
		for v := range appended {
			if fresh[v] {
				vs = append(vs, v)
			}
		}
		sort.Slice(vs, func(i, j int) bool { return vs[i].Pos() < vs[j].Pos() })
		for _, v := range vs {
			n++
			key := fmt.Sprintf("%s#%s", fi.Key, v.Name())
			if uses[v].read == 0 {
				rc.S.Viol("DA", key, rc.P.Pos(appended[v]), fmt.Sprintf("%s is appended to in %s but never read: the collected values are not what the following code uses", v.Name(), fi.Key)).Sig = "never read"
			} else {
				rc.S.Ok("DA", key, rc.P.Pos(v.Pos()), "accumulator is read").Trivial = true
			}
		}
	}
	rc.S.Count("DA.accumulators", n)
}

func isFreshSlice(e ast.Expr) bool {
	switch x := e.(type) {
	case *ast.CallExpr:
		if f, ok := x.Fun.(*ast.Ident); ok && f.Name == "make" {
			return true
		}
	case *ast.CompositeLit:
		return true
	case *ast.Ident:
		return x.Name == "nil"
	}
	return false
}
