package rules

import (
	"fmt"
	"regexp"
	"sort"
	"strings"

	"tcheck/ir"
)

// RP: restore pairing. A few operations change an operand's metadata for the duration of a
// call and put it back: Dot lazily transposes its matrix operand and un-transposes it, Norm
// swaps in a flat access pattern, Outer reshapes both vectors. "Leaves the operands unchanged"
// then needs the restore on EVERY exit. Instances are discovered, not tabulated: a tensor
// expression X for which the function contains both a mutation (X.T(...), X.AP = e,
// X.Reshape(e)) and the matching restore (X.UT() - possibly deferred -, X.AP = <value saved
// from X.AP>, X.Reshape(<shape saved from X.Shape().Clone()>...)). The statement tree is
// walked with the set of pending mutations; a failed mutation (the `err != nil` branch
// directly after it) is not pending; a deferred restore discharges every later exit.

var (
	rpT       = regexp.MustCompile(`^(?:\$ret\d+ = |%\w+ = )?([%$][\w.]*?)\.T\(`)
	rpUT      = regexp.MustCompile(`^(?:defer )?(?:\$ret\d+ = |%\w+ = )?([%$][\w.]*?)\.UT\(\)`)
	rpReshape = regexp.MustCompile(`^(?:(\$ret\d+|%\w+) = )?([%$][\w.]*?)\.Reshape\((.*)\)$`)
)

type rpEvent struct {
	kind, x string
	mutate  bool
	errVar  string // variable receiving the mutation's error ("" if none)
	deferd  bool
}

func rpClassify(n *ir.Node, saved map[string]string) *rpEvent {
	h := n.Head
	if n.Kind == "defer" {
		if m := rpUT.FindStringSubmatch(h); m != nil {
			return &rpEvent{kind: "T", x: m[1], deferd: true}
		}
		if m := rpReshape.FindStringSubmatch(strings.TrimPrefix(h, "defer ")); m != nil {
			x, args := m[2], m[3]
			if strings.HasSuffix(args, "...") && saved[strings.TrimSuffix(args, "...")] == x {
				return &rpEvent{kind: "Reshape", x: x, deferd: true}
			}
		}
		if strings.Contains(h, ".AP = old(") {
			// defer func() { X.AP = backup }()
			if i := strings.Index(h, ".AP = old("); i > 0 {
				j := strings.LastIndexAny(h[:i], " {(;")
				x := h[j+1 : i]
				if strings.Contains(h, x+".AP = old("+x+".AP)") {
					return &rpEvent{kind: "AP", x: x, deferd: true}
				}
			}
		}
		return nil
	}
	if n.Kind == "store" || n.Kind == "let" {
		if strings.HasSuffix(n.Target, ".AP") {
			x := strings.TrimSuffix(n.Target, ".AP")
			if n.Value == "old("+n.Target+")" {
				return &rpEvent{kind: "AP", x: x}
			}
			return &rpEvent{kind: "AP", x: x, mutate: true}
		}
	}
	if m := rpUT.FindStringSubmatch(h); m != nil {
		return &rpEvent{kind: "T", x: m[1]}
	}
	if m := rpT.FindStringSubmatch(h); m != nil {
		ev := &rpEvent{kind: "T", x: m[1], mutate: true}
		return ev
	}
	if m := rpReshape.FindStringSubmatch(h); m != nil {
		x, args := m[2], m[3]
		if strings.HasSuffix(args, "...") && saved[strings.TrimSuffix(args, "...")] == x {
			return &rpEvent{kind: "Reshape", x: x}
		}
		return &rpEvent{kind: "Reshape", x: x, mutate: true, errVar: m[1]}
	}
	return nil
}

func RP(rc *RC, only func(file string) bool, floor int) {
	rc.S.Declare("RP", "restore pairing: a temporary change of an operand's metadata (lazy transpose, swapped access pattern, reshape) that the function undoes is undone on every exit - no return between the mutation and its (possibly deferred) restore", floor)
	for _, fi := range rc.P.AnalysisFuncs() {
		if fi.Pkg != rc.P.Root || fi.Decl.Body == nil || strings.HasSuffix(fi.File, "_test.go") || strings.HasPrefix(fi.File, "sparse") || (only != nil && !only(fi.File)) {
			continue
		}
		_, tree := sCanon(rc, fi)
		txt := ir.Render(tree)
		if !strings.Contains(txt, ".UT()") && !strings.Contains(txt, "old(") && !strings.Contains(txt, ".Reshape(") {
			continue
		}
		// saved shapes: %v = X.Shape().Clone()
		saved := map[string]string{}
		for _, n := range flatten(tree) {
			if (n.Kind == "let" || n.Kind == "store") && strings.HasSuffix(n.Value, ".Shape().Clone()") {
				saved[n.Target] = strings.TrimSuffix(n.Value, ".Shape().Clone()")
			}
		}
		// instances: (kind, X) with both a mutation and a restore in the function
		hasM, hasR := map[string]bool{}, map[string]bool{}
		for _, n := range flatten(tree) {
			if ev := rpClassify(n, saved); ev != nil {
				if ev.mutate {
					hasM[ev.kind+"|"+ev.x] = true
				} else {
					hasR[ev.kind+"|"+ev.x] = true
				}
			}
		}
		inst := map[string]bool{}
		for k := range hasM {
			if hasR[k] {
				inst[k] = true
			}
		}
		if len(inst) == 0 {
			continue
		}
		pos := rc.P.Pos(fi.Decl.Pos())
		bad := map[string][]string{}
		type state struct {
			pending  map[string]string // instance -> position of the mutation
			deferred map[string]bool
		}
		clone := func(s state) state {
			n := state{map[string]string{}, map[string]bool{}}
			for k, v := range s.pending {
				n.pending[k] = v
			}
			for k := range s.deferred {
				n.deferred[k] = true
			}
			return n
		}
		exit := func(s state, n *ir.Node, guards []string) {
			for k, where := range s.pending {
				if s.deferred[k] {
					continue
				}
				bad[k] = append(bad[k], fmt.Sprintf("exit at %s under [%s] after the mutation at %s", rc.P.Pos(n.Pos), strings.Join(guards, " && "), where))
			}
		}
		steps := 0
		var walk func(ns []*ir.Node, s state, guards []string) (state, bool)
		walk = func(ns []*ir.Node, s state, guards []string) (state, bool) {
			var lastMut *rpEvent
			var lastKey string
			for i, n := range ns {
				steps++
				if steps > 200000 {
					return s, false
				}
				switch n.Kind {
				case "ret":
					exit(s, n, guards)
					return s, false
				case "if":
					thenS, elseS := clone(s), clone(s)
					// failed mutation: `if (err != nil)` directly after it
					if lastMut != nil && lastMut.errVar != "" && i > 0 && (n.Head == "("+lastMut.errVar+" != nil)") {
						delete(thenS.pending, lastKey)
					}
					t, tc := walk(n.Kids, thenS, append(append([]string{}, guards...), n.Head))
					e, ec := walk(n.Else, elseS, append(append([]string{}, guards...), ir.Negate(n.Head)))
					lastMut = nil
					switch {
					case tc && ec:
						// join: pending if pending on either side
						for k, v := range e.pending {
							t.pending[k] = v
						}
						for k := range t.deferred {
							if !e.deferred[k] {
								delete(t.deferred, k)
							}
						}
						s = t
					case tc:
						s = t
					case ec:
						s = e
					default:
						return s, false
					}
					continue
				case "switch":
					var outs []state
					hasDefault := false
					for _, cs := range n.Kids {
						if cs.Head == "default" {
							hasDefault = true
						}
						o, c := walk(cs.Kids, clone(s), append(append([]string{}, guards...), cs.Head))
						if c {
							outs = append(outs, o)
						}
					}
					if !hasDefault {
						outs = append(outs, clone(s))
					}
					if len(outs) == 0 {
						return s, false
					}
					j := outs[0]
					for _, o := range outs[1:] {
						for k, v := range o.pending {
							j.pending[k] = v
						}
						for k := range j.deferred {
							if !o.deferred[k] {
								delete(j.deferred, k)
							}
						}
					}
					s = j
					lastMut = nil
					continue
				case "loop", "range":
					o, _ := walk(n.Kids, clone(s), guards)
					for k, v := range o.pending {
						s.pending[k] = v
					}
					lastMut = nil
					continue
				}
				if strings.HasPrefix(n.Head, "panic(") {
					return s, false
				}
				ev := rpClassify(n, saved)
				lastMut = nil
				if ev == nil {
					continue
				}
				k := ev.kind + "|" + ev.x
				if !inst[k] {
					continue
				}
				if ev.mutate {
					s.pending[k] = rc.P.Pos(n.Pos)
					lastMut, lastKey = ev, k
				} else if ev.deferd {
					s.deferred[k] = true
				} else {
					delete(s.pending, k)
				}
			}
			return s, true
		}
		end, cont := walk(tree, state{map[string]string{}, map[string]bool{}}, nil)
		if cont {
			// falling off the end of the function
			for k, where := range end.pending {
				if !end.deferred[k] {
					bad[k] = append(bad[k], "end of function after the mutation at "+where)
				}
			}
		}
		var ks []string
		for k := range inst {
			ks = append(ks, k)
		}
		sort.Strings(ks)
		for _, k := range ks {
			parts := strings.SplitN(k, "|", 2)
			key := fmt.Sprintf("%s#%s(%s)", fi.Key, parts[0], parts[1])
			what := map[string]string{"T": "lazily transposed", "AP": "carrying a substituted access pattern", "Reshape": "reshaped"}[parts[0]]
			if b := uniq(bad[k]); len(b) > 0 {
				o := rc.S.Viol("RP", key, pos, fmt.Sprintf("%s is left %s on %d exit(s): %s", parts[1], what, len(b), strings.Join(b, "; ")))
				o.Sig = fmt.Sprintf("%d unrestored exit(s)", len(b))
			} else {
				rc.S.Ok("RP", key, pos, parts[1]+" restored on every exit")
			}
		}
	}
}
