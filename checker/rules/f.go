package rules

import (
	"fmt"
	"go/ast"
	"go/constant"
	"go/token"
	"go/types"
	"regexp"
	"sort"
	"strings"

	"tcheck/ir"
)

// Engine F: serialisation tables.

// F1: the .npy dtype writer table and reader function are inverse: for every dtype d the
// writer accepts, reader(writer(d)) = d. Both are evaluated statically from the map literals
// and the special cases of fromNumpyDtype, with the int size of the configuration analysed.
func F1(rc *RC) {
	rc.S.Declare("F1", "npy dtype tables: reader(writer(d)) = d for every dtype the writer accepts (static evaluation of the two map literals and the reader's special cases)", 10)
	pk := rc.P.Root
	info := pk.TypesInfo
	intSize := int64(pk.TypesSizes.Sizeof(types.Typ[types.Int]))
	writer := map[string]string{} // dtype var -> descriptor
	reader := map[string]string{}
	evalStr := func(e ast.Expr) (string, bool) {
		if tv, ok := info.Types[e]; ok && tv.Value != nil && tv.Value.Kind() == constant.String {
			return constant.StringVal(tv.Value), true
		}
		// fmt.Sprintf("i%d", X.Size())
		if c, ok := e.(*ast.CallExpr); ok && len(c.Args) == 2 && exprStr(c.Fun) == "fmt.Sprintf" {
			if ftv, ok := info.Types[c.Args[0]]; ok && ftv.Value != nil {
				f := constant.StringVal(ftv.Value)
				arg := exprStr(c.Args[1])
				if strings.HasSuffix(arg, ".Size()") {
					base := strings.TrimSuffix(arg, ".Size()")
					if k, ok := rulesSizeOf(base, intSize); ok {
						return strings.Replace(f, "%d", fmt.Sprint(k), 1), true
					}
				}
			}
		}
		return "", false
	}
	var pos string
	found := 0
	for _, f := range pk.Syntax {
		ast.Inspect(f, func(n ast.Node) bool {
			as, ok := n.(*ast.AssignStmt)
			var lhs string
			var rhs ast.Expr
			if ok && len(as.Lhs) == 1 && len(as.Rhs) == 1 {
				lhs, rhs = exprStr(as.Lhs[0]), as.Rhs[0]
			} else if vs, ok := n.(*ast.ValueSpec); ok && len(vs.Names) == 1 && len(vs.Values) == 1 {
				lhs, rhs = vs.Names[0].Name, vs.Values[0]
			} else {
				return true
			}
			cl, ok := rhs.(*ast.CompositeLit)
			if !ok {
				return true
			}
			switch lhs {
			case "numpyDtypes":
				found++
				pos = rc.P.Pos(cl.Pos())
				for _, el := range cl.Elts {
					kv := el.(*ast.KeyValueExpr)
					if s, ok := evalStr(kv.Value); ok {
						writer[exprStr(kv.Key)] = s
					} else {
						writer[exprStr(kv.Key)] = "?" + exprStr(kv.Value)
					}
				}
			case "reverseNumpyDtypes":
				found++
				for _, el := range cl.Elts {
					kv := el.(*ast.KeyValueExpr)
					if s, ok := evalStr(kv.Key); ok {
						reader[s] = exprStr(kv.Value)
					}
				}
			}
			return true
		})
	}
	if found < 2 {
		rc.S.Undec("F1", "tensor.numpyDtypes", "-", "the two dtype tables were not found as map literals")
		return
	}
	// special cases of fromNumpyDtype: if t == "lit" && X.Size() == n { return Y, nil }
	type special struct {
		desc, ret string
		holds     bool
	}
	var specials []special
	if fi := rc.P.Func("tensor.fromNumpyDtype"); fi != nil {
		for _, st := range fi.Decl.Body.List {
			ifs, ok := st.(*ast.IfStmt)
			if !ok {
				continue
			}
			be, ok := ifs.Cond.(*ast.BinaryExpr)
			if !ok || be.Op != token.LAND {
				continue
			}
			l, ok1 := be.X.(*ast.BinaryExpr)
			r, ok2 := be.Y.(*ast.BinaryExpr)
			if !ok1 || !ok2 || l.Op != token.EQL || r.Op != token.EQL {
				continue
			}
			desc, ok := evalStr(l.Y)
			if !ok {
				continue
			}
			arg := exprStr(r.X)
			base := strings.TrimSuffix(arg, ".Size()")
			k, ok := rulesSizeOf(base, intSize)
			if !ok {
				continue
			}
			want, _ := constant.Int64Val(info.Types[r.Y].Value)
			if len(ifs.Body.List) == 1 {
				if ret, ok := ifs.Body.List[0].(*ast.ReturnStmt); ok && len(ret.Results) >= 1 {
					specials = append(specials, special{desc, exprStr(ret.Results[0]), k == want})
				}
			}
		}
	} else {
		rc.S.Undec("F1", "tensor.fromNumpyDtype", "-", "unresolved anchor")
		return
	}
	read := func(desc string) string {
		base, ok := reader[desc]
		if !ok {
			return "<unsupported>"
		}
		for _, sp := range specials {
			if sp.desc == desc && sp.holds {
				return sp.ret
			}
		}
		return base
	}
	var keys []string
	for k := range writer {
		keys = append(keys, k)
	}
	sort.Strings(keys)
	for _, d := range keys {
		desc := writer[d]
		key := "tensor.numpyDtypes[" + d + "]"
		if strings.HasPrefix(desc, "?") {
			rc.S.Undec("F1", key, pos, "descriptor expression not evaluable: "+desc[1:])
			continue
		}
		back := read(desc)
		if back == d {
			rc.S.Ok("F1", key, pos, fmt.Sprintf("%s -> %q -> %s", d, desc, back))
		} else {
			rc.S.Viol("F1", key, pos, fmt.Sprintf("an %s tensor is written with descriptor %q, which the reader maps to %s (int size %d bytes)", d, desc, back, intSize)).Sig = fmt.Sprintf("%s->%s->%s", d, desc, back)
		}
	}
}

func rulesSizeOf(dtypeVar string, intSize int64) (int64, bool) {
	switch dtypeVar {
	case "Int", "Uint":
		return intSize, true
	case "Int8", "Uint8", "Bool":
		return 1, true
	case "Int16", "Uint16":
		return 2, true
	case "Int32", "Uint32", "Float32":
		return 4, true
	case "Int64", "Uint64", "Float64", "Complex64":
		return 8, true
	case "Complex128":
		return 16, true
	}
	return 0, false
}

// F2: the gob encoder sends exactly the tensor's own shape, strides, order, triangle, mask and
// data, the decoder reads the same sequence and every decoded value reaches the tensor.
func F2(rc *RC) {
	rc.S.Declare("F2", "gob wire format: GobEncode encodes the tensor's own Shape(), Strides(), order, triangle, mask and Data() in that order; GobDecode decodes the same number of values in the same order and installs each into the tensor (AP.Init(shape, strides), o, Δ, mask, data) before sanity()", 2)
	wantEnc := []string{"$r.Shape()", "$r.Strides()", "$r.AP.o", "$r.AP.Δ", "$r.mask", "&$r.Data()"}
	if fi := anchor(rc, "F2", "tensor.(*Dense).GobEncode"); fi != nil {
		pos := rc.P.Pos(fi.Decl.Pos())
		_, tree := sCanon(rc, fi)
		var got []string
		locals := map[string]string{}
		for _, n := range flatten(tree) {
			if n.Kind == "let" && strings.HasPrefix(n.Target, "%") {
				locals[n.Target] = n.Value
			}
			if (n.Kind == "let" || n.Kind == "call") && strings.Contains(n.Value, ".Encode(") {
				i := strings.Index(n.Value, ".Encode(")
				arg := strings.TrimSuffix(n.Value[i+len(".Encode("):], ")")
				amp := ""
				if strings.HasPrefix(arg, "&") {
					amp, arg = "&", arg[1:]
				}
				if v, ok := locals[arg]; ok {
					arg = v
				}
				// a loop over a local table of the values: `for _, f := range []interface{}{a, b, …} { enc.Encode(f) }`
				if i := strings.Index(arg, "[@r"); i > 0 && amp == "" {
					if tbl, ok := locals[arg[:i]]; ok && strings.HasPrefix(tbl, "[]") && strings.HasSuffix(tbl, "}") {
						if j := strings.Index(tbl, "{"); j > 0 {
							got = append(got, splitArgs(tbl[j+1:len(tbl)-1])...)
							continue
						}
					}
				}
				got = append(got, amp+arg)
			}
		}
		// the canonical spelling of AP fields through the embedded struct
		for i := range got {
			got[i] = strings.ReplaceAll(got[i], "$r.o", "$r.AP.o")
			got[i] = strings.ReplaceAll(got[i], "$r.Δ", "$r.AP.Δ")
			got[i] = strings.ReplaceAll(got[i], "$r.DataOrder()", "$r.AP.o")
		}
		if strings.Join(got, " | ") == strings.Join(wantEnc, " | ") {
			rc.S.Ok("F2", "tensor.(*Dense).GobEncode", pos, strings.Join(got, " | "))
		} else if len(got) != len(wantEnc) {
			rc.S.Undec("F2", "tensor.(*Dense).GobEncode", pos, fmt.Sprintf("%d Encode calls recognised where the reviewed encoder has %d (restructured): the sequence [%s] is not compared", len(got), len(wantEnc), strings.Join(got, " | ")))
		} else {
			rc.S.Viol("F2", "tensor.(*Dense).GobEncode", pos, fmt.Sprintf("encoded sequence is [%s], want [%s]: a value other than the tensor's own metadata is put on the wire", strings.Join(got, " | "), strings.Join(wantEnc, " | "))).Sig = strings.Join(got, " | ")
		}
	}
	if fi := anchor(rc, "F2", "tensor.(*Dense).GobDecode"); fi != nil {
		pos := rc.P.Pos(fi.Decl.Pos())
		_, tree := sCanon(rc, fi)
		var dec []string
		txt := ir.Render(tree)
		for _, n := range flatten(tree) {
			if (n.Kind == "let" || n.Kind == "call") && strings.Contains(n.Value, ".Decode(&") {
				i := strings.Index(n.Value, ".Decode(&")
				dec = append(dec, strings.TrimSuffix(n.Value[i+len(".Decode(&"):], ")"))
			}
		}
		// a parallel assignment (x, y = a, b) installs each value like the single assignments do
		for _, l := range strings.Split(txt, "\n") {
			l = strings.TrimSpace(l)
			if i := strings.Index(l, ") = ("); i > 0 && strings.HasPrefix(l, "(") && strings.HasSuffix(l, ")") {
				ts, vs := splitArgs(l[1:i]), splitArgs(l[i+len(") = ("):len(l)-1])
				if len(ts) == len(vs) {
					for k := range ts {
						txt += "\n" + ts[k] + " = " + vs[k]
					}
				}
			}
		}
		var bad []string
		if len(dec) != len(wantEnc) {
			bad = append(bad, fmt.Sprintf("decodes %d values, the encoder sends %d", len(dec), len(wantEnc)))
		} else {
			need := []string{
				"$r.AP.Init(" + dec[0] + ", " + dec[1] + ")",
				"$r.AP.o = " + dec[2],
				"$r.AP.Δ = " + dec[3],
				"$r.addMask(" + dec[4] + ")",
				"$r.fromSlice(" + dec[5] + ")",
				"return $r.sanity()",
			}
			// installing shape, strides, order and triangle in one go is the same thing
			if strings.Contains(txt, "$r.AP = MakeAP("+dec[0]+", "+dec[1]+", "+dec[2]+", "+dec[3]+")") {
				need = need[3:]
			}
			for _, n := range need {
				if !strings.Contains(txt, n) {
					bad = append(bad, "decoded value does not reach the tensor: missing "+n)
				}
			}
			// nothing recomputes what was decoded
			for _, forbidden := range []string{"calcStrides(", "CalcStrides"} {
				if strings.Contains(txt, forbidden) {
					bad = append(bad, "the decoder recomputes strides ("+forbidden+") instead of using the decoded ones")
				}
			}
		}
		if len(bad) > 0 {
			rc.S.Viol("F2", "tensor.(*Dense).GobDecode", pos, strings.Join(bad, "; ")).Sig = strings.Join(bad, "; ")
		} else {
			rc.S.Ok("F2", "tensor.(*Dense).GobDecode", pos, "decodes "+strings.Join(dec, ", ")+" and installs each")
		}
	}
}

// F3: one source object per encoder. An encoder puts shape, strides, data order, triangle,
// dtype, data and mask of ONE tensor on the wire. When an encoder works on a substitute (a
// materialised copy, a clone) every wire field must come from that same object: strides of the
// original paired with the data of the copy decode into a scrambled tensor.
var f3Field = regexp.MustCompile(`([%$]\w+)\.(shape|strides|o|Δ|t|mask|byteSlice\(\)|Shape\(\)|Strides\(\)|Data\(\)|Mask\(\)|DataOrder\(\)|Dtype\(\)|hdr\(\)|Float64s\(\)|array)\b`)

func F3(rc *RC) {
	rc.S.Declare("F3", "encoder source agreement: in GobEncode, PBEncode and FBEncode every tensor field that reaches the wire (shape, strides, order, triangle, dtype, data, mask) is read from one and the same tensor object", 3)
	for _, key := range []string{"tensor.(*Dense).GobEncode", "tensor.(*Dense).PBEncode", "tensor.(*Dense).FBEncode"} {
		fi := anchor(rc, "F3", key)
		if fi == nil {
			continue
		}
		pos := rc.P.Pos(fi.Decl.Pos())
		_, tree := sCanon(rc, fi)
		txt := ir.Render(tree)
		roots := map[string][]string{}
		for _, m := range f3Field.FindAllStringSubmatch(txt, -1) {
			r, f := m[1], m[2]
			// only tensor-typed roots: the receiver and locals assigned from it
			roots[r] = append(roots[r], f)
		}
		// keep roots that denote tensors: the receiver, and locals defined as the receiver / a copy of it
		tens := map[string]bool{"$r": true}
		for _, n := range flatten(tree) {
			if (n.Kind == "let" || n.Kind == "store") && ldIdent.FindString(n.Target) == n.Target {
				v := n.Value
				if v == "$r" || strings.HasPrefix(v, "$r.Materialize()") || strings.HasPrefix(v, "$r.Clone()") || strings.HasPrefix(v, "$r.ShallowClone()") || strings.Contains(v, ".(*tensor.Dense)") {
					tens[n.Target] = true
				}
			}
		}
		var used []string
		for r := range roots {
			if tens[r] {
				used = append(used, r)
			}
		}
		sortStrings(used)
		switch {
		case len(used) == 0:
			rc.S.Undec("F3", key, pos, "no tensor field read found")
		case len(used) == 1:
			rc.S.Ok("F3", key, pos, fmt.Sprintf("all %d wire fields read from %s", len(roots[used[0]]), used[0]))
		default:
			var d []string
			for _, r := range used {
				d = append(d, r+": "+strings.Join(uniq(roots[r]), ","))
			}
			rc.S.Viol("F3", key, pos, "wire fields are read from different tensor objects - "+strings.Join(d, " ; ")).Sig = strings.Join(d, " ; ")
		}
	}
}

// F4: the protobuf / flatbuffers decoders install what is on the wire. On every path of
// PBDecode and FBDecode that does not return an error, each element of the tensor's shape and of
// its strides is stored from the corresponding wire field (an encoder may have written permuted
// strides - a lazily transposed tensor - which no recomputation from the shape can recover), and
// the data bytes are copied from the wire.
func F4(rc *RC) {
	rc.S.Declare("F4", "decoder completeness: on every non-error path PBDecode and FBDecode store shape[i] and strides[i] from the wire's Shape/Strides fields and copy the wire's data bytes into the tensor", 2)
	type need struct{ target, source string }
	table := map[string][]need{
		"tensor.(*Dense).PBDecode": {{"$r.shape[", ".Shape"}, {"$r.strides[", ".Strides"}, {"copy(", ".Data"}},
		"tensor.(*Dense).FBDecode": {{"$r.shape[", ".Shape("}, {"$r.strides[", ".Strides("}, {"copy(", ".DataBytes("}},
	}
	var keys []string
	for k := range table {
		keys = append(keys, k)
	}
	sort.Strings(keys)
	for _, key := range keys {
		fi := anchor(rc, "F4", key)
		if fi == nil {
			continue
		}
		pos := rc.P.Pos(fi.Decl.Pos())
		_, tree := sCanon(rc, fi)
		paths, ok := ir.EnumPaths(tree, 20000)
		if !ok {
			rc.S.Undec("F4", key, pos, "too many paths")
			continue
		}
		var bad []string
		n := 0
		for _, p := range paths {
			if p.Exit == "panic" || (p.Exit == "return" && (strings.HasPrefix(strings.TrimSpace(p.Ret), "errors.") || (strings.TrimSpace(p.Ret) != "nil" && !strings.Contains(p.Ret, "sanity()") && strings.Contains(p.Ret, "err")))) {
				continue
			}
			n++
			var lines []string
			for _, st := range p.Steps {
				lines = append(lines, strings.Split(ir.Render([]*ir.Node{st}), "\n")...)
			}
			for _, nd := range table[key] {
				found := false
				for _, l := range lines {
					l = strings.TrimSpace(l)
					if strings.HasPrefix(l, nd.target) || (nd.target == "copy(" && strings.HasPrefix(l, "copy(")) {
						if strings.Contains(l, nd.source) {
							found = true
						}
					}
				}
				if !found {
					bad = append(bad, fmt.Sprintf("on the path [%s] nothing stores %s… from the wire field %s", firstWordsN(strings.Join(p.Guards, " && "), 120), strings.TrimSuffix(nd.target, "["), nd.source))
				}
			}
		}
		if n == 0 {
			rc.S.Undec("F4", key, pos, "no successful path found")
			continue
		}
		if len(bad) > 0 {
			b := uniq(bad)
			rc.S.Viol("F4", key, pos, strings.Join(b, "; ")).Sig = fmt.Sprintf("%d missing wire stores", len(b))
		} else {
			rc.S.Ok("F4", key, pos, fmt.Sprintf("%d successful path(s): shape, strides and data all come from the wire", n))
		}
	}
}
