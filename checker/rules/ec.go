package rules

import (
	"fmt"
	"go/ast"
	"go/types"
	"strings"

	"tcheck/load"
)

// EC: error discipline. A call to one of the module's own functions that returns an error
// must not have that error dropped (call used as a statement, or error assigned to `_`) in
// the operation code. Deferred calls and the listed exceptions are accepted.

var ecExcept = map[string]string{}

func EC(rc *RC, files func(string) bool, floor int) {
	rc.S.Declare("EC", "error discipline: no error returned by one of the module's own functions is dropped (statement call or blank assignment) in the operation code", floor)
	errType := types.Universe.Lookup("error").Type()
	for _, fi := range rc.P.SortedFuncs() {
		if fi.Pkg != rc.P.Root || fi.Decl.Body == nil || (files != nil && !files(fi.File)) {
			continue
		}
		info := fi.Pkg.TypesInfo
		n := 0
		check := func(call *ast.CallExpr, how string) {
			tv, ok := info.Types[call]
			if !ok {
				return
			}
			returnsErr := false
			switch t := tv.Type.(type) {
			case *types.Tuple:
				if t.Len() > 0 && types.Identical(t.At(t.Len()-1).Type(), errType) {
					returnsErr = true
				}
			default:
				if types.Identical(tv.Type, errType) {
					returnsErr = true
				}
			}
			if !returnsErr {
				return
			}
			// callee must belong to the module
			var callee types.Object
			switch f := call.Fun.(type) {
			case *ast.Ident:
				callee = info.Uses[f]
			case *ast.SelectorExpr:
				callee = info.Uses[f.Sel]
			}
			if callee == nil || callee.Pkg() == nil || !strings.HasPrefix(callee.Pkg().Path(), load.Module) {
				return
			}
			n++
			key := fmt.Sprintf("%s#%s%d", fi.Key, callee.Name(), n)
			pos := rc.P.Pos(call.Pos())
			if why, ok := ecExcept[fi.Key+"#"+callee.Name()]; ok {
				rc.S.Except("EC "+fi.Key+"#"+callee.Name(), why)
				rc.S.Ok("EC", key, pos, "exception: "+why)
				return
			}
			rc.S.Viol("EC", key, pos, fmt.Sprintf("%s drops the error of %s (%s)", fi.Key, callee.Name(), how)).Sig = "dropped " + callee.Name()
		}
		okCalls := 0
		ast.Inspect(fi.Decl.Body, func(nd ast.Node) bool {
			switch x := nd.(type) {
			case *ast.DeferStmt, *ast.GoStmt:
				return false
			case *ast.ExprStmt:
				if call, ok := x.X.(*ast.CallExpr); ok {
					check(call, "call used as a statement")
				}
			case *ast.AssignStmt:
				if len(x.Rhs) == 1 {
					if call, ok := x.Rhs[0].(*ast.CallExpr); ok {
						last := x.Lhs[len(x.Lhs)-1]
						if id, ok := last.(*ast.Ident); ok && id.Name == "_" {
							if tv, ok := info.Types[call]; ok {
								if t, ok := tv.Type.(*types.Tuple); ok && t.Len() == len(x.Lhs) {
									check(call, "error assigned to _")
								} else if !ok && len(x.Lhs) == 1 {
									check(call, "error assigned to _")
								}
							}
						} else {
							okCalls++
						}
					}
				}
			}
			return true
		})
		if n == 0 && okCalls > 0 {
			rc.S.Ok("EC", fi.Key, rc.P.Pos(fi.Decl.Pos()), fmt.Sprintf("%d error-returning calls, none dropped", okCalls)).Trivial = okCalls == 0
		}
	}
}
