package rules

import (
	"go/ast"
	"go/types"
	"sort"
	"strings"

	"tcheck/ir"
	"tcheck/load"
	"tcheck/spec"
)

// Member is one type specialisation of a generated family.
type Member struct {
	FI     *load.FuncInfo
	Kind   types.BasicKind
	Elem   types.Type
	Suffix string
	Family string // pkgshort.(Recv).Stem
	Class  string
	Tree   []*ir.Node
	Text   string // canonical level-A text
	Notes  []string
	Kern   *ir.Kernel
}

func basicOf(t types.Type) (*types.Basic, bool) {
	b, ok := t.Underlying().(*types.Basic)
	if ok {
		return b, true
	}
	return nil, false
}

// mentionsKind reports whether a type mentions basic kind k as element/param/result.
func mentionsKind(t types.Type, k types.BasicKind, depth int) bool {
	if depth > 4 {
		return false
	}
	switch x := t.(type) {
	case *types.Basic:
		return x.Kind() == k
	case *types.Slice:
		return mentionsKind(x.Elem(), k, depth+1)
	case *types.Array:
		return mentionsKind(x.Elem(), k, depth+1)
	case *types.Pointer:
		return mentionsKind(x.Elem(), k, depth+1)
	case *types.Signature:
		for i := 0; i < x.Params().Len(); i++ {
			if mentionsKind(x.Params().At(i).Type(), k, depth+1) {
				return true
			}
		}
		for i := 0; i < x.Results().Len(); i++ {
			if mentionsKind(x.Results().At(i).Type(), k, depth+1) {
				return true
			}
		}
	case *types.Named:
		if x.Obj().Pkg() != nil && x.Obj().Pkg().Path() == "unsafe" && k == types.UnsafePointer {
			return true
		}
	}
	return false
}

var pluralAccessor = map[string]types.BasicKind{}

func init() {
	for name, k := range spec.DtypeVar {
		pluralAccessor[name+"s"] = k
	}
}

// SpecialisationOf decides whether fn is a per-type specialisation: its name ends in a type
// suffix whose basic kind occurs in its signature (so the decision is by resolved types,
// the name only proposes the candidate), or it is a plural typed accessor `Int8s() []int8`.
func SpecialisationOf(fn *types.Func) (kind types.BasicKind, stem, suffix string, ok bool) {
	sig := fn.Type().(*types.Signature)
	name := fn.Name()
	for _, s := range spec.Suffixes {
		if strings.HasSuffix(name, s.Suffix) && len(name) > len(s.Suffix) {
			if mentionsKind(sig, s.Kind, 0) {
				return s.Kind, name[:len(name)-len(s.Suffix)], s.Suffix, true
			}
		}
	}
	if k, isAcc := pluralAccessor[name]; isAcc && sig.Params().Len() == 0 && sig.Results().Len() == 1 {
		if mentionsKind(sig.Results().At(0).Type(), k, 0) {
			return k, "<T>s", spec.SuffixOf(k), true
		}
	}
	return 0, "", "", false
}

func kindType(k types.BasicKind) types.Type {
	if k == types.UnsafePointer {
		return types.Typ[types.UnsafePointer]
	}
	return types.Typ[k]
}

// Families groups every specialisation of the module.
func Families(p *load.Program) map[string][]*Member {
	fams := map[string][]*Member{}
	for _, fi := range p.SortedFuncs() {
		k, stem, suffix, ok := SpecialisationOf(fi.Obj)
		if !ok {
			continue
		}
		fam := load.Short(fi.Pkg.PkgPath) + "."
		if fi.Decl.Recv != nil {
			fam += "(" + load.RecvName(fi.Decl.Recv.List[0].Type) + ")."
		}
		fam += stem
		m := &Member{FI: fi, Kind: k, Elem: kindType(k), Suffix: suffix, Family: fam, Class: spec.Class(k)}
		if m.Class == "uint" {
			m.Class = "int"
		}
		fams[fam] = append(fams[fam], m)
	}
	return fams
}

// Canonicalise fills Tree/Text/Kern of a member.
func (m *Member) Canonicalise(p *load.Program) {
	if m.Tree != nil || m.Text != "" {
		return
	}
	c := ir.NewCanon(p.Fset, m.FI.Pkg.TypesInfo, ir.Options{ElemType: m.Elem, EraseInt: true, Suffix: m.Suffix, TokKind: TokensOf(p).Tok, Kind: m.Kind, HasKind: true, BitSize: bitSize(m.Kind)})
	m.Tree = c.Func(m.FI.Decl)
	m.Text = sigShape(m.FI.Obj, m.Elem) + "\n" + ir.Render(m.Tree)
	m.Notes = c.Notes
}

// sigShape renders the signature with the element type erased.
func sigShape(fn *types.Func, elem types.Type) string {
	sig := fn.Type().(*types.Signature)
	var ps []string
	var rend func(t types.Type) string
	rend = func(t types.Type) string {
		if types.Identical(t, elem) {
			return "τ"
		}
		switch x := t.(type) {
		case *types.Slice:
			return "[]" + rend(x.Elem())
		case *types.Pointer:
			return "*" + rend(x.Elem())
		case *types.Signature:
			var a, r []string
			for i := 0; i < x.Params().Len(); i++ {
				a = append(a, rend(x.Params().At(i).Type()))
			}
			for i := 0; i < x.Results().Len(); i++ {
				r = append(r, rend(x.Results().At(i).Type()))
			}
			return "func(" + strings.Join(a, ",") + ")(" + strings.Join(r, ",") + ")"
		case *types.Basic:
			if x.Kind() == types.Int {
				return "τ|int"
			}
		}
		return types.TypeString(t, func(p *types.Package) string { return p.Name() })
	}
	for i := 0; i < sig.Params().Len(); i++ {
		ps = append(ps, rend(sig.Params().At(i).Type()))
	}
	var rs []string
	for i := 0; i < sig.Results().Len(); i++ {
		rs = append(rs, rend(sig.Results().At(i).Type()))
	}
	s := "sig(" + strings.Join(ps, ", ") + ") (" + strings.Join(rs, ", ") + ")"
	if elem != nil {
		if b, ok := elem.(*types.Basic); ok && b.Kind() == types.Int {
			s = strings.ReplaceAll(s, "τ|int", "τ")
			return strings.ReplaceAll(s, "τ", "τ|int")
		}
	}
	// for non-int specialisations an `int` stays `int`; the int specialisation cannot tell
	// its element type from an index type, so both render as τ|int there and comparisons
	// treat τ|int as matching either.
	return s
}

// sameModInt compares two canonical texts. A specialisation for int, float64 or
// complex128 cannot tell its own element type (erased to τ) from the same type used as a
// fixed index / accumulator / widening type, so those three names match τ.
func sameModInt(a, b string) bool {
	if a == b {
		return true
	}
	return ambig(a) == ambig(b)
}

func ambig(s string) string {
	s = strings.ReplaceAll(s, "τ|int", "τ")
	for _, w := range []string{"int", "float64", "complex128"} {
		s = ir.ReplaceWord(s, w, "τ")
	}
	return s
}

func sortedFamilies(f map[string][]*Member) []string {
	var ks []string
	for k := range f {
		ks = append(ks, k)
	}
	sort.Strings(ks)
	return ks
}

var _ = ast.Inspect

func bitSize(k types.BasicKind) int {
	switch k {
	case types.Int8, types.Uint8:
		return 8
	case types.Int16, types.Uint16:
		return 16
	case types.Int32, types.Uint32, types.Float32:
		return 32
	case types.Int64, types.Uint64, types.Float64, types.Complex64:
		return 64
	case types.Complex128:
		return 128
	}
	return 0
}
