package rules

import (
	"fmt"
	"go/ast"
	"go/types"
	"sort"
	"strings"

	"tcheck/ir"
	"tcheck/spec"
)

// M4: gates. Every generated StdEng operation checks operand accessibility, type class,
// element-type and shape agreement (binaryCheck / unaryCheck + scalarDtypeCheck) and parses
// its options before any kernel or copy runs, propagates their errors, and uses the type
// class the operation is defined on.

// gate class per operation (from the method comments and the properties' refusal clauses)
var m4Class = map[string]string{
	"Add": "numberTypes", "Sub": "numberTypes", "Mul": "numberTypes", "Div": "numberTypes", "Pow": "numberTypes", "Mod": "numberTypes",
	"Gt": "ordTypes", "Gte": "ordTypes", "Lt": "ordTypes", "Lte": "ordTypes", "Eq": "eqTypes", "Ne": "eqTypes",
	"Min": "ordTypes", "Max": "ordTypes",
	"Neg": "numberTypes", "Inv": "numberTypes", "Square": "numberTypes", "Cube": "numberTypes",
	"Abs": "signedTypes", "Sign": "signedTypes", "Clamp": "nonComplexNumberTypes",
	"Cbrt": "floatTypes", "InvSqrt": "floatTypes", "Log2": "floatTypes",
	"Exp": "floatcmplxTypes", "Log": "floatcmplxTypes", "Log10": "floatcmplxTypes", "Sqrt": "floatcmplxTypes", "Tanh": "floatcmplxTypes",
}

func M4(rc *RC, filter func(m *MMethod) bool, floor int) {
	rc.S.Declare("M4", "gates: each generated engine method calls binaryCheck/unaryCheck with the operation's type class (+ scalarDtypeCheck for tensor-scalar forms) and handleFuncOpts, and returns their errors, before any kernel, copy or clone", floor)
	for _, fi := range rc.P.SortedFuncs() {
		m, ok := classifyStdEng(fi)
		if !ok || (filter != nil && !filter(m)) {
			continue
		}
		pos := rc.P.Pos(fi.Decl.Pos())
		_, tree := sCanon(rc, fi)
		paths, okp := ir.EnumPaths(tree, 200000)
		if !okp {
			// the generated methods have two 4-6 way switches: enumerate the prefix only
			paths, _ = ir.EnumPaths(prefixUntilPrep(tree), 4096)
		}
		var bad []string
		wantGate := "unaryCheck"
		if m.arity == 2 {
			wantGate = "binaryCheck"
		}
		wantClass := m4Class[m.op]
		effects := 0
		for _, p := range paths {
			first := -1
			for i, st := range p.Steps {
				if strings.Contains(st.Head, "$r.E.") || strings.Contains(st.Head, "storage.Copy") || strings.Contains(st.Head, "storage.Fill") || strings.Contains(st.Head, ".Clone()") {
					first = i
					break
				}
			}
			if first < 0 {
				continue
			}
			effects++
			need := map[string]bool{wantGate: false, "handleFuncOpts": false}
			if m.Scalar {
				need["scalarDtypeCheck"] = false
			}
			for _, st := range p.Steps[:first] {
				for g := range need {
					if (st.Kind == "let" || st.Kind == "tuple") && strings.Contains(st.Value, g+"(") {
						need[g] = true
						if g == wantGate && wantClass != "" && !strings.Contains(st.Value, ", "+wantClass+")") {
							bad = append(bad, fmt.Sprintf("%s is called with %s, the operation is defined on %s", g, st.Value[strings.LastIndex(st.Value, ", ")+2:], wantClass+")"))
						}
					}
				}
			}
			for g, seen := range need {
				if !seen {
					bad = append(bad, "a kernel/copy is reachable without "+g)
				}
			}
			// every gate error is tested before the effect: count the "err == nil" facts
			nerr := 0
			for _, g := range p.Guards {
				if strings.HasPrefix(g, "!($ret") && strings.HasSuffix(g, " != nil)") {
					nerr++
				}
			}
			if nerr < len(need) {
				bad = append(bad, fmt.Sprintf("only %d error tests precede the first kernel/copy, %d gates were called (an error is not propagated)", nerr, len(need)))
			}
		}
		if effects == 0 {
			bad = append(bad, "no kernel/copy found on any path")
		}
		sort.Strings(bad)
		bad = uniq(bad)
		if len(bad) > 0 {
			rc.S.Viol("M4", fi.Key, pos, strings.Join(bad, "; ")).Sig = strings.Join(bad, "; ")
		} else {
			rc.S.Ok("M4", fi.Key, pos, fmt.Sprintf("%s(%s) + handleFuncOpts dominate all %d effect paths", wantGate, wantClass, effects))
		}
	}
	// the gates themselves
	if fi := anchor(rc, "M4", "tensor.binaryCheck"); fi != nil {
		_, tree := sCanon(rc, fi)
		paths, _ := ir.EnumPaths(tree, 4096)
		var bad []string
		n := 0
		for _, p := range paths {
			if p.Exit != "return" || p.Ret != "nil" {
				continue
			}
			n++
			f := pathG(p)
			for name, goal := range map[string]string{
				"equal element kinds":   "($a.Dtype().Kind() == $b.Dtype().Kind())",
				"equal shapes":          "$a.Shape().Eq($b.Shape())",
				"a natively accessible": "$a.IsNativelyAccessible()",
				"b natively accessible": "$b.IsNativelyAccessible()",
			} {
				if !ir.Implies(f, normAtomsGeneral(ir.ParseBool(goal))) {
					bad = append(bad, "binaryCheck accepts without establishing "+name)
				}
			}
			// type class of both operands
			tcA, tcB := false, false
			for _, st := range p.Steps {
				if strings.Contains(st.Head, "typeclassCheck($a.Dtype(), $tc)") {
					tcA = true
				}
				if strings.Contains(st.Head, "typeclassCheck($b.Dtype(), $tc)") {
					tcB = true
				}
			}
			nilTC := ir.Implies(f, ir.ParseBool("($tc == nil)")) || ir.Implies(f, ir.ParseBool("(nil == $tc)"))
			if !nilTC && (!tcA || !tcB) {
				bad = append(bad, "binaryCheck accepts without checking the type class of both operands")
			}
		}
		if n == 0 {
			bad = append(bad, "no accepting path")
		}
		sort.Strings(bad)
		bad = uniq(bad)
		if len(bad) > 0 {
			rc.S.Viol("M4", "tensor.binaryCheck", rc.P.Pos(fi.Decl.Pos()), strings.Join(bad, "; ")).Sig = strings.Join(bad, "; ")
		} else {
			rc.S.Ok("M4", "tensor.binaryCheck", rc.P.Pos(fi.Decl.Pos()), fmt.Sprintf("%d accepting paths establish accessibility, type class, kind and shape agreement", n))
		}
	}
	if fi := anchor(rc, "M4", "tensor.scalarDtypeCheck"); fi != nil {
		_, tree := sCanon(rc, fi)
		paths, _ := ir.EnumPaths(tree, 256)
		bad := ""
		for _, p := range paths {
			if p.Exit == "return" && p.Ret == "nil" {
				ok := false
				for _, g := range p.Guards {
					if strings.HasPrefix(g, "!($a.Dtype() != ") || strings.HasPrefix(g, "($a.Dtype() == ") {
						ok = true
					}
				}
				if !ok {
					bad = "scalarDtypeCheck accepts without comparing the scalar's Dtype with the tensor's"
				}
			}
		}
		if bad != "" {
			rc.S.Viol("M4", "tensor.scalarDtypeCheck", rc.P.Pos(fi.Decl.Pos()), bad).Sig = bad
		} else {
			rc.S.Ok("M4", "tensor.scalarDtypeCheck", rc.P.Pos(fi.Decl.Pos()), "accepts only equal Dtypes")
		}
	}
}

// prefixUntilPrep cuts a generated method's tree after the prepData call (the part that
// contains all gates), appending a synthetic effect so the prefix paths count.
func prefixUntilPrep(tree []*ir.Node) []*ir.Node {
	var out []*ir.Node
	for _, n := range tree {
		out = append(out, n)
		if n.Kind == "tuple" && strings.Contains(n.Value, "prepData") {
			// keep its error test
			continue
		}
	}
	cut := len(out)
	for i, n := range out {
		if n.Kind == "tuple" && strings.Contains(n.Value, "prepData") {
			cut = i + 2
			break
		}
	}
	if cut > len(out) {
		cut = len(out)
	}
	res := append([]*ir.Node{}, out[:cut]...)
	res = append(res, &ir.Node{Kind: "call", Head: "$r.E.<first effect>", Value: "$r.E.<first effect>"})
	return res
}

// K11: the type-class tables are the sets go/types predicts.
func K11(rc *RC) {
	rc.S.Declare("K11", "type-class tables (types.go): each class is exactly the set of element types go/types' predicates give (numeric without uintptr, ordered, comparable, float, complex, signed, unsigned, …)", 10)
	info := rc.P.Root.TypesInfo
	sets := map[string][]string{}
	poss := map[string]string{}
	for _, f := range rc.P.Root.Syntax {
		for _, d := range f.Decls {
			gd, ok := d.(*ast.GenDecl)
			if !ok {
				continue
			}
			for _, sp := range gd.Specs {
				vs, ok := sp.(*ast.ValueSpec)
				if !ok || len(vs.Names) != 1 || len(vs.Values) != 1 {
					continue
				}
				ue, ok := vs.Values[0].(*ast.UnaryExpr)
				if !ok {
					continue
				}
				cl, ok := ue.X.(*ast.CompositeLit)
				if !ok || exprStr(cl.Type) != "typeclass" {
					continue
				}
				for _, el := range cl.Elts {
					kv, ok := el.(*ast.KeyValueExpr)
					if !ok || exprStr(kv.Key) != "set" {
						continue
					}
					set, ok := kv.Value.(*ast.CompositeLit)
					if !ok {
						continue
					}
					var members []string
					for _, e := range set.Elts {
						members = append(members, exprStr(e))
					}
					sort.Strings(members)
					sets[vs.Names[0].Name] = members
					poss[vs.Names[0].Name] = rc.P.Pos(vs.Pos())
				}
			}
		}
	}
	_ = info
	pred := func(f func(b *types.Basic, k types.BasicKind) bool) []string {
		var out []string
		for name, k := range spec.DtypeVar {
			if f(types.Typ[k], k) {
				out = append(out, name)
			}
		}
		sort.Strings(out)
		return out
	}
	isInt := func(b *types.Basic) bool { return b.Info()&types.IsInteger != 0 }
	ptr := func(k types.BasicKind) bool { return k == types.Uintptr || k == types.UnsafePointer }
	want := map[string][]string{
		"allTypes":         pred(func(b *types.Basic, k types.BasicKind) bool { return true }),
		"eqTypes":          pred(func(b *types.Basic, k types.BasicKind) bool { return true }),
		"specializedTypes": pred(func(b *types.Basic, k types.BasicKind) bool { return !ptr(k) }),
		"numberTypes":      pred(func(b *types.Basic, k types.BasicKind) bool { return b.Info()&types.IsNumeric != 0 && !ptr(k) }),
		"addableTypes": pred(func(b *types.Basic, k types.BasicKind) bool {
			return (b.Info()&types.IsNumeric != 0 || b.Info()&types.IsString != 0) && !ptr(k)
		}),
		"ordTypes":        pred(func(b *types.Basic, k types.BasicKind) bool { return b.Info()&types.IsOrdered != 0 && !ptr(k) }),
		"floatTypes":      pred(func(b *types.Basic, k types.BasicKind) bool { return b.Info()&types.IsFloat != 0 }),
		"complexTypes":    pred(func(b *types.Basic, k types.BasicKind) bool { return b.Info()&types.IsComplex != 0 }),
		"floatcmplxTypes": pred(func(b *types.Basic, k types.BasicKind) bool { return b.Info()&(types.IsFloat|types.IsComplex) != 0 }),
		"nonComplexNumberTypes": pred(func(b *types.Basic, k types.BasicKind) bool {
			return b.Info()&types.IsNumeric != 0 && b.Info()&types.IsComplex == 0 && !ptr(k)
		}),
		"unsignedTypes": pred(func(b *types.Basic, k types.BasicKind) bool {
			return isInt(b) && b.Info()&types.IsUnsigned != 0 && !ptr(k)
		}),
		"signedTypes": pred(func(b *types.Basic, k types.BasicKind) bool {
			return b.Info()&types.IsNumeric != 0 && b.Info()&types.IsUnsigned == 0 && !ptr(k)
		}),
	}
	var names []string
	for n := range want {
		names = append(names, n)
	}
	sort.Strings(names)
	for _, n := range names {
		got, ok := sets[n]
		key := "tensor." + n
		if !ok {
			rc.S.Undec("K11", key, "-", "type-class table not found as a composite literal")
			continue
		}
		if strings.Join(got, ",") == strings.Join(want[n], ",") {
			rc.S.Ok("K11", key, poss[n], strings.Join(got, ","))
		} else {
			rc.S.Viol("K11", key, poss[n], fmt.Sprintf("class %s is {%s}, go/types gives {%s}", n, strings.Join(got, ","), strings.Join(want[n], ","))).Sig = strings.Join(got, ",")
		}
	}
}

// K5: every dispatcher refuses unlisted element types loudly.
func K5(rc *RC, files map[string]bool, floor int) {
	rc.S.Declare("K5", "refusal: every switch over element types in the dispatchers has a default arm that returns a non-nil error (an unsupported type is refused, never silently skipped)", floor)
	for _, fi := range rc.P.SortedFuncs() {
		if !files[fi.File] {
			continue
		}
		for _, ts := range TypedSwitches(rc.P, fi) {
			key := ts.Key()
			pos := rc.P.Pos(ts.Node.Pos())
			if ts.Deflt == nil {
				rc.S.Viol("K5", key, pos, fi.Key+": switch over element types has no default arm: an unlisted type falls through silently").Sig = "no default"
				continue
			}
			ok := false
			ast.Inspect(ts.Deflt, func(n ast.Node) bool {
				if r, isRet := n.(*ast.ReturnStmt); isRet {
					for _, res := range r.Results {
						s := exprStr(res)
						if strings.HasPrefix(s, "errors.") || strings.HasPrefix(s, "nil,errors.") {
							ok = true
						}
						// the arg-reductions report "unsupported" as index -1, which every
						// caller turns into an error
						if s == "-1" && len(r.Results) == 1 {
							ok = true
						}
					}
				}
				if as, isAs := n.(*ast.AssignStmt); isAs {
					for i, l := range as.Lhs {
						if exprStr(l) == "err" && i < len(as.Rhs) && strings.HasPrefix(exprStr(as.Rhs[i]), "errors.") {
							ok = true
						}
					}
				}
				return true
			})
			if ok {
				rc.S.Ok("K5", key, pos, "default arm returns an error")
			} else {
				rc.S.Viol("K5", key, pos, fi.Key+": the default arm of a switch over element types does not return an error").Sig = "default without error"
			}
		}
	}
}
