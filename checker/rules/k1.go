package rules

import (
	"fmt"
	"sort"
	"strings"
)

// FamilyFilter selects the families (and members) a property looks at.
type FamilyFilter func(family string) bool

// K1: members of one family and one type class must have the same canonical form.
func K1(rc *RC, fams map[string][]*Member, filter FamilyFilter, floor int) {
	rc.S.Declare("K1", "family uniformity: all type specialisations of one template in one type class are identical after type erasure (canonical form)", floor)
	for _, fam := range sortedFamilies(fams) {
		if filter != nil && !filter(fam) {
			continue
		}
		ms := fams[fam]
		byClass := map[string][]*Member{}
		for _, m := range ms {
			m.Canonicalise(rc.P)
			byClass[m.Class] = append(byClass[m.Class], m)
		}
		var classes []string
		for c := range byClass {
			classes = append(classes, c)
		}
		sort.Strings(classes)
		for _, cl := range classes {
			mem := byClass[cl]
			rc.S.Count("K1.functions", len(mem))
			// equivalence groups
			var groups [][]*Member
			for _, m := range mem {
				placed := false
				for gi, g := range groups {
					if sameModInt(g[0].Text, m.Text) {
						groups[gi] = append(groups[gi], m)
						placed = true
						break
					}
				}
				if !placed {
					groups = append(groups, []*Member{m})
				}
			}
			sort.SliceStable(groups, func(i, j int) bool { return len(groups[i]) > len(groups[j]) })
			for _, m := range mem {
				if len(m.Notes) > 0 {
					rc.S.Undec("K1", fam+"/"+cl+":"+m.FI.Obj.Name(), rc.P.Pos(m.FI.Decl.Pos()), "canonicaliser met an unknown construct: "+strings.Join(m.Notes, "; "))
				}
			}
			if len(groups) == 1 {
				for _, m := range mem {
					o := rc.S.Ok("K1", fam+"/"+cl+":"+m.FI.Obj.Name(), rc.P.Pos(m.FI.Decl.Pos()), fmt.Sprintf("%d members of class %s share one canonical form (%d lines)", len(mem), cl, strings.Count(m.Text, "\n")))
					o.Trivial = len(mem) == 1
				}
				continue
			}
			tie := len(groups[0]) == len(groups[1])
			for gi, g := range groups {
				for _, m := range g {
					key := fam + "/" + cl + ":" + m.FI.Obj.Name()
					if gi == 0 && !tie {
						rc.S.Ok("K1", key, rc.P.Pos(m.FI.Decl.Pos()), "majority form")
						continue
					}
					ref := groups[0][0]
					if gi == 0 {
						ref = groups[1][0]
					}
					rc.S.Viol("K1", key, rc.P.Pos(m.FI.Decl.Pos()), fmt.Sprintf("%s differs from its sibling %s after type erasure: %s", m.FI.Obj.Name(), ref.FI.Obj.Name(), firstDiff(m.Text, ref.Text)))
				}
			}
		}
	}
}

func firstDiff(a, b string) string {
	la, lb := strings.Split(a, "\n"), strings.Split(b, "\n")
	for i := 0; i < len(la) || i < len(lb); i++ {
		x, y := "", ""
		if i < len(la) {
			x = la[i]
		}
		if i < len(lb) {
			y = lb[i]
		}
		if x != y && !sameModInt(x, y) {
			return fmt.Sprintf("line %d: %q vs %q", i+1, strings.TrimSpace(x), strings.TrimSpace(y))
		}
	}
	return "(texts differ)"
}
