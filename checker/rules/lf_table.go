package rules

// lfCensus: counting loops that address tensor elements by their counter on the reviewed tree
// (enumerated by `dbg lfcensus`, then read).
var lfCensus = map[string]string{
	"tensor.(*Dense).Format#flat1":        "flat ('%-v') formatting prints the backing array by documentation",
	"tensor.(*Dense).Format#flat2":        "flat ('%-v') formatting prints the backing array by documentation",
	"tensor.(*fmtState).calcWidth#flat1":  "column width is a maximum over all stored elements: order-insensitive",
	"tensor.(*Dense).WriteNpy#flat1":      "taken only when the tensor needs no iterator and is row-major (LG L1 entry; finding 18 fixed)",
	"tensor.(*Dense).MaskFromDense#flat1": "mask construction is defined on storage positions (mask[i] belongs to data[i])",
	"tensor.(*Dense).MaskFromDense#flat2": "mask construction is defined on storage positions",
	"tensor.doMaskAll#flat1":              "order-insensitive fold over the whole mask, taken only when the mask covers exactly the tensor's elements",
	"tensor.doMaskAny#flat1":              "order-insensitive fold over the whole mask, taken only when the mask covers exactly the tensor's elements",
	"tensor.doMaskCt#flat1":               "order-insensitive fold over the whole mask, taken only when the mask covers exactly the tensor's elements",
}

func init() {
	// MaskFromSlice: one loop per slice element type, all `t.mask[i] = (v != 0)` on storage positions
	for i := 1; i <= 15; i++ {
		lfCensus["tensor.(*Dense).MaskFromSlice#flat"+itoa(i)] = "mask construction from a flat slice is defined on storage positions"
	}
}

func itoa(i int) string {
	if i >= 10 {
		return string(rune('0'+i/10)) + string(rune('0'+i%10))
	}
	return string(rune('0' + i))
}
