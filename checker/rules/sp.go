package rules

import (
	"fmt"
	"regexp"
	"strings"

	"tcheck/ir"
)

// SP: sibling pairs. Hand-written functions that exist as mirror pairs (max/min,
// float32/float64 engine, masked/not-masked inspection, …) must be the same code up to the
// token map of the pair. A one-sided edit to either member is reported (cross-checking of
// implementations of one template, without a generator to consult).

type spPair struct {
	A, B  string
	Map   [][2]string // token replacements applied to A's canonical text
	Props []string
}

var spPairs = []spPair{
	{A: "tensor.(StdEng).Max", B: "tensor.(StdEng).Min", Map: [][2]string{{"Max", "Min"}}, Props: []string{"C08"}},
	{A: "tensor.(StdEng).Sum", B: "tensor.(StdEng).Min", Map: [][2]string{{"Sum", "Min"}}, Props: []string{"C08"}},
	{A: "tensor.(StdEng).Argmax", B: "tensor.(StdEng).Argmin", Map: [][2]string{{"Argmax", "Argmin"}, {"argmax", "argmin"}}, Props: []string{"C08"}},
	{A: "tensor.(*Dense).Max", B: "tensor.(*Dense).Min", Map: [][2]string{{"Max", "Min"}}, Props: []string{"C08"}},
	{A: "tensor.(*Dense).Sum", B: "tensor.(*Dense).Min", Map: [][2]string{{"Sum", "Min"}}, Props: []string{"C08"}},
	{A: "tensor.(*Dense).Argmax", B: "tensor.(*Dense).Argmin", Map: [][2]string{{"Argmax", "Argmin"}, {"argmax", "argmin"}}, Props: []string{"C08"}},
	{A: "tensor.(Float32Engine).Add", B: "tensor.(Float64Engine).Add", Map: [][2]string{{"32", "64"}}, Props: []string{"C20"}},
	{A: "tensor.(Float32Engine).FMA", B: "tensor.(Float64Engine).FMA", Map: [][2]string{{"32", "64"}}, Props: []string{"C20"}},
	{A: "tensor.(Float32Engine).FMAScalar", B: "tensor.(Float64Engine).FMAScalar", Map: [][2]string{{"32", "64"}}, Props: []string{"C20"}},
	{A: "tensor.(Float32Engine).Inner", B: "tensor.(Float64Engine).Inner", Map: [][2]string{{"32", "64"}, {"whichblas.S", "whichblas.D"}}, Props: []string{"C20", "C09"}},
	{A: "tensor.(Float32Engine).checkThree", B: "tensor.(Float64Engine).checkThree", Map: [][2]string{{"32", "64"}}, Props: []string{"C20"}},
	{A: "tensor.(Float32Engine).checkTwo", B: "tensor.(Float64Engine).checkTwo", Map: [][2]string{{"32", "64"}}, Props: []string{"C20"}},
	{A: "tensor.(*Dense).FlatNotMaskedContiguous", B: "tensor.(*Dense).FlatMaskedContiguous", Map: [][2]string{{"NextInvalid", "NEXTA"}, {"NextValid", "NextInvalid"}, {"NEXTA", "NextValid"}}, Props: []string{"C15"}},
	{A: "tensor.(*Dense).FlatNotMaskedEdges", B: "tensor.(*Dense).FlatMaskedEdges", Map: [][2]string{{"NextInvalid", "NEXTA"}, {"NextValid", "NextInvalid"}, {"NEXTA", "NextValid"}}, Props: []string{"C15"}},
}

func init() {
	// all-masked is the dual of any-masked: polarity of the mask test, of the iterator's stop
	// condition and of the verdicts is flipped; the unmasked early exit answers false in both.
	spPairs = append(spPairs, spPair{A: "tensor.doMaskAll", B: "tensor.doMaskAny", Map: [][2]string{
		{"if !%ts.mask[@r]", "if %ts.mask[@r]"}, {"NextValid", "NextInvalid"},
		{"return false", "RETF"}, {"return true", "return false"}, {"RETF", "return true"},
		{"if !%ts.IsMasked()\n      return true", "if !%ts.IsMasked()\n      return false"}}, Props: []string{"C15"}})
}

var stringLit = regexp.MustCompile(`"(?:[^"\\]|\\.)*"`)

func spText(rc *RC, key string) (string, string, bool) {
	fi := rc.P.Func(key)
	if fi == nil {
		return "", "-", false
	}
	c := ir.NewCanon(rc.P.Fset, fi.Pkg.TypesInfo, ir.Options{PureCall: func(n string) bool { return sPure[n] }})
	tree := c.Func(fi.Decl)
	// message strings are not behaviour
	return stringLit.ReplaceAllString(ir.Render(tree), `"…"`), rc.P.Pos(fi.Decl.Pos()), true
}

// SPsurvey prints how each candidate pair compares (debugging aid).
func SPsurvey(rc *RC) {
	for _, p := range spPairs {
		a, _, ok1 := spText(rc, p.A)
		b, _, ok2 := spText(rc, p.B)
		if !ok1 || !ok2 {
			fmt.Println("MISSING", p.A, p.B)
			continue
		}
		for _, m := range p.Map {
			a = strings.ReplaceAll(a, m[0], m[1])
		}
		if a == b {
			fmt.Println("EQUAL  ", p.A, "~", p.B)
		} else {
			fmt.Println("DIFFER ", p.A, "~", p.B, "::", firstDiff(a, b))
		}
	}
}

func SP(rc *RC, prop string, floor int) {
	rc.S.Declare("SP", "sibling pairs: mirror implementations (max/min, float32/float64 engines, masked/not-masked inspection, …) are the same code up to the pair's token map", floor)
	for _, p := range spPairs {
		use := false
		for _, q := range p.Props {
			if q == prop {
				use = true
			}
		}
		if !use {
			continue
		}
		key := p.A + "~" + strings.TrimPrefix(p.B, "tensor.")
		a, pos, ok1 := spText(rc, p.A)
		b, _, ok2 := spText(rc, p.B)
		if !ok1 || !ok2 {
			rc.S.Undec("SP", key, "-", "unresolved anchor: one member of the pair no longer exists")
			continue
		}
		for _, m := range p.Map {
			a = strings.ReplaceAll(a, m[0], m[1])
		}
		if a == b {
			rc.S.Ok("SP", key, pos, fmt.Sprintf("identical up to %v (%d canonical lines)", p.Map, strings.Count(a, "\n")))
		} else {
			d := firstDiff(a, b)
			rc.S.Viol("SP", key, pos, fmt.Sprintf("%s and %s are no longer mirror images: %s", p.A, p.B, d)).Sig = d
		}
	}
}
