package rules

import (
	"fmt"
	"regexp"
	"strings"

	"tcheck/ir"
)

// SP: sibling pairs. Hand-written functions that exist as mirror pairs (max/min,
// float32/float64 engine, masked/not-masked inspection, …) must be the same code up to the
// token map of the pair. A one-sided edit to either member is reported (cross-checking of
// implementations of one template, without a generator to consult).

type spPair struct {
	A, B  string
	Map   [][2]string // token replacements applied to A's canonical text
	Props []string
}

var spPairs = []spPair{
	{A: "tensor.(StdEng).Max", B: "tensor.(StdEng).Min", Map: [][2]string{{"Max", "Min"}}, Props: []string{"C08"}},
	{A: "tensor.(StdEng).Sum", B: "tensor.(StdEng).Min", Map: [][2]string{{"Sum", "Min"}}, Props: []string{"C08"}},
	{A: "tensor.(StdEng).Argmax", B: "tensor.(StdEng).Argmin", Map: [][2]string{{"Argmax", "Argmin"}, {"argmax", "argmin"}}, Props: []string{"C08"}},
	{A: "tensor.(*Dense).Max", B: "tensor.(*Dense).Min", Map: [][2]string{{"Max", "Min"}}, Props: []string{"C08"}},
	{A: "tensor.(*Dense).Sum", B: "tensor.(*Dense).Min", Map: [][2]string{{"Sum", "Min"}}, Props: []string{"C08"}},
	{A: "tensor.(*Dense).Argmax", B: "tensor.(*Dense).Argmin", Map: [][2]string{{"Argmax", "Argmin"}, {"argmax", "argmin"}}, Props: []string{"C08"}},
	{A: "tensor.(Float32Engine).Add", B: "tensor.(Float64Engine).Add", Map: [][2]string{{"32", "64"}}, Props: []string{"C20", "C06"}},
	{A: "tensor.(Float32Engine).FMA", B: "tensor.(Float64Engine).FMA", Map: [][2]string{{"32", "64"}}, Props: []string{"C20"}},
	{A: "tensor.(Float32Engine).FMAScalar", B: "tensor.(Float64Engine).FMAScalar", Map: [][2]string{{"32", "64"}}, Props: []string{"C20"}},
	{A: "tensor.(Float32Engine).Inner", B: "tensor.(Float64Engine).Inner", Map: [][2]string{{"32", "64"}, {"whichblas.S", "whichblas.D"}}, Props: []string{"C20", "C09"}},
	{A: "tensor.(StdEng).softMaxLastDimF32", B: "tensor.(StdEng).softMaxLastDimF64", Map: [][2]string{{"math32", "math"}, {"32", "64"}}, Props: []string{"C17"}},
	{A: "tensor.(StdEng).softMaxInnerDimF32", B: "tensor.(StdEng).softMaxInnerDimF64", Map: [][2]string{{"float32(0)", "0"}, {"math32", "math"}, {"32", "64"}}, Props: []string{"C17"}},
	{A: "tensor.(StdEng).softMaxBInnerDimF32", B: "tensor.(StdEng).softMaxBInnerDimF64", Map: [][2]string{{"float32(0)", "0"}, {"math32", "math"}, {"32", "64"}}, Props: []string{"C17"}},
	{A: "tensor.handleFuncOptsF32", B: "tensor.handleFuncOptsF64", Map: [][2]string{{"32", "64"}}, Props: []string{"C20", "C07"}},
	{A: "tensor.prepDataVSF32", B: "tensor.prepDataVSF64", Map: [][2]string{{"32", "64"}}, Props: []string{"C20"}},
	{A: "tensor.(Float32Engine).checkThree", B: "tensor.(Float64Engine).checkThree", Map: [][2]string{{"32", "64"}}, Props: []string{"C20"}},
	{A: "tensor.(Float32Engine).checkTwo", B: "tensor.(Float64Engine).checkTwo", Map: [][2]string{{"32", "64"}}, Props: []string{"C20"}},
	{A: "tensor.(*Dense).Filled", B: "tensor.(*Dense).FilledInplace", Map: [][2]string{{"%0 = $r.Clone().(*tensor.Dense)\n", ""}, {"%0", "$r"}, {"%1", "%0"}, {"%2", "%1"}, {"%3", "%2"}, {"%4", "%3"}, {"%5", "%4"}, {"%6", "%5"}, {"%7", "%6"}, {"%8", "%7"}, {"%9", "%8"}}, Props: []string{"C15"}},
	{A: "tensor.(*Dense).FlatNotMaskedContiguous", B: "tensor.(*Dense).FlatMaskedContiguous", Map: [][2]string{{"NextInvalid", "NEXTA"}, {"NextValid", "NextInvalid"}, {"NEXTA", "NextValid"}}, Props: []string{"C15"}},
	{A: "tensor.(*Dense).FlatNotMaskedEdges", B: "tensor.(*Dense).FlatMaskedEdges", Map: [][2]string{{"NextInvalid", "NEXTA"}, {"NextValid", "NextInvalid"}, {"NEXTA", "NextValid"}}, Props: []string{"C15"}},
}

func init() {
	// all-masked is the dual of any-masked: polarity of the mask test, of the iterator's stop
	// condition and of the verdicts is flipped; the unmasked early exit answers false in both.
	spPairs = append(spPairs, spPair{A: "tensor.doMaskAll", B: "tensor.doMaskAny", Map: [][2]string{
		{"if !%ts.mask[@r]", "if %ts.mask[@r]"}, {"NextValid", "NextInvalid"},
		{"return false", "RETF"}, {"return true", "return false"}, {"RETF", "return true"},
		{"if !%ts.IsMasked()\n      return true", "if !%ts.IsMasked()\n      return false"}}, Props: []string{"C15"}})
}

var stringLit = regexp.MustCompile(`"(?:[^"\\]|\\.)*"`)

func spText(rc *RC, key string) (string, string, bool) {
	fi := rc.P.Func(key)
	if fi == nil {
		return "", "-", false
	}
	c := ir.NewCanon(rc.P.Fset, fi.Pkg.TypesInfo, ir.Options{PureCall: func(n string) bool { return sPure[n] }})
	tree := c.Func(fi.Decl)
	// message strings are not behaviour
	return stringLit.ReplaceAllString(ir.Render(tree), `"…"`), rc.P.Pos(fi.Decl.Pos()), true
}

// SPsurvey prints how each candidate pair compares (debugging aid).
func SPsurvey(rc *RC) {
	for _, p := range spPairs {
		a, _, ok1 := spText(rc, p.A)
		b, _, ok2 := spText(rc, p.B)
		if !ok1 || !ok2 {
			fmt.Println("MISSING", p.A, p.B)
			continue
		}
		for _, m := range p.Map {
			a = strings.ReplaceAll(a, m[0], m[1])
		}
		if a == b {
			fmt.Println("EQUAL  ", p.A, "~", p.B)
		} else {
			fmt.Println("DIFFER ", p.A, "~", p.B, "::", firstDiff(a, b))
		}
	}
}

func SP(rc *RC, prop string, floor int) {
	rc.S.Declare("SP", "sibling pairs: mirror implementations (max/min, float32/float64 engines, masked/not-masked inspection, …) are the same code up to the pair's token map", floor)
	for _, p := range spPairs {
		use := false
		for _, q := range p.Props {
			if q == prop {
				use = true
			}
		}
		if !use {
			continue
		}
		key := p.A + "~" + strings.TrimPrefix(p.B, "tensor.")
		a, pos, ok1 := spText(rc, p.A)
		b, _, ok2 := spText(rc, p.B)
		if !ok1 || !ok2 {
			rc.S.Undec("SP", key, "-", "unresolved anchor: one member of the pair no longer exists")
			continue
		}
		for _, m := range p.Map {
			a = strings.ReplaceAll(a, m[0], m[1])
		}
		if a == b {
			rc.S.Ok("SP", key, pos, fmt.Sprintf("identical up to %v (%d canonical lines)", p.Map, strings.Count(a, "\n")))
		} else {
			d := firstDiff(a, b)
			rc.S.Viol("SP", key, pos, fmt.Sprintf("%s and %s are no longer mirror images: %s", p.A, p.B, d)).Sig = d
		}
	}
}

// SS: stack geometry agreement. StackDense has two implementations of one copy scheme: the raw
// block copy (denseSimpleStack) and the iterator copy (denseViewStack -> doViewStack). Both cut
// the result into `batches` groups of blocks of `blockSize` elements; the two numbers must be
// the same terms over the same arguments in both, on every path. Variables are bound
// structurally (the counting loop's bound and the destination cursor's increment in the block
// copy; the arguments handed to doViewStack in the iterator copy), parameters by position.
func SS(rc *RC) {
	rc.S.Declare("SS", "stack geometry agreement: the raw block-copy stack and the iterator stack compute the block size and the number of batches by the same terms (a special case or a different stride source in one of them is reported)", 1)
	geo := func(key string, view bool) (map[string]bool, string, string) {
		fi := anchor(rc, "SS", key)
		if fi == nil {
			return nil, "-", "unresolved"
		}
		pos := rc.P.Pos(fi.Decl.Pos())
		_, tree := sCanon(rc, fi)
		// positional parameter names
		ren := map[string]string{}
		i := 0
		for _, f := range fi.Decl.Type.Params.List {
			for _, n := range f.Names {
				ren["$"+n.Name] = fmt.Sprintf("$p%d", i)
				i++
			}
		}
		norm := func(s string) string {
			return ldIdent.ReplaceAllStringFunc(s, func(w string) string {
				if v, ok := ren[w]; ok {
					return v
				}
				return w
			})
		}
		paths, ok := ir.EnumPaths(tree, 5000)
		if !ok {
			return nil, pos, "too many paths"
		}
		out := map[string]bool{}
		for _, p := range paths {
			for i, st := range p.Steps {
				env := pathEnv(ir.Path{Steps: p.Steps[:i]})
				if view {
					j := strings.Index(st.Head, "doViewStack(")
					if j < 0 {
						continue
					}
					args := splitArgs(st.Head[j+len("doViewStack(") : strings.LastIndex(st.Head, ")")])
					if len(args) < 4 {
						return nil, pos, "doViewStack call with fewer than 4 arguments"
					}
					out["block="+norm(stripOld(substEnv(args[2], env)))+" batches="+norm(stripOld(substEnv(args[3], env)))] = true
					continue
				}
				if st.Kind != "loop" {
					continue
				}

				// loop head: for (BOUND > %i) ; ...
				h := st.Head
				if !strings.HasPrefix(h, "for (") {
					continue
				}
				cond := h[len("for "):]
				if k := strings.Index(cond, " ; "); k >= 0 {
					cond = cond[:k]
				}
				if !strings.HasPrefix(cond, "(") || !strings.HasSuffix(cond, ")") {
					continue
				}
				parts := splitTopOp(cond[1:len(cond)-1], " > ")
				if len(parts) != 2 {
					continue
				}
				bound := stripOld(parts[0])
				// destination cursor increment: %d = (Y + %d)
				block := ""
				for _, k := range st.Kids {
					if (k.Kind != "let" && k.Kind != "store") || !strings.HasPrefix(k.Value, "(") || !strings.HasSuffix(k.Value, ")") {
						continue
					}
					ab := splitTopOp(k.Value[1:len(k.Value)-1], " + ")
					if len(ab) != 2 {
						continue
					}
					other := ""
					if ab[0] == k.Target {
						other = ab[1]
					} else if ab[1] == k.Target {
						other = ab[0]
					}
					if other != "" && strings.Contains(ir.Render(st.Kids), "copyDenseSliced($retVal, "+k.Target) {
						block = stripOld(other)
						break
					}
				}
				if block == "" {
					continue
				}
				m := []string{"", bound}
				out["block="+norm(substEnv(block, env))+" batches="+norm(substEnv(m[1], env))] = true
			}
		}
		if len(out) == 0 {
			return nil, pos, "block size / batch count not found"
		}
		return out, pos, ""
	}
	a, pos, e1 := geo("tensor.(StdEng).denseSimpleStack", false)
	b, _, e2 := geo("tensor.(StdEng).denseViewStack", true)
	key := "denseSimpleStack~denseViewStack"
	if a == nil || b == nil {
		rc.S.Undec("SS", key, pos, strings.TrimSpace(e1+" "+e2))
		return
	}
	set := func(m map[string]bool) string {
		var s []string
		for k := range m {
			s = append(s, k)
		}
		sortStrings(s)
		return strings.Join(s, " | ")
	}
	if set(a) == set(b) {
		rc.S.Ok("SS", key, pos, set(a))
	} else {
		rc.S.Viol("SS", key, pos, fmt.Sprintf("the two stack implementations disagree on the copy geometry:\n block copy: %s\n iterator copy: %s", set(a), set(b))).Sig = set(a) + " <> " + set(b)
	}
}

func stripOld(s string) string {
	for strings.HasPrefix(s, "old(") && strings.HasSuffix(s, ")") && balanced(s[4:len(s)-1]) {
		s = s[4 : len(s)-1]
	}
	for strings.HasPrefix(s, "(") && strings.HasSuffix(s, ")") && balanced(s[1:len(s)-1]) {
		s = s[1 : len(s)-1]
	}
	return s
}

// splitTopOp splits s at the top-level occurrences of op (outside parentheses and brackets).
func splitTopOp(s, op string) []string {
	var out []string
	d, last := 0, 0
	for i := 0; i < len(s); i++ {
		switch s[i] {
		case '(', '[', '{':
			d++
		case ')', ']', '}':
			d--
		}
		if d == 0 && strings.HasPrefix(s[i:], op) {
			out = append(out, s[last:i])
			last = i + len(op)
			i += len(op) - 1
		}
	}
	return append(out, s[last:])
}
