package rules

import (
	"fmt"
	"go/ast"
	"go/types"
	"strings"
)

// MX: index domains of the multi-iterator. A MultIterator over n tensors keeps per-TENSOR tables
// (whichBlock, lastIndexArr: one entry per operand) and a per-BLOCK table (fitArr: one flat
// iterator per distinct stride pattern); whichBlock maps a tensor number to its block number.
// The two numberings coincide only while all stride patterns differ, so an index of the wrong
// domain is invisible to tests with two differently laid out operands and wrong as soon as two
// operands share a block (seed RHC05a: LastIndex(j) read lastIndexArr[whichBlock[j]]). Decided
// over every function of iterator_mult.go on the AST with resolved objects: an index expression
// whose domain is known to be "block" (an element of whichBlock, the range value over whichBlock,
// the range key over fitArr) never subscripts a per-tensor table, and one known to be "tensor"
// (the range key over whichBlock or lastIndexArr) never subscripts fitArr. Indices of unknown
// domain (parameters, counters) are not judged.
func MX(rc *RC) {
	rc.S.Declare("MX", "multi-iterator index domains: per-tensor tables (whichBlock, lastIndexArr) are never subscripted by a block number (whichBlock[..], range value over whichBlock, range key over fitArr) and the per-block table fitArr never by a tensor number (range key over whichBlock / lastIndexArr)", 1)
	perTensor := map[string]bool{"whichBlock": true, "lastIndexArr": true}
	perBlock := map[string]bool{"fitArr": true}
	fieldOf := func(e ast.Expr) string {
		if s, ok := e.(*ast.SelectorExpr); ok {
			return s.Sel.Name
		}
		return ""
	}
	for _, fi := range rc.P.FuncsInFile(rc.P.Root, "iterator_mult.go") {
		if fi.Decl.Body == nil {
			continue
		}
		info := fi.Pkg.TypesInfo
		dom := map[types.Object]string{}
		obj := func(e ast.Expr) types.Object {
			if id, ok := e.(*ast.Ident); ok && id.Name != "_" {
				if o := info.Defs[id]; o != nil {
					return o
				}
				return info.Uses[id]
			}
			return nil
		}
		ast.Inspect(fi.Decl.Body, func(n ast.Node) bool {
			if r, ok := n.(*ast.RangeStmt); ok {
				f := fieldOf(r.X)
				switch {
				case f == "whichBlock":
					if r.Key != nil {
						if o := obj(r.Key); o != nil {
							dom[o] = "tensor"
						}
					}
					if r.Value != nil {
						if o := obj(r.Value); o != nil {
							dom[o] = "block"
						}
					}
				case f == "lastIndexArr":
					if r.Key != nil {
						if o := obj(r.Key); o != nil {
							dom[o] = "tensor"
						}
					}
				case perBlock[f]:
					if r.Key != nil {
						if o := obj(r.Key); o != nil {
							dom[o] = "block"
						}
					}
				}
			}
			return true
		})
		// a variable assigned anywhere from something else loses its domain
		ast.Inspect(fi.Decl.Body, func(n ast.Node) bool {
			switch x := n.(type) {
			case *ast.AssignStmt:
				for _, l := range x.Lhs {
					if o := obj(l); o != nil && dom[o] != "" && x.Tok.String() != ":=" {
						dom[o] = "unknown"
					}
				}
			case *ast.IncDecStmt:
				if o := obj(x.X); o != nil && dom[o] != "" {
					dom[o] = "unknown"
				}
			}
			return true
		})
		domainOf := func(e ast.Expr) string {
			for {
				p, ok := e.(*ast.ParenExpr)
				if !ok {
					break
				}
				e = p.X
			}
			if ie, ok := e.(*ast.IndexExpr); ok && fieldOf(ie.X) == "whichBlock" {
				return "block"
			}
			if o := obj(e); o != nil {
				if d := dom[o]; d == "block" || d == "tensor" {
					return d
				}
			}
			return ""
		}
		n := 0
		var bad []string
		ast.Inspect(fi.Decl.Body, func(m ast.Node) bool {
			ie, ok := m.(*ast.IndexExpr)
			if !ok {
				return true
			}
			f := fieldOf(ie.X)
			d := domainOf(ie.Index)
			if d == "" || (!perTensor[f] && !perBlock[f]) {
				return true
			}
			n++
			if perTensor[f] && d == "block" {
				bad = append(bad, fmt.Sprintf("%s[%s] at %s: a per-tensor table is subscripted by a block number (right only while every operand has its own stride block)", f, types.ExprString(ie.Index), rc.P.Pos(ie.Pos())))
			}
			if perBlock[f] && d == "tensor" {
				bad = append(bad, fmt.Sprintf("%s[%s] at %s: the per-block iterator table is subscripted by a tensor number (out of range or the wrong block once two operands share strides)", f, types.ExprString(ie.Index), rc.P.Pos(ie.Pos())))
			}
			return true
		})
		if n == 0 && len(bad) == 0 {
			continue
		}
		pos := rc.P.Pos(fi.Decl.Pos())
		if len(bad) > 0 {
			rc.S.Viol("MX", fi.Key, pos, strings.Join(uniq(bad), "; ")).Sig = "index of the wrong domain"
		} else {
			rc.S.Ok("MX", fi.Key, pos, fmt.Sprintf("%d subscript(s) with a known index domain, all of the table's own domain", n))
		}
	}
}
