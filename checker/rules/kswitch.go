package rules

import (
	"fmt"
	"go/ast"
	"go/types"
	"sort"
	"strings"

	"tcheck/ir"
	"tcheck/load"
	"tcheck/spec"
)

// TypedSwitch is a switch whose case labels denote element types.
type TypedSwitch struct {
	FI    *load.FuncInfo
	Ord   int // ordinal among the typed switches of the function
	Node  ast.Stmt
	Arms  []*Arm
	Deflt *ast.CaseClause
	NArms int // all clauses
}

type Arm struct {
	Clause *ast.CaseClause
	Kinds  []types.BasicKind
	Label  string
}

func (ts *TypedSwitch) Key() string { return fmt.Sprintf("%s#sw%d", ts.FI.Key, ts.Ord) }

// labelKind resolves a case expression to a basic kind.
func labelKind(p *load.Program, info *types.Info, e ast.Expr, typeSwitch bool) (types.BasicKind, bool) {
	if typeSwitch {
		if tv, ok := info.Types[e]; ok && tv.IsType() {
			t := tv.Type
			for {
				switch x := t.(type) {
				case *types.Slice:
					t = x.Elem()
					continue
				case *types.Pointer:
					t = x.Elem()
					continue
				}
				break
			}
			return KindOfType(t)
		}
		return 0, false
	}
	toks := TokensOf(p)
	switch x := e.(type) {
	case *ast.Ident:
		if o := info.Uses[x]; o != nil {
			if k, _, ok := toks.Tok(o); ok {
				if _, isFn := o.(*types.Func); !isFn {
					return k, true
				}
			}
		}
	case *ast.SelectorExpr:
		if o := info.Uses[x.Sel]; o != nil {
			if k, _, ok := toks.Tok(o); ok {
				if _, isFn := o.(*types.Func); !isFn {
					return k, true
				}
			}
		}
		// Dtype.Type field of a Dtype var: Float64.Type
		if x.Sel.Name == "Type" {
			return labelKind(p, info, x.X, false)
		}
	case *ast.CallExpr:
		// Float64.Kind(), reflect.TypeOf(int8(0))
		if k, ok := typeOfCallKind(info, x); ok {
			return k, true
		}
		if sel, ok := x.Fun.(*ast.SelectorExpr); ok && len(x.Args) == 0 {
			return labelKind(p, info, sel.X, false)
		}
	}
	return 0, false
}

// TypedSwitches finds the typed switches of a function.
func TypedSwitches(p *load.Program, fi *load.FuncInfo) []*TypedSwitch {
	var out []*TypedSwitch
	if fi.Decl.Body == nil {
		return nil
	}
	info := fi.Pkg.TypesInfo
	ast.Inspect(fi.Decl.Body, func(n ast.Node) bool {
		var clauses []ast.Stmt
		typeSw := false
		switch x := n.(type) {
		case *ast.SwitchStmt:
			clauses = x.Body.List
		case *ast.TypeSwitchStmt:
			clauses = x.Body.List
			typeSw = true
		default:
			return true
		}
		ts := &TypedSwitch{FI: fi, Node: n.(ast.Stmt), NArms: len(clauses)}
		for _, cl := range clauses {
			cc := cl.(*ast.CaseClause)
			if cc.List == nil {
				ts.Deflt = cc
				continue
			}
			arm := &Arm{Clause: cc}
			all := true
			var labs []string
			for _, e := range cc.List {
				k, ok := labelKind(p, info, e, typeSw)
				if !ok {
					all = false
					break
				}
				arm.Kinds = append(arm.Kinds, k)
				labs = append(labs, types.Typ[k].Name())
			}
			if all && len(arm.Kinds) > 0 {
				arm.Label = strings.Join(labs, ",")
				ts.Arms = append(ts.Arms, arm)
			}
		}
		dup := false
		seenK := map[types.BasicKind]bool{}
		for _, a := range ts.Arms {
			for _, k := range a.Kinds {
				if seenK[k] {
					dup = true
				}
				seenK[k] = true
			}
		}
		if len(ts.Arms) >= 2 && !dup {
			ts.Ord = len(out)
			out = append(out, ts)
		}
		return true
	})
	return out
}

// typedMentions collects the type-specific tokens in an arm body: resolved tokens (Dtype
// variables, typed accessors, sibling specialisations, reflect kinds) and the basic kinds in
// type assertions.
type mention struct {
	Kind types.BasicKind
	What string
	Pos  ast.Node
}

func typedMentions(p *load.Program, info *types.Info, body []ast.Stmt) []mention {
	toks := TokensOf(p)
	var out []mention
	for _, st := range body {
		ast.Inspect(st, func(n ast.Node) bool {
			switch x := n.(type) {
			case *ast.SwitchStmt, *ast.TypeSwitchStmt:
				// a nested typed switch has its own labels
				if n != st {
					return false
				}
			case *ast.Ident:
				if o := info.Uses[x]; o != nil {
					if k, _, ok := toks.Tok(o); ok {
						out = append(out, mention{k, x.Name, x})
					}
				}
			case *ast.TypeAssertExpr:
				if x.Type != nil {
					if tv, ok := info.Types[x.Type]; ok {
						for _, k := range basicKindsIn(tv.Type, 0) {
							out = append(out, mention{k, "assertion to " + tv.Type.String(), x})
						}
					}
				}
			case *ast.FuncLit:
				if tv, ok := info.Types[x]; ok {
					for _, k := range basicKindsIn(tv.Type, 0) {
						out = append(out, mention{k, "function literal " + tv.Type.String(), x})
					}
				}
			}
			return true
		})
	}
	return out
}

func basicKindsIn(t types.Type, depth int) []types.BasicKind {
	if depth > 4 {
		return nil
	}
	switch x := t.(type) {
	case *types.Basic:
		if k, ok := KindOfType(x); ok {
			return []types.BasicKind{k}
		}
	case *types.Slice:
		return basicKindsIn(x.Elem(), depth+1)
	case *types.Pointer:
		return basicKindsIn(x.Elem(), depth+1)
	case *types.Array:
		return basicKindsIn(x.Elem(), depth+1)
	case *types.Signature:
		var out []types.BasicKind
		for i := 0; i < x.Params().Len(); i++ {
			out = append(out, basicKindsIn(x.Params().At(i).Type(), depth+1)...)
		}
		for i := 0; i < x.Results().Len(); i++ {
			out = append(out, basicKindsIn(x.Results().At(i).Type(), depth+1)...)
		}
		return out
	}
	return nil
}

// neutralIn: kinds that may legitimately appear in an arm of another label.
// int: indices and lengths; bool: flags, masks and comparison results; error strings.
func neutralMention(label types.BasicKind, m mention) bool {
	if m.Kind == label {
		return true
	}
	if strings.HasPrefix(m.What, "function literal") || strings.HasPrefix(m.What, "assertion") {
		return m.Kind == types.Int || m.Kind == types.Bool
	}
	return false
}

// K3: every type-specific token in an arm denotes the arm's label; K1arms: arms of one
// class are identical after erasing their own label's tokens.
func K3(rc *RC, filter func(fi *load.FuncInfo) bool, floorSwitches, floorArms int) {
	rc.S.Declare("K3", "type-case coherence: every typed accessor, specialised kernel, Dtype token and type assertion in an arm denotes the arm's label type", floorArms)
	rc.S.Declare("K1arms", "arm uniformity: arms of one type switch that belong to one type class are identical after erasing their own label", floorSwitches)
	for _, fi := range rc.P.SortedFuncs() {
		if filter != nil && !filter(fi) {
			continue
		}
		for _, ts := range TypedSwitches(rc.P, fi) {
			checkSwitch(rc, ts)
		}
	}
}

// K3 exceptions: (function key, label, token) triples that legitimately differ.
var k3Except = map[string]string{}

// K1arms exceptions: (function, class) pairs whose two arms legitimately differ because the
// function converts to/from one fixed type of that very class.
var k1armsExcept = map[string]string{
	"tensor.(*Dense).FillValue/int":     "per-type fill constants (99, 9999, 999999) are data, not a template",
	"tensor.(*Dense).FillValue/uint":    "per-type fill constants are data, not a template",
	"tensor.convFromStrs/float":         "ParseFloat returns float64: the float64 arm stores directly, float32 narrows through a local",
	"tensor.convFromFloat64s/float":     "source is []float64: the float64 arm copies, the float32 arm converts element by element",
	"tensor.convFromFloat64s/complex":   "source is float64: complex128 takes it as is, complex64 narrows",
	"tensor.convToFloat64s/float":       "target is []float64: the float64 arm returns the slice itself",
	"tensor.convToFloat64s/complex":     "target is float64: complex128's real part needs no widening",
	"tensor.convToFloat64/float":        "target is float64: identity conversion for the float64 arm",
	"tensor.convToFloat64/complex":      "target is float64: complex128's real part needs no widening",
	"tensor.FromMat64/float":            "source is a float64 matrix: the float64 arm may share the backing, float32 must convert",
	"tensor.Random/float":               "random generators exist per width (NormFloat64 only); outside every property",
	"tensor.Random/complex":             "random generators exist per width; outside every property",
	"tensor.Range/complex":              "complex(float32,float32) vs complex(float64,float64): the component type is the other width's name",
	"tensor.SampleIndex/float":          "rand.Float32 vs rand.Float64: per-width library routine; outside every property",
	"tensor.(StdEng).SoftMax/float":     "dispatch to per-width hand-written softmax; outside every property",
	"tensor.(StdEng).SoftMaxB/float":    "dispatch to per-width hand-written softmax; outside every property",
	"tensor.(StdEng).LogSoftMax/float":  "dispatch to per-width hand-written softmax; outside every property",
	"tensor.(StdEng).LogSoftMaxB/float": "dispatch to per-width hand-written softmax; outside every property",
}

func checkSwitch(rc *RC, ts *TypedSwitch) {
	info := ts.FI.Pkg.TypesInfo
	rc.S.Count("K3.switches", 1)
	type armForm struct {
		arm  *Arm
		text string
		note []string
	}
	byClass := map[string][]*armForm{}
	for _, arm := range ts.Arms {
		rc.S.Count("K3.arms", 1)
		key := ts.Key() + ":" + arm.Label
		if len(arm.Kinds) == 1 {
			label := arm.Kinds[0]
			ms := typedMentions(rc.P, info, arm.Clause.Body)
			bad := ""
			for _, m := range ms {
				if !neutralMention(label, m) {
					ex := ts.FI.Key + "|" + types.Typ[label].Name() + "|" + m.What
					if why, ok := k3Except[ex]; ok {
						rc.S.Except(ex, why)
						continue
					}
					bad = fmt.Sprintf("arm labelled %s uses %s (a %s construct) at %s", types.Typ[label].Name(), m.What, types.Typ[m.Kind].Name(), rc.P.Pos(m.Pos.Pos()))
					break
				}
			}
			if bad == "" {
				bad = boxedValueMismatch(rc, ts, arm, label)
			}
			if bad != "" {
				rc.S.Viol("K3", key, rc.P.Pos(arm.Clause.Pos()), bad)
			} else {
				o := rc.S.Ok("K3", key, rc.P.Pos(arm.Clause.Pos()), fmt.Sprintf("%d type-specific tokens, all %s", len(ms), types.Typ[label].Name()))
				o.Trivial = len(ms) == 0
			}
			// canonical form of the arm
			c := ir.NewCanon(rc.P.Fset, info, ir.Options{ElemType: kindType(label), EraseInt: true, Suffix: spec.SuffixOf(label), TokKind: TokensOf(rc.P).Tok, Kind: label, HasKind: true, BitSize: bitSize(label)})
			text := canonArm(c, ts.FI.Decl, arm.Clause.Body)
			cl := spec.Class(label)
			byClass[cl] = append(byClass[cl], &armForm{arm, text, c.Notes})
		} else {
			// an arm that serves several element types cannot use a construct that is specific to
			// one of them (case Int8, Uint8: ArgmaxU8(a.Uint8s()) orders int8 data as unsigned)
			bad := ""
			for _, m := range typedMentions(rc.P, info, arm.Clause.Body) {
				if strings.HasPrefix(m.What, "function literal") || strings.HasPrefix(m.What, "assertion") {
					if m.Kind == types.Int || m.Kind == types.Bool {
						continue
					}
				}
				bad = fmt.Sprintf("arm labelled %s serves several element types but uses %s (a %s construct) at %s", arm.Label, m.What, types.Typ[m.Kind].Name(), rc.P.Pos(m.Pos.Pos()))
				break
			}
			if bad != "" {
				rc.S.Viol("K3", key, rc.P.Pos(arm.Clause.Pos()), bad)
			} else {
				rc.S.Ok("K3", key, rc.P.Pos(arm.Clause.Pos()), "multi-type arm without type-specific constructs").Trivial = true
			}
		}
	}
	// signed and unsigned integers form one class when all of them agree, two otherwise
	if u, ok := byClass["uint"]; ok {
		merged := append(append([]*armForm{}, byClass["int"]...), u...)
		same := true
		for _, f := range merged {
			if !sameModInt(f.text, merged[0].text) {
				same = false
			}
		}
		if same {
			byClass["int"] = merged
			delete(byClass, "uint")
		}
	}
	var classes []string
	for c := range byClass {
		classes = append(classes, c)
	}
	sort.Strings(classes)
	for _, cl := range classes {
		forms := byClass[cl]
		if why, ok := k1armsExcept[ts.FI.Key+"/"+cl]; ok {
			rc.S.Except("K1arms "+ts.FI.Key+"/"+cl, why)
			continue
		}
		var groups [][]*armForm
		for _, f := range forms {
			placed := false
			for gi, g := range groups {
				if sameModInt(g[0].text, f.text) {
					groups[gi] = append(groups[gi], f)
					placed = true
					break
				}
			}
			if !placed {
				groups = append(groups, []*armForm{f})
			}
		}
		sort.SliceStable(groups, func(i, j int) bool { return len(groups[i]) > len(groups[j]) })
		key := ts.Key() + "/" + cl
		for _, f := range forms {
			if len(f.note) > 0 {
				rc.S.Undec("K1arms", key+":"+f.arm.Label, rc.P.Pos(f.arm.Clause.Pos()), "canonicaliser: "+strings.Join(f.note, "; "))
			}
		}
		if len(groups) == 1 {
			o := rc.S.Ok("K1arms", key, rc.P.Pos(ts.Node.Pos()), fmt.Sprintf("%d arms of class %s share one canonical form", len(forms), cl))
			o.Trivial = len(forms) == 1
			continue
		}
		tie := len(groups[0]) == len(groups[1])
		for gi, g := range groups {
			if gi == 0 && !tie {
				continue
			}
			ref := groups[0][0]
			if gi == 0 {
				ref = groups[1][0]
			}
			for _, f := range g {
				// an arm written from the ground up differently from its siblings (another statement
				// skeleton, less than 70% of the lines in common) is a justified asymmetry or a
				// restructuring this comparison cannot tell from an error (ReadNpy keeps the element
				// loop for int/uint, which binary.Read rejects): not judged. An arm that keeps the
				// template and differs in a term, a callee or a dropped branch is reported.
				if !sameSkeleton(f.text, ref.text) && lineSimilarity(f.text, ref.text) < 0.7 {
					rc.S.Undec("K1arms", key+":"+f.arm.Label, rc.P.Pos(f.arm.Clause.Pos()), fmt.Sprintf("arm %s no longer follows the template of arm %s (%.0f%% of its lines in common): restructured, not compared", f.arm.Label, ref.arm.Label, 100*lineSimilarity(f.text, ref.text)))
					continue
				}
				rc.S.Viol("K1arms", key+":"+f.arm.Label, rc.P.Pos(f.arm.Clause.Pos()), fmt.Sprintf("arm %s differs from its sibling arm %s after type erasure: %s", f.arm.Label, ref.arm.Label, firstDiff(f.text, ref.text)))
			}
		}
	}
}

func canonArm(c *ir.Canon, fd *ast.FuncDecl, body []ast.Stmt) string {
	return ir.Render(c.Stmts(fd, body))
}

// boxedValueMismatch: an arm that returns a value boxed in an interface{} result must box a
// value of the arm's own element type. The compiler accepts any type there (an untyped
// constant takes its default type: complex(1e20, 0) is a complex128 in every arm), and the
// consumer - binary.Write, a type assertion - then sees the wrong width.
func boxedValueMismatch(rc *RC, ts *TypedSwitch, arm *Arm, label types.BasicKind) string {
	info := ts.FI.Pkg.TypesInfo
	sig, ok := ts.FI.Obj.Type().(*types.Signature)
	if !ok || sig.Results().Len() == 0 {
		return ""
	}
	bad := ""
	for _, st := range arm.Clause.Body {
		ast.Inspect(st, func(n ast.Node) bool {
			if _, isLit := n.(*ast.FuncLit); isLit {
				return false
			}
			ret, ok := n.(*ast.ReturnStmt)
			if !ok || len(ret.Results) != sig.Results().Len() {
				return true
			}
			for i, e := range ret.Results {
				if _, isIface := sig.Results().At(i).Type().Underlying().(*types.Interface); !isIface {
					continue
				}
				tv, ok := info.Types[e]
				if !ok || tv.Type == nil {
					continue
				}
				b, ok := tv.Type.Underlying().(*types.Basic)
				if !ok || b.Kind() == types.UntypedNil || b.Info()&types.IsNumeric == 0 {
					continue
				}
				k := b.Kind()
				switch k { // default types of untyped constants
				case types.UntypedInt:
					k = types.Int
				case types.UntypedFloat:
					k = types.Float64
				case types.UntypedComplex:
					k = types.Complex128
				case types.UntypedRune:
					k = types.Int32
				}
				if k != label && bad == "" {
					bad = fmt.Sprintf("arm labelled %s returns a %s boxed in interface{} at %s (an untyped constant takes its default type)", types.Typ[label].Name(), types.Typ[k].Name(), rc.P.Pos(e.Pos()))
				}
			}
			return true
		})
	}
	return bad
}
