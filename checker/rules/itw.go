package rules

import (
	"fmt"
	"go/ast"
	"go/types"
	"strings"
)

// ITW: the iterator-driven fills write only where the iterator points. (*array).memsetIter and
// (*array).zeroIter are what Memset and Zero use for a view that is not contiguous: the element
// offsets come from the view's iterator, one per it.Next(). An arm that sweeps its typed slice by
// `range` (or by a counting loop) writes the whole backing window - the parent's elements that lie
// between the view's elements included (seeds RHC04a, RHC17b: one arm of the type switch, a type
// class with no sibling for the arm comparison). Decided on the AST with resolved types: every
// loop in these functions that assigns to an indexed element is a `for` loop whose init and post
// statements take the index from a Next-method of the Iterator parameter, and the index used is
// that variable.
func ITW(rc *RC) {
	rc.S.Declare("ITW", "iterator-driven fills: in (*array).memsetIter and (*array).zeroIter every loop that assigns to an indexed element takes the index from the Iterator parameter's Next() in its init and post statements (no range / counting loop over the backing slice)", 2)
	for _, key := range []string{"tensor.(*array).memsetIter", "tensor.(*array).zeroIter"} {
		fi := anchor(rc, "ITW", key)
		if fi == nil {
			continue
		}
		pos := rc.P.Pos(fi.Decl.Pos())
		info := fi.Pkg.TypesInfo
		// the Iterator parameter(s)
		iters := map[types.Object]bool{}
		for _, f := range fi.Decl.Type.Params.List {
			for _, n := range f.Names {
				if o := info.Defs[n]; o != nil {
					if nt, ok := o.Type().(*types.Named); ok && nt.Obj().Name() == "Iterator" {
						iters[o] = true
					}
				}
			}
		}
		if len(iters) == 0 {
			rc.S.Undec("ITW", key, pos, "no Iterator parameter")
			continue
		}
		// nextFrom: stmt is `i, err = it.Next...()`; returns the index object
		nextFrom := func(s ast.Stmt) types.Object {
			as, ok := s.(*ast.AssignStmt)
			if !ok || len(as.Rhs) != 1 || len(as.Lhs) < 1 {
				return nil
			}
			call, ok := as.Rhs[0].(*ast.CallExpr)
			if !ok {
				return nil
			}
			sel, ok := call.Fun.(*ast.SelectorExpr)
			if !ok || !strings.HasPrefix(sel.Sel.Name, "Next") {
				return nil
			}
			id, ok := sel.X.(*ast.Ident)
			if !ok || !iters[info.Uses[id]] {
				return nil
			}
			if l, ok := as.Lhs[0].(*ast.Ident); ok {
				if o := info.Uses[l]; o != nil {
					return o
				}
				return info.Defs[l]
			}
			return nil
		}
		indexedWrites := func(body *ast.BlockStmt) (idx []*ast.IndexExpr) {
			ast.Inspect(body, func(n ast.Node) bool {
				switch x := n.(type) {
				case *ast.AssignStmt:
					for _, l := range x.Lhs {
						if ie, ok := l.(*ast.IndexExpr); ok {
							idx = append(idx, ie)
						}
					}
				case *ast.IncDecStmt:
					if ie, ok := x.X.(*ast.IndexExpr); ok {
						idx = append(idx, ie)
					}
				}
				return true
			})
			return
		}
		n := 0
		var bad []string
		ast.Inspect(fi.Decl.Body, func(m ast.Node) bool {
			switch x := m.(type) {
			case *ast.RangeStmt:
				if w := indexedWrites(x.Body); len(w) > 0 {
					n++
					bad = append(bad, fmt.Sprintf("range loop at %s assigns to %s[...]: it sweeps the backing slice instead of following the iterator, so elements outside the view are overwritten", rc.P.Pos(x.Pos()), types.ExprString(w[0].X)))
				}
			case *ast.ForStmt:
				w := indexedWrites(x.Body)
				if len(w) == 0 {
					return true
				}
				n++
				var io, po types.Object
				if x.Init != nil {
					io = nextFrom(x.Init)
				}
				if x.Post != nil {
					po = nextFrom(x.Post)
				}
				if io == nil || po == nil || io != po {
					bad = append(bad, fmt.Sprintf("loop at %s assigns to %s[...] but does not take its index from the iterator's Next() in both init and post", rc.P.Pos(x.Pos()), types.ExprString(w[0].X)))
					return true
				}
				for _, ie := range w {
					id, ok := ie.Index.(*ast.Ident)
					if !ok || info.Uses[id] != io {
						bad = append(bad, fmt.Sprintf("loop at %s assigns to %s[%s]: the index is not the offset the iterator returned", rc.P.Pos(x.Pos()), types.ExprString(ie.X), types.ExprString(ie.Index)))
					}
				}
			}
			return true
		})
		switch {
		case len(bad) > 0:
			rc.S.Viol("ITW", key, pos, strings.Join(uniq(bad), "; ")).Sig = "fill not iterator-driven"
		case n == 0:
			rc.S.Ok("ITW", key, pos, "no loop assigns to an indexed element in this function (another form): not judged")
		default:
			rc.S.Ok("ITW", key, pos, fmt.Sprintf("%d element-writing loop(s), all driven by the iterator's Next()", n))
		}
	}
}
