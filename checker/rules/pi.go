package rules

import (
	"fmt"
	"go/ast"
	"go/token"
	"go/types"
	"sort"
	"strings"

)

// PI: parameter integrity at delegation. The public operations are thin wrappers: a package
// function or a Dense method looks up the capability on the tensor's engine and hands its own
// arguments over (`am.argmaxDenseTensor(t, axis)`, `sumer.Sum(t, along...)`, `mm.MatMul(a, b,
// prealloc)`). What the caller asked for is what the engine must be asked for: a parameter that
// is passed on to a method of an engine capability interface must reach that call with the
// value the caller gave - the wrapper does not assign to it (an `axis = AllAxes` shortcut for
// "vectors", a clamped index, a swapped operand).
//
// Instances are discovered: every call whose callee is a method of an interface type declared
// in the module and whose argument list contains a bare parameter of the enclosing function.
// The obligation fails when that parameter is assigned anywhere in the function (plain
// assignment, op=, ++/--, or its address taken).

func PI(rc *RC, floor int) {
	rc.S.Declare("PI", "parameter integrity at delegation: a parameter that a wrapper hands to a method of an engine capability interface is never assigned in the wrapper (the engine is asked what the caller asked)", floor)
	for _, fi := range rc.P.SortedFuncs() {
		if fi.Pkg != rc.P.Root || fi.Decl == nil || fi.Decl.Body == nil || strings.HasSuffix(fi.File, "_test.go") || !fi.Obj.Exported() {
			continue // the public wrappers; an internal worker may normalise what it was handed (t = t.Materialize())
		}
		info := fi.Pkg.TypesInfo
		params := map[types.Object]string{}
		if fi.Decl.Type.Params != nil {
			for _, f := range fi.Decl.Type.Params.List {
				for _, n := range f.Names {
					if o := info.Defs[n]; o != nil {
						params[o] = n.Name
					}
				}
			}
		}
		if len(params) == 0 {
			continue
		}
		// parameters handed to interface-method calls
		handed := map[types.Object][]string{}
		ast.Inspect(fi.Decl.Body, func(n ast.Node) bool {
			call, ok := n.(*ast.CallExpr)
			if !ok {
				return true
			}
			sel, ok := call.Fun.(*ast.SelectorExpr)
			if !ok {
				return true
			}
			s := info.Selections[sel]
			if s == nil || s.Kind() != types.MethodVal {
				return true
			}
			recvT := s.Recv()
			named, _ := recvT.(*types.Named)
			if named == nil {
				if p, isP := recvT.(*types.Pointer); isP {
					named, _ = p.Elem().(*types.Named)
				}
			}
			if named == nil || named.Obj().Pkg() == nil || named.Obj().Pkg() != fi.Pkg.Types {
				return true
			}
			if _, isIface := named.Underlying().(*types.Interface); !isIface {
				return true
			}
			// the capability interfaces: the receiver expression is a local/asserted engine value,
			// not the tensor itself (t.Shape() on a Tensor parameter is a query, not a delegation)
			if id, isId := sel.X.(*ast.Ident); isId {
				if _, isParam := params[info.Uses[id]]; isParam {
					return true
				}
			}
			for _, a := range call.Args {
				id, isId := a.(*ast.Ident)
				if !isId {
					continue
				}
				if o := info.Uses[id]; o != nil {
					if _, isParam := params[o]; isParam {
						handed[o] = append(handed[o], named.Obj().Name()+"."+sel.Sel.Name)
					}
				}
			}
			return true
		})
		if len(handed) == 0 {
			continue
		}
		assigned := map[types.Object]token.Pos{}
		mark := func(e ast.Expr, pos token.Pos) {
			if id, ok := e.(*ast.Ident); ok {
				if o := info.Uses[id]; o != nil {
					if _, isParam := params[o]; isParam {
						if _, seen := assigned[o]; !seen {
							assigned[o] = pos
						}
					}
				}
			}
		}
		ast.Inspect(fi.Decl.Body, func(n ast.Node) bool {
			switch x := n.(type) {
			case *ast.AssignStmt:
				for _, l := range x.Lhs {
					mark(l, x.Pos())
				}
			case *ast.IncDecStmt:
				mark(x.X, x.Pos())
			case *ast.UnaryExpr:
				if x.Op == token.AND {
					mark(x.X, x.Pos())
				}
			case *ast.RangeStmt:
				if x.Tok == token.ASSIGN {
					if x.Key != nil {
						mark(x.Key, x.Pos())
					}
					if x.Value != nil {
						mark(x.Value, x.Pos())
					}
				}
			}
			return true
		})
		var objs []types.Object
		for o := range handed {
			objs = append(objs, o)
		}
		sort.Slice(objs, func(i, j int) bool { return params[objs[i]] < params[objs[j]] })
		for _, o := range objs {
			key := fi.Key + "#" + params[o]
			pos := rc.P.Pos(fi.Decl.Pos())
			callees := uniq(handed[o])
			if at, bad := assigned[o]; bad {
				rc.S.Viol("PI", key, rc.P.Pos(at), fmt.Sprintf("%s assigns its parameter %s and then hands it to %s: the engine is not asked what the caller asked", fi.Key, params[o], strings.Join(callees, ", "))).Sig = "assigned " + params[o]
				continue
			}
			rc.S.Ok("PI", key, pos, fmt.Sprintf("%s reaches %s as given", params[o], strings.Join(callees, ", ")))
		}
	}
}

// K12: dispatch completeness. The typed dispatchers of internal/execution produce no result
// themselves: every successful return lies inside (or after) the switch over the element type,
// where a kernel has been called. A success return in front of the switch - a "nothing to do"
// shortcut keyed on a size, a length or a flag - returns without the kernel's effect (the
// first-axis fold, for instance, starts by copying the first block into the result: skipping it
// for a one-block input leaves the result untouched).
func K12(rc *RC, floor int) {
	rc.S.Declare("K12", "dispatch completeness: in every typed dispatcher of internal/execution no successful return precedes the switch over the element type (only refusals with a constructed error do)", floor)
	for _, fi := range rc.P.SortedFuncs() {
		if fi.Decl == nil || fi.Decl.Body == nil || fi.Decl.Recv == nil || !strings.HasSuffix(fi.Pkg.PkgPath, "internal/execution") || !strings.HasPrefix(fi.File, "eng_") {
			continue
		}
		tss := TypedSwitches(rc.P, fi)
		if len(tss) == 0 {
			continue
		}
		ts := tss[0]
		// top-level statements in front of the switch
		var front []ast.Stmt
		top := false
		for _, st := range fi.Decl.Body.List {
			if st == ts.Node {
				top = true
				break
			}
			front = append(front, st)
		}
		pos := rc.P.Pos(fi.Decl.Pos())
		if !top {
			rc.S.Ok("K12", fi.Key, pos, "typed switch is nested: not a plain dispatcher").Trivial = true
			continue
		}
		sig := fi.Obj.Type().(*types.Signature)
		errIdx := -1
		for i := 0; i < sig.Results().Len(); i++ {
			if sig.Results().At(i).Type().String() == "error" {
				errIdx = i
			}
		}
		bad := ""
		for _, st := range front {
			ast.Inspect(st, func(n ast.Node) bool {
				if _, isLit := n.(*ast.FuncLit); isLit {
					return false
				}
				ret, ok := n.(*ast.ReturnStmt)
				if !ok || bad != "" {
					return true
				}
				refusal := false
				if errIdx >= 0 && len(ret.Results) == sig.Results().Len() {
					if call, isCall := ret.Results[errIdx].(*ast.CallExpr); isCall {
						if sel, isSel := call.Fun.(*ast.SelectorExpr); isSel {
							if x, isId := sel.X.(*ast.Ident); isId && (x.Name == "errors" || x.Name == "fmt") {
								refusal = true
							}
						}
					}
				}
				if !refusal {
					bad = fmt.Sprintf("return at %s precedes the switch over the element type and is not a refusal", rc.P.Pos(ret.Pos()))
				}
				return true
			})
		}
		if bad != "" {
			rc.S.Viol("K12", fi.Key, pos, bad)
		} else {
			rc.S.Ok("K12", fi.Key, pos, fmt.Sprintf("%d statements precede the switch, none returns successfully", len(front)))
		}
	}
}
