package rules

import (
	"fmt"
	"go/token"
	"go/types"
	"sort"
	"strings"

	"golang.org/x/tools/go/ssa"

	"tcheck/load"
)

// ---------------------------------------------------------------------------------------
// O6: a recycled object carries no state: ReturnTensor stores a zero value into every leaf
// field of Dense before the object reaches the pool.

// leafFields enumerates the leaf field paths of a struct type (embedded and nested structs
// of the module are expanded; foreign struct types and non-struct fields are leaves).
func leafFields(t types.Type, prefix string, out *[]string) {
	st, ok := t.Underlying().(*types.Struct)
	if !ok {
		*out = append(*out, strings.TrimPrefix(prefix, "."))
		return
	}
	if n, ok := t.(*types.Named); ok && n.Obj().Pkg() != nil && !strings.HasPrefix(n.Obj().Pkg().Path(), load.Module) {
		*out = append(*out, strings.TrimPrefix(prefix, "."))
		return
	}
	if st.NumFields() == 0 {
		*out = append(*out, strings.TrimPrefix(prefix, "."))
		return
	}
	for i := 0; i < st.NumFields(); i++ {
		f := st.Field(i)
		leafFields(f.Type(), prefix+"."+f.Name(), out)
	}
}

// addrPath renders the field path of an address relative to root; ok=false if the address
// is not rooted at root.
func addrPath(v ssa.Value, root ssa.Value) (string, bool) {
	switch x := v.(type) {
	case *ssa.FieldAddr:
		p, ok := addrPath(x.X, root)
		if !ok {
			return "", false
		}
		st := x.X.Type().Underlying().(*types.Pointer).Elem().Underlying().(*types.Struct)
		if p == "" {
			return st.Field(x.Field).Name(), true
		}
		return p + "." + st.Field(x.Field).Name(), true
	default:
		if v == root {
			return "", true
		}
	}
	return "", false
}

func isZeroValue(v ssa.Value) bool {
	switch x := v.(type) {
	case *ssa.Const:
		if x.Value == nil {
			return true // nil / zero struct
		}
		s := x.Value.ExactString()
		return s == "0" || s == "false" || s == `""`
	case *ssa.MakeInterface:
		return isZeroValue(x.X)
	case *ssa.UnOp:
		// load of a local that only ever held a zero composite
		if al, ok := x.X.(*ssa.Alloc); ok && x.Op == token.MUL {
			n := 0
			for _, r := range *al.Referrers() {
				if s, ok := r.(*ssa.Store); ok && s.Addr == al {
					n++
					if !isZeroValue(s.Val) {
						return false
					}
				}
			}
			return true
		}
	}
	return false
}

// zeroed computes, for a function, the receiver/parameter-relative field paths that are
// stored with a zero value (transitively through callees on sub-objects).
func zeroedPaths(fn *ssa.Function, root ssa.Value, depth int, nonZero map[string]string) map[string]bool {
	out := map[string]bool{}
	if depth > 4 || fn == nil {
		return out
	}
	for _, b := range fn.Blocks {
		for _, ins := range b.Instrs {
			switch x := ins.(type) {
			case *ssa.Store:
				if p, ok := addrPath(x.Addr, root); ok && p != "" {
					if isZeroValue(x.Val) {
						out[p] = true
					} else if nonZero != nil {
						nonZero[p] = x.Val.String()
					}
				}
			case ssa.CallInstruction:
				cc := x.Common()
				f := cc.StaticCallee()
				if f == nil || f.Blocks == nil || len(cc.Args) == 0 {
					continue
				}
				if p, ok := addrPath(cc.Args[0], root); ok && len(f.Params) > 0 {
					sub := zeroedPaths(f, f.Params[0], depth+1, nil)
					for q := range sub {
						if p == "" {
							out[q] = true
						} else {
							out[p+"."+q] = true
						}
					}
				}
			}
		}
	}
	return out
}

func O6(rc *RC) {
	rc.S.Declare("O6", "pool hygiene: ReturnTensor stores a zero value into every leaf field of Dense (incl. embedded AP, array header, old, mask) before the object is sent to the pool", 12)
	fi := rc.P.Func("tensor.ReturnTensor")
	if fi == nil {
		rc.S.Undec("O6", "tensor.ReturnTensor", "-", "unresolved anchor")
		return
	}
	fn := rc.P.SSAFunc(fi)
	pos := rc.P.Pos(fi.Decl.Pos())
	// root: the *Dense obtained from the type switch
	var root ssa.Value
	var dense types.Type
	for _, b := range fn.Blocks {
		for _, ins := range b.Instrs {
			if ta, ok := ins.(*ssa.TypeAssert); ok {
				if pt, ok := ta.AssertedType.(*types.Pointer); ok {
					if n, ok := pt.Elem().(*types.Named); ok && n.Obj().Name() == "Dense" {
						// commaok form yields a tuple; find the extract
						if ta.CommaOk {
							for _, r := range *ta.Referrers() {
								if ex, ok := r.(*ssa.Extract); ok && ex.Index == 0 {
									root = ex
								}
							}
						} else {
							root = ta
						}
						dense = n
					}
				}
			}
		}
	}
	if root == nil {
		rc.S.Undec("O6", "tensor.ReturnTensor", pos, "no *Dense case found")
		return
	}
	var leaves []string
	leafFields(dense, "", &leaves)
	nonZero := map[string]string{}
	z := zeroedPaths(fn, root, 0, nonZero)
	covered := func(leaf string) bool {
		// a zero store to a prefix (whole struct) covers its leaves
		parts := strings.Split(leaf, ".")
		for i := 1; i <= len(parts); i++ {
			if z[strings.Join(parts[:i], ".")] {
				return true
			}
		}
		return false
	}
	sort.Strings(leaves)
	for _, l := range leaves {
		key := "tensor.ReturnTensor#Dense." + l
		if covered(l) {
			if nz, bad := nonZero[l]; bad {
				rc.S.Viol("O6", key, pos, fmt.Sprintf("field %s is also stored with a non-zero value (%s) on the way to the pool", l, nz)).Sig = "nonzero"
				continue
			}
			rc.S.Ok("O6", key, pos, "reset before the object is pooled")
		} else {
			why := "never reset"
			if nz, ok := nonZero[l]; ok {
				why = "stored with " + nz + " instead of its zero value"
			}
			rc.S.Viol("O6", key, pos, fmt.Sprintf("field %s of a recycled Dense is %s: the next borrower inherits state of the previous owner", l, why)).Sig = why
		}
	}
}

// ---------------------------------------------------------------------------------------
// O8: pool-managed metadata has one owner. An access pattern (AP: shape and strides slices
// that AP.zero/SetShape return to the ints pool) read out of one object may be stored into
// another location only as a move (the source field is overwritten in the same function)
// or after cloning.

func isAPType(t types.Type) bool {
	n, ok := t.(*types.Named)
	return ok && n.Obj().Name() == "AP" && n.Obj().Pkg() != nil && n.Obj().Pkg().Path() == load.Module
}

func baseObject(v ssa.Value) ssa.Value {
	for {
		switch x := v.(type) {
		case *ssa.FieldAddr:
			v = x.X
		case *ssa.IndexAddr:
			v = x.X
		default:
			return v
		}
	}
}

// nonLocalAddr: the address does not lie in a local variable of AP type (an Alloc of another
// struct type is an object under construction, e.g. new(Dense), and counts as an object).
func nonLocalAddr(v ssa.Value) bool {
	b := baseObject(v)
	if al, ok := b.(*ssa.Alloc); ok {
		return !isAPType(al.Type().(*types.Pointer).Elem())
	}
	return true
}

// allocRecycled: the local AP is handed to a function that returns its slices to the pool,
// directly or inside a closure that captures it.
func allocRecycled(al *ssa.Alloc) string {
	recycler := func(refs []ssa.Instruction) string {
		for _, rf := range refs {
			if ci, ok := rf.(ssa.CallInstruction); ok {
				if f := ci.Common().StaticCallee(); f != nil && (f.Name() == "zero" || f.Name() == "SetShape" || f.Name() == "zeroWithDims") {
					return f.Name()
				}
			}
		}
		return ""
	}
	if r := recycler(*al.Referrers()); r != "" {
		return r
	}
	for _, rf := range *al.Referrers() {
		mc, ok := rf.(*ssa.MakeClosure)
		if !ok {
			continue
		}
		fn := mc.Fn.(*ssa.Function)
		for i, b := range mc.Bindings {
			if b == al && i < len(fn.FreeVars) {
				if r := recycler(*fn.FreeVars[i].Referrers()); r != "" {
					return r + " (in a deferred closure)"
				}
			}
		}
	}
	return ""
}

var o8Except = map[string]string{
	"tensor.(*Dense).Norm":     "saves and restores its own AP around a temporary reshape; Norm is outside every property",
	"tensor.(*Dense).Format":   "formats the AP by value",
	"tensor.(*Dense).setAP":    "ownership hand-over helper: callers are checked (their argument must be a fresh AP)",
	"tensor.(*Dense).setOldAP": "ownership hand-over helper: callers are checked (their argument must be a fresh AP)",
}

func O8(rc *RC) { O8f(rc, nil, 2) } // floor: the alias loads that exist on the reviewed tree (ShallowClone stopped being one when finding 33 was fixed)

// O8f restricts the report to functions selected by only.
func O8f(rc *RC, only func(fnKey string) bool, floor int) {
	rc.S.Declare("O8", "unique owner of pool-managed metadata: an AP (or its shape/strides slices, or transposeWith) read out of an object is stored elsewhere only as a move or after Clone; no exported function returns such an alias; no local alias is zeroed into the pool", floor)
	p := rc.P
	p.SSA()
	type apLoad struct {
		fn  *ssa.Function
		ld  *ssa.UnOp
		src string
	}
	// summaries: functions that return an alias of an AP reachable from a parameter
	returnsAlias := map[*ssa.Function]bool{}
	var fns []*ssa.Function
	for _, fn := range p.ModuleFuncs() {
		if fn.Pkg != nil && fn.Pkg.Pkg.Path() == load.Module && !strings.HasPrefix(p.FileOf(fn.Pos()), "sparse") {
			fns = append(fns, fn)
		}
	}
	isAliasSource := func(v ssa.Value) (string, bool) {
		switch x := v.(type) {
		case *ssa.UnOp:
			if x.Op == token.MUL && isAPType(x.Type()) && nonLocalAddr(x.X) {
				return "load of " + x.X.String(), true
			}
			// the transpose axes of a tensor are pool-managed like its access patterns
			if x.Op == token.MUL {
				if fa, ok := x.X.(*ssa.FieldAddr); ok && nonLocalAddr(x.X) {
					if f, ok := fieldOfDense(fa); ok && f == "transposeWith" {
						return "load of " + x.X.String(), true
					}
				}
			}
		case *ssa.Call:
			if f := x.Common().StaticCallee(); f != nil && returnsAlias[f] {
				return "result of " + f.Name() + " (returns an alias)", true
			}
		case *ssa.Extract:
			if c, ok := x.Tuple.(*ssa.Call); ok && x.Index == 0 {
				if f := c.Common().StaticCallee(); f != nil && returnsAlias[f] && isAPType(x.Type()) {
					return "result of " + f.Name() + " (returns an alias)", true
				}
			}
		}
		return "", false
	}
	// fixpoint for returnsAlias
	for changed := true; changed; {
		changed = false
		for _, fn := range fns {
			if returnsAlias[fn] {
				continue
			}
			for _, b := range fn.Blocks {
				for _, ins := range b.Instrs {
					if r, ok := ins.(*ssa.Return); ok {
						for _, v := range r.Results {
							if !isAPType(v.Type()) {
								continue
							}
							if _, ok := isAliasSource(v); ok {
								returnsAlias[fn] = true
								changed = true
							}
							// through a local: *alloc where alloc was stored an alias
							if u, ok := v.(*ssa.UnOp); ok {
								if al, ok := u.X.(*ssa.Alloc); ok {
									for _, rf := range *al.Referrers() {
										if s, ok := rf.(*ssa.Store); ok && s.Addr == al {
											if _, ok := isAliasSource(s.Val); ok {
												returnsAlias[fn] = true
												changed = true
											}
										}
									}
								}
							}
						}
					}
				}
			}
		}
	}
	// obligations
	for _, fn := range fns {
		fkey := oFnKey(fn)
		if only != nil && !only(fkey) {
			continue
		}
		if why, ok := o8Except[fkey]; ok {
			rc.S.Except("O8 "+fkey, why)
			continue
		}
		n := 0
		for _, b := range fn.Blocks {
			for _, ins := range b.Instrs {
				switch x := ins.(type) {
				case *ssa.Store:
					if !isAPType(x.Val.Type()) && !isTransposeWithLoad(x.Val) {
						continue
					}
					src, isAlias := isAliasSource(x.Val)
					if !isAlias {
						continue
					}
					n++
					key := fmt.Sprintf("%s#store%d", fkey, n)
					pos := p.Pos(x.Pos())
					// destination
					if !nonLocalAddr(x.Addr) {
						// local alias: must not be zeroed into the pool nor escape
						al := baseObject(x.Addr).(*ssa.Alloc)
						bad := ""
						if r := allocRecycled(al); r != "" {
							bad = "the local alias is handed to " + r + ", which returns the source's shape/strides to the ints pool"
						}
						if bad != "" {
							rc.S.Viol("O8", key, pos, fmt.Sprintf("%s: AP alias (%s) kept in a local: %s", fkey, src, bad)).Sig = "local alias zeroed"
						} else {
							rc.S.Ok("O8", key, pos, "local by-value copy, never recycled")
						}
						continue
					}
					// same object move?
					srcBase, dstBase := ssa.Value(nil), baseObject(x.Addr)
					if u, ok := x.Val.(*ssa.UnOp); ok {
						srcBase = baseObject(u.X)
					}
					if srcBase != nil && srcBase == dstBase {
						// move within one object: the source field must be overwritten in this function
						srcAddr := x.Val.(*ssa.UnOp).X
						sp, _ := addrPath(srcAddr, srcBase)
						moved := false
						for _, b2 := range fn.Blocks {
							for _, in2 := range b2.Instrs {
								switch y := in2.(type) {
								case *ssa.Store:
									if q, ok := addrPath(y.Addr, srcBase); ok && (q == sp || strings.HasPrefix(q, sp+".")) && y != x {
										moved = true
									}
								case ssa.CallInstruction:
									if f := y.Common().StaticCallee(); f != nil && len(y.Common().Args) > 0 && (f.Name() == "zeroOnly" || f.Name() == "zero") {
										if q, ok := addrPath(y.Common().Args[0], srcBase); ok && q == sp {
											moved = true
										}
									}
								}
							}
						}
						if moved {
							rc.S.Ok("O8", key, pos, "move within one object: source field "+sp+" is overwritten")
						} else {
							rc.S.Viol("O8", key, pos, fmt.Sprintf("%s duplicates its own AP field %s into another field without clearing the source", fkey, sp)).Sig = "duplicate within object"
						}
						continue
					}
					o := rc.S.Viol("O8", key, pos, fmt.Sprintf("%s stores an AP alias (%s) into %s: two objects now own the same shape/strides slices, and either one recycles them (AP.zero, SetShape, ReturnTensor)", fkey, src, x.Addr.String()))
					o.Sig = "alias stored into another object"
				case *ssa.Return:
					if !oExported(fn) {
						continue
					}
					for _, v := range x.Results {
						if !isAPType(v.Type()) {
							continue
						}
						if src, ok := isAliasSource(v); ok {
							n++
							o := rc.S.Viol("O8", fmt.Sprintf("%s#return%d", fkey, n), p.Pos(x.Pos()), fmt.Sprintf("exported %s returns an alias of a live access pattern (%s) instead of a clone", fkey, src))
							o.Sig = "exported function returns alias"
						}
					}
				}
			}
		}
	}
	// callers of the hand-over helpers must pass a fresh AP
	for _, fn := range fns {
		for _, b := range fn.Blocks {
			for _, ins := range b.Instrs {
				ci, ok := ins.(ssa.CallInstruction)
				if !ok {
					continue
				}
				f := ci.Common().StaticCallee()
				if f == nil || (f.Name() != "setAP" && f.Name() != "setOldAP") || len(ci.Common().Args) < 2 {
					continue
				}
				arg := ci.Common().Args[1]
				key := fmt.Sprintf("%s->%s", oFnKey(fn), f.Name())
				if nonLocalAddr(arg) {
					rc.S.Viol("O8", key, p.Pos(ins.Pos()), fmt.Sprintf("%s hands %s the address of an AP that lives in another object", oFnKey(fn), f.Name())).Sig = "setAP of live AP"
				} else {
					// the local must itself not hold an alias
					al := baseObject(arg).(*ssa.Alloc)
					bad := false
					for _, rf := range *al.Referrers() {
						if s, ok := rf.(*ssa.Store); ok && s.Addr == al {
							if _, isAlias := isAliasSource(s.Val); isAlias {
								bad = true
							}
						}
					}
					if bad {
						rc.S.Viol("O8", key, p.Pos(ins.Pos()), fmt.Sprintf("%s hands %s a local AP that aliases a live one", oFnKey(fn), f.Name())).Sig = "setAP of alias"
					} else {
						rc.S.Ok("O8", key, p.Pos(ins.Pos()), "fresh AP handed over")
					}
				}
			}
		}
	}
}

// ---------------------------------------------------------------------------------------
// O7: tensors handed to ReturnTensor inside the library are created in that function; a
// parameter may be recycled only under the guard that it is not the caller's reuse tensor.

var o7Fresh = map[string]bool{"Clone": true, "Materialize": true, "New": true, "NewDense": true, "recycledDense": true, "borrowDense": true, "SafeT": true, "recycledDenseNoFix": true, "ShallowClone": true, // a fresh header with its own metadata (rule O8, since fix of finding 33); ReturnTensor resets header fields only and never frees the shared storage
	"TensorMul": true, // returns the tensor it builds from clones of its operands (no reuse option)
}

// o7Guards: function -> (parameter recycled, parameter it must be distinguished from)
var o7Guards = map[string][2]string{"tensor.handleIncr": {"res", "reuse"}}

func O7(rc *RC, a *oAnalysis) {
	rc.S.Declare("O7", "ReturnTensor inside the library only receives tensors created in the same function, or a parameter under the guard that it is not the caller's reuse tensor", 4)
	for _, fn := range a.fns {
		if a.p.FileOf(fn.Pos()) == "perf.go" {
			continue
		}
		n := 0
		for _, b := range fn.Blocks {
			for _, ins := range b.Instrs {
				ci, ok := ins.(ssa.CallInstruction)
				if !ok {
					continue
				}
				f := ci.Common().StaticCallee()
				if f == nil || f.Name() != "ReturnTensor" || len(ci.Common().Args) != 1 {
					continue
				}
				n++
				key := fmt.Sprintf("%s#ReturnTensor%d", oFnKey(fn), n)
				pos := a.p.Pos(ins.Pos())
				out := map[oOrigin]bool{}
				a.origins(ci.Common().Args[0], map[ssa.Value]bool{}, out)
				var kinds []string
				bad := ""
				paramIdx := -1
				for o := range out {
					kinds = append(kinds, o.String())
					switch o.kind {
					case "call":
						if !o7Fresh[o.name] {
							bad = "tensor obtained from " + o.name + "(), which is not a constructor of a fresh tensor"
						}
					case "param":
						if o.fn == fn {
							paramIdx = o.idx
						} else {
							bad = "captured parameter of the enclosing function"
						}
					case "const":
					default:
						bad = "tensor of origin " + o.String()
					}
				}
				sort.Strings(kinds)
				if bad == "" && paramIdx >= 0 {
					g, ok := o7Guards[oFnKey(fn)]
					if !ok || fn.Params[paramIdx].Name() != g[0] {
						bad = fmt.Sprintf("parameter %s is recycled: the caller may still hold it", fn.Params[paramIdx].Name())
					} else if !guardedNeq(fn, b, fn.Params[paramIdx], g[1]) {
						bad = fmt.Sprintf("parameter %s is recycled without the guard %s != %s: a caller-owned reuse tensor would be wiped and pooled", g[0], g[0], g[1])
					}
				}
				if bad != "" {
					rc.S.Viol("O7", key, pos, oFnKey(fn)+": "+bad).Sig = bad
				} else {
					rc.S.Ok("O7", key, pos, "origin "+strings.Join(kinds, ","))
				}
			}
		}
	}
}

// guardedNeq: block b is dominated by the true edge of `x != <param named other>`.
func guardedNeq(fn *ssa.Function, b *ssa.BasicBlock, x *ssa.Parameter, other string) bool {
	strip := func(v ssa.Value) ssa.Value {
		for {
			switch y := v.(type) {
			case *ssa.MakeInterface:
				v = y.X
			case *ssa.ChangeInterface:
				v = y.X
			default:
				return v
			}
		}
	}
	for _, blk := range fn.Blocks {
		if len(blk.Instrs) == 0 {
			continue
		}
		ifi, ok := blk.Instrs[len(blk.Instrs)-1].(*ssa.If)
		if !ok {
			continue
		}
		bo, ok := ifi.Cond.(*ssa.BinOp)
		if !ok || (bo.Op != token.NEQ && bo.Op != token.EQL) {
			continue
		}
		l, r := strip(bo.X), strip(bo.Y)
		lp, lok := l.(*ssa.Parameter)
		rp, rok := r.(*ssa.Parameter)
		if !lok || !rok {
			continue
		}
		if !((lp == x && rp.Name() == other) || (rp == x && lp.Name() == other)) {
			continue
		}
		succ := blk.Succs[0]
		if bo.Op == token.EQL {
			succ = blk.Succs[1]
		}
		// the edge must be the only way into succ, and succ must dominate b
		if len(succ.Preds) == 1 && succ.Dominates(b) {
			return true
		}
	}
	return false
}

var _ = types.Typ

// ---------------------------------------------------------------------------------------
// V1: storage provenance of copying constructors. The tensor returned by Clone, Materialize,
// SafeT (and through them the api forms T/Transpose/Copy-into-fresh) must own fresh storage:
// nothing loaded from the source's array / Header / Raw / mask may be stored into the
// result's storage fields, and element data must be copied by a copy primitive.
var v1Copying = []string{"tensor.(*Dense).Clone", "tensor.(*Dense).Materialize", "tensor.(*Dense).SafeT"}

func V1(rc *RC) {
	rc.S.Declare("V1", "storage provenance: copying constructors (Clone, Materialize, SafeT) give the result freshly allocated storage, never a value loaded from the source's array/Header/Raw/mask, and copy the elements with a copy primitive", 3)
	p := rc.P
	p.SSA()
	storageField := func(fa *ssa.FieldAddr) (string, bool) {
		pt, ok := fa.X.Type().Underlying().(*types.Pointer)
		if !ok {
			return "", false
		}
		st, ok := pt.Elem().Underlying().(*types.Struct)
		if !ok {
			return "", false
		}
		n := st.Field(fa.Field).Name()
		switch n {
		case "array", "Header", "Raw", "mask":
			return n, true
		}
		return "", false
	}
	var fromStorage func(v ssa.Value, depth int) (string, bool)
	fromStorage = func(v ssa.Value, depth int) (string, bool) {
		if depth > 8 {
			return "", false
		}
		switch x := v.(type) {
		case *ssa.UnOp:
			if fa, ok := x.X.(*ssa.FieldAddr); ok {
				if n, ok := storageField(fa); ok {
					if _, isParam := baseObject(fa).(*ssa.Parameter); isParam {
						return n, true
					}
				}
			}
		case *ssa.Slice:
			return fromStorage(x.X, depth+1)
		case *ssa.Phi:
			for _, e := range x.Edges {
				if n, ok := fromStorage(e, depth+1); ok {
					return n, true
				}
			}
		case *ssa.Call:
			if f := x.Common().StaticCallee(); f != nil && (f.Name() == "Mask" || f.Name() == "hdr" || f.Name() == "arrPtr" || f.Name() == "arr") && len(x.Common().Args) == 1 {
				if _, isParam := x.Common().Args[0].(*ssa.Parameter); isParam {
					return f.Name() + "()", true
				}
			}
		}
		return "", false
	}
	for _, key := range v1Copying {
		fi := p.Func(key)
		if fi == nil {
			rc.S.Undec("V1", key, "-", "unresolved anchor")
			continue
		}
		fn := p.SSAFunc(fi)
		pos := p.Pos(fi.Decl.Pos())
		var bad []string
		copies, allocs := 0, 0
		for _, b := range fn.Blocks {
			for _, ins := range b.Instrs {
				switch x := ins.(type) {
				case *ssa.Store:
					if fa, ok := x.Addr.(*ssa.FieldAddr); ok {
						if n, ok := storageField(fa); ok {
							if _, isParam := baseObject(fa).(*ssa.Parameter); !isParam {
								if src, shared := fromStorage(x.Val, 0); shared {
									bad = append(bad, fmt.Sprintf("the result's %s is assigned the source's %s at %s: copy and source share storage", n, src, p.Pos(x.Pos())))
								}
							}
						}
					}
				case ssa.CallInstruction:
					if f := x.Common().StaticCallee(); f != nil {
						switch f.Name() {
						case "copyDense", "copyDenseIter", "copyDenseSliced", "copyArray":
							copies++
						case "makeArray", "recycledDense", "NewDense", "New", "malloc":
							allocs++
						case "SetMask", "setParentTensor":
							if f.Name() == "SetMask" && len(x.Common().Args) == 2 {
								if src, shared := fromStorage(x.Common().Args[1], 0); shared {
									bad = append(bad, "the result adopts the source's "+src+" as its mask")
								}
							}
						}
					}
				}
			}
		}
		// Materialize returns the receiver itself when nothing is to materialise: allowed by L1
		if copies == 0 {
			bad = append(bad, "no copy primitive (copyDense/copyDenseIter) moves the elements into the result")
		}
		if allocs == 0 {
			bad = append(bad, "the result's storage is not allocated in this function")
		}
		if len(bad) > 0 {
			rc.S.Viol("V1", key, pos, strings.Join(bad, "; ")).Sig = stripPos(strings.Join(bad, "; "))
		} else {
			rc.S.Ok("V1", key, pos, fmt.Sprintf("%d allocation(s), %d copy primitive call(s), no storage field shared", allocs, copies))
		}
	}
}

// isTransposeWithLoad: v is the value of some tensor's transposeWith field.
func isTransposeWithLoad(v ssa.Value) bool {
	u, ok := v.(*ssa.UnOp)
	if !ok || u.Op != token.MUL {
		return false
	}
	fa, ok := u.X.(*ssa.FieldAddr)
	if !ok {
		return false
	}
	f, ok := fieldOfDense(fa)
	return ok && f == "transposeWith"
}
