package rules

import (
	"fmt"
	"regexp"
	"sort"
	"strings"

	"tcheck/ir"
)

// LF: flat-traversal census. A counting loop (`for i := a; i < n; i += c`, or a range over an
// integer/slice whose index is used) whose body reads or writes tensor elements by the loop
// counter - t.Get(i), t.Set(i, v), t.mask[i], typed accessors - walks the backing array in
// storage order. That is the logical order only for a tensor that needs no iterator AND is
// row-major (or, for a pairwise loop, has the same order as its partner). Sites present on
// the reviewed tree are listed in lfCensus with the reason they are acceptable (or the finding
// that records their defect); a site that is not listed is new code and every path to it must
// have branched on a layout predicate with the safe outcome and consulted a data order.

var lfAccess = regexp.MustCompile(`\.(Get|Set|get[A-Z]\w*|set[A-Z]\w*|Get[A-Z]\w*|Set[A-Z]\w*)\(([^(),]*)`)
var lfMask = regexp.MustCompile(`\.mask\[([^\]]*)\]`)

var orderAtom = regexp.MustCompile(`(\.IsColMajor\(\)|\.IsRowMajor\(\)|\.HasSameOrder\([^)]*\)\)?)$`)

// loopCounter returns the counter variable of a canonical counting loop ("" if none).
func loopCounter(lp *ir.Node) string {
	if lp.Kind == "range" {
		if k := strings.LastIndex(lp.Head, " as "); k >= 0 {
			return lp.Head[k+4:]
		}
		return ""
	}
	if lp.Kind != "loop" {
		return ""
	}
	k := strings.LastIndex(lp.Head, "; ")
	if k < 0 {
		return ""
	}
	post := lp.Head[k+2:]
	e := strings.Index(post, " = ")
	if e <= 0 {
		return ""
	}
	v := post[:e]
	rhs := post[e+3:]
	if strings.HasPrefix(rhs, "("+v+" + ") || strings.HasPrefix(rhs, "("+v+" - ") {
		return v
	}
	return ""
}

type lfSite struct {
	Key, Pos string
	Loop     *ir.Node
}

func LFSites(rc *RC) ([]lfSite, map[string][]ir.Path) {
	var sites []lfSite
	paths := map[string][]ir.Path{}
	for _, fi := range rc.P.AnalysisFuncs() {
		if fi.Pkg != rc.P.Root || fi.Decl.Body == nil || lcGenerated[fi.File] || strings.HasPrefix(fi.File, "sparse") || strings.HasSuffix(fi.File, "_test.go") {
			continue
		}
		_, tree := sCanon(rc, fi)
		var found []*ir.Node
		count := 0
		var mine []lfSite
		for _, lp := range ir.FindLoops(tree) {
			v := loopCounter(lp)
			if v == "" {
				continue
			}
			// accesses directly in this loop's body (not in nested counting loops with their own counter
			// unless they mention v)
			hit := ""
			for _, n := range flatten(lp.Kids) {
				if n.Kind == "loop" || n.Kind == "range" || n.Kind == "if" || n.Kind == "switch" || n.Kind == "case" {
					// heads of ifs may read mask[v] as well
					if n.Kind != "if" {
						continue
					}
				}
				for _, m := range lfAccess.FindAllStringSubmatch(stripFuncLits(n.Head), -1) {
					if ir.HasWord(m[2], v) {
						hit = m[1]
					}
				}
				for _, m := range lfMask.FindAllStringSubmatch(stripFuncLits(n.Head), -1) {
					if ir.HasWord(m[1], v) {
						hit = "mask"
					}
				}
			}
			if hit == "" {
				continue
			}
			count++
			key := fmt.Sprintf("%s#flat%d", fi.Key, count)
			mine = append(mine, lfSite{key, rc.P.Pos(lp.Pos), lp})
			found = append(found, lp)
		}
		if len(mine) == 0 {
			continue
		}
		ps, ok := ir.EnumPaths(tree, 20000)
		if !ok {
			ps = nil
		}
		for _, s := range mine {
			for _, p := range ps {
				for _, st := range p.Steps {
					if st == s.Loop || ((st.Kind == "loop" || st.Kind == "range" || st.Kind == "switch") && containsNode(st, s.Loop)) {
						paths[s.Key] = append(paths[s.Key], p)
						break
					}
				}
			}
		}
		sites = append(sites, mine...)
	}
	sort.Slice(sites, func(i, j int) bool { return sites[i].Key < sites[j].Key })
	return sites, paths
}

func LF(rc *RC, floor int) {
	rc.S.Declare("LF", "flat-traversal census: every counting loop that addresses tensor elements by its counter (Get/Set/mask[i]) in hand-written code is a reviewed site or, if new, is reached only after a branch established that the tensor needs no iterator and after its data order was consulted", floor)
	sites, paths := LFSites(rc)
	for _, s := range sites {
		if why, ok := lfCensus[s.Key]; ok {
			rc.S.Ok("LF", s.Key, s.Pos, "reviewed site: "+why)
			continue
		}
		ps := paths[s.Key]
		if len(ps) == 0 {
			rc.S.Viol("LF", s.Key, s.Pos, "new flat element loop whose paths could not be enumerated").Sig = "new site"
			continue
		}
		bad := ""
		for _, p := range ps {
			f := pathG(p)
			guarded, ordered := false, false
			for _, fm := range f {
				for _, a := range fm.Atoms() {
					if orderAtom.MatchString(a) {
						ordered = true
					}
					if !layoutAtom.MatchString(a) {
						continue
					}
					atom := ir.BAtom(a)
					neg := ir.BNot(atom)
					if strings.HasSuffix(a, "IsZero()") || strings.HasSuffix(a, "== 0)") || a == "%allNoMat" {
						neg = atom
					}
					if ir.Implies(f, neg) {
						guarded = true
					}
				}
			}
			if !guarded {
				bad = fmt.Sprintf("reached with [%s]: no branch established that the tensor needs no iterator", strings.Join(p.Guards, " && "))
				break
			}
			if !ordered {
				bad = fmt.Sprintf("reached with [%s]: the data order was never consulted (a contiguous column-major tensor needs no iterator, yet its storage order is not its logical order)", strings.Join(p.Guards, " && "))
				break
			}
		}
		if bad != "" {
			rc.S.Viol("LF", s.Key, s.Pos, "new loop over the backing array by counter (not in the census of reviewed sites): "+bad).Sig = "new unguarded flat loop"
		} else {
			rc.S.Ok("LF", s.Key, s.Pos, "new site, layout-guarded and order-aware on every path")
		}
	}
}

// IP: iterator pairing at the iterator copy. copyDenseIter(dst, src, diter, siter) walks dst
// with diter and src with siter; an iterator argument is nil (the callee builds it) or a term
// built from its own tensor (dst.Iterator(), newFlatIterator(dst.Info()), an access pattern made
// from src's shape/strides, …). Terms are propagated along every path, so renaming and
// temporaries do not matter; swapped arguments make each term mention the other tensor only.
func IP(rc *RC, floor int) {
	rc.S.Declare("IP", "iterator pairing: at every call copyDenseIter(dst, src, diter, siter) the destination iterator is nil or derived from dst and the source iterator is nil or derived from src (terms propagated along each path)", floor)
	for _, fi := range rc.P.AnalysisFuncs() {
		if fi.Pkg != rc.P.Root || fi.Decl.Body == nil || strings.HasSuffix(fi.File, "_test.go") || fi.Key == "tensor.copyDenseIter" {
			continue
		}
		_, tree := sCanon(rc, fi)
		if !strings.Contains(ir.Render(tree), "copyDenseIter(") {
			continue
		}
		pos := rc.P.Pos(fi.Decl.Pos())
		paths, ok := ir.EnumPaths(tree, 20000)
		if !ok {
			rc.S.Undec("IP", fi.Key, pos, "too many paths")
			continue
		}
		var bad []string
		n := 0
		for _, p := range paths {
			for i, st := range p.Steps {
				j := strings.Index(st.Head, "copyDenseIter(")
				if j < 0 {
					continue
				}
				env := pathEnv(ir.Path{Steps: p.Steps[:i]})
				// the type-switch variable stands for the switched operand
				for _, g := range p.Guards {
					if strings.HasPrefix(g, "typeswitch ") {
						if k := strings.Index(g, ".(type)"); k > 0 {
							env["%ts"] = strings.TrimPrefix(g[:k], "typeswitch ")
						}
					}
				}
				args := splitArgs(st.Head[j+len("copyDenseIter(") : strings.LastIndex(st.Head, ")")])
				if len(args) != 4 {
					continue
				}
				n++
				d, s := substEnv(args[0], env), substEnv(args[1], env)
				roots := func(x string) []string { return ldIdent.FindAllString(x, -1) }
				mentions := func(term, tensor string) bool {
					for _, r := range roots(tensor) {
						if ir.HasWord(term, r) {
							return true
						}
					}
					return false
				}
				for k, own := range []string{d, s} {
					other := []string{s, d}[k]
					it := substEnv(substEnv(args[2+k], env), env)
					if it == "nil" {
						continue
					}
					role := []string{"destination", "source"}[k]
					if !mentions(it, own) {
						w := fmt.Sprintf("the %s iterator %s = %s is not derived from the %s tensor %s", role, args[2+k], it, role, own)
						if mentions(it, other) {
							w += " (it is derived from the other tensor)"
						}
						bad = append(bad, w)
					}
				}
			}
		}
		if n == 0 {
			continue
		}
		if len(bad) > 0 {
			rc.S.Viol("IP", fi.Key, pos, strings.Join(uniq(bad), "; ")).Sig = firstWords(bad)
		} else {
			rc.S.Ok("IP", fi.Key, pos, fmt.Sprintf("%d call path(s), iterators paired with their tensors", n))
		}
	}
}

// IP2: per-operand iterators of the view stack. denseViewStack builds one iterator per
// further operand; the j-th iterator must be the iterator of the j-th operand (the range
// element), not of the first operand or of any fixed tensor - "same shape" is not "same
// strides".
func IP2(rc *RC) {
	rc.S.Declare("IP2", "iterator pairing in the view stack: inside the loop over the further operands the iterator appended to the iterator list is built from that loop's own element", 1)
	fi := anchor(rc, "IP2", "tensor.(StdEng).denseViewStack")
	if fi == nil {
		return
	}
	pos := rc.P.Pos(fi.Decl.Pos())
	_, tree := sCanon(rc, fi)
	n := 0
	var bad []string
	for _, lp := range ir.FindLoops(tree) {
		if lp.Kind != "range" {
			continue
		}
		h := strings.TrimPrefix(lp.Head, "range ")
		k := strings.LastIndex(h, " as ")
		if k < 0 {
			continue
		}
		over, idx := h[:k], h[k+4:]
		elem := over + "[" + idx + "]"
		env := map[string]string{}
		// appends nested in branches of the loop body: an operand that gets an iterator built for
		// another tensor (the receiver's, say) shares a stateful walker with it
		lists := map[string]bool{}
		env0 := map[string]string{}
		walkNodes(lp.Kids, func(st *ir.Node) {
			if (st.Kind == "let" || st.Kind == "store") && ldIdent.FindString(st.Target) == st.Target && !strings.HasPrefix(st.Value, "append(") {
				env0[st.Target] = st.Value
			}
		})
		walkNodes(lp.Kids, func(st *ir.Node) {
			if (st.Kind == "let" || st.Kind == "store") && ldIdent.FindString(st.Target) == st.Target {
				if m := regexp.MustCompile(`^append\(` + regexp.QuoteMeta(st.Target) + `, (.*)\)$`).FindStringSubmatch(st.Value); m != nil && strings.Contains(substEnv(m[1], env0), "Iterator") {
					lists[st.Target] = true
				}
			}
		})
		for _, top := range lp.Kids {
			if top.Kind != "if" {
				continue
			}
			walkNodes([]*ir.Node{top}, func(st *ir.Node) {
				if (st.Kind == "let" || st.Kind == "store") && lists[st.Target] {
					if m := regexp.MustCompile(`^append\(` + regexp.QuoteMeta(st.Target) + `, (.*)\)$`).FindStringSubmatch(st.Value); m != nil {
						n++
						if !strings.Contains(m[1], elem) {
							bad = append(bad, fmt.Sprintf("under a branch of the loop the iterator appended for %s is %s, which is not built from %s: two operands would share one stateful iterator", elem, m[1], elem))
						}
					}
				}
			})
		}
		for _, st := range lp.Kids {
			// indexed form: its[j] = IteratorFromDense(…)
			if (st.Kind == "let" || st.Kind == "store") && strings.HasSuffix(st.Target, "["+idx+"]") && strings.Contains(st.Value, "Iterator") {
				n++
				if v := substEnv(st.Value, env); !strings.Contains(v, elem) {
					bad = append(bad, fmt.Sprintf("the iterator stored for %s is %s, which is not built from %s", elem, v, elem))
				}
				continue
			}
			if (st.Kind == "let" || st.Kind == "store") && ldIdent.FindString(st.Target) == st.Target {
				v := substEnv(st.Value, env)
				if m := regexp.MustCompile(`^append\(` + regexp.QuoteMeta(st.Target) + `, (.*)\)$`).FindStringSubmatch(v); m != nil && strings.Contains(m[1], "Iterator") {
					n++
					if !strings.Contains(m[1], elem) {
						bad = append(bad, fmt.Sprintf("the iterator appended for %s is %s, which is not built from %s", elem, m[1], elem))
					}
					continue
				}
				env[st.Target] = v
			}
		}
	}
	switch {
	case n == 0:
		rc.S.Undec("IP2", fi.Key, pos, "no loop appending per-operand iterators found")
	case len(bad) > 0:
		rc.S.Viol("IP2", fi.Key, pos, strings.Join(bad, "; ")).Sig = firstWords(bad)
	default:
		rc.S.Ok("IP2", fi.Key, pos, "each further operand is walked by its own iterator")
	}
}
