package rules

// Error drops present on the pinned tree, one (function, callee) pair per entry. Generated once
// from the survey of rule EC and reviewed; a NEW dropped error is reported. prepReduce dropping
// Reshape"s error is finding 23 and is listed in known_findings.json instead.
func init() {
	for k, v := range map[string]string{
		"tensor.(*CS).Dense#SetAt":                            "pre-existing: coordinates come from an iterator over the same shape",
		"tensor.(*CS).T#UnsafePermute":                        "pre-existing: sparse tensors are outside every property",
		"tensor.(*CS).UT#T":                                   "pre-existing: permutation built by the function itself is valid",
		"tensor.(*Dense).Filled#Memset":                       "pre-existing: Memset only fails for inaccessible data; the constructor just allocated it",
		"tensor.(*Dense).FilledInplace#Memset":                "pre-existing: Memset only fails for inaccessible data; the constructor just allocated it",
		"tensor.(*Dense).FlatMaskedContiguous#NextValid":      "pre-existing: loop is bounded by the iterator length",
		"tensor.(*Dense).FlatMaskedEdges#NextInvalid":         "pre-existing: loop is bounded by the iterator length",
		"tensor.(*Dense).FlatNotMaskedContiguous#NextInvalid": "pre-existing: loop is bounded by the iterator length",
		"tensor.(*Dense).FlatNotMaskedEdges#NextValid":        "pre-existing: loop is bounded by the iterator length",
		"tensor.(*Dense).Format#Ltoi":                         "pre-existing: coordinates produced by an iterator/loop over the same shape",
		"tensor.(*Dense).Materialize#copyDenseIter":           "pre-existing: nil iterators are created inside; only fails for iterator errors",
		"tensor.(*Dense).Reshape#Transpose":                   "pre-existing: Transpose only fails when the engine is not a Transposer; StdEng-backed scratch tensors",
		"tensor.(*Dense).T#Transpose":                         "pre-existing: Transpose only fails when the engine is not a Transposer; StdEng-backed scratch tensors",
		"tensor.(*Dense).TensorMul#Transpose":                 "pre-existing: Transpose only fails when the engine is not a Transposer; StdEng-backed scratch tensors",
		"tensor.(*Dense).Zero#ResetMask":                      "pre-existing: ResetMask never returns an error",
		"tensor.(*MultIterator).NextInvalid#Next":             "pre-existing: iterator exhaustion is tracked through it.done",
		"tensor.(*MultIterator).NextValid#Next":               "pre-existing: iterator exhaustion is tracked through it.done",
		"tensor.(StdEng).Dot#T":                               "pre-existing: permutation built by the function itself is valid",
		"tensor.(StdEng).Dot#reshape":                         "pre-existing: reshape to a shape of the same size computed by the function itself",
		"tensor.(StdEng).denseConcat#reshape":                 "pre-existing: reshape to a shape of the same size computed by the function itself",
		"tensor.(StdEng).selectByIdx#Ltoi":                    "pre-existing: coordinates produced by an iterator/loop over the same shape",
		"tensor.(StdEng).selectByIndicesB#AddSliced":          "pre-existing: SelectByIndices is outside every property",
		"tensor.(StdEng).selectByIndicesB#Ltoi":               "pre-existing: coordinates produced by an iterator/loop over the same shape",
		"tensor.AsFortran#T":                                  "pre-existing: permutation built by the function itself is valid",
		"tensor.AsFortran#Transpose":                          "pre-existing: Transpose only fails when the engine is not a Transposer; StdEng-backed scratch tensors",
		"tensor.MaskedReduce#SetAt":                           "pre-existing: coordinates come from an iterator over the same shape",
		"tensor.MaskedReduce#Slice":                           "pre-existing: slice ranges computed from the tensor own shape",
		"tensor.NewMultIterator#BroadcastStrides":             "pre-existing: shapes were validated just above",
		"tensor.Ones#Memset":                                  "pre-existing: Memset only fails for inaccessible data; the constructor just allocated it",
		"tensor.Transpose#Transpose":                          "pre-existing: Transpose only fails when the engine is not a Transposer; StdEng-backed scratch tensors",
		"tensor.doMaskAll#NextValid":                          "pre-existing: loop is bounded by the iterator length",
		"tensor.doMaskAny#NextInvalid":                        "pre-existing: loop is bounded by the iterator length",
	} {
		ecExcept[k] = v
	}
}
