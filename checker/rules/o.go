package rules

import (
	"fmt"
	"go/token"
	"go/types"
	"sort"
	"strings"

	"golang.org/x/tools/go/ssa"

	"tcheck/load"
)

// Engine O: ownership of pooled and caller-owned metadata slices (go/ssa, interprocedural
// summaries by fixpoint).

type oOrigin struct {
	kind  string // param, call, field, make, const, global, other
	fn    *ssa.Function
	idx   int
	name  string
	owner string
}

func (o oOrigin) String() string {
	switch o.kind {
	case "param":
		return fmt.Sprintf("param:%s#%d", o.fn.Name(), o.idx)
	case "call":
		return "call:" + o.name
	case "field":
		return "field:" + o.owner + "." + o.name
	}
	return o.kind
}

type oAnalysis struct {
	p            *load.Program
	prog         *ssa.Program
	fns          []*ssa.Function
	returnsParam map[*ssa.Function]map[int]map[int]bool
	retains      map[*ssa.Function]map[int]string
	writes       map[*ssa.Function]map[int]string
	poolRet      map[*ssa.Function]map[int]string
	implCache    map[string][]*ssa.Function
}

func NewOAnalysis(p *load.Program) *oAnalysis {
	a := &oAnalysis{p: p, prog: p.SSA(), returnsParam: map[*ssa.Function]map[int]map[int]bool{}, retains: map[*ssa.Function]map[int]string{}, writes: map[*ssa.Function]map[int]string{}, poolRet: map[*ssa.Function]map[int]string{}, implCache: map[string][]*ssa.Function{}}
	for _, fn := range p.ModuleFuncs() {
		if fn.Pkg != nil && fn.Pkg.Pkg.Path() == load.Module {
			a.fns = append(a.fns, fn)
		}
	}
	for i := 0; i < 12 && a.pass(); i++ {
	}
	return a
}

func oParamIndex(fn *ssa.Function, p *ssa.Parameter) int {
	for i, q := range fn.Params {
		if q == p {
			return i
		}
	}
	return -1
}

func (a *oAnalysis) origins(v ssa.Value, seen map[ssa.Value]bool, out map[oOrigin]bool) {
	if v == nil || seen[v] {
		return
	}
	seen[v] = true
	switch x := v.(type) {
	case *ssa.Parameter:
		out[oOrigin{kind: "param", fn: x.Parent(), idx: oParamIndex(x.Parent(), x)}] = true
	case *ssa.Slice:
		a.origins(x.X, seen, out)
	case *ssa.ChangeType:
		a.origins(x.X, seen, out)
	case *ssa.Convert:
		a.origins(x.X, seen, out)
	case *ssa.MakeInterface:
		a.origins(x.X, seen, out)
	case *ssa.TypeAssert:
		a.origins(x.X, seen, out)
	case *ssa.ChangeInterface:
		a.origins(x.X, seen, out)
	case *ssa.Phi:
		for _, e := range x.Edges {
			a.origins(e, seen, out)
		}
	case *ssa.Extract:
		if ta, ok := x.Tuple.(*ssa.TypeAssert); ok {
			a.origins(ta.X, seen, out)
			return
		}
		if c, ok := x.Tuple.(*ssa.Call); ok {
			a.callOrigins(c, x.Index, seen, out)
		} else {
			out[oOrigin{kind: "other"}] = true
		}
	case *ssa.Call:
		a.callOrigins(x, 0, seen, out)
	case *ssa.UnOp:
		if x.Op != token.MUL {
			out[oOrigin{kind: "other"}] = true
			return
		}
		switch ad := x.X.(type) {
		case *ssa.FieldAddr:
			st := ad.X.Type().Underlying().(*types.Pointer).Elem()
			f := st.Underlying().(*types.Struct).Field(ad.Field)
			out[oOrigin{kind: "field", name: f.Name(), owner: types.TypeString(st, func(p *types.Package) string { return "" })}] = true
		case *ssa.Alloc:
			for _, r := range *ad.Referrers() {
				if s, ok := r.(*ssa.Store); ok && s.Addr == ad {
					a.origins(s.Val, seen, out)
				}
			}
		case *ssa.FreeVar:
			fn := ad.Parent()
			for i, fv := range fn.FreeVars {
				if fv != ad {
					continue
				}
				for _, site := range oClosureSites(fn) {
					b := site.Bindings[i]
					if al, ok := b.(*ssa.Alloc); ok {
						for _, r := range *al.Referrers() {
							if s, ok := r.(*ssa.Store); ok && s.Addr == al {
								a.origins(s.Val, seen, out)
							}
						}
					} else {
						a.origins(b, seen, out)
					}
				}
			}
		case *ssa.Global:
			out[oOrigin{kind: "global", name: ad.Name()}] = true
		default:
			out[oOrigin{kind: "other"}] = true
		}
	case *ssa.MakeSlice:
		out[oOrigin{kind: "make"}] = true
	case *ssa.Const:
		out[oOrigin{kind: "const"}] = true
	default:
		out[oOrigin{kind: "other"}] = true
	}
}

func oClosureSites(fn *ssa.Function) []*ssa.MakeClosure {
	var out []*ssa.MakeClosure
	if fn.Parent() == nil {
		return nil
	}
	for _, b := range fn.Parent().Blocks {
		for _, ins := range b.Instrs {
			if mc, ok := ins.(*ssa.MakeClosure); ok && mc.Fn == fn {
				out = append(out, mc)
			}
		}
	}
	return out
}

func (a *oAnalysis) callOrigins(c *ssa.Call, res int, seen map[ssa.Value]bool, out map[oOrigin]bool) {
	cc := c.Common()
	if b, ok := cc.Value.(*ssa.Builtin); ok {
		if b.Name() == "append" {
			a.origins(cc.Args[0], seen, out)
			out[oOrigin{kind: "make"}] = true
			return
		}
		out[oOrigin{kind: "other"}] = true
		return
	}
	callees := a.callees(cc)
	if len(callees) == 0 {
		name := "dyn"
		if cc.IsInvoke() {
			name = "invoke:" + cc.Method.Name()
		}
		out[oOrigin{kind: "call", name: name}] = true
		return
	}
	for _, f := range callees {
		mapped := false
		if rp, ok := a.returnsParam[f][res]; ok {
			args := cc.Args
			if cc.IsInvoke() {
				args = append([]ssa.Value{cc.Value}, cc.Args...)
			}
			for pi := range rp {
				if pi < len(args) {
					a.origins(args[pi], seen, out)
					mapped = true
				}
			}
		}
		if !mapped || f.Signature.Results().Len() > 0 {
			out[oOrigin{kind: "call", name: f.Name()}] = true
		}
	}
}

// callees resolves a call: static callee, or for interface calls the module's types that
// implement the interface (CHA restricted to the module).
func (a *oAnalysis) callees(cc *ssa.CallCommon) []*ssa.Function {
	if f := cc.StaticCallee(); f != nil {
		return []*ssa.Function{f}
	}
	if !cc.IsInvoke() {
		return nil
	}
	iface, ok := cc.Value.Type().Underlying().(*types.Interface)
	if !ok {
		return nil
	}
	key := cc.Value.Type().String() + "." + cc.Method.Name()
	if fs, ok := a.implCache[key]; ok {
		return fs
	}
	var out []*ssa.Function
	pkg := a.p.SSAPkgs[load.Module]
	var names []string
	for n := range pkg.Members {
		names = append(names, n)
	}
	sort.Strings(names)
	for _, n := range names {
		t, ok := pkg.Members[n].(*ssa.Type)
		if !ok {
			continue
		}
		for _, typ := range []types.Type{t.Type(), types.NewPointer(t.Type())} {
			if !types.Implements(typ, iface) {
				continue
			}
			ms := a.prog.MethodSets.MethodSet(typ)
			if sel := ms.Lookup(cc.Method.Pkg(), cc.Method.Name()); sel != nil {
				if f := a.prog.MethodValue(sel); f != nil && f.Blocks != nil {
					out = append(out, f)
				}
			}
		}
	}
	a.implCache[key] = out
	return out
}

func isMetaSlice(t types.Type) bool {
	s, ok := t.Underlying().(*types.Slice)
	if !ok {
		return false
	}
	if b, ok := s.Elem().Underlying().(*types.Basic); ok && (b.Kind() == types.Int || b.Kind() == types.Bool) {
		return true
	}
	if n, ok := s.Elem().(*types.Named); ok && n.Obj().Name() == "Slice" {
		return true
	}
	return false
}

func oRootNonLocal(v ssa.Value, depth int) (bool, string) {
	if depth > 20 {
		return true, "deep"
	}
	switch x := v.(type) {
	case *ssa.FieldAddr:
		return oRootNonLocal(x.X, depth+1)
	case *ssa.IndexAddr:
		return oRootNonLocal(x.X, depth+1)
	case *ssa.Parameter:
		return true, "param " + x.Name()
	case *ssa.Global:
		return true, "global " + x.Name()
	case *ssa.Alloc:
		if x.Heap {
			return true, "heap object (may escape)"
		}
		return false, ""
	case *ssa.UnOp:
		return oRootNonLocal(x.X, depth+1)
	case *ssa.Call, *ssa.Extract:
		return true, "object from call"
	case *ssa.Phi:
		for _, e := range x.Edges {
			if nl, w := oRootNonLocal(e, depth+1); nl {
				return nl, w
			}
		}
		return false, ""
	case *ssa.FreeVar:
		return true, "captured " + x.Name()
	case *ssa.TypeAssert:
		return oRootNonLocal(x.X, depth+1)
	case *ssa.ChangeInterface:
		return oRootNonLocal(x.X, depth+1)
	case *ssa.MakeInterface:
		return oRootNonLocal(x.X, depth+1)
	}
	return true, fmt.Sprintf("%T", v)
}

func (a *oAnalysis) paramOrigins(v ssa.Value, fn *ssa.Function) []int {
	out := map[oOrigin]bool{}
	a.origins(v, map[ssa.Value]bool{}, out)
	var ps []int
	for o := range out {
		if o.kind == "param" && o.fn == fn {
			ps = append(ps, o.idx)
		}
	}
	sort.Ints(ps)
	return ps
}

func (a *oAnalysis) pos(i ssa.Instruction) string { return a.p.Pos(i.Pos()) }

func (a *oAnalysis) pass() bool {
	changed := false
	set := func(m map[*ssa.Function]map[int]string, f *ssa.Function, i int, why string) {
		if m[f] == nil {
			m[f] = map[int]string{}
		}
		if _, ok := m[f][i]; !ok {
			m[f][i] = why
			changed = true
		}
	}
	for _, fn := range a.fns {
		for _, b := range fn.Blocks {
			for _, ins := range b.Instrs {
				switch x := ins.(type) {
				case *ssa.Return:
					for ri, r := range x.Results {
						if !isMetaSlice(r.Type()) {
							continue
						}
						for _, pi := range a.paramOrigins(r, fn) {
							if a.returnsParam[fn] == nil {
								a.returnsParam[fn] = map[int]map[int]bool{}
							}
							if a.returnsParam[fn][ri] == nil {
								a.returnsParam[fn][ri] = map[int]bool{}
							}
							if !a.returnsParam[fn][ri][pi] {
								a.returnsParam[fn][ri][pi] = true
								changed = true
							}
						}
					}
				case *ssa.Store:
					if isMetaSlice(x.Val.Type()) {
						if _, isAlloc := x.Addr.(*ssa.Alloc); !isAlloc {
							if nl, where := oRootNonLocal(x.Addr, 0); nl {
								for _, pi := range a.paramOrigins(x.Val, fn) {
									set(a.retains, fn, pi, fmt.Sprintf("stored into %s at %s", where, a.pos(x)))
								}
							}
						}
					}
					if ia, ok := x.Addr.(*ssa.IndexAddr); ok && isMetaSlice(ia.X.Type()) {
						for _, pi := range a.paramOrigins(ia.X, fn) {
							set(a.writes, fn, pi, "element store at "+a.pos(x))
						}
					}
				case ssa.CallInstruction:
					cc := x.Common()
					if bi, ok := cc.Value.(*ssa.Builtin); ok {
						if bi.Name() == "copy" && isMetaSlice(cc.Args[0].Type()) {
							for _, pi := range a.paramOrigins(cc.Args[0], fn) {
								set(a.writes, fn, pi, "copy(dst) at "+a.pos(x))
							}
						}
						// append(p, ...) writes behind len(p) into the caller's backing array whenever
						// it has spare capacity (T.Slice(ranges[:1]...) with ranges of three entries)
						if bi.Name() == "append" && len(cc.Args) > 1 && isMetaSlice(cc.Args[0].Type()) {
							for _, pi := range a.paramOrigins(cc.Args[0], fn) {
								set(a.writes, fn, pi, "append into the argument's backing array at "+a.pos(x))
							}
						}
						continue
					}
					callees := a.callees(cc)
					args := cc.Args
					if cc.IsInvoke() {
						args = append([]ssa.Value{cc.Value}, cc.Args...)
					}
					for _, f := range callees {
						if f.Pkg != nil && f.Pkg.Pkg.Path() == "sort" && len(args) > 0 {
							for _, pi := range a.paramOrigins(args[0], fn) {
								set(a.writes, fn, pi, "sort."+f.Name()+" at "+a.pos(x))
							}
						}
						if (f.Name() == "ReturnInts" || f.Name() == "ReturnBools") && len(args) > 0 {
							for _, pi := range a.paramOrigins(args[0], fn) {
								if fn.Name() != "ReturnInts" && fn.Name() != "ReturnBools" {
									set(a.poolRet, fn, pi, "returned to pool at "+a.pos(x))
								}
							}
						}
						for ai, arg := range args {
							if !isMetaSlice(arg.Type()) {
								continue
							}
							for _, m := range []map[*ssa.Function]map[int]string{a.retains, a.writes, a.poolRet} {
								if why, ok := m[f][ai]; ok {
									for _, pi := range a.paramOrigins(arg, fn) {
										w := why
										if !strings.HasPrefix(w, "via ") {
											w = "via " + f.Name() + ": " + w
										}
										set(m, fn, pi, w)
									}
								}
							}
						}
					}
				}
			}
		}
	}
	return changed
}

func oExported(fn *ssa.Function) bool {
	if fn.Parent() != nil || !token.IsExported(fn.Name()) {
		return false
	}
	if recv := fn.Signature.Recv(); recv != nil {
		t := recv.Type()
		if p, ok := t.(*types.Pointer); ok {
			t = p.Elem()
		}
		if n, ok := t.(*types.Named); ok && !n.Obj().Exported() {
			return false
		}
	}
	return true
}

func oFnKey(fn *ssa.Function) string {
	s := fn.String()
	s = strings.ReplaceAll(s, load.Module+".", "")
	s = strings.ReplaceAll(s, load.Module+"/", "")
	return "tensor." + s
}

// exception tables (one symbol, one reason)
var o2Except = map[string]string{
	"tensor.WithBacking":            "documented sharing of the backing array",
	"tensor.WithMask":               "documented sharing of the mask",
	"tensor.(*Dense).SetMask":       "documented: the tensor adopts the given mask slice",
	"tensor.FromMemory":             "documented sharing of external memory",
	"tensor.MakeAP":                 "constructor of an access pattern from the caller's shape and strides (documented as not copying)",
	"tensor.(*AP).Init":             "initialiser of an access pattern from the caller's shape and strides",
	"tensor.(*Dense).MaskFromSlice": "documented: mask built from the given slice",
	"tensor.FromScalar":             "documented sharing",
	"tensor.(*AP).SetShape":         "copies when locked; stores a clone otherwise (checked by O2 on its body: it clones)",
	"tensor.ReturnInts":             "ownership transfer into the pool is this function's contract",
	"tensor.ReturnBools":            "ownership transfer into the pool is this function's contract",
	"tensor.NewFlatSparseIterator":  "sparse tensors are outside every property",
	"tensor.CSRFromCoord":           "sparse constructors are outside every property",
	"tensor.CSCFromCoord":           "sparse constructors are outside every property",
	"tensor.NewCSR":                 "sparse constructors are outside every property",
	"tensor.NewCSC":                 "sparse constructors are outside every property",
}

var o3Except = map[string]string{
	"tensor.UnsafePermute": "its contract is to permute the given slices in place",
	"tensor.ReturnInts":    "zeroes the slice it takes ownership of",
	"tensor.ReturnBools":   "zeroes the slice it takes ownership of",
}

// O123 reports retention (O2), mutation (O3) and recycling (O1) of caller-owned metadata
// slices by exported functions.
func O123(rc *RC) *oAnalysis { return O123f(rc, nil) }

// O123f restricts the report to the exported functions selected by only.
func O123f(rc *RC, only func(fnKey string) bool) *oAnalysis {
	a := NewOAnalysis(rc.P)
	floor := 80
	if only != nil {
		floor = 1
	}
	rc.S.Declare("O2", "no exported function stores a caller's []int/Shape/[]Slice/[]bool argument (or a sub-slice) into an object that outlives the call (documented sharing is an explicit exception table)", floor)
	rc.S.Declare("O3", "no exported function writes through, sorts or copies into a caller's metadata slice argument", floor)
	rc.S.Declare("O1", "no exported function hands a caller's metadata slice argument to the ints/bools pool", floor)
	type item struct {
		rule string
		m    map[*ssa.Function]map[int]string
		ex   map[string]string
		what string
	}
	items := []item{{"O2", a.retains, o2Except, "retains"}, {"O3", a.writes, o3Except, "mutates"}, {"O1", a.poolRet, o2Except, "recycles"}}
	var fns []*ssa.Function
	for _, fn := range a.fns {
		if oExported(fn) {
			fns = append(fns, fn)
		}
	}
	sort.Slice(fns, func(i, j int) bool { return oFnKey(fns[i]) < oFnKey(fns[j]) })
	for _, fn := range fns {
		if strings.HasPrefix(a.p.FileOf(fn.Pos()), "sparse") {
			continue
		}
		if only != nil && !only(oFnKey(fn)) {
			continue
		}
		for pi, p := range fn.Params {
			if !isMetaSlice(p.Type()) {
				continue
			}
			for _, it := range items {
				key := fmt.Sprintf("%s(%s)", oFnKey(fn), p.Name())
				why, bad := it.m[fn][pi]
				if !bad {
					rc.S.Ok(it.rule, key, a.p.Pos(fn.Pos()), "caller slice "+p.Name()+" is only read")
					continue
				}
				if reason, ok := it.ex[oFnKey(fn)]; ok {
					rc.S.Except(it.rule+" "+oFnKey(fn), reason)
					rc.S.Ok(it.rule, key, a.p.Pos(fn.Pos()), "exception: "+reason)
					continue
				}
				o := rc.S.Viol(it.rule, key, a.p.Pos(fn.Pos()), fmt.Sprintf("%s %s the caller's slice %s: %s", oFnKey(fn), it.what, p.Name(), why))
				o.Sig = it.what + " " + stripPos(why)
			}
		}
	}
	return a
}

// stripPos removes file:line fragments so that signatures survive unrelated edits.
func stripPos(s string) string {
	fs := strings.Fields(s)
	var out []string
	for _, f := range fs {
		if strings.Contains(f, ".go:") {
			continue
		}
		out = append(out, f)
	}
	return strings.Join(out, " ")
}
