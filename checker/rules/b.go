package rules

import (
	"fmt"
	"go/types"
	"sort"
	"strings"

	"tcheck/load"
)

// B1: parity of tag-selected files. The declarations of the files that exist only under a
// build tag must be present, with identical signatures, in every configuration (the
// alternative file of the pair provides them). The reference signature set is the one of
// the default configuration, loaded alongside.
var b1Files = map[string]bool{
	"defaultengine_matop_transpose.go": true, "defaultengine_matop_transpose_inplace.go": true,
	"mathutils.go": true, "mathutils_go.go": true,
}

func sigSet(p *load.Program) map[string]string {
	out := map[string]string{}
	for _, fi := range p.Funcs {
		if fi.Pkg == p.Root && b1Files[fi.File] {
			out[fi.Key] = types.TypeString(fi.Obj.Type(), func(pk *types.Package) string { return pk.Name() })
		}
	}
	return out
}

var b1Ref map[string]string

func B1(rc *RC) {
	rc.S.Declare("B1", "build parity: the functions of tag-selected files (transpose copy/in-place, divmod asm/pure Go) exist with identical signatures in every configuration", 8)
	cur := sigSet(rc.P)
	if b1Ref == nil {
		if rc.P.Config.Name == "default" {
			b1Ref = cur
		} else {
			ref, err := load.Load(rc.P.Dir, load.Configs["default"])
			if err != nil {
				rc.S.Undec("B1", "default-configuration", "-", "cannot load the reference configuration: "+err.Error())
				return
			}
			b1Ref = sigSet(ref)
		}
	}
	var keys []string
	seen := map[string]bool{}
	for k := range b1Ref {
		keys = append(keys, k)
		seen[k] = true
	}
	for k := range cur {
		if !seen[k] {
			keys = append(keys, k)
		}
	}
	sort.Strings(keys)
	for _, k := range keys {
		r, inRef := b1Ref[k]
		c, inCur := cur[k]
		key := k
		pos := "-"
		if fi := rc.P.Func(k); fi != nil {
			pos = rc.P.Pos(fi.Decl.Pos())
		}
		switch {
		case !inCur && strings.HasSuffix(k, "transposeIndex"):
			continue
		case !inCur:
			rc.S.Viol("B1", key, pos, fmt.Sprintf("%s exists in the default configuration but not under %s", k, rc.P.Config.Name)).Sig = "missing"
		case !inRef:
			// helper only the alternative file needs: fine, but recorded
			rc.S.Ok("B1", key, pos, "additional helper of this configuration").Trivial = true
		case r != c:
			rc.S.Viol("B1", key, pos, fmt.Sprintf("signature differs between configurations: %s vs %s", r, c)).Sig = "signature"
		default:
			rc.S.Ok("B1", key, pos, c)
		}
	}
}
