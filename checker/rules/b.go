package rules

import (
	"fmt"

	"go/types"
	"sort"
	"strings"
	"tcheck/ir"

	"tcheck/load"
)

// B1: parity of tag-selected files. The declarations of the files that exist only under a
// build tag must be present, with identical signatures, in every configuration (the
// alternative file of the pair provides them). The reference signature set is the one of
// the default configuration, loaded alongside.
var b1Files = map[string]bool{
	"defaultengine_matop_transpose.go": true, "defaultengine_matop_transpose_inplace.go": true,
	"mathutils.go": true, "mathutils_go.go": true,
}

func sigSet(p *load.Program) map[string]string {
	out := map[string]string{}
	for _, fi := range p.Funcs {
		if fi.Pkg == p.Root && b1Files[fi.File] {
			out[fi.Key] = sigTypes(fi.Obj.Type().(*types.Signature))
		}
	}
	return out
}

// sigTypes renders a signature by its parameter and result types only: parameter names are not
// part of a function's type.
func sigTypes(sig *types.Signature) string {
	q := func(pk *types.Package) string { return pk.Name() }
	tuple := func(t *types.Tuple) string {
		var parts []string
		for i := 0; i < t.Len(); i++ {
			parts = append(parts, types.TypeString(t.At(i).Type(), q))
		}
		return "(" + strings.Join(parts, ", ") + ")"
	}
	s := "func" + tuple(sig.Params())
	if sig.Variadic() {
		s += "…"
	}
	return s + " " + tuple(sig.Results())
}

var b1Ref map[string]string
var b2Ref map[string]string

// b2Same: functions of the tag-selected transpose files that are the same algorithm in both
// builds (dispatch, mask mover, iterator constructor); only the per-width data kernels differ.
var b2Same = map[string]bool{"tensor.(StdEng).Transpose": true, "tensor.(StdEng).denseTranspose": true, "tensor.(StdEng).transposeMask": true, "tensor.transposeIterator": true}

func bodySet(p *load.Program) map[string]string {
	out := map[string]string{}
	for k := range b2Same {
		if fi := p.Func(k); fi != nil && fi.Decl.Body != nil {
			c := ir.NewCanon(p.Fset, fi.Pkg.TypesInfo, ir.Options{PureCall: func(n string) bool { return sPure[n] }})
			out[k] = ir.Render(c.Func(fi.Decl))
		}
	}
	return out
}

// B2: build-independent parts of the transposition code are literally the same algorithm in
// every configuration (canonical forms compared with the default configuration's).
func B2(rc *RC) {
	rc.S.Declare("B2", "build-independent transposition code: the dispatcher, the mask mover and the iterator constructor of the tag-selected transpose files have the same canonical form in every build configuration (only the per-width data kernels differ between the copying and the in-place build)", 3)
	cur := bodySet(rc.P)
	if b2Ref == nil {
		if rc.P.Config.Name == "default" {
			b2Ref = cur
		} else {
			ref, err := load.Load(rc.P.Dir, load.Configs["default"])
			if err != nil {
				rc.S.Undec("B2", "default-configuration", "-", "cannot load the reference configuration: "+err.Error())
				return
			}
			b2Ref = bodySet(ref)
		}
	}
	var keys []string
	for k := range b2Same {
		keys = append(keys, k)
	}
	sort.Strings(keys)
	for _, k := range keys {
		r, inRef := b2Ref[k]
		c, inCur := cur[k]
		pos := "-"
		if fi := rc.P.Func(k); fi != nil {
			pos = rc.P.Pos(fi.Decl.Pos())
		}
		switch {
		case !inRef && !inCur:
			continue
		case !inRef || !inCur:
			rc.S.Viol("B2", k, pos, fmt.Sprintf("%s exists in only one of the default configuration and %s", k, rc.P.Config.Name)).Sig = "missing"
		case r != c && !sameSkeleton(r, c):
			rc.S.Undec("B2", k, pos, fmt.Sprintf("%s has a different statement skeleton in the default configuration and under %s (one of the two was restructured): the forms are not compared (%s)", k, rc.P.Config.Name, firstDiff(c, r)))
		case r != c:
			rc.S.Viol("B2", k, pos, fmt.Sprintf("%s differs between the default configuration and %s: %s", k, rc.P.Config.Name, firstDiff(c, r))).Sig = lineDiff(c, r)
		default:
			rc.S.Ok("B2", k, pos, fmt.Sprintf("same canonical form as in the default configuration (%d lines)", strings.Count(c, "\n")))
		}
	}
}

func B1(rc *RC) {
	rc.S.Declare("B1", "build parity: the functions of tag-selected files (transpose copy/in-place, divmod asm/pure Go) exist with identical signatures in every configuration", 8)
	cur := sigSet(rc.P)
	if b1Ref == nil {
		if rc.P.Config.Name == "default" {
			b1Ref = cur
		} else {
			ref, err := load.Load(rc.P.Dir, load.Configs["default"])
			if err != nil {
				rc.S.Undec("B1", "default-configuration", "-", "cannot load the reference configuration: "+err.Error())
				return
			}
			b1Ref = sigSet(ref)
		}
	}
	var keys []string
	seen := map[string]bool{}
	for k := range b1Ref {
		keys = append(keys, k)
		seen[k] = true
	}
	for k := range cur {
		if !seen[k] {
			keys = append(keys, k)
		}
	}
	sort.Strings(keys)
	for _, k := range keys {
		r, inRef := b1Ref[k]
		c, inCur := cur[k]
		key := k
		pos := "-"
		if fi := rc.P.Func(k); fi != nil {
			pos = rc.P.Pos(fi.Decl.Pos())
		}
		switch {
		case !inCur && strings.HasSuffix(k, "transposeIndex"):
			continue
		case !inCur && !strings.Contains(k, ").") && !load.IsExportedKey(k):
			// an unexported plain function of the default configuration's file only: a helper
			// private to that file (were it referenced from common code this configuration
			// would not type-check, which fails the run). Methods and exported functions stay
			// under parity because method sets decide interface assertions at run time.
			rc.S.Ok("B1", key, pos, "helper private to the default configuration's file").Trivial = true
		case !inCur:
			rc.S.Viol("B1", key, pos, fmt.Sprintf("%s exists in the default configuration but not under %s", k, rc.P.Config.Name)).Sig = "missing"
		case !inRef:
			// helper only the alternative file needs: fine, but recorded
			rc.S.Ok("B1", key, pos, "additional helper of this configuration").Trivial = true
		case r != c && !load.IsExportedKey(k):
			// an unexported function or method is called only from its own package, and every
			// configuration is type-checked as a whole: differing private signatures are a
			// private matter of the two files
			rc.S.Ok("B1", key, pos, "private signature differs between the configurations; each configuration type-checks").Trivial = true
		case r != c:
			rc.S.Viol("B1", key, pos, fmt.Sprintf("signature differs between configurations: %s vs %s", r, c)).Sig = "signature"
		default:
			rc.S.Ok("B1", key, pos, c)
		}
	}
}

// B3: the pure-Go replacement of the assembly divmod is the defining expression
// (a / b, a % b). Only analysable in configurations that compile mathutils_go.go (noasm, or
// non-amd64); in the others the rule records that the assembly version is trusted.
func B3(rc *RC) {
	rc.S.Declare("B3", "pure-Go divmod (noasm / non-amd64) returns (a / b, a % b) on every path", 0)
	fi := rc.P.Func("tensor.divmod")
	if fi == nil || fi.Decl.Body == nil {
		rc.S.Ok("B3", "tensor.divmod", "-", "assembly implementation in this configuration (trusted base)").Trivial = true
		return
	}
	pos := rc.P.Pos(fi.Decl.Pos())
	_, tree := sCanon(rc, fi)
	paths, ok := ir.EnumPaths(tree, 64)
	if !ok {
		rc.S.Undec("B3", "tensor.divmod", pos, "too many paths")
		return
	}
	var bad []string
	var other []string
	for _, p := range paths {
		q, r := "", ""
		for _, st := range p.Steps {
			if st.Kind == "let" && st.Target == "$ret0" {
				q = st.Value
			}
			if st.Kind == "let" && st.Target == "$ret1" {
				r = st.Value
			}
		}
		if p.Ret != "" {
			parts := strings.SplitN(p.Ret, ", ", 2)
			if len(parts) == 2 {
				q, r = parts[0], parts[1]
			}
		}
		r = strings.ReplaceAll(r, "$ret0", q)
		qOK := q == "($a / $b)"
		rOK := r == "($a % $b)" || r == "($a - ($b * ($a / $b)))" || r == "($a - (($a / $b) * $b))"
		// b == -1: a / -1 is -a (wrapping at the minimum) and a % -1 is 0
		if len(p.Guards) > 0 && (p.Guards[len(p.Guards)-1] == "($b == -1)" || p.Guards[len(p.Guards)-1] == "(-1 == $b)") && q == "-$a" && r == "0" {
			qOK, rOK = true, true
		}
		if qOK && rOK {
			continue
		}
		simple := func(x string) bool { return x == "($a / $b)" || x == "($a % $b)" || x == "($b / $a)" || x == "($b % $a)" || x == "$a" || x == "$b" || x == "0" }
		if simple(q) && simple(r) {
			bad = append(bad, fmt.Sprintf("returns (%s, %s) on [%s], not (a / b, a %% b)", q, r, strings.Join(p.Guards, " && ")))
		} else {
			other = append(other, fmt.Sprintf("returns (%s, %s) on [%s]: not one of the forms this rule can equate with (a / b, a %% b)", q, r, strings.Join(p.Guards, " && ")))
		}
	}
	if len(bad) == 0 && len(other) > 0 {
		rc.S.Undec("B3", "tensor.divmod", pos, other[0])
		return
	}
	if len(bad) > 0 {
		rc.S.Viol("B3", "tensor.divmod", pos, strings.Join(bad, "; ")).Sig = fmt.Sprint(len(bad)) + " deviating paths"
	} else {
		rc.S.Ok("B3", "tensor.divmod", pos, "q = a / b, r = a % b")
	}
}
