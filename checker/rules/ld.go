package rules

import (
	"fmt"
	"regexp"
	"sort"
	"strings"

	"tcheck/ir"
)

// LD: BLAS argument conformance. The linear-algebra gateways hand raw buffers to BLAS
// together with transposition flags, dimensions and leading dimensions. What those must be
// is not a runtime question: it is a function of four facts per operand - logical shape
// (P,Q), data order, pending lazy transpose - and of the row-major convention of the BLAS
// interface used (gonum blas: an m×n matrix has lda >= n; op(A) is A or Aᵀ):
//
//   the buffer of X read as a row-major matrix S is X itself  iff  colMajor(X) == lazyT(X)
//   (S has dims (P,Q), flag NoTrans, ld = Q); otherwise it is Xᵀ (dims (Q,P), flag Trans, ld = P).
//
//   gemv y = A x      : (flag(A), rows(S_A), cols(S_A), A, ld(A), x, 1, y, 1)
//   gemm C = A B, C row-major : (flag(A), flag(B), M, N, K, A, ld(A), B, ld(B), C, N)
//        C col-major (its buffer is Cᵀ = Bᵀ Aᵀ): (¬flag(B), ¬flag(A), N, M, K, B, ld(B), A, ld(A), C, M)
//   ger  C += a bᵀ, C row-major : (|a|, |b|, 1, a, 1, b, 1, C, |b|)
//   dot  : (|a|, a, 1, b, 1)
//
// The rule enumerates every feasible path of each gateway on the canonical form, propagates
// the assignments of the dimension/flag locals along the path (a parallel swap included),
// reads the layout facts off the path condition, and compares each argument of the BLAS call
// with this reference, dimension terms being compared modulo the equalities the operand check
// established (A.Shape()[1] = B.Shape()[0], C.Shape() = (M,N), Size of a vector = its length).
// No code is executed and no solver is used: it is constant/term propagation plus a table.

type ldOperands struct {
	names map[string]string // canonical token -> A|B|C
}

var ldIdent = regexp.MustCompile(`[%$][A-Za-z_][A-Za-z0-9_]*`)

// substEnv replaces locals by their current terms.
func substEnv(e string, env map[string]string) string {
	return ldIdent.ReplaceAllStringFunc(e, func(w string) string {
		if v, ok := env[w]; ok {
			return v
		}
		return w
	})
}

func splitArgs(s string) []string {
	var out []string
	d := 0
	last := 0
	for i := 0; i < len(s); i++ {
		switch s[i] {
		case '(', '[', '{':
			d++
		case ')', ']', '}':
			d--
		case ',':
			if d == 0 {
				out = append(out, strings.TrimSpace(s[last:i]))
				last = i + 1
			}
		}
	}
	if strings.TrimSpace(s[last:]) != "" {
		out = append(out, strings.TrimSpace(s[last:]))
	}
	return out
}

type ldSite struct {
	Fn    string // gemv, gemm, ger, dot
	Name  string
	Args  []string
	Pos   string
	Facts map[string]int // atom -> +1 true, -1 false (decided by the path)
	Guard string
}

var ldDataAcc = regexp.MustCompile(`\.(Float64s|Float32s|Complex64s|Complex128s)\(\)`)

// ldEval evaluates the BLAS call sites of one gateway per path.
func ldEval(rc *RC, key string, ops map[string]string) ([]ldSite, string, bool) {
	fi := rc.P.Func(key)
	if fi == nil {
		return nil, "-", false
	}
	_, tree := sCanon(rc, fi)
	pos := rc.P.Pos(fi.Decl.Pos())
	paths, ok := ir.EnumPaths(tree, 20000)
	if !ok {
		return nil, pos, false
	}
	// operand binding: results of the checkX call bind %ad.. to operands; type-switch value is A's data
	bind := map[string]string{}
	for k, v := range ops {
		bind[k] = v
	}
	for _, n := range flatten(tree) {
		if n.Kind == "tuple" && strings.Contains(n.Value, "FloatComplexTensors(") {
			args := splitArgs(n.Value[strings.Index(n.Value, "(")+1 : strings.LastIndex(n.Value, ")")])
			for i, a := range args {
				if o, ok := bind[a]; ok && i < len(n.Targets) {
					bind[n.Targets[i]] = o
				}
			}
		}
		if n.Kind == "tuple" && len(n.Targets) == 2 && strings.HasSuffix(n.Value, ".(*tensor.Dense)") {
			src := strings.TrimSuffix(n.Value, ".(*tensor.Dense)")
			if o, ok := bind[src]; ok {
				bind[n.Targets[0]] = o
			}
		}
	}
	canonTok := func(s string) string {
		s = ldIdent.ReplaceAllStringFunc(s, func(w string) string {
			if o, ok := bind[w]; ok {
				return o
			}
			return w
		})
		s = ldDataAcc.ReplaceAllString(s, ".data")
		s = strings.ReplaceAll(s, "A.Data().([]τ)", "A.data")
		return s
	}
	var out []ldSite
	for _, p := range paths {
		env := map[string]string{}
		// type switch variable: the data of the switched operand
		for _, g := range p.Guards {
			if strings.HasPrefix(g, "typeswitch ") {
				if i := strings.Index(g, ".Data().(type)"); i > 0 {
					env["%ts"] = strings.TrimPrefix(g[:i], "typeswitch ") + ".data"
				}
			}
		}
		var calls []*ir.Node
		for _, st := range p.Steps {
			switch st.Kind {
			case "let", "store":
				if ldIdent.MatchString(st.Target) && ldIdent.FindString(st.Target) == st.Target {
					env[st.Target] = substEnv(st.Value, env)
				}
			case "tuple":
				v := st.Value
				if strings.Contains(st.Head, ") = (") {
					parts := splitArgs(v)
					if len(parts) == len(st.Targets) {
						var vals []string
						for _, e := range parts {
							vals = append(vals, substEnv(e, env))
						}
						for i, t := range st.Targets {
							env[t] = vals[i]
						}
						continue
					}
				}
				for _, t := range st.Targets {
					delete(env, t)
				}
			}
			if strings.Contains(st.Head, "whichblas.") {
				calls = append(calls, st)
				// snapshot at the call
				h := st.Head[strings.Index(st.Head, "whichblas."):]
				name := h[len("whichblas."):strings.Index(h, "(")]
				argS := h[strings.Index(h, "(")+1 : strings.LastIndex(h, ")")]
				var args []string
				for _, a := range splitArgs(argS) {
					args = append(args, canonTok(substEnv(a, env)))
				}
				site := ldSite{Name: name, Args: args, Pos: rc.P.Pos(st.Pos), Facts: map[string]int{}}
				low := strings.ToLower(name)
				switch {
				case strings.HasSuffix(low, "gemv"):
					site.Fn = "gemv"
				case strings.HasSuffix(low, "gemm"):
					site.Fn = "gemm"
				case strings.Contains(low, "ger"):
					site.Fn = "ger"
				case strings.Contains(low, "dot"):
					site.Fn = "dot"
				}
				// facts: substitute assigned-once locals in guards with the env at the call
				var fs []*ir.BExpr
				var gs []string
				for _, g := range p.Guards {
					if strings.HasPrefix(g, "typeswitch ") || strings.HasPrefix(g, "switch ") {
						continue
					}
					cg := canonTok(substEnv(g, env))
					gs = append(gs, cg)
					fs = append(fs, normAtomsGeneral(ir.ParseBool(cg)))
				}
				if ir.Implies(fs, ir.BConst(false)) {
					site.Fn = "" // infeasible path
				}
				site.Guard = strings.Join(gs, " && ")
				if site.Fn == "" {
					continue
				}
				// the layout cases this path serves: every assignment of the facts the routine's
				// arguments depend on that is consistent with the path condition. A fact the
				// path has established has one value; one it tested inside a compound condition
				// (col != lazy) or not at all has both, and the arguments must be right for each.
				var rel []string
				switch site.Fn {
				case "gemv":
					rel = []string{"A.DataOrder().IsColMajor()", "A.oldAP().IsZero()"}
				case "gemm":
					rel = []string{"A.DataOrder().IsColMajor()", "A.oldAP().IsZero()", "B.DataOrder().IsColMajor()", "B.oldAP().IsZero()", "C.DataOrder().IsColMajor()"}
				case "ger":
					rel = []string{"C.DataOrder().IsColMajor()"}
				}
				for m := 0; m < 1<<len(rel); m++ {
					lits := append([]*ir.BExpr{}, fs...)
					facts := map[string]int{}
					for i, a := range rel {
						if m&(1<<i) != 0 {
							lits = append(lits, ir.BAtom(a))
							facts[a] = 1
						} else {
							lits = append(lits, ir.BNot(ir.BAtom(a)))
							facts[a] = -1
						}
					}
					if ir.Implies(lits, ir.BConst(false)) {
						continue // this layout case does not take this path
					}
					cs := site
					cs.Facts = facts
					out = append(out, cs)
				}
			}
		}
		_ = calls
	}
	return out, pos, true
}

// dimension classes: canonical terms that denote the same number once the operand check passed
func ldDim(fn, term string, facts map[string]int) string {
	t := strings.TrimSpace(term)
	tr := func(o string) bool { return facts[o+".oldAP().IsZero()"] == -1 }
	// logical dims of operand o: P = Shape()[0], Q = Shape()[1]; oshape is the pre-transpose shape
	m := regexp.MustCompile(`^([ABC])\.(Shape|oshape)\(\)\[(0|1)\]$`).FindStringSubmatch(t)
	var o, d string
	if m != nil {
		o = m[1]
		idx := m[3]
		if m[2] == "oshape" && tr(o) {
			if idx == "0" {
				idx = "1"
			} else {
				idx = "0"
			}
		}
		d = map[string]string{"0": "P", "1": "Q"}[idx]
	} else if m := regexp.MustCompile(`^([ABC])\.(Size\(\)|Shape\(\)\.TotalSize\(\)|len\(\)|DataSize\(\))$`).FindStringSubmatch(t); m != nil {
		o, d = m[1], "N"
	} else if m := regexp.MustCompile(`^len\(([ABC])\.data\)$`).FindStringSubmatch(t); m != nil {
		o, d = m[1], "N"
	} else {
		return t
	}
	switch fn {
	case "gemm":
		switch o + d {
		case "AP", "CP":
			return "M"
		case "AQ", "BP":
			return "K"
		case "BQ", "CQ":
			return "N"
		}
	case "gemv":
		switch o + d {
		case "AP", "CN":
			return "M"
		case "AQ", "BN":
			return "N"
		}
	case "ger":
		switch o + d {
		case "AN", "CP":
			return "M"
		case "BN", "CQ":
			return "N"
		}
	case "dot":
		switch o + d {
		case "AN", "BN":
			return "N"
		}
	}
	return o + "." + d
}

func ldExpected(s ldSite) ([]string, string) {
	col := func(o string) (bool, bool) {
		v := s.Facts[o+".DataOrder().IsColMajor()"]
		return v == 1, v != 0
	}
	lazy := func(o string) (bool, bool) {
		v := s.Facts[o+".oldAP().IsZero()"]
		return v == -1, v != 0
	}
	// storage view of operand with logical dims (p,q): (flag, rows, cols, ld)
	view := func(o, p, q string) (flag, rows, cols, ld string, ok bool) {
		c, ok1 := col(o)
		l, ok2 := lazy(o)
		if !ok1 || !ok2 {
			return "", "", "", "", false
		}
		if c == l {
			return "blas.NoTrans", p, q, q, true
		}
		return "blas.Trans", q, p, p, true
	}
	flip := func(f string) string {
		if f == "blas.Trans" {
			return "blas.NoTrans"
		}
		return "blas.Trans"
	}
	switch s.Fn {
	case "gemv":
		f, r, c, ld, ok := view("A", "M", "N")
		if !ok {
			return nil, "the path does not decide the matrix' data order and lazy-transpose state"
		}
		return []string{f, r, c, "1", "A.data", ld, "B.data", "1", "0", "C.data", "1"}, ""
	case "gemm":
		fa, _, _, lda, ok1 := view("A", "M", "K")
		fb, _, _, ldb, ok2 := view("B", "K", "N")
		cc, ok3 := col("C")
		if !ok1 || !ok2 || !ok3 {
			return nil, "the path does not decide data order and lazy-transpose state of both operands and the data order of the result"
		}
		if !cc {
			return []string{fa, fb, "M", "N", "K", "1", "A.data", lda, "B.data", ldb, "0", "C.data", "N"}, ""
		}
		return []string{flip(fb), flip(fa), "N", "M", "K", "1", "B.data", ldb, "A.data", lda, "0", "C.data", "M"}, ""
	case "ger":
		cc, ok := col("C")
		if !ok {
			return nil, "the path does not decide the result's data order"
		}
		if cc {
			// Cᵀ += b aᵀ
			return []string{"N", "M", "1", "B.data", "1", "A.data", "1", "C.data", "M"}, ""
		}
		return []string{"M", "N", "1", "A.data", "1", "B.data", "1", "C.data", "N"}, ""
	case "dot":
		return []string{"N", "A.data", "1", "B.data", "1"}, ""
	}
	return nil, "unknown BLAS routine"
}

var ldOne = regexp.MustCompile(`^(float64\(1\)|float32\(1\)|complex\(1, 0\)|1)$`)
var ldZero = regexp.MustCompile(`^(float64\(0\)|float32\(0\)|complex\(0, 0\)|0)$`)

func ldNormArg(fn, a string, facts map[string]int) string {
	a = strings.TrimSpace(a)
	for strings.HasPrefix(a, "(") && strings.HasSuffix(a, ")") && balanced(a[1:len(a)-1]) {
		a = a[1 : len(a)-1]
	}
	for strings.Contains(a, "flipTrans(blas.") {
		a = strings.ReplaceAll(a, "flipTrans(blas.Trans)", "blas.NoTrans")
		a = strings.ReplaceAll(a, "flipTrans(blas.NoTrans)", "blas.Trans")
		if strings.Contains(a, "flipTrans(blas.ConjTrans)") {
			break
		}
	}
	if ldOne.MatchString(a) {
		return "1"
	}
	if ldZero.MatchString(a) {
		return "0"
	}
	return ldDim(fn, a, facts)
}

func balanced(s string) bool {
	d := 0
	for _, c := range s {
		if c == '(' {
			d++
		} else if c == ')' {
			d--
			if d < 0 {
				return false
			}
		}
	}
	return d == 0
}

var ldGateways = []struct {
	Key string
	Ops map[string]string
}{
	{"tensor.(StdEng).MatVecMul", map[string]string{"$a": "A", "$b": "B", "$prealloc": "C"}},
	{"tensor.(StdEng).MatMul", map[string]string{"$a": "A", "$b": "B", "$prealloc": "C"}},
	{"tensor.(StdEng).Outer", map[string]string{"$a": "A", "$b": "B", "$prealloc": "C"}},
	{"tensor.(StdEng).Inner", map[string]string{"$a": "A", "$b": "B"}},
	{"tensor.(Float64Engine).Inner", map[string]string{"$a": "A", "$b": "B"}},
	{"tensor.(Float32Engine).Inner", map[string]string{"$a": "A", "$b": "B"}},
}

// ldFlip checks the flag helper the gateways may use: flipTrans exchanges Trans and NoTrans.
func ldFlip(rc *RC) {
	fi := rc.P.Func("tensor.flipTrans")
	if fi == nil {
		return // not used by this tree
	}
	pos := rc.P.Pos(fi.Decl.Pos())
	_, tree := sCanon(rc, fi)
	paths, ok := ir.EnumPaths(tree, 100)
	if !ok || len(fi.Decl.Type.Params.List) != 1 {
		rc.S.Undec("LD", "tensor.flipTrans", pos, "unexpected shape of the flag helper")
		return
	}
	par := "$" + fi.Decl.Type.Params.List[0].Names[0].Name
	isNo := ir.BAtom("(" + par + " == blas.NoTrans)")
	isTr := ir.BAtom("(" + par + " == blas.Trans)")
	var bad []string
	for _, in := range []struct {
		no, tr bool
		want   string
	}{{true, false, "blas.Trans"}, {false, true, "blas.NoTrans"}} {
		hit := false
		for _, p := range paths {
			sat := true
			for _, f := range ir.PathFormulas(p) {
				if !f.Eval(map[string]bool{isNo.Atom: in.no, isTr.Atom: in.tr}) {
					sat = false
				}
			}
			if !sat {
				continue
			}
			hit = true
			if p.Exit != "return" || strings.TrimSpace(p.Ret) != in.want {
				bad = append(bad, fmt.Sprintf("for NoTrans=%v returns %q, want %s", in.no, p.Ret, in.want))
			}
		}
		if !hit {
			bad = append(bad, "no path for an input flag")
		}
	}
	if len(bad) > 0 {
		rc.S.Viol("LD", "tensor.flipTrans", pos, strings.Join(bad, "; ")).Sig = strings.Join(bad, "; ")
	} else {
		rc.S.Ok("LD", "tensor.flipTrans", pos, "exchanges blas.Trans and blas.NoTrans")
	}
}

func LD(rc *RC, floor int) {
	defer ldFlip(rc)
	rc.S.Declare("LD", "BLAS argument conformance: on every feasible path of each gateway the transposition flags, dimensions, leading dimensions and buffers handed to gemv/gemm/ger/dot are those that the operands' data order, lazy-transpose state and logical shape require under the row-major BLAS convention (term propagation along the path, compared with the reference table)", floor)
	for _, g := range ldGateways {
		sites, pos, ok := ldEval(rc, g.Key, g.Ops)
		if !ok {
			rc.S.Undec("LD", g.Key, pos, "unresolved anchor or too many paths")
			continue
		}
		if len(sites) == 0 {
			rc.S.Undec("LD", g.Key, pos, "no BLAS call found on any path")
			continue
		}
		// group by layout case (facts), all element types must agree (K1arms) - report per case
		type res struct {
			pos   string
			diffs []string
			n     int
		}
		cases := map[string]*res{}
		for _, s := range sites {
			var fk []string
			for _, o := range []string{"A", "B", "C"} {
				if v := s.Facts[o+".DataOrder().IsColMajor()"]; v != 0 {
					fk = append(fk, o+map[int]string{1: ":col", -1: ":row"}[v])
				}
				if v := s.Facts[o+".oldAP().IsZero()"]; v != 0 {
					fk = append(fk, o+map[int]string{1: ":plain", -1: ":lazyT"}[v])
				}
			}
			ck := strings.Join(fk, ",")
			if ck == "" {
				ck = "any"
			}
			r := cases[ck]
			if r == nil {
				r = &res{pos: s.Pos}
				cases[ck] = r
			}
			r.n++
			want, why := ldExpected(s)
			if want == nil {
				r.diffs = append(r.diffs, s.Name+": "+why)
				continue
			}
			if len(want) != len(s.Args) {
				r.diffs = append(r.diffs, fmt.Sprintf("%s: %d arguments, reference has %d", s.Name, len(s.Args), len(want)))
				continue
			}
			var d []string
			for i := range want {
				got := ldNormArg(s.Fn, s.Args[i], s.Facts)
				if got != want[i] {
					d = append(d, fmt.Sprintf("arg%d = %s, want %s", i+1, got, want[i]))
				}
			}
			if len(d) > 0 {
				r.diffs = append(r.diffs, s.Fn+": "+strings.Join(d, "; "))
			}
		}
		var cks []string
		for k := range cases {
			cks = append(cks, k)
		}
		sort.Strings(cks)
		for _, ck := range cks {
			r := cases[ck]
			key := g.Key + "[" + ck + "]"
			if len(r.diffs) == 0 {
				rc.S.Ok("LD", key, r.pos, fmt.Sprintf("%d BLAS call path(s) conform", r.n))
			} else {
				d := uniq(r.diffs)
				if fi := rc.P.Func(g.Key); fi != nil {
					_, tree := sCanon(rc, fi)
					if h := rc.NewHelperIn(ir.Render(tree)); h != "" {
						rc.S.Undec("LD", key, r.pos, fmt.Sprintf("the gateway computes its BLAS arguments through %s(), a helper introduced since the reviewed tree, which the term propagation does not follow (%s)", h, d[0]))
						continue
					}
				}
				rc.S.Viol("LD", key, r.pos, fmt.Sprintf("with operands %s the BLAS call deviates from the reference: %s", ck, strings.Join(d, " | "))).Sig = strings.Join(d, " | ")
			}
		}
	}
}

// LD2: contraction axis order of TensorMul. tensordot pairs axesA[i] of the first operand with
// axesB[i] of the second: the first operand is transposed to (free axes..., axesA...) and the
// second to (axesB..., free axes...) with the contracted axes *in the caller's order* on both
// sides, so that after the reshape to 2-D the i-th contracted column of A meets the i-th
// contracted row of B. The patterns handed to the two T() calls must be exactly
// append(free, axesA...) and append(axesB, free...).
func LD2(rc *RC) {
	rc.S.Declare("LD2", "contraction axis order: in TensorMul the first operand is transposed by append(freeAxes, axesA...) and the second by append(axesB, freeAxes...) - the contracted axes keep the caller's order on both sides", 2)
	fi := anchor(rc, "LD2", "tensor.(*Dense).TensorMul")
	if fi == nil {
		return
	}
	pos := rc.P.Pos(fi.Decl.Pos())
	c := ir.NewCanon(rc.P.Fset, fi.Pkg.TypesInfo, ir.Options{ParamNames: true, KeepNames: true, NoSubst: true})
	nodes := flatten(c.Func(fi.Decl))
	tcall := regexp.MustCompile(`(%\w+)\.T\((%\w+)\.\.\.\)`)
	var calls [][2]string // pattern variable, index in nodes
	for i, n := range nodes {
		if n.Kind == "if" || n.Kind == "loop" || n.Kind == "range" {
			continue
		}
		if m := tcall.FindStringSubmatch(n.Head); m != nil {
			calls = append(calls, [2]string{m[2], fmt.Sprint(i)})
		}
	}
	if len(calls) != 2 {
		rc.S.Undec("LD2", fi.Key, pos, fmt.Sprintf("expected two transpositions X.T(pattern...), found %d", len(calls)))
		return
	}
	// either append(free, axesA...) or, into storage of its own, append(append(buf[:0], free...), axesA...)
	want := []*regexp.Regexp{regexp.MustCompile(`^append\((?:%\w+|append\(%\w+(?:\[:0\])?, %\w+\.\.\.\)), \$axesA\.\.\.\)$`), regexp.MustCompile(`^append\((?:\$axesB|append\(%\w+(?:\[:0\])?, \$axesB\.\.\.\)), %\w+\.\.\.\)$`)}
	names := []string{"first operand: append(freeAxes, axesA...)", "second operand: append(axesB, freeAxes...)"}
	for k, cl := range calls {
		var idx int
		fmt.Sscan(cl[1], &idx)
		last := ""
		for i := 0; i < idx; i++ {
			n := nodes[i]
			if (n.Kind == "let" || n.Kind == "store") && n.Target == cl[0] {
				last = n.Value
			}
		}
		key := fmt.Sprintf("%s#T%d", fi.Key, k+1)
		if want[k].MatchString(last) {
			rc.S.Ok("LD2", key, pos, cl[0]+" = "+last)
		} else {
			rc.S.Viol("LD2", key, pos, fmt.Sprintf("the transposition pattern of the %s is %s = %s", names[k], cl[0], last)).Sig = "pattern " + last
		}
	}
}
