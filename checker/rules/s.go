package rules

import (
	"fmt"
	"sort"
	"regexp"
	"strings"

	"tcheck/ir"
	"tcheck/load"
)

// Engine S: index / shape structural rules. Functions are canonicalised with accessor
// calls treated as pure (so locals such as start := s.Start() are forward-substituted and
// the rules do not depend on local names); path conditions are parsed back into boolean
// formulas and every requirement is an implication decided by truth table.

var sPure = map[string]bool{"Start": true, "End": true, "Step": true, "Dims": true, "Shape": true, "Strides": true,
	"IsVector": true, "IsScalarEquiv": true, "IsScalar": true, "oshape": true, "ostrides": true, "Size": true, "len": true, "IsRowMajor": true, "IsColMajor": true,
	"oldAP": true, "IsZero": true, "DataOrder": true, "IsMaterializable": true, "RequiresIterator": true, "IsView": true, "IsMasked": true, "IsContiguous": true, "IsNotContiguous": true, "IsTransposed": true, "IsRowVec": true, "IsColVec": true, "HasSameOrder": true, "Info": true, "Dtype": true, "transposeAxes": true, "parentTensor": true}

func sCanon(rc *RC, fi *load.FuncInfo) (*ir.Canon, []*ir.Node) {
	c := ir.NewCanon(rc.P.Fset, fi.Pkg.TypesInfo, ir.Options{ParamNames: true, KeepNames: true, PureCall: func(n string) bool { return sPure[n] }})
	return c, c.Func(fi.Decl)
}

func anchor(rc *RC, rule, key string) *load.FuncInfo {
	fi := rc.P.Func(key)
	if fi == nil {
		rc.S.Undec(rule, key, "-", "unresolved anchor: the function this rule is keyed to no longer exists")
	}
	return fi
}

func stepsText(p ir.Path) string {
	var s []string
	for _, st := range p.Steps {
		s = append(s, st.Head)
	}
	return strings.Join(s, " ; ")
}

// S1: two-sided coordinate bounds in Ltoi.
func S1(rc *RC) {
	rc.S.Declare("S1", "two-sided coordinate bounds: every iteration path of Ltoi's coordinate loop that does not leave with an error has passed both coord >= 0 and coord < size for that axis; the scalar branch accepts only 0", 2)
	fi := anchor(rc, "S1", "tensor.Ltoi")
	if fi == nil {
		return
	}
	pos := rc.P.Pos(fi.Decl.Pos())
	_, tree := sCanon(rc, fi)
	found := 0
	for _, lp := range ir.FindLoops(tree) {
		if lp.Kind != "range" || !strings.HasPrefix(lp.Head, "range $coords as ") {
			continue
		}
		idx := strings.TrimPrefix(lp.Head, "range $coords as ")
		paths, ok := ir.EnumPaths(lp.Kids, 64)
		if !ok {
			rc.S.Undec("S1", "tensor.Ltoi#loop", pos, "too many paths")
			return
		}
		accumulates := false
		for _, p := range paths {
			for _, st := range p.Steps {
				if st.Kind == "let" && st.Target == "$ret0" {
					accumulates = true
				}
			}
		}
		coord := "$coords[" + idx + "]"
		if !accumulates {
			// the scalar-equivalent branch: every non-error path must have coord == 0
			found++
			bad := ""
			for _, p := range paths {
				if p.Exit == "return" && !strings.HasSuffix(p.Ret, "nil") && !strings.Contains(p.Ret, "nil") {
					continue
				}
				if p.Exit == "return" && strings.Contains(p.Ret, "errors.") {
					continue
				}
				goal := ir.ParseBool("(" + coord + " == 0)")
				if !ir.Implies(ir.PathFormulas(p), goal) {
					bad = "scalar branch accepts a non-zero coordinate on path " + p.String()
				}
			}
			if bad != "" {
				rc.S.Viol("S1", "tensor.Ltoi#scalar-branch", pos, bad).Sig = "scalar"
			} else {
				rc.S.Ok("S1", "tensor.Ltoi#scalar-branch", pos, "every accepted coordinate of a scalar-equivalent shape is 0")
			}
			continue
		}
		found++
		size := "$shape[" + idx + "]"
		lower := ir.ParseBool("(" + coord + " >= 0)")
		upper := ir.BNot(ir.ParseBool("(" + coord + " >= " + size + ")"))
		var bad []string
		for _, p := range paths {
			if p.Exit == "return" {
				continue // error exit (the success return is after the loop)
			}
			f := ir.PathFormulas(p)
			if !ir.Implies(f, lower) {
				bad = append(bad, "no lower-bound check (coord >= 0) on path "+p.String())
			}
			if !ir.Implies(f, upper) {
				bad = append(bad, "no upper-bound check (coord < size) on path "+p.String())
			}
		}
		if len(bad) > 0 {
			o := rc.S.Viol("S1", "tensor.Ltoi#loop", pos, strings.Join(bad, "\n"))
			o.Sig = fmt.Sprintf("%d unchecked paths: %s", len(bad), firstWords(bad))
		} else {
			rc.S.Ok("S1", "tensor.Ltoi#loop", pos, fmt.Sprintf("%d iteration paths, all bounded on both sides", len(paths)))
		}
	}
	if found < 2 {
		rc.S.Undec("S1", "tensor.Ltoi#structure", pos, "expected a scalar branch and a coordinate loop over coords")
	}
}

func firstWords(bad []string) string {
	var out []string
	for _, b := range bad {
		w := strings.SplitN(b, " on path", 2)[0]
		out = append(out, w)
	}
	return strings.Join(out, "; ")
}

// S2: arity before offset, nothing after error; offsets come from Ltoi.
func S2(rc *RC) {
	rc.S.Declare("S2", "element access by coordinate: every path to Get/Set/mask[...] has passed the arity check and the error check of the offset computation and uses exactly that offset; at() is Ltoi over the tensor's own shape and strides; maskAt() is at()", 6)
	for _, key := range []string{"tensor.(*Dense).At", "tensor.(*Dense).SetAt", "tensor.(*Dense).MaskAt", "tensor.(*Dense).SetMaskAt"} {
		fi := anchor(rc, "S2", key)
		if fi == nil {
			continue
		}
		pos := rc.P.Pos(fi.Decl.Pos())
		_, tree := sCanon(rc, fi)
		paths, ok := ir.EnumPaths(tree, 128)
		if !ok {
			rc.S.Undec("S2", key, pos, "too many paths")
			continue
		}
		var bad []string
		accesses := 0
		for _, p := range paths {
			var idxVar, errVar string
			for _, st := range p.Steps {
				if st.Kind == "tuple" && len(st.Targets) == 2 && (strings.HasSuffix(st.Value, "$r.at($coords...)") || strings.HasSuffix(st.Value, "$r.maskAt($coords...)")) {
					idxVar, errVar = st.Targets[0], st.Targets[1]
				}
			}
			for _, st := range p.Steps {
				txt := st.Head
				acc := ""
				for _, pat := range []string{"$r.Get(", "$r.Set(", "$r.mask["} {
					if i := strings.Index(txt, pat); i >= 0 {
						rest := txt[i+len(pat):]
						j := strings.IndexAny(rest, ",)]")
						if j >= 0 {
							acc = rest[:j]
						}
					}
				}
				if acc == "" {
					continue
				}
				accesses++
				f := ir.PathFormulas(p)
				if !ir.Implies(f, ir.ParseBool("($r.Dims() == len($coords))")) && !ir.Implies(f, ir.ParseBool("(len($coords) == $r.Dims())")) {
					bad = append(bad, "element access not dominated by the arity check: "+p.String())
				}
				if idxVar == "" {
					bad = append(bad, "element access without an offset from at()/maskAt(): "+p.String())
					continue
				}
				if acc != idxVar {
					bad = append(bad, fmt.Sprintf("element access uses %s, not the computed offset %s", acc, idxVar))
				}
				if !ir.Implies(f, ir.ParseBool("("+errVar+" == nil)")) && !ir.Implies(f, ir.ParseBool("(nil == "+errVar+")")) {
					bad = append(bad, "element access reachable although the offset computation failed: "+p.String())
				}
			}
		}
		if accesses == 0 {
			bad = append(bad, "no element access found (the accessor no longer reads/writes through Get/Set/mask[])")
		}
		if len(bad) > 0 {
			rc.S.Viol("S2", key, pos, strings.Join(bad, "\n")).Sig = firstWords(bad)
		} else {
			rc.S.Ok("S2", key, pos, fmt.Sprintf("%d paths, %d element accesses, all after arity and error checks", len(paths), accesses))
		}
	}
	// at and maskAt
	for key, want := range map[string][]string{
		"tensor.(*Dense).at":     {"Ltoi($r.Shape(), $r.Strides(), $coords...)"},
		"tensor.(*Dense).maskAt": {"$r.at($coords...)", "Ltoi($r.Shape(), $r.Strides(), $coords...)"},
	} {
		fi := anchor(rc, "S2", key)
		if fi == nil {
			continue
		}
		pos := rc.P.Pos(fi.Decl.Pos())
		_, tree := sCanon(rc, fi)
		paths, ok := ir.EnumPaths(tree, 64)
		if !ok {
			rc.S.Undec("S2", key, pos, "too many paths")
			continue
		}
		var bad []string
		var other []string
		for _, p := range paths {
			if p.Exit != "return" {
				bad = append(bad, "path without return")
				continue
			}
			okRet := false
			for _, w := range want {
				if p.Ret == w {
					okRet = true
				}
			}
			if strings.Contains(p.Ret, "errors.") {
				// the offset helpers refuse nothing themselves: whether a coordinate is valid is
				// decided by Ltoi over the tensor's own shape, and a further guard can only reject
				// coordinates Ltoi accepts (offset >= DataSize() rejects index 0 of a scalar, whose
				// DataSize() is 0: seed R9C02a)
				bad = append(bad, fmt.Sprintf("refuses on its own with %q on path [%s]: every refusal of a coordinate is Ltoi's", p.Ret, strings.Join(p.Guards, " && ")))
				continue
			}
			if !okRet {
				if strings.Contains(p.Ret, "Ltoi(") || strings.Contains(p.Ret, ".at(") {
					bad = append(bad, fmt.Sprintf("returns %q on path %s; every offset must come from %s", p.Ret, p.String(), want[0]))
				} else if m := directCoord.FindStringSubmatch(p.Ret); m != nil {
					// a coordinate handed out as the offset itself: both of its bounds must be on the path
					f := ir.PathFormulas(p)
					c := "$coords[" + m[1] + "]"
					lower := ir.Implies(f, ir.ParseBool("("+c+" >= 0)"))
					upper := false
					for _, fm := range f {
						for _, a := range fm.Atoms() {
							if strings.HasPrefix(a, "("+c+" >= ") && a != "("+c+" >= 0)" && ir.Implies(f, ir.BNot(ir.BAtom(a))) {
								upper = true
							}
						}
					}
					if !lower || !upper {
						bad = append(bad, fmt.Sprintf("returns the coordinate %s as the offset on path [%s] without establishing both of its bounds (0 <= %s < dimension)", c, strings.Join(p.Guards, " && "), c))
					} else {
						other = append(other, fmt.Sprintf("returns %q on path [%s]: an offset computed without Ltoi (its bounds are checked), not compared with Ltoi", p.Ret, strings.Join(p.Guards, " && ")))
					}
				} else {
					other = append(other, fmt.Sprintf("returns %q on path [%s]: an offset computed without Ltoi, which this rule does not compare with it", p.Ret, strings.Join(p.Guards, " && ")))
				}
			}
		}
		if len(bad) == 0 && len(other) > 0 {
			rc.S.Undec("S2", key, pos, other[0])
			continue
		}
		if len(bad) > 0 {
			rc.S.Viol("S2", key, pos, strings.Join(bad, "\n")).Sig = fmt.Sprint(len(bad)) + " deviating returns"
		} else {
			rc.S.Ok("S2", key, pos, "returns "+paths[0].Ret)
		}
	}
}

var directCoord = regexp.MustCompile(`^\$coords\[(\d+)\], nil$`)

// S3: validator clause set.
func S3(rc *RC) {
	rc.S.Declare("S3", "slice validator: CheckSlice returns nil only when start <= end, start >= 0, not(step == 0 and end-start > 1) and start < size; SliceDetails validates every non-nil slice, clamps end to size and expands nil to (0,size,1)", 2)
	if fi := anchor(rc, "S3", "tensor.CheckSlice"); fi != nil {
		pos := rc.P.Pos(fi.Decl.Pos())
		_, tree := sCanon(rc, fi)
		paths, ok := ir.EnumPaths(tree, 128)
		if !ok {
			rc.S.Undec("S3", "tensor.CheckSlice", pos, "too many paths")
		} else {
			goals := map[string]*ir.BExpr{
				"start <= end":                      ir.ParseBool("($s.End() >= $s.Start())"),
				"start >= 0":                        ir.ParseBool("($s.Start() >= 0)"),
				"not (step == 0 and end-start > 1)": ir.BNot(ir.BAnd(ir.ParseBool("($s.Step() == 0)"), ir.ParseBool("(($s.End() - $s.Start()) > 1)"))),
				"start < size":                      ir.BNot(ir.ParseBool("($s.Start() >= $size)")),
			}
			var bad []string
			n := 0
			for _, p := range paths {
				if p.Exit != "return" || p.Ret != "nil" {
					continue
				}
				n++
				for name, g := range goals {
					if !ir.Implies(ir.PathFormulas(p), g) {
						bad = append(bad, "accepts a slice without establishing "+name)
					}
				}
			}
			if n == 0 {
				bad = append(bad, "no accepting path")
			}
			sortStrings(bad)
			if len(bad) > 0 {
				rc.S.Viol("S3", "tensor.CheckSlice", pos, strings.Join(bad, "; ")).Sig = strings.Join(bad, "; ")
			} else {
				rc.S.Ok("S3", "tensor.CheckSlice", pos, fmt.Sprintf("%d accepting path(s) establish all four clauses", n))
			}
		}
	}
	if fi := anchor(rc, "S3", "tensor.SliceDetails"); fi != nil {
		pos := rc.P.Pos(fi.Decl.Pos())
		_, tree := sCanon(rc, fi)
		paths, ok := ir.EnumPaths(tree, 128)
		if !ok {
			rc.S.Undec("S3", "tensor.SliceDetails", pos, "too many paths")
			return
		}
		var bad []string
		for _, p := range paths {
			// guards mention the named result `end`; read it as the slice's End() it was loaded from
			for _, st := range p.Steps {
				if st.Kind == "let" && st.Value == "$s.End()" {
					for i := range p.Guards {
						p.Guards[i] = ir.ReplaceWord(p.Guards[i], st.Target, st.Value)
					}
					break
				}
			}
			f := ir.PathFormulas(p)
			final := map[string]string{}
			checked := false
			for _, st := range p.Steps {
				if st.Kind == "let" {
					final[st.Target] = st.Value
					if st.Value == "CheckSlice($s, $size)" {
						checked = true
					}
				}
			}
			// explicit `return a, b, c, err` instead of assignments to the named results
			if p.Exit == "return" && p.Ret != "" {
				if parts := splitArgs(p.Ret); len(parts) == 4 {
					env := pathEnv(p)
					for i, v := range parts {
						v = substEnv(v, env)
						final[fmt.Sprintf("$ret%d", i)] = v
					}
				}
			}
			nilSlice := ir.Implies(f, ir.ParseBool("($s == nil)")) || ir.Implies(f, ir.ParseBool("(nil == $s)"))
			if nilSlice {
				if final["$ret0"] != "0" || final["$ret1"] != "$size" || final["$ret2"] != "1" {
					bad = append(bad, fmt.Sprintf("nil slice expands to (%s,%s,%s), want (0,size,1)", final["$ret0"], final["$ret1"], final["$ret2"]))
				}
				continue
			}
			if !checked {
				bad = append(bad, "non-nil slice used without CheckSlice: "+p.String())
				continue
			}
			okErr := ir.Implies(f, ir.ParseBool("($ret3 == nil)")) || ir.Implies(f, ir.ParseBool("(nil == $ret3)"))
			if !okErr {
				continue // the error exit
			}
			if final["$ret0"] != "$s.Start()" || final["$ret2"] != "$s.Step()" {
				bad = append(bad, "start/step are not the slice's own")
			}
			// end is s.End() clamped to size
			endVar := ""
			for k, v := range final {
				if v == "$s.End()" || (v == "$size" && k != "$ret0" && k != "$ret2") {
					endVar = k
				}
			}
			clamped := final[endVar] == "$size" && ir.Implies(f, ir.BNot(ir.ParseBool("($size >= $s.End())")))
			plain := final[endVar] == "$s.End()" && ir.Implies(f, ir.ParseBool("($size >= $s.End())"))
			if !clamped && !plain {
				bad = append(bad, "end is not clamped to the axis length on path "+p.String())
			}
		}
		sortStrings(bad)
		if len(bad) > 0 {
			rc.S.Viol("S3", "tensor.SliceDetails", pos, strings.Join(bad, "; ")).Sig = firstWords(bad)
		} else {
			rc.S.Ok("S3", "tensor.SliceDetails", pos, fmt.Sprintf("%d paths: nil expands, others validated and clamped", len(paths)))
		}
	}
}

func sortStrings(s []string) {
	for i := 1; i < len(s); i++ {
		for j := i; j > 0 && s[j] < s[j-1]; j-- {
			s[j], s[j-1] = s[j-1], s[j]
		}
	}
}

// calcLen extracts, from the main loop of a slice calculator, the sequence of conditional
// updates of the result length under step > 0 and under step <= 0, with the length element
// renamed LEN and the loop index I.
type lenUpdate struct{ Guard, Value string }

func sliceLenTerms(tree []*ir.Node) (pos, nonpos []lenUpdate, usesDetails bool, note string) {
	for _, lp := range ir.FindLoops(tree) {
		var stepIf *ir.Node
		var names []string
		for _, n := range lp.Kids {
			if n.Kind == "tuple" && strings.Contains(n.Value, "SliceDetails(") && len(n.Targets) == 4 {
				usesDetails = true
				names = n.Targets[:3]
			}
		}
		for _, n := range lp.Kids {
			if n.Kind == "if" && len(names) == 3 && n.Head == "("+names[2]+" > 0)" {
				stepIf = n
			}
		}
		if stepIf == nil {
			continue
		}
		idx := "@r"
		if lp.Kind == "loop" {
			// for i := 0; i < dims; i++ : index variable is the first local compared in the head
			h := lp.Head
			if i := strings.Index(h, "%"); i >= 0 {
				j := i + 1
				for j < len(h) && (h[j] == '_' || h[j] >= '0' && h[j] <= '9' || h[j] >= 'a' && h[j] <= 'z' || h[j] >= 'A' && h[j] <= 'Z') {
					j++
				}
				// the loop variable is the one incremented in the post statement
				if k := strings.LastIndex(h, "; "); k >= 0 {
					post := h[k+2:]
					if e := strings.Index(post, " = "); e > 0 {
						idx = post[:e]
					}
				} else {
					idx = h[i:j]
				}
			}
		}
		var target string
		collect := func(ns []*ir.Node) []lenUpdate {
			var out []lenUpdate
			var walk func(ns []*ir.Node, guard string)
			walk = func(ns []*ir.Node, guard string) {
				for _, n := range ns {
					switch n.Kind {
					case "store", "let":
						if strings.HasSuffix(n.Target, "["+idx+"]") && (target == "" || n.Target == target) && !strings.Contains(n.Target, "Strides") && !strings.Contains(n.Target, "strides") {
							target = n.Target
							out = append(out, lenUpdate{guard, n.Value})
						}
					case "if":
						g := n.Head
						if guard != "" {
							g = guard + " && " + g
						}
						walk(n.Kids, g)
						if n.Else != nil {
							note = "else branch inside the length computation"
						}
					}
				}
			}
			walk(ns, "")
			return out
		}
		pos = collect(stepIf.Kids)
		nonpos = collect(stepIf.Else)
		ren := func(us []lenUpdate) []lenUpdate {
			for i := range us {
				for _, f := range []*string{&us[i].Guard, &us[i].Value} {
					*f = strings.ReplaceAll(*f, target, "LEN")
					*f = ir.ReplaceWord(*f, idx, "I")
					for k, nm := range []string{"START", "END", "STEP"} {
						*f = ir.ReplaceWord(*f, names[k], nm)
					}
				}
			}
			return us
		}
		return ren(pos), ren(nonpos), usesDetails, note
	}
	return nil, nil, usesDetails, "no loop with a branch on step > 0"
}

func fmtUpdates(us []lenUpdate) string {
	var s []string
	for _, u := range us {
		if u.Guard == "" {
			s = append(s, "LEN = "+u.Value)
		} else {
			s = append(s, "if "+u.Guard+" { LEN = "+u.Value+" }")
		}
	}
	return strings.Join(s, " ; ")
}

// S4 + S5: the two slice calculators validate every axis and compute the same length.
func S5(rc *RC) {
	rc.S.Declare("S4", "both slice calculators refuse more slices than axes and obtain (start,end,step) of every axis from SliceDetails before using them", 2)
	rc.S.Declare("S5", "slice length term: under step > 0 each calculator computes ceil((end-start)/step) = q, +1 when the remainder is positive (no other condition), then maps <= 0 to 1; under step <= 0 end-start; both calculators agree", 3)
	want := "LEN = ((END - START) / STEP) ; if (((END - START) % STEP) > 0) { LEN = (LEN + 1) } ; if (0 >= LEN) { LEN = 1 }"
	wantNon := "LEN = (END - START)"
	got := map[string]string{}
	for _, key := range []string{"tensor.(*AP).S", "tensor.(Shape).S"} {
		fi := anchor(rc, "S5", key)
		if fi == nil {
			continue
		}
		pos := rc.P.Pos(fi.Decl.Pos())
		c := ir.NewCanon(rc.P.Fset, fi.Pkg.TypesInfo, ir.Options{ParamNames: true, KeepNames: true, PureCall: func(n string) bool { return sPure[n] }})
		tree := c.Func(fi.Decl)
		// S4
		paths, ok := ir.EnumPaths(tree, 4096)
		s4bad := ""
		if ok {
			refuses := false
			for _, p := range paths {
				if p.Exit == "return" && len(p.Guards) == 1 && (p.Guards[0] == "(len($slices) > len($r.shape))" || p.Guards[0] == "(len($slices) > len($r))") {
					refuses = true
				}
			}
			if !refuses {
				s4bad = "no refusal of len(slices) > dims before the axis loop"
			}
		}
		p, np, uses, note := sliceLenTerms(tree)
		if !uses {
			s4bad += " axis loop does not call SliceDetails"
		}
		if s4bad != "" {
			rc.S.Viol("S4", key, pos, strings.TrimSpace(s4bad)).Sig = strings.TrimSpace(s4bad)
		} else {
			rc.S.Ok("S4", key, pos, "refuses too many slices; SliceDetails per axis")
		}
		if note != "" {
			rc.S.Undec("S5", key, pos, note)
			continue
		}
		g := fmtUpdates(p)
		gn := fmtUpdates(np)
		got[key] = g + " | " + gn
		if g == want && gn == wantNon {
			rc.S.Ok("S5", key, pos, g)
		} else {
			o := rc.S.Viol("S5", key, pos, fmt.Sprintf("length term differs from ceil((end-start)/step):\n got: %s | %s\nwant: %s | %s", g, gn, want, wantNon))
			o.Sig = g + " | " + gn
		}
	}
	if len(got) == 2 {
		a, b := got["tensor.(*AP).S"], got["tensor.(Shape).S"]
		if a == b {
			rc.S.Ok("S5", "AP.S~Shape.S", "-", "the two calculators compute the same length term")
		} else {
			o := rc.S.Viol("S5", "AP.S~Shape.S", "-", fmt.Sprintf("the shape-only calculator and the access-pattern calculator disagree:\n AP.S:    %s\n Shape.S: %s", a, b))
			o.Sig = a + " <> " + b
		}
	}
}

// atom synonyms: different spellings of one layout fact are folded before implication.
var atomSyn = map[string]struct {
	Atom string
	Neg  bool
}{
	"$r.IsView()":                      {"($r.viewOf == 0)", true},
	"(0 == $r.viewOf)":                 {"($r.viewOf == 0)", false},
	"$r.o.IsContiguous()":              {"$r.o.IsNotContiguous()", true},
	"$r.DataOrder().IsContiguous()":    {"$r.o.IsNotContiguous()", true},
	"$r.DataOrder().IsNotContiguous()": {"$r.o.IsNotContiguous()", false},
	"$r.AP.o.IsNotContiguous()":        {"$r.o.IsNotContiguous()", false},
	"$r.AP.o.IsContiguous()":           {"$r.o.IsNotContiguous()", true},
}

func normAtoms(b *ir.BExpr) *ir.BExpr {
	if b == nil {
		return nil
	}
	switch b.Op {
	case "atom":
		if s, ok := atomSyn[b.Atom]; ok {
			if s.Neg {
				return ir.BNot(ir.BAtom(s.Atom))
			}
			return ir.BAtom(s.Atom)
		}
		return b
	case "const":
		return b
	}
	return &ir.BExpr{Op: b.Op, L: normAtoms(b.L), R: normAtoms(b.R)}
}

func pathF(p ir.Path) []*ir.BExpr {
	var out []*ir.BExpr
	for _, f := range ir.PathFormulas(p) {
		out = append(out, normAtoms(f))
	}
	return out
}

// S7: reshape gate.
func S7(rc *RC) {
	rc.S.Declare("S7", "reshape gate: every path of Dense.Reshape that reaches reshape() has established equal total size, is not a non-contiguous view, and has materialised a pending lazy transpose; reshape() only sets the shape and checks sanity", 2)
	if fi := anchor(rc, "S7", "tensor.(*Dense).Reshape"); fi != nil {
		pos := rc.P.Pos(fi.Decl.Pos())
		_, tree := sCanon(rc, fi)
		paths, ok := ir.EnumPaths(tree, 256)
		if !ok {
			rc.S.Undec("S7", "tensor.(*Dense).Reshape", pos, "too many paths")
		} else {
			var bad []string
			n := 0
			for _, p := range paths {
				reaches := strings.Contains(p.Ret, "$r.reshape(")
				for _, st := range p.Steps {
					if strings.Contains(st.Head, "$r.reshape(") || strings.Contains(st.Head, "$r.setShape(") {
						reaches = true
					}
				}
				if !reaches {
					continue
				}
				n++
				f := pathF(substPathLets(p))
				sizeEq := ir.ParseBool("($r.Shape().TotalSize() == tensor.Shape($dims).TotalSize())")
				alt := ir.ParseBool("(tensor.Shape($dims).TotalSize() == $r.Shape().TotalSize())")
				if !ir.Implies(f, sizeEq) && !ir.Implies(f, alt) {
					bad = append(bad, "reshape reachable without the total-size equality check")
				}
				// any tensor with gaps between its elements - a view, or the clone of one, which owns
				// its memory but keeps the view's strides (finding 78)
				noGaps := ir.BNot(ir.BAtom("$r.o.IsNotContiguous()"))
				if !ir.Implies(f, noGaps) {
					bad = append(bad, "reshape reachable for a non-contiguous tensor (guard: "+strings.Join(p.Guards, " && ")+")")
				}
				materialised := ir.Implies(f, ir.BAtom("$r.old.IsZero()"))
				for _, st := range p.Steps {
					if st.Kind == "call" && st.Value == "$r.Transpose()" {
						materialised = true
					}
				}
				if !materialised {
					bad = append(bad, "reshape reachable with a pending lazy transpose that is not materialised")
				}
			}
			if n == 0 {
				bad = append(bad, "no path reaches reshape()")
			}
			sortStrings(bad)
			if len(bad) > 0 {
				rc.S.Viol("S7", "tensor.(*Dense).Reshape", pos, strings.Join(bad, "; ")).Sig = firstWords(bad)
			} else {
				rc.S.Ok("S7", "tensor.(*Dense).Reshape", pos, fmt.Sprintf("%d paths reach reshape(), all gated", n))
			}
		}
	}
	if fi := anchor(rc, "S7", "tensor.(*Dense).reshape"); fi != nil {
		pos := rc.P.Pos(fi.Decl.Pos())
		_, tree := sCanon(rc, fi)
		txt := strings.TrimSpace(ir.Render(tree))
		if txt == "$r.setShape($dims...)\nreturn $r.sanity()" {
			rc.S.Ok("S7", "tensor.(*Dense).reshape", pos, "setShape + sanity only")
		} else {
			rc.S.Viol("S7", "tensor.(*Dense).reshape", pos, "reshape() does more than setShape and sanity: "+strings.ReplaceAll(txt, "\n", " ; ")).Sig = txt
		}
	}
}

// S9: co-slicing in Slice / SliceInto.
func S9(rc *RC) {
	rc.S.Declare("S9", "view construction: Slice/SliceInto take the window (start,end) and access pattern from one AP.S call, slice data and mask with that same window, record the parent, and copy dtype, engines and flag", 2)
	for _, key := range []string{"tensor.(*Dense).Slice", "tensor.(*Dense).SliceInto"} {
		fi := anchor(rc, "S9", key)
		if fi == nil {
			continue
		}
		pos := rc.P.Pos(fi.Decl.Pos())
		_, tree := sCanon(rc, fi)
		paths, ok := ir.EnumPaths(tree, 256)
		if !ok {
			rc.S.Undec("S9", key, pos, "too many paths")
			continue
		}
		var bad []string
		succ := 0
		for _, p := range paths {
			var ap, s, e, errv string
			for _, st := range p.Steps {
				if st.Kind == "tuple" && len(st.Targets) == 4 && strings.HasPrefix(st.Value, "$r.AP.S($r.len(), $slices...)") {
					ap, s, e, errv = st.Targets[0], st.Targets[1], st.Targets[2], st.Targets[3]
				}
			}
			if ap == "" {
				bad = append(bad, "path without a call of AP.S over the receiver's full length")
				continue
			}
			f := pathF(p)
			if !ir.Implies(f, ir.ParseBool("("+errv+" == nil)")) && !ir.Implies(f, ir.ParseBool("(nil == "+errv+")")) {
				continue // error exit
			}
			succ++
			// the view variable: target of `.AP = ap`
			view := ""
			have := map[string]bool{}
			for _, st := range p.Steps {
				have[st.Head] = true
				if st.Kind == "store" && strings.HasSuffix(st.Target, ".AP") && st.Value == ap {
					view = strings.TrimSuffix(st.Target, ".AP")
				}
			}
			if view == "" {
				bad = append(bad, "the view does not receive the access pattern computed by AP.S")
				continue
			}
			for _, req := range []string{view + ".t = $r.t", view + ".e = $r.e", view + ".oe = $r.oe", view + ".flag = $r.flag", view + ".setParentTensor($r)", "$r.sliceInto(" + s + ", " + e + ", &" + view + ".array)"} {
				if !have[req] {
					bad = append(bad, "missing on the success path: "+strings.ReplaceAll(strings.ReplaceAll(req, s, "START"), e, "END"))
				}
			}
			masked := ir.Implies(f, ir.BAtom("$r.IsMasked()"))
			if masked && !have[view+".mask = $r.mask["+s+":"+e+"]"] {
				bad = append(bad, "a masked source's mask is not sliced with the data window")
			}
			// a view handed in for reuse (a parameter) keeps nothing of its previous life: the saved
			// access pattern and permutation of a pending lazy transpose are dropped, and so is
			// its mask when the new source has none (finding 82)
			if strings.HasPrefix(view, "$") {
				if !have[view+".old.zero()"] && !have[view+".old.zeroOnly()"] && !have[view+".old = tensor.AP{}"] {
					bad = append(bad, "the reused view's saved access pattern (old) is not cleared")
				}
				if !have[view+".transposeWith = nil"] && !p.Has("!("+view+".transposeWith != nil)") && !p.Has("("+view+".transposeWith == nil)") {
					bad = append(bad, "the reused view's saved permutation (transposeWith) is not cleared")
				}
				if !masked && !have[view+".mask = nil"] {
					bad = append(bad, "the reused view keeps its previous mask when the source is not masked")
				}
			}
			if !strings.HasPrefix(p.Ret, view) {
				bad = append(bad, "returns "+p.Ret+" instead of the view")
			}
		}
		if succ < 2 {
			bad = append(bad, "expected a masked and an unmasked success path")
		}
		sortStrings(bad)
		bad = uniq(bad)
		if len(bad) > 0 {
			rc.S.Viol("S9", key, pos, strings.Join(bad, "; ")).Sig = strings.Join(bad, "; ")
		} else {
			rc.S.Ok("S9", key, pos, fmt.Sprintf("%d success paths: window, mask, parent, dtype/engine/flag all taken from the source", succ))
		}
	}
}

func uniq(s []string) []string {
	var out []string
	for i, x := range s {
		if i == 0 || x != s[i-1] {
			out = append(out, x)
		}
	}
	return out
}

// S11: the order flag and the strides move together. A function that can flip the
// column-major bit of an access pattern's data order (toggleColMajor, or-ing/assigning
// ColMajor) must, in the same function, recompute or replace that pattern's strides.
func S11(rc *RC) {
	rc.S.Declare("S11", "order flag and strides move together: whoever flips the column-major bit of AP.o recomputes or replaces AP.strides in the same function", 1)
	n := 0
	for _, fi := range rc.P.SortedFuncs() {
		if fi.Pkg != rc.P.Root || fi.Decl.Body == nil || strings.HasPrefix(fi.File, "sparse") {
			continue
		}
		c := ir.NewCanon(rc.P.Fset, fi.Pkg.TypesInfo, ir.Options{ParamNames: true, KeepNames: true, NoSubst: true})
		tree := c.Func(fi.Decl)
		flips := ""
		for _, nd := range flatten(tree) {
			if (nd.Kind == "store" || nd.Kind == "let") && (strings.HasSuffix(nd.Target, ".o") || nd.Target == "$r.o") {
				if strings.Contains(nd.Value, "toggleColMajor()") || strings.Contains(nd.Value, "ColMajor") {
					flips = nd.Head
				}
			}
		}
		if flips == "" {
			continue
		}
		n++
		txt := ir.Render(tree)
		pos := rc.P.Pos(fi.Decl.Pos())
		if strings.Contains(txt, ".strides = ") || strings.Contains(txt, "calcStrides()") || strings.Contains(txt, "CalcStrides") || strings.Contains(txt, ".SetShape(") {
			rc.S.Ok("S11", fi.Key, pos, "flips the order bit and recomputes strides")
		} else {
			rc.S.Viol("S11", fi.Key, pos, fmt.Sprintf("%s flips the column-major bit (%s) but leaves the strides of the old order in place: the tensor is then addressed with the wrong strides", fi.Key, flips)).Sig = "flag flipped, strides kept"
		}
	}
	if n == 0 {
		rc.S.Undec("S11", "tensor#order-flips", "-", "no function flips the data order any more (anchor lost)")
	}
}

// S10: the two default-stride calculators are mirror images: same recurrence
// (strides[i] = acc; acc *= shape[i], acc starting at 1), opposite loop direction.
func S10(rc *RC) {
	rc.S.Declare("S10", "stride calculators mirror: CalcStrides (last axis first) and CalcStridesColMajor (first axis first) run the same recurrence strides[i] = acc; acc = acc*shape[i] from acc = 1", 1)
	type form struct {
		init, head, body, pos string
		early                []string
	}
	get := func(key string) (form, bool) {
		fi := anchor(rc, "S10", key)
		if fi == nil {
			return form{}, false
		}
		_, tree := sCanon(rc, fi)
		var f form
		f.pos = rc.P.Pos(fi.Decl.Pos())
		// early exits before the recurrence: only the scalar shape may leave without one
		// stride per axis (a vector special case returning a single stride was finding 64)
		for _, n := range tree {
			if n.Kind == "loop" || n.Kind == "range" {
				break
			}
			if n.Kind != "if" {
				continue
			}
			ret := false
			for _, k := range flatten([]*ir.Node{n}) {
				if k.Kind == "ret" {
					ret = true
				}
			}
			if ret && n.Head != "$r.IsScalar()" {
				f.early = append(f.early, n.Head)
			}
		}
		for i, n := range tree {
			if n.Kind == "loop" {
				f.head = n.Head
				f.body = ir.Render(n.Kids)
				if i >= 2 {
					f.init = tree[i-2].Head + " ; " + tree[i-1].Head
				}
			}
			if n.Kind == "range" && n.Head == "range $r as @r" {
				// `for i := 0; i < len(s); i++` in canonical form: the first-axis-up walk
				f.head = "for (len($r) > %i) ; %i = (%i + 1)"
				f.body = ir.ReplaceWord(ir.Render(n.Kids), "@r", "%i")
				if i >= 1 {
					f.init = tree[i-1].Head + " ; %i = 0"
				}
			}
		}
		return f, f.head != ""
	}
	r, ok1 := get("tensor.(Shape).CalcStrides")
	c, ok2 := get("tensor.(Shape).CalcStridesColMajor")
	if !ok1 || !ok2 {
		rc.S.Undec("S10", "CalcStrides~CalcStridesColMajor", "-", "no accumulation loop found in one of the calculators")
		return
	}
	wantBody := "%retVal[%i] = %acc\nif (0 > $r[%i])\n  panic(\"negative dimension size does not make sense\")\n%acc = ($r[%i] * %acc)\n"
	var bad []string
	norm := func(s string) string { return normPanic(alphaNorm(s)) }
	if norm(r.body) != norm(c.body) {
		bad = append(bad, "loop bodies differ: "+firstDiff(norm(r.body), norm(c.body)))
	}
	// the recurrence itself: the stride of the axis is the accumulated product, then the product
	// takes in the axis' extent - in that order, and nothing else writes either of them
	// (whatever else the body does: the negative-extent check may be inline or a helper)
	storesOf := func(body string) string {
		var stores []string
		for _, l := range strings.Split(body, "\n") {
			t := strings.TrimSpace(l)
			if strings.Contains(t, " = ") && !strings.HasPrefix(t, "if ") {
				// a range value read after a store is rendered old(x): the same element here
				t = regexp.MustCompile(`old\(([^()]*)\)`).ReplaceAllString(t, "$1")
				if m := regexp.MustCompile(`^(\S+) = \((\S+) \* (\S+)\)$`).FindStringSubmatch(t); m != nil && m[3] < m[2] {
					t = m[1] + " = (" + m[3] + " * " + m[2] + ")"
				}
				stores = append(stores, t)
			}
		}
		return alphaNorm(strings.Join(stores, "\n"))
	}
	isRecurrence := func(body string) bool { return storesOf(body) == storesOf(wantBody) }
	if norm(r.body) != norm(wantBody) && norm(c.body) != norm(wantBody) && !(isRecurrence(r.body) && isRecurrence(c.body)) {
		bad = append(bad, "neither body is the recurrence strides[i] = acc; acc = acc*shape[i]: "+strings.ReplaceAll(r.body, "\n", " ; "))
	}
	for _, e := range r.early {
		bad = append(bad, "CalcStrides leaves before the recurrence under "+e+": only a scalar shape has no strides; every other shape gets one stride per axis")
	}
	for _, e := range c.early {
		bad = append(bad, "CalcStridesColMajor leaves before the recurrence under "+e+": only a scalar shape has no strides; every other shape gets one stride per axis")
	}
	if r.init != "%acc = 1 ; %i = (len($r) - 1)" || r.head != "for (%i >= 0) ; %i = (%i - 1)" {
		bad = append(bad, "CalcStrides does not run from the last axis down with acc = 1: "+r.init+" ; "+r.head)
	}
	if c.init != "%acc = 1 ; %i = 0" || c.head != "for (len($r) > %i) ; %i = (%i + 1)" {
		bad = append(bad, "CalcStridesColMajor does not run from the first axis up with acc = 1: "+c.init+" ; "+c.head)
	}
	if len(bad) > 0 {
		rc.S.Viol("S10", "CalcStrides~CalcStridesColMajor", r.pos, strings.Join(bad, "; ")).Sig = strings.Join(bad, "; ")
	} else {
		rc.S.Ok("S10", "CalcStrides~CalcStridesColMajor", r.pos, "same recurrence, mirrored direction")
	}
}

// S12: the contiguity marker of the access-pattern slice calculator. Reshape's refusal of
// non-contiguous views, RequiresIterator and every raw fast path key on the NonContiguous
// flag that AP.S computes; a sliced view that is not marked is read as if it were dense.
// Names are bound structurally (loop index, the slice handed to SliceDetails, its step
// result, the outermost-axis variable, the order variable handed to MakeAP), so the rule is
// insensitive to renaming; it demands only that the marking happens in *at least* the cases
// below (marking more is conservative and allowed).
func S12(rc *RC) {
	rc.S.Declare("S12", "contiguity marker: in AP.S the result is marked NonContiguous at least when an axis other than the outermost one (axis 0 for row-major or vectors, the last axis otherwise) of a non-vector is sliced, when any axis of a lazily transposed non-vector pattern is sliced, or when a step > 1 is taken; the marked order is the one handed to MakeAP", 2)
	key := "tensor.(*AP).S"
	fi := anchor(rc, "S12", key)
	if fi == nil {
		return
	}
	pos := rc.P.Pos(fi.Decl.Pos())
	_, tree := sCanon(rc, fi)
	var loop *ir.Node
	var sl, step, idx string
	for _, lp := range ir.FindLoops(tree) {
		for _, n := range lp.Kids {
			if n.Kind == "tuple" && strings.Contains(n.Value, "SliceDetails(") && len(n.Targets) == 4 {
				loop = lp
				step = n.Targets[2]
				v := n.Value[strings.Index(n.Value, "SliceDetails(")+len("SliceDetails("):]
				if c := strings.Index(v, ","); c > 0 {
					sl = v[:c]
				}
			}
		}
		if loop != nil {
			break
		}
	}
	if loop == nil || sl == "" {
		rc.S.Undec("S12", key+"#marker", pos, "no axis loop calling SliceDetails(slice, size)")
		return
	}
	if k := strings.LastIndex(loop.Head, "; "); k >= 0 {
		if e := strings.Index(loop.Head[k+2:], " = "); e > 0 {
			idx = loop.Head[k+2:][:e]
		}
	}
	// outermost-axis variable: assigned 0 under (row-major or vector), len(shape)-1 otherwise
	outer, outerOK := "", false
	for _, n := range tree {
		if n.Kind != "if" || len(n.Kids) != 1 || len(n.Else) != 1 {
			continue
		}
		a, b := n.Kids[0], n.Else[0]
		if (a.Kind == "let" || a.Kind == "store") && (b.Kind == "let" || b.Kind == "store") && a.Target == b.Target {
			outer = a.Target
			cond := normAtomsGeneral(ir.ParseBool(n.Head))
			want := normAtomsGeneral(ir.ParseBool("(!$r.o.IsColMajor() || $r.IsVector())"))
			last := b.Value == "(len($r.shape) - 1)" || b.Value == "($r.Dims() - 1)" || b.Value == "($r.shape.Dims() - 1)"
			if ir.Implies([]*ir.BExpr{cond}, want) && ir.Implies([]*ir.BExpr{want}, cond) && a.Value == "0" && last {
				outerOK = true
			}
		}
	}
	// the same decision written as a default plus one override
	if outer == "" {
		isLast := func(v string) bool {
			return v == "(len($r.shape) - 1)" || v == "($r.Dims() - 1)" || v == "($r.shape.Dims() - 1)"
		}
		want := normAtomsGeneral(ir.ParseBool("(!$r.o.IsColMajor() || $r.IsVector())"))
		defaults := map[string]string{}
		for _, n := range tree {
			if n.Kind == "let" {
				defaults[n.Target] = n.Value
			}
			if n.Kind != "if" || len(n.Kids) != 1 || len(n.Else) != 0 || n.Kids[0].Kind != "let" {
				continue
			}
			x := n.Kids[0]
			d, ok := defaults[x.Target]
			if !ok {
				continue
			}
			cond := normAtomsGeneral(ir.ParseBool(n.Head))
			switch {
			case x.Value == "0" && isLast(d):
				outer = x.Target
				outerOK = ir.Implies([]*ir.BExpr{cond}, want) && ir.Implies([]*ir.BExpr{want}, cond)
			case isLast(x.Value) && d == "0":
				outer = x.Target
				outerOK = ir.Implies([]*ir.BExpr{cond}, ir.BNot(want)) && ir.Implies([]*ir.BExpr{ir.BNot(want)}, cond)
			}
		}
	}
	// the marker statements and their guards
	var guards []*ir.BExpr
	orderVar := ""
	// a marker collected in a boolean inside the loop and applied once after it:
	// `if c { gaps = true }` … `if gaps { order = MakeDataOrder(order, NonContiguous) }`
	deferredFlag := map[string]string{}
	for _, n := range tree {
		if n.Kind == "if" && strings.HasPrefix(n.Head, "%") && !strings.ContainsAny(n.Head, " (") {
			for _, k := range n.Kids {
				if (k.Kind == "let" || k.Kind == "store") && strings.Contains(k.Value, "MakeDataOrder(") && strings.Contains(k.Value, "NonContiguous") {
					deferredFlag[n.Head] = k.Target
				}
			}
		}
	}
	var walk func(ns []*ir.Node, g []*ir.BExpr)
	walk = func(ns []*ir.Node, g []*ir.BExpr) {
		for _, n := range ns {
			switch n.Kind {
			case "let", "store":
				if ov, isFlag := deferredFlag[n.Target]; isFlag && n.Value == "true" {
					orderVar = ov
					var c *ir.BExpr = ir.BConst(true)
					for _, x := range g {
						c = ir.BAnd(c, x)
					}
					guards = append(guards, c)
				}
				if strings.Contains(n.Value, "MakeDataOrder(") && strings.Contains(n.Value, "NonContiguous") {
					orderVar = n.Target
					var c *ir.BExpr = ir.BConst(true)
					for _, x := range g {
						c = ir.BAnd(c, x)
					}
					guards = append(guards, c)
				}
			case "if":
				h := ir.ParseBool(n.Head)
				walk(n.Kids, append(append([]*ir.BExpr{}, g...), h))
				walk(n.Else, append(append([]*ir.BExpr{}, g...), ir.BNot(h)))
			}
		}
	}
	walk(loop.Kids, nil)
	if len(guards) == 0 {
		rc.S.Viol("S12", key+"#marker", pos, "the axis loop never marks the result NonContiguous").Sig = "no marker"
		return
	}
	if outer == "" {
		rc.S.Undec("S12", key+"#outer-axis", pos, "no variable is recognised as the outermost axis (neither `if c {x = 0} else {x = last}` nor a default with one override)")
	} else if !outerOK {
		rc.S.Viol("S12", key+"#outer-axis", pos, fmt.Sprintf("the outermost axis (%s) is not 0 for row-major tensors and vectors and len(shape)-1 otherwise", outer)).Sig = "outer axis"
	} else {
		rc.S.Ok("S12", key+"#outer-axis", pos, outer+" = 0 if row-major or vector, else len(shape)-1")
	}
	var marked *ir.BExpr = ir.BConst(false)
	for _, g := range guards {
		marked = ir.BOr(marked, g)
	}
	ren := func(s string) string {
		s = ir.ReplaceWord(s, sl, "SL")
		s = ir.ReplaceWord(s, step, "STEP")
		s = ir.ReplaceWord(s, idx, "I")
		if outer != "" {
			s = ir.ReplaceWord(s, outer, "OUTER")
		}
		return s
	}
	markedS := ren(marked.String())
	// a lazily transposed non-vector pattern is marked whether or not the axis is cut (finding 76)
	goal := ir.ParseBool("((!$r.IsVector() && ($r.o.IsTransposed() || ((SL != nil) && (I != OUTER)))) || (STEP > 1))")
	got := ir.ParseBool(markedS)
	var bad []string
	if !ir.Implies([]*ir.BExpr{goal}, got) {
		bad = append(bad, fmt.Sprintf("marked only when %s; required at least when %s", markedS, goal.String()))
	}
	// the marked order reaches MakeAP
	reaches := false
	for _, l := range renderFlat2(tree) {
		if strings.Contains(l, "MakeAP(") && orderVar != "" && strings.Contains(l, ", "+orderVar+",") {
			reaches = true
		}
	}
	if !reaches {
		bad = append(bad, "the marked order "+orderVar+" is not the data order handed to MakeAP")
	}
	if len(bad) > 0 {
		rc.S.Viol("S12", key+"#marker", pos, strings.Join(bad, "; ")).Sig = firstWords(bad)
	} else {
		rc.S.Ok("S12", key+"#marker", pos, "marked when "+markedS)
	}
}

func renderFlat2(ns []*ir.Node) []string {
	return strings.Split(ir.Render(ns), "\n")
}

// S14: lock typestate of access patterns. (*AP).SetShape silently does nothing on a locked
// pattern (fin == true), and every pattern handed out by the constructors is locked. A call of
// SetShape therefore installs the shape only if, on every path to it, the same receiver was
// unlocked in this function (unlock(), zero(), or a fresh AP{} value) and not locked again.
// The one accepted exception is listed with its reason.
var s14Except = map[string]string{
	"tensor.(*Dense).fix": "reached only when Shape() is nil: a pattern that never received a shape was never locked (constructors lock after setting the shape; zero() unlocks)",
}

func S14(rc *RC) {
	rc.S.Declare("S14", "access-pattern lock typestate: every call of the lock-respecting (*AP).SetShape is preceded, on every path in its function, by unlock()/zero()/a fresh AP{} of the same receiver with no lock() in between (otherwise the new shape is silently dropped on a tensor that is already in use)", 4)
	normRecv := func(x string) string {
		x = strings.TrimSuffix(x, ".AP")
		return x
	}
	recvOf := func(head, method string) []string {
		var out []string
		for i := 0; ; {
			j := strings.Index(head[i:], method)
			if j < 0 {
				break
			}
			j += i
			k := j
			depth := 0
			for k > 0 {
				c := head[k-1]
				if c == ')' || c == ']' {
					depth++
				} else if c == '(' || c == '[' {
					if depth == 0 {
						break
					}
					depth--
				} else if depth == 0 && (c == ' ' || c == ',' || c == '=' || c == '!' || c == '&') {
					break
				}
				k--
			}
			out = append(out, normRecv(head[k:j]))
			i = j + len(method)
		}
		return out
	}
	for _, fi := range rc.P.AnalysisFuncs() {
		if fi.Pkg != rc.P.Root || fi.Decl.Body == nil || strings.HasPrefix(fi.File, "sparse") || strings.HasSuffix(fi.File, "_test.go") {
			continue
		}
		if fi.Key == "tensor.(*AP).SetShape" {
			continue
		}
		_, tree := sCanon(rc, fi)
		if !strings.Contains(ir.Render(tree), ".SetShape(") {
			continue
		}
		pos := rc.P.Pos(fi.Decl.Pos())
		if why, ok := s14Except[fi.Key]; ok {
			rc.S.Ok("S14", fi.Key, pos, "accepted: "+why)
			continue
		}
		paths, ok := ir.EnumPaths(tree, 20000)
		if !ok {
			rc.S.Undec("S14", fi.Key, pos, "too many paths")
			continue
		}
		var bad []string
		sites := 0
		for _, p := range paths {
			unlocked := map[string]bool{}
			var lin []*ir.Node
			for _, st := range p.Steps {
				lin = append(lin, st)
				if st.Kind == "loop" || st.Kind == "range" || st.Kind == "switch" {
					lin = append(lin, flatten(st.Kids)...)
				}
			}
			for _, st := range lin {
				if st.Kind == "if" || st.Kind == "loop" || st.Kind == "range" || st.Kind == "switch" || st.Kind == "case" {
					continue
				}
				h := st.Head
				for _, r := range recvOf(h, ".unlock()") {
					unlocked[r] = true
				}
				for _, r := range recvOf(h, ".zero()") {
					unlocked[r] = true
				}
				if (st.Kind == "let" || st.Kind == "store") && (st.Value == "tensor.AP{}" || st.Value == "AP{}") {
					unlocked[normRecv(st.Target)] = true
				}
				for _, r := range recvOf(h, ".SetShape(") {
					sites++
					if !unlocked[r] {
						bad = append(bad, fmt.Sprintf("%s.SetShape(...) at %s is reached with [%s] without unlocking %s first: on a locked pattern the call is a no-op", r, rc.P.Pos(st.Pos), strings.Join(p.Guards, " && "), r))
					}
				}
				for _, r := range recvOf(h, ".lock()") {
					unlocked[r] = false
				}
			}
		}
		if len(bad) > 0 {
			bad = uniq(bad)
			rc.S.Viol("S14", fi.Key, pos, strings.Join(bad, "\n")).Sig = fmt.Sprintf("%d unlocked-less SetShape path(s)", len(bad))
		} else if sites > 0 {
			rc.S.Ok("S14", fi.Key, pos, "SetShape only on a pattern unlocked in this function")
		}
	}
}

// pathEnv propagates the assignments of locals along a path (terms in terms of parameters).
func pathEnv(p ir.Path) map[string]string {
	env := map[string]string{}
	for _, st := range p.Steps {
		switch st.Kind {
		case "let", "store":
			if ldIdent.FindString(st.Target) == st.Target {
				env[st.Target] = substEnv(st.Value, env)
			}
		case "tuple":
			if strings.Contains(st.Head, ") = (") {
				parts := splitArgs(st.Value)
				if len(parts) == len(st.Targets) {
					var vals []string
					for _, e := range parts {
						vals = append(vals, substEnv(e, env))
					}
					for i, t := range st.Targets {
						env[t] = vals[i]
					}
					continue
				}
			}
			for _, t := range st.Targets {
				delete(env, t)
			}
		}
	}
	return env
}

// S15: the public slice constructor stores what it is given. S(start), S(start, end),
// S(start, end, step): an explicit end and an explicit step reach the slice unchanged (the
// validators of rule S3 can only refuse what they are shown); the defaults are end = start+1,
// step = 1, and step = 0 for the single-element form.
func S15(rc *RC) {
	rc.S.Declare("S15", "slice constructor: on every path of S the returned slice has start = the argument, end = opt[0] when given (start+1 otherwise) and step = opt[1] when given - an explicit argument is never replaced by a default", 1)
	fi := anchor(rc, "S15", "tensor.S")
	if fi == nil {
		return
	}
	pos := rc.P.Pos(fi.Decl.Pos())
	_, tree := sCanon(rc, fi)
	paths, ok := ir.EnumPaths(tree, 500)
	if !ok {
		rc.S.Undec("S15", "tensor.S", pos, "too many paths")
		return
	}
	lit := regexp.MustCompile(`^&tensor\.\w+\{start: (.*), end: (.*), step: (.*)\}$`)
	has1 := ir.ParseBool("(len($opt) > 1)")
	has0 := ir.ParseBool("(len($opt) > 0)")
	var bad []string
	n := 0
	for _, p := range paths {
		if p.Exit != "return" {
			continue
		}
		env := pathEnv(p)
		m := lit.FindStringSubmatch(substEnv(p.Ret, env))
		if m == nil {
			rc.S.Undec("S15", "tensor.S", pos, "returned value is not a slice literal with start/end/step: "+p.Ret)
			return
		}
		n++
		f := ir.PathFormulas(p)
		g := strings.Join(p.Guards, " && ")
		if m[1] != "$start" {
			bad = append(bad, fmt.Sprintf("[%s] start = %s, want the argument", g, m[1]))
		}
		if ir.Implies(f, has0) && m[2] != "$opt[0]" {
			bad = append(bad, fmt.Sprintf("[%s] an explicit end is replaced: end = %s", g, m[2]))
		}
		if ir.Implies(f, ir.BNot(has0)) && m[2] != "($start + 1)" {
			bad = append(bad, fmt.Sprintf("[%s] default end = %s, want start+1", g, m[2]))
		}
		if ir.Implies(f, has1) && m[3] != "$opt[1]" {
			bad = append(bad, fmt.Sprintf("[%s] an explicit step is replaced: step = %s (an invalid step must reach the validator, not be defaulted)", g, m[3]))
		}
		if !ir.Implies(f, has1) && !ir.Implies(f, ir.BNot(has1)) && !ir.Implies(f, ir.BConst(false)) {
			// the path never tested whether a step was given
			if m[3] != "$opt[1]" {
				bad = append(bad, fmt.Sprintf("[%s] step = %s on a path that did not test whether a step was given", g, m[3]))
			}
		}
	}
	if len(bad) > 0 {
		rc.S.Viol("S15", "tensor.S", pos, strings.Join(bad, "; ")).Sig = firstWords(bad)
	} else {
		rc.S.Ok("S15", "tensor.S", pos, fmt.Sprintf("%d paths store their arguments", n))
	}
}

// S16: make-then-index agreement. `x := make([]T, … (v + 1) …)` followed by `x[w] = e`: the
// length was computed from v so that index v exists; a store at a different variable w (the
// unresolved twin of a resolved axis, say) indexes past the slice. Reported only for this
// idiom: length mentioning (v + 1), index a plain variable.
func S16(rc *RC, floor int) {
	rc.S.Declare("S16", "make-then-index agreement: a slice made with a length computed as (v + 1) is stored to at index v, not at another variable", floor)
	mk := regexp.MustCompile(`^make\(\[\][\w.*]+, (.*)\)$`)
	plus1 := regexp.MustCompile(`\(([%$]\w+) \+ 1\)`)
	for _, fi := range rc.P.SortedFuncs() {
		if fi.Pkg != rc.P.Root || fi.Decl.Body == nil || strings.HasSuffix(fi.File, "_test.go") || strings.HasPrefix(fi.File, "sparse") {
			continue
		}
		c := ir.NewCanon(rc.P.Fset, fi.Pkg.TypesInfo, ir.Options{ParamNames: true, KeepNames: true, NoSubst: true})
		tree := c.Func(fi.Decl)
		if !strings.Contains(ir.Render(tree), "make([]") {
			continue
		}
		nodes := flatten(tree)
		for _, n := range nodes {
			if n.Kind != "let" && n.Kind != "store" {
				continue
			}
			m := mk.FindStringSubmatch(n.Value)
			if m == nil {
				continue
			}
			vs := plus1.FindAllStringSubmatch(m[1], -1)
			if len(vs) == 0 {
				continue
			}
			v := vs[0][1]
			x := n.Target
			idxRe := regexp.MustCompile(`^` + regexp.QuoteMeta(x) + `\[([%$]\w+)\]$`)
			for _, s := range nodes {
				if s.Kind != "store" && s.Kind != "let" {
					continue
				}
				im := idxRe.FindStringSubmatch(s.Target)
				if im == nil {
					continue
				}
				key := fmt.Sprintf("%s#%s[%s]", fi.Key, x, v)
				if im[1] == v {
					rc.S.Ok("S16", key, rc.P.Pos(s.Pos), "indexed by the variable its length was computed from")
				} else {
					rc.S.Viol("S16", key, rc.P.Pos(s.Pos), fmt.Sprintf("%s is made with length %s (so that index %s exists) but is stored to at %s", x, m[1], v, im[1])).Sig = "index " + im[1]
				}
			}
		}
	}
}

// S17: the concatenation shape calculator compares every dimension. Shape.Concat sums the
// extents along the axis and must refuse operands that differ in ANY other dimension: the loop
// that carries the comparison newShape[d] != shp[d] runs over all dimensions from 0 (the axis
// itself is the only one exempt), otherwise mismatching leading dimensions are accepted and the
// copy that follows broadcasts or leaves gaps.
func S17(rc *RC) {
	rc.S.Declare("S17", "concatenation shape: in Shape.Concat the loop comparing the operands' dimensions starts at dimension 0 and covers all dimensions of the shape; only the concatenation axis is exempt", 1)
	fi := anchor(rc, "S17", "tensor.(Shape).Concat")
	if fi == nil {
		return
	}
	pos := rc.P.Pos(fi.Decl.Pos())
	c := ir.NewCanon(rc.P.Fset, fi.Pkg.TypesInfo, ir.Options{ParamNames: true, KeepNames: true, NoSubst: true})
	tree := c.Func(fi.Decl)
	var bad []string
	found := 0
	halves := map[string]bool{}
	var walk func(ns []*ir.Node, inits map[string]string)
	walk = func(ns []*ir.Node, inits map[string]string) {
		for _, n := range ns {
			if (n.Kind == "let" || n.Kind == "store") && ldIdent.FindString(n.Target) == n.Target {
				inits[n.Target] = n.Value
			}
			if n.Kind == "loop" {
				body := ir.Render(n.Kids)
				m := regexp.MustCompile(`^for \(([^>]+) > (%\w+)\)`).FindStringSubmatch(n.Head)
				if m != nil && regexp.MustCompile(`\[`+regexp.QuoteMeta(m[2])+`\] != [%$][\w@\[\]]*\[`+regexp.QuoteMeta(m[2])+`\]`).MatchString(body) {
					found++
					v := m[2]
					bound := strings.TrimSpace(m[1])
					isDims := bound == "%dims" || bound == "$r.Dims()" || bound == "len($r)" || bound == "len(%newShape)"
					// loop fission: the dimensions in front of the axis and those behind it are
					// compared by two loops, [0, axis) and [axis+1, dims) - together everything but the axis
					if inits[v] == "0" && bound == "$axis" {
						halves["front"] = true
						continue
					}
					if (inits[v] == "($axis + 1)" || inits[v] == "(1 + $axis)") && isDims {
						halves["back"] = true
						continue
					}
					if inits[v] != "0" {
						bad = append(bad, fmt.Sprintf("the comparison loop starts at %s = %s, not at dimension 0", v, inits[v]))
					}
					if !isDims {
						bad = append(bad, "the comparison loop is bounded by "+bound+", not by the number of dimensions")
					}
					// the only exemption inside the loop is the axis
					for _, k := range flatten(n.Kids) {
						if k.Kind == "if" && strings.Contains(k.Head, v) && !strings.Contains(k.Head, "!=") && !strings.Contains(k.Head, "$axis") {
							bad = append(bad, "a dimension other than the axis is exempted: "+k.Head)
						}
					}
				}
			}
			if n.Kind == "range" {
				// `for d, extent := range other`: every dimension from 0 by construction
				if i := strings.LastIndex(n.Head, " as "); i > 0 {
					v := n.Head[i+4:]
					body := ir.Render(n.Kids)
					if regexp.MustCompile(`\[`+regexp.QuoteMeta(v)+`\] != [%$][\w@\[\]]*\[`+regexp.QuoteMeta(v)+`\]`).MatchString(body) {
						found++
						for _, k := range flatten(n.Kids) {
							if k.Kind == "if" && strings.Contains(k.Head, v) && !strings.Contains(k.Head, "!=") && !strings.Contains(k.Head, "$axis") {
								bad = append(bad, "a dimension other than the axis is exempted: "+k.Head)
							}
						}
					}
				}
			}
			walk(n.Kids, inits)
			walk(n.Else, inits)
		}
	}
	walk(tree, map[string]string{})
	if halves["front"] != halves["back"] {
		bad = append(bad, "only the dimensions on one side of the axis are compared")
	}
	if found == 0 {
		rc.S.Undec("S17", "tensor.(Shape).Concat#compare", pos, "no loop comparing the operands' dimensions is recognised (neither a counting loop nor a range over a shape with `a[d] != b[d]` in its body)")
		return
	}
	if len(bad) > 0 {
		rc.S.Viol("S17", "tensor.(Shape).Concat#compare", pos, strings.Join(uniq(bad), "; ")).Sig = firstWords(bad)
	} else {
		rc.S.Ok("S17", "tensor.(Shape).Concat#compare", pos, "all dimensions from 0 compared, axis exempt")
	}
}

// S18: a lazily transposed pattern says so. AP.S (rule S12), RequiresIterator's callers and the
// formatter rely on the Transposed bit of the data order to know that the strides are not the
// default strides of the shape. Every path of AP.T that builds a permuted pattern hands
// MakeAP an order obtained by *setting* Transposed on the receiver's order - never a cleared
// or toggled one (two successive lazy transposes are still a lazy transpose).
func S18(rc *RC) {
	rc.S.Declare("S18", "transposed flag: on every path of AP.T that returns a permuted access pattern the data order handed to MakeAP is MakeDataOrder(ap.o, Transposed) (set, never cleared or toggled)", 1)
	fi := anchor(rc, "S18", "tensor.(*AP).T")
	if fi == nil {
		return
	}
	pos := rc.P.Pos(fi.Decl.Pos())
	c := ir.NewCanon(rc.P.Fset, fi.Pkg.TypesInfo, ir.Options{ParamNames: true, KeepNames: true, NoSubst: true})
	tree := c.Func(fi.Decl)
	paths, ok := ir.EnumPaths(tree, 5000)
	if !ok {
		rc.S.Undec("S18", fi.Key, pos, "too many paths")
		return
	}
	var bad []string
	n := 0
	for _, p := range paths {
		for i, st := range p.Steps {
			j := strings.Index(st.Head, "MakeAP(")
			if j < 0 {
				continue
			}
			args := splitArgs(st.Head[j+len("MakeAP(") : strings.LastIndex(st.Head, ")")])
			if len(args) < 3 {
				continue
			}
			n++
			env := pathEnv(ir.Path{Steps: p.Steps[:i]})
			o := substEnv(args[2], env)
			if o != "MakeDataOrder($r.o, Transposed)" && o != "MakeDataOrder(Transposed, $r.o)" {
				bad = append(bad, fmt.Sprintf("on the path [%s] the order handed to MakeAP is %s", strings.Join(p.Guards, " && "), o))
			}
		}
	}
	if n == 0 {
		rc.S.Undec("S18", fi.Key, pos, "no MakeAP call found")
		return
	}
	if len(bad) > 0 {
		rc.S.Viol("S18", fi.Key, pos, strings.Join(uniq(bad), "; ")).Sig = firstWords(bad)
	} else {
		rc.S.Ok("S18", fi.Key, pos, fmt.Sprintf("%d path(s), order = MakeDataOrder(ap.o, Transposed)", n))
	}
}

// closureUnit finds a function-literal unit by key (parent$N).
func closureUnit(rc *RC, key string) *load.FuncInfo {
	for _, fi := range rc.P.Closures {
		if fi.Key == key {
			return fi
		}
	}
	return nil
}

// S19: the converting constructor converts. AsFortran(backing) receives a row-major sequence
// and must lay it out column-major: on every path of its option closure on which a backing is
// given (and the tensor is a *Dense), the temporary is lazily transposed AND physically
// transposed before its storage is copied back - no shape-dependent shortcut skips the move.
func S19(rc *RC) {
	rc.S.Declare("S19", "converting constructor: on every path of AsFortran's option closure with a non-nil backing the temporary tensor goes through T() and Transpose() before its storage is copied back into the tensor", 1)
	var fi *load.FuncInfo
	for _, c := range rc.P.Closures {
		if strings.HasPrefix(c.Key, "tensor.AsFortran$") {
			_, tree := sCanon(rc, c)
			if strings.Contains(ir.Render(tree), ".Transpose()") || strings.Contains(ir.Render(tree), "copyArray(") {
				fi = c
				break
			}
		}
	}
	if fi == nil {
		rc.S.Undec("S19", "tensor.AsFortran$closure", "-", "unresolved anchor: the option closure of AsFortran that moves the data was not found")
		return
	}
	pos := rc.P.Pos(fi.Decl.Pos())
	_, tree := sCanon(rc, fi)
	paths, ok := ir.EnumPaths(tree, 5000)
	if !ok {
		rc.S.Undec("S19", fi.Key, pos, "too many paths")
		return
	}
	var bad []string
	n := 0
	for _, p := range paths {
		// paths that copy storage back into the tensor under construction
		back := -1
		for i, st := range p.Steps {
			if strings.Contains(st.Head, "copyArray(%ts.arrPtr(), ") || strings.Contains(st.Head, "copyArray($t.arrPtr(), ") {
				back = i
			}
		}
		if back < 0 {
			continue
		}
		n++
		lazy, phys := false, false
		for _, st := range p.Steps[:back] {
			if regexp.MustCompile(`^%\w+\.T\(\)$`).MatchString(st.Head) || strings.Contains(st.Head, ".T()") {
				lazy = true
			}
			if strings.Contains(st.Head, ".Transpose()") {
				phys = true
			}
		}
		if !lazy || !phys {
			bad = append(bad, fmt.Sprintf("on the path [%s] the storage is copied back without the data having been moved (T: %v, Transpose: %v)", strings.Join(p.Guards, " && "), lazy, phys))
		}
	}
	if n == 0 {
		rc.S.Undec("S19", fi.Key, pos, "no path that copies the converted storage back was found")
		return
	}
	if len(bad) > 0 {
		rc.S.Viol("S19", fi.Key, pos, strings.Join(uniq(bad), "; ")).Sig = fmt.Sprintf("%d path(s) skip the move", len(uniq(bad)))
	} else {
		rc.S.Ok("S19", fi.Key, pos, fmt.Sprintf("%d converting path(s), each through T() and Transpose()", n))
	}
}

// S20: dropping unit axes. After slicing, both calculators remove every axis that an explicit
// slice reduced to one element: `X = append(X[:d], X[d+1:]...)` inside a counting loop over d.
// Removing element d shifts the rest left, so the same position must be examined again: inside
// that branch the loop variable is stepped back (d-1), the bound shrinks (dims-1) and the slice
// offset grows (offset+1), in both calculators alike.
func S20(rc *RC) {
	rc.S.Declare("S20", "unit-axis removal: in AP.S and Shape.S the branch that deletes axis d from the shape steps d back by one, shrinks the loop bound by one and advances the slice offset by one", 2)
	for _, key := range []string{"tensor.(*AP).S", "tensor.(Shape).S"} {
		fi := anchor(rc, "S20", key)
		if fi == nil {
			continue
		}
		pos := rc.P.Pos(fi.Decl.Pos())
		c := ir.NewCanon(rc.P.Fset, fi.Pkg.TypesInfo, ir.Options{ParamNames: true, KeepNames: true, NoSubst: true})
		tree := c.Func(fi.Decl)
		found := false
		var bad []string
		for _, lp := range ir.FindLoops(tree) {
			v := loopCounter(lp)
			if v == "" || lp.Kind != "loop" {
				continue
			}
			m := regexp.MustCompile(`^for \(([%$]\w+) > `).FindStringSubmatch(lp.Head)
			for _, n := range flatten(lp.Kids) {
				if n.Kind != "if" {
					continue
				}
				del := false
				upd := map[string]string{}
				for _, k := range n.Kids {
					if (k.Kind == "let" || k.Kind == "store") && regexp.MustCompile(`^append\(`+regexp.QuoteMeta(k.Target)+`\[:`+regexp.QuoteMeta(v)+`\], `+regexp.QuoteMeta(k.Target)+`\[\(`+regexp.QuoteMeta(v)+` \+ 1\):\]\.\.\.\)$`).MatchString(k.Value) {
						del = true
					}
					if k.Kind == "let" || k.Kind == "store" {
						upd[k.Target] = k.Value
					}
				}
				if !del {
					continue
				}
				found = true
				if upd[v] != "("+v+" - 1)" {
					bad = append(bad, fmt.Sprintf("after deleting axis %s the loop variable is not stepped back (%s = %s): the axis that moved into position %s is skipped", v, v, upd[v], v))
				}
				if m != nil && upd[m[1]] != "("+m[1]+" - 1)" {
					bad = append(bad, fmt.Sprintf("the loop bound %s is not reduced after deleting an axis", m[1]))
				}
				off := false
				for t, val := range upd {
					if val == "("+t+" + 1)" {
						off = true
					}
				}
				if !off {
					bad = append(bad, "the slice offset is not advanced after deleting an axis")
				}
			}
		}
		switch {
		case !found:
			rc.S.Undec("S20", key, pos, "no loop deleting unit axes found")
		case len(bad) > 0:
			rc.S.Viol("S20", key, pos, strings.Join(uniq(bad), "; ")).Sig = firstWords(bad)
		default:
			rc.S.Ok("S20", key, pos, "d-1, bound-1, offset+1 in the deleting branch")
		}
	}
}
func SPure(n string) bool { return sPure[n] }

// S22: value anchors of the index arithmetic. Four tiny functions carry the arithmetic every
// other rule takes for granted: ProdInts (the product of the extents), Shape.TotalSize (that
// product of the shape), Shape.CalcStrides (stride of the last axis 1, each earlier stride the
// product of the later extents; the column-major calculator is held against it by S10) and the
// accumulation in Ltoi (offset = sum of coordinate * stride of its own axis). Their canonical
// forms are compared with the textbook terms: same statement skeleton and another term is a
// violation; another skeleton is a restructuring the rule does not judge.
var s22Anchors = map[string]string{
	"tensor.ProdInts": `$ret0 = 1
if (0 == len($a))
  return 
range $a as @r
  $ret0 = ($a[@r] * $ret0)
return 
`,
	"tensor.(Shape).TotalSize": `return ProdInts([]int($r))
`,
	"tensor.(Shape).CalcStrides": `if $r.IsScalar()
  return nil
%retVal = BorrowInts(len($r))
%acc = 1
%i = (len($r) - 1)
for (%i >= 0) ; %i = (%i - 1)
  %retVal[%i] = %acc
  if (0 > $r[%i])
    panic("negative dimension size does not make sense")
  %acc = ($r[%i] * %acc)
return %retVal
`,
}

func S22(rc *RC) {
	rc.S.Declare("S22", "value anchors: ProdInts is the product of its elements, Shape.TotalSize that product of the shape, Shape.CalcStrides the suffix-product recurrence, and Ltoi accumulates coordinate * stride of the coordinate's own axis (the single shared stride only for a vector that carries one stride)", 4)
	var keys []string
	for k := range s22Anchors {
		keys = append(keys, k)
	}
	sort.Strings(keys)
	for _, key := range keys {
		fi := anchor(rc, "S22", key)
		if fi == nil {
			continue
		}
		pos := rc.P.Pos(fi.Decl.Pos())
		c := ir.NewCanon(rc.P.Fset, fi.Pkg.TypesInfo, ir.Options{ParamNames: true, KeepNames: true})
		got := ir.Render(c.Func(fi.Decl))
		want := s22Anchors[key]
		switch {
		case got == want:
			rc.S.Ok("S22", key, pos, "canonical form equals the textbook term")
		case sameSkeleton(got, want):
			rc.S.Viol("S22", key, pos, "the calculator deviates from the textbook term: "+firstDiff(got, want)).Sig = firstDiff(got, want)
		default:
			rc.S.Undec("S22", key, pos, "another statement skeleton than the reference (restructured): not judged")
		}
	}
	// Ltoi: the accumulation clause
	fi := anchor(rc, "S22", "tensor.Ltoi")
	if fi == nil {
		return
	}
	pos := rc.P.Pos(fi.Decl.Pos())
	c := ir.NewCanon(rc.P.Fset, fi.Pkg.TypesInfo, ir.Options{ParamNames: true, KeepNames: true})
	tree := c.Func(fi.Decl)
	var bad []string
	acc := 0
	boolLets := map[string]string{}
	for _, n := range flatten(tree) {
		if n.Kind == "let" && strings.HasPrefix(n.Target, "%") && (strings.Contains(n.Value, "IsVector()") || strings.Contains(n.Value, "len($strides)")) {
			boolLets[n.Target] = n.Value
		}
	}
	var walk func(ns []*ir.Node, loopVar string, guards []string)
	walk = func(ns []*ir.Node, loopVar string, guards []string) {
		for _, n := range ns {
			lv := loopVar
			if n.Kind == "range" && strings.HasPrefix(n.Head, "range $coords as ") {
				lv = strings.TrimPrefix(n.Head, "range $coords as ")
			}
			if (n.Kind == "store" || n.Kind == "let") && n.Target == "$ret0" && lv != "" {
				acc++
				ok1 := n.Value == "($ret0 + ($coords["+lv+"] * %stride))" || n.Value == "(($coords["+lv+"] * %stride) + $ret0)"
				ok2 := n.Value == "($ret0 + ($coords["+lv+"] * $strides["+lv+"]))" || n.Value == "(($coords["+lv+"] * $strides["+lv+"]) + $ret0)"
				// the one-stride vector case may add its shared stride directly
				ok3 := false
				if n.Value == "($ret0 + ($coords["+lv+"] * $strides[0]))" || n.Value == "(($coords["+lv+"] * $strides[0]) + $ret0)" {
					g := strings.Join(guards, " && ")
					for name, def := range boolLets {
						g = strings.ReplaceAll(g, name, "("+def+")")
					}
					ok3 = strings.Contains(g, "$shape.IsVector()") && strings.Contains(g, "len($strides)") && !strings.Contains(g, "!(") && !strings.HasPrefix(g, "!")
				}
				if !ok1 && !ok2 && !ok3 {
					bad = append(bad, "the offset is accumulated as "+n.Value+", not as offset + coordinate * stride of the same axis")
				}
			}
			if (n.Kind == "store" || n.Kind == "let") && n.Target == "%stride" && lv != "" {
				switch n.Value {
				case "$strides[" + lv + "]":
				case "$strides[0]":
					g := strings.Join(guards, " && ")
					// a guard that is a boolean local stands for its definition
					for name, def := range boolLets {
						g = strings.ReplaceAll(g, name, "("+def+")")
					}
					if !strings.Contains(g, "$shape.IsVector()") || !strings.Contains(g, "len($strides)") {
						bad = append(bad, "the shared stride $strides[0] is used outside the one-stride vector case")
					}
				default:
					bad = append(bad, "the stride of axis "+lv+" is taken as "+n.Value)
				}
			}
			if n.Kind == "if" {
				walk(n.Kids, lv, append(append([]string{}, guards...), n.Head))
				walk(n.Else, lv, append(append([]string{}, guards...), "!"+n.Head))
				continue
			}
			walk(n.Kids, lv, guards)
		}
	}
	walk(tree, "", nil)
	switch {
	case acc == 0:
		rc.S.Undec("S22", "tensor.Ltoi#sum", pos, "no accumulation into the offset found inside the loop over the coordinates")
	case len(bad) > 0:
		rc.S.Viol("S22", "tensor.Ltoi#sum", pos, strings.Join(uniq(bad), "; ")).Sig = firstWords(bad)
	default:
		rc.S.Ok("S22", "tensor.Ltoi#sum", pos, "offset = sum of coordinate * stride of its own axis")
	}
}

// substPathLets replaces, in the guards of a path, locals by the values they were given by
// earlier definitions on that path (`if want, have := f(x), g(y); want != have`): the guard then
// speaks about the inputs again.
func substPathLets(p ir.Path) ir.Path {
	env := map[string]string{}
	for _, st := range p.Steps {
		if (st.Kind == "let" || st.Kind == "store") && ldIdent.FindString(st.Target) == st.Target && strings.HasPrefix(st.Target, "%") {
			if _, seen := env[st.Target]; !seen {
				env[st.Target] = st.Value
			} else {
				env[st.Target] = "" // assigned more than once: not a definition
			}
		}
	}
	q := p
	q.Guards = nil
	for _, g := range p.Guards {
		for i := 0; i < 3; i++ {
			h := ldIdent.ReplaceAllStringFunc(g, func(w string) string {
				if v, ok := env[w]; ok && v != "" && !strings.Contains(v, w) {
					return v
				}
				return w
			})
			if h == g {
				break
			}
			g = h
		}
		q.Guards = append(q.Guards, g)
	}
	return q
}
