// Package rules: the rule engines. Each rule enumerates instances from the loaded program
// and emits one obligation per (rule, construct key).
package rules

import (
	_ "embed"
	"encoding/json"
	"fmt"
	"go/ast"
	"go/types"
	"regexp"
	"strings"

	"tcheck/core"
	"tcheck/ir"
	"tcheck/load"
)

// RC is the context a rule runs in.
type RC struct {
	P    *load.Program
	S    *core.Sink
	Tier string
	Prop string
}

func (rc *RC) Thorough() bool { return rc.Tier == "thorough" }

var declIndex = map[*load.Program]map[*types.Func]*load.FuncInfo{}

// DeclOf resolves a function object of the module to its declaration and package type info.
func (rc *RC) DeclOf(f *types.Func) (*ast.FuncDecl, *types.Info) {
	idx := declIndex[rc.P]
	if idx == nil {
		idx = map[*types.Func]*load.FuncInfo{}
		for _, fi := range rc.P.Funcs {
			if fi.Obj != nil {
				idx[fi.Obj] = fi
			}
		}
		declIndex = map[*load.Program]map[*types.Func]*load.FuncInfo{rc.P: idx}
	}
	if f == nil {
		return nil, nil
	}
	if fi := idx[f.Origin()]; fi != nil && fi.Decl != nil && fi.Pkg != nil {
		return fi.Decl, fi.Pkg.TypesInfo
	}
	return nil, nil
}

//go:embed funcs_ref.json
var funcsRefJSON []byte

var (
	reviewedNames map[string]bool
	newNamesIdx   = map[*load.Program]map[string]bool{}
)

// NewHelpers returns the names of module functions of the current tree that carry a name no
// function of the reviewed tree had (funcs_ref.json, regenerated with `dbg fngen` after a
// reviewed change): helpers extracted or introduced since. A rule that cannot follow a call into
// such a helper reports "not decided" instead of alleging a violation.
func (rc *RC) NewHelpers() map[string]bool {
	if reviewedNames == nil {
		reviewedNames = map[string]bool{}
		var names []string
		json.Unmarshal(funcsRefJSON, &names)
		for _, n := range names {
			reviewedNames[n] = true
		}
	}
	if m, ok := newNamesIdx[rc.P]; ok {
		return m
	}
	m := map[string]bool{}
	for _, fi := range rc.P.Funcs {
		if fi.Obj == nil || strings.HasSuffix(fi.File, "_test.go") {
			continue
		}
		if n := fi.Obj.Name(); !reviewedNames[n] {
			m[n] = true
		}
	}
	newNamesIdx = map[*load.Program]map[string]bool{rc.P: m}
	return m
}

var callName = regexp.MustCompile(`([A-Za-z_]\w*)\(`)

// NewHelperIn names a helper introduced since the reviewed tree that is called in the text.
func (rc *RC) NewHelperIn(texts ...string) string {
	nh := rc.NewHelpers()
	if len(nh) == 0 {
		return ""
	}
	for _, t := range texts {
		for _, m := range callName.FindAllStringSubmatch(t, -1) {
			if nh[m[1]] {
				return m[1]
			}
		}
	}
	return ""
}

// PathNewHelper names a new helper called in a guard or statement of the path.
func (rc *RC) PathNewHelper(p ir.Path) string {
	if h := rc.NewHelperIn(p.Guards...); h != "" {
		return h
	}
	for _, st := range p.Steps {
		if h := rc.NewHelperIn(st.Head); h != "" {
			return h
		}
	}
	return ""
}

var keyFunc = regexp.MustCompile(`^((?:internal/\w+|tensor|native)\.(?:\(\*?\w+\)\.)?\w+)`)

// DowngradeRestructured turns a violation into "not decided" when the function the obligation
// is keyed to was restructured around a helper the reviewed tree did not have (it calls one, or
// is one). The rules read guards, terms and events inside one function; what such a helper
// establishes or performs is outside what they can read, so they abstain instead of alleging a
// violation. Rule floors and every obligation keyed elsewhere are unaffected.
func DowngradeRestructured(rc *RC) {
	nh := rc.NewHelpers()
	if len(nh) == 0 {
		return
	}
	cache := map[string]string{}
	helperOf := func(key string) string {
		m := keyFunc.FindStringSubmatch(key)
		if m == nil {
			return ""
		}
		fk := m[1]
		if h, ok := cache[fk]; ok {
			return h
		}
		h := ""
		// the key may name a function, or a family/pair whose members are functions
		var cands []*load.FuncInfo
		if fi := rc.P.Func(fk); fi != nil {
			cands = append(cands, fi)
		}
		for _, fi := range cands {
			if fi.Obj != nil && nh[fi.Obj.Name()] {
				h = fi.Obj.Name()
				break
			}
			if fi.Decl == nil || fi.Decl.Body == nil {
				continue
			}
			c := ir.NewCanon(rc.P.Fset, fi.Pkg.TypesInfo, ir.Options{ParamNames: true, KeepNames: true})
			if x := rc.NewHelperIn(ir.Render(c.Func(fi.Decl))); x != "" {
				h = x
				break
			}
		}
		cache[fk] = h
		return h
	}
	for _, o := range rc.S.Obs {
		if o.Verdict != core.Violation || o.Firm {
			continue
		}
		// keys of families name the member after a colon: pkg.Family/class:Member
		key := o.Key
		if i := strings.LastIndex(key, ":"); i > 0 && strings.Contains(key[:i], "/") && !strings.Contains(key[i:], " ") {
			if j := strings.Index(key, "."); j > 0 {
				key = key[:j+1] + key[i+1:]
			}
		}
		h := helperOf(key)
		if h == "" {
			h = helperOf(o.Key)
		}
		if h == "" {
			continue
		}
		rc.S.Downgrade(o, fmt.Sprintf("not decided: the function is restructured around %s(), a helper introduced since the reviewed tree, which this rule does not follow [%s]", h, o.Detail))
	}
}

// sameSkeleton: two canonical texts have the same statement skeleton - the same number of
// lines, with the same indentation and the same statement class (branch, loop, return,
// assignment, call) on each line. A rule that compares code with a reference shape decides only
// code of that skeleton: same skeleton and a different term is a deviation it can name; another
// skeleton is a restructuring it cannot tell from an error, and it abstains ("not decided").
func sameSkeleton(a, b string) bool {
	la, lb := strings.Split(strings.TrimRight(a, "\n"), "\n"), strings.Split(strings.TrimRight(b, "\n"), "\n")
	if len(la) != len(lb) {
		return false
	}
	class := func(l string) string {
		ind := len(l) - len(strings.TrimLeft(l, " "))
		t := strings.TrimSpace(l)
		c := "stmt"
		switch {
		case strings.HasPrefix(t, "if ") || t == "else" || strings.HasPrefix(t, "["):
			c = "branch"
		case strings.HasPrefix(t, "for") || strings.HasPrefix(t, "range ") || strings.HasPrefix(t, "loop:"):
			c = "loop"
		case strings.HasPrefix(t, "switch") || strings.HasPrefix(t, "typeswitch") || strings.HasPrefix(t, "case ") || t == "default":
			c = "switch"
		case strings.HasPrefix(t, "return"):
			c = "return"
		case strings.HasPrefix(t, "continue") || strings.HasPrefix(t, "break") || strings.HasPrefix(t, "goto"):
			c = "jump"
		case strings.Contains(t, " = "):
			c = "assign"
		}
		return fmt.Sprintf("%d:%s", ind, c)
	}
	for i := range la {
		if class(la[i]) != class(lb[i]) {
			return false
		}
	}
	return true
}
