// Package rules: the rule engines. Each rule enumerates instances from the loaded program
// and emits one obligation per (rule, construct key).
package rules

import (
	"tcheck/core"
	"tcheck/load"
)

// RC is the context a rule runs in.
type RC struct {
	P    *load.Program
	S    *core.Sink
	Tier string
	Prop string
}

func (rc *RC) Thorough() bool { return rc.Tier == "thorough" }
