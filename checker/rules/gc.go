package rules

import (
	_ "embed"
	"encoding/json"
	"fmt"
	"sort"
	"strings"

	"tcheck/ir"
)

// GC: guard census. For every call of a module function in the hand-written code, the set
// of branch facts that *every* path to the call has established (must-literals: the
// intersection, over the paths reaching the call, of the literals of their path conditions,
// after splitting conjunctions, pushing negations through disjunctions and folding
// synonymous layout predicates) was recorded on the reviewed tree. A later tree may add
// facts but must not lose one: a dropped or weakened guard in front of a call is reported
// with the fact that is no longer established. This is the "instances confirmed on today's
// tree are the reference for any later change" rule; it needs no per-function table and is
// insensitive to renaming of locals (only facts over parameters, receivers and results of
// accessor calls are recorded), reordering of independent statements and added facts.

//go:embed guards_ref.json
var gcRefJSON []byte

var gcRef map[string][]string

func gcLoad() {
	if gcRef == nil {
		gcRef = map[string][]string{}
		json.Unmarshal(gcRefJSON, &gcRef)
	}
}

// literals splits a canonical condition into must-literals.
func literals(cond string, out map[string]bool) {
	f := normAtomsGeneral(ir.ParseBool(cond))
	var walk func(b *ir.BExpr, neg bool)
	walk = func(b *ir.BExpr, neg bool) {
		switch b.Op {
		case "not":
			walk(b.L, !neg)
		case "and":
			if !neg {
				walk(b.L, false)
				walk(b.R, false)
				return
			}
			out["!"+b.String()] = true
		case "or":
			if neg {
				walk(b.L, true)
				walk(b.R, true)
				return
			}
			out[b.String()] = true
		case "atom":
			if neg {
				out["!"+b.Atom] = true
			} else {
				out[b.Atom] = true
			}
		}
	}
	walk(f, false)
}

func stableLiteral(l string) bool {
	if strings.Contains(l, "%") || strings.Contains(l, "@r") {
		return false // mentions a local or a loop index: not rename-stable
	}
	if strings.Contains(l, "$ret") {
		return false
	}
	return true
}

// GCFacts computes site -> must-literals for the functions of the given files.
func GCFacts(rc *RC, files func(string) bool) (map[string][]string, map[string]string, int) {
	out := map[string][]string{}
	pos := map[string]string{}
	skipped := 0
	for _, fi := range rc.P.AnalysisFuncs() {
		if fi.Pkg != rc.P.Root || fi.Decl.Body == nil || lcGenerated[fi.File] || strings.HasPrefix(fi.File, "sparse") || (files != nil && !files(fi.File)) {
			continue
		}
		_, tree := sCanon(rc, fi)
		paths, ok := ir.EnumPaths(tree, 6000)
		if !ok {
			skipped++
			continue
		}
		type acc struct {
			lits   map[string]bool
			n      int
			callee string
			node   *ir.Node
			idx    int
		}
		sites := map[string]*acc{} // node pointer + callee + index in statement
		var order []*acc
		for _, p := range paths {
			lits := map[string]bool{}
			for _, g := range p.Guards {
				literals(g, lits)
			}
			for _, st := range p.Steps {
				if st.Kind != "call" && st.Kind != "let" && st.Kind != "tuple" && st.Kind != "ret" && st.Kind != "store" {
					continue
				}
				seen := map[string]int{}
				for _, callee := range calleesIn(st) {
					seen[callee]++
					id := fmt.Sprintf("%p|%s|%d", st, callee, seen[callee])
					a := sites[id]
					if a == nil {
						a = &acc{lits: map[string]bool{}, callee: callee, node: st, idx: seen[callee]}
						for l := range lits {
							if stableLiteral(l) {
								a.lits[l] = true
							}
						}
						sites[id] = a
						order = append(order, a)
					} else {
						for l := range a.lits {
							if !lits[l] {
								delete(a.lits, l)
							}
						}
					}
					a.n++
				}
			}
		}
		// ordinal of a site among the sites of its callee: by source position
		sort.SliceStable(order, func(i, j int) bool {
			if order[i].node.Pos != order[j].node.Pos {
				return order[i].node.Pos < order[j].node.Pos
			}
			return order[i].idx < order[j].idx
		})
		count := map[string]int{}
		for _, a := range order {
			count[a.callee]++
			key := fmt.Sprintf("%s@%s#%d", fi.Key, a.callee, count[a.callee])
			var ls []string
			for l := range a.lits {
				ls = append(ls, l)
			}
			sort.Strings(ls)
			out[key] = ls
			pos[key] = rc.P.Pos(a.node.Pos)
		}
	}
	return out, pos, skipped
}

// calleesIn lists the module-level callees named in a statement (by their rendered name:
// `$r.foo(`, `foo(`, `%x.foo(` -> foo), skipping error constructors and builtins.
func calleesIn(n *ir.Node) []string {
	s := stringLit.ReplaceAllString(stripFuncLits(n.Head), `""`) // text inside string literals names no callee
	var out []string
	for i := 0; i < len(s); i++ {
		if s[i] != '(' || i == 0 {
			continue
		}
		j := i - 1
		for j >= 0 && (s[j] == '_' || s[j] >= '0' && s[j] <= '9' || s[j] >= 'a' && s[j] <= 'z' || s[j] >= 'A' && s[j] <= 'Z') {
			j--
		}
		name := s[j+1 : i]
		if name == "" {
			continue
		}
		// qualified by a package alias (errors., fmt., storage.) -> keep storage/execution only
		if j >= 0 && s[j] == '.' {
			k := j - 1
			for k >= 0 && (s[k] == '_' || s[k] >= 'a' && s[k] <= 'z' || s[k] >= 'A' && s[k] <= 'Z') {
				k--
			}
			q := s[k+1 : j]
			switch q {
			case "errors", "fmt", "math", "M", "V", "C", "reflect", "sort", "strings", "unsafe", "runtime", "binary", "strconv", "gob", "csv", "bytes", "mat", "blas", "whichblas":
				if q != "whichblas" && q != "V" {
					continue
				}
			}
		}
		switch name {
		case "len", "cap", "make", "append", "copy", "panic", "int", "uint", "float64", "float32", "new", "func", "string", "bool", "byte", "complex", "real", "imag", "min", "max", "delete":
			if name != "copy" {
				continue
			}
		}
		out = append(out, name)
	}
	return out
}

func GC(rc *RC, files func(string) bool, floor int) {
	rc.S.Declare("GC", "guard census: the branch facts established on every path before each call in the hand-written code are at least those recorded on the reviewed tree (a dropped or weakened guard is reported with the lost fact)", floor)
	gcLoad()
	facts, pos, skipped := GCFacts(rc, files)
	rc.S.Count("GC.functions-skipped-too-many-paths", skipped)
	// group by function@callee: the sites of the reviewed tree must be matched, one to one, by
	// current sites that establish at least the recorded facts (a new call of the same callee -
	// a new branch - is unconstrained and does not shift the identity of the old ones)
	group := func(k string) string { return k[:strings.LastIndex(k, "#")] }
	cur := map[string][]string{}
	for k := range facts {
		cur[group(k)] = append(cur[group(k)], k)
	}
	refs := map[string][]string{}
	for k, v := range gcRef {
		if len(v) > 0 {
			refs[group(k)] = append(refs[group(k)], k)
		}
	}
	var groups []string
	for g := range refs {
		if _, ok := cur[g]; ok {
			groups = append(groups, g)
		}
	}
	sort.Strings(groups)
	for _, g := range groups {
		rk := refs[g]
		sort.Slice(rk, func(i, j int) bool {
			return len(gcRef[rk[i]]) > len(gcRef[rk[j]]) || len(gcRef[rk[i]]) == len(gcRef[rk[j]]) && rk[i] < rk[j]
		})
		ck := cur[g]
		sort.Strings(ck)
		used := map[string]bool{}
		covers := func(c, r string) ([]string, bool) {
			have := map[string]bool{}
			for _, l := range facts[c] {
				have[l] = true
			}
			var lost []string
			for _, l := range gcRef[r] {
				if !have[l] {
					lost = append(lost, l)
				}
			}
			return lost, len(lost) == 0
		}
		for _, r := range rk {
			matched := ""
			// prefer the site with the same ordinal
			if _, ok := facts[r]; ok && !used[r] {
				if _, ok := covers(r, r); ok {
					matched = r
				}
			}
			if matched == "" {
				for _, c := range ck {
					if used[c] {
						continue
					}
					if _, ok := covers(c, r); ok {
						matched = c
						break
					}
				}
			}
			if matched != "" {
				used[matched] = true
				rc.S.Ok("GC", r, pos[matched], fmt.Sprintf("%d recorded fact(s) still established: %s", len(gcRef[r]), strings.Join(gcRef[r], " ; ")))
				continue
			}
			// report against the unused site that loses least
			best, bestLost := "", []string(nil)
			for _, c := range ck {
				if used[c] {
					continue
				}
				lost, _ := covers(c, r)
				if best == "" || len(lost) < len(bestLost) {
					best, bestLost = c, lost
				}
			}
			if best == "" {
				continue // the call site is gone (code removed): nothing to guard
			}
			used[best] = true
			rc.S.Viol("GC", r, pos[best], fmt.Sprintf("the call is no longer guarded by %s (facts established on every path to it on the reviewed tree)", strings.Join(bestLost, " ; "))).Sig = "lost " + strings.Join(bestLost, " ; ")
		}
	}
}
