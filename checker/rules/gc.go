package rules

import (
	_ "embed"
	"encoding/json"
	"fmt"
	"sort"
	"strings"

	"tcheck/ir"
)

// GC: guard census. For every call of a module function in the hand-written code, the set
// of branch facts that *every* path to the call has established (must-literals: the
// intersection, over the paths reaching the call, of the literals of their path conditions,
// after splitting conjunctions, pushing negations through disjunctions and folding
// synonymous layout predicates) was recorded on the reviewed tree. A later tree may add
// facts but must not lose one: a dropped or weakened guard in front of a call is reported
// with the fact that is no longer established. This is the "instances confirmed on today's
// tree are the reference for any later change" rule; it needs no per-function table and is
// insensitive to renaming of locals (only facts over parameters, receivers and results of
// accessor calls are recorded), reordering of independent statements and added facts.

//go:embed guards_ref.json
var gcRefJSON []byte

var gcRef map[string][]string

func gcLoad() {
	if gcRef == nil {
		gcRef = map[string][]string{}
		json.Unmarshal(gcRefJSON, &gcRef)
	}
}

// literals splits a canonical condition into must-literals.
func literals(cond string, out map[string]bool) {
	f := normAtomsGeneral(ir.ParseBool(cond))
	var walk func(b *ir.BExpr, neg bool)
	walk = func(b *ir.BExpr, neg bool) {
		switch b.Op {
		case "not":
			walk(b.L, !neg)
		case "and":
			if !neg {
				walk(b.L, false)
				walk(b.R, false)
				return
			}
			out["!"+b.String()] = true
		case "or":
			if neg {
				walk(b.L, true)
				walk(b.R, true)
				return
			}
			out[b.String()] = true
		case "atom":
			if neg {
				out["!"+b.Atom] = true
			} else {
				out[b.Atom] = true
			}
		}
	}
	walk(f, false)
}

func stableLiteral(l string) bool {
	if strings.Contains(l, "%") || strings.Contains(l, "@r") {
		return false // mentions a local or a loop index: not rename-stable
	}
	if strings.Contains(l, "$ret") {
		return false
	}
	return true
}

// GCFacts computes site -> must-literals for the functions of the given files.
func GCFacts(rc *RC, files func(string) bool) (map[string][]string, map[string]string, int) {
	out := map[string][]string{}
	pos := map[string]string{}
	skipped := 0
	for _, fi := range rc.P.AnalysisFuncs() {
		if fi.Pkg != rc.P.Root || fi.Decl.Body == nil || lcGenerated[fi.File] || strings.HasPrefix(fi.File, "sparse") || (files != nil && !files(fi.File)) {
			continue
		}
		_, tree := sCanon(rc, fi)
		paths, ok := ir.EnumPaths(tree, 6000)
		if !ok {
			skipped++
			continue
		}
		type acc struct {
			lits map[string]bool
			n    int
		}
		sites := map[string]*acc{}
		for _, p := range paths {
			lits := map[string]bool{}
			for _, g := range p.Guards {
				literals(g, lits)
			}
			count := map[string]int{}
			for _, st := range p.Steps {
				if st.Kind != "call" && st.Kind != "let" && st.Kind != "tuple" && st.Kind != "ret" && st.Kind != "store" {
					continue
				}
				for _, callee := range calleesIn(st) {
					count[callee]++
					key := fmt.Sprintf("%s@%s#%d", fi.Key, callee, count[callee])
					a := sites[key]
					if a == nil {
						a = &acc{lits: map[string]bool{}}
						for l := range lits {
							if stableLiteral(l) {
								a.lits[l] = true
							}
						}
						sites[key] = a
						pos[key] = rc.P.Pos(st.Pos)
					} else {
						for l := range a.lits {
							if !lits[l] {
								delete(a.lits, l)
							}
						}
					}
					a.n++
				}
			}
		}
		for k, a := range sites {
			var ls []string
			for l := range a.lits {
				ls = append(ls, l)
			}
			sort.Strings(ls)
			out[k] = ls
		}
	}
	return out, pos, skipped
}

// calleesIn lists the module-level callees named in a statement (by their rendered name:
// `$r.foo(`, `foo(`, `%x.foo(` -> foo), skipping error constructors and builtins.
func calleesIn(n *ir.Node) []string {
	s := stringLit.ReplaceAllString(stripFuncLits(n.Head), `""`) // text inside string literals names no callee
	var out []string
	for i := 0; i < len(s); i++ {
		if s[i] != '(' || i == 0 {
			continue
		}
		j := i - 1
		for j >= 0 && (s[j] == '_' || s[j] >= '0' && s[j] <= '9' || s[j] >= 'a' && s[j] <= 'z' || s[j] >= 'A' && s[j] <= 'Z') {
			j--
		}
		name := s[j+1 : i]
		if name == "" {
			continue
		}
		// qualified by a package alias (errors., fmt., storage.) -> keep storage/execution only
		if j >= 0 && s[j] == '.' {
			k := j - 1
			for k >= 0 && (s[k] == '_' || s[k] >= 'a' && s[k] <= 'z' || s[k] >= 'A' && s[k] <= 'Z') {
				k--
			}
			q := s[k+1 : j]
			switch q {
			case "errors", "fmt", "math", "M", "V", "C", "reflect", "sort", "strings", "unsafe", "runtime", "binary", "strconv", "gob", "csv", "bytes", "mat", "blas", "whichblas":
				if q != "whichblas" && q != "V" {
					continue
				}
			}
		}
		switch name {
		case "len", "cap", "make", "append", "copy", "panic", "int", "uint", "float64", "float32", "new", "func", "string", "bool", "byte", "complex", "real", "imag", "min", "max", "delete":
			if name != "copy" {
				continue
			}
		}
		out = append(out, name)
	}
	return out
}

func GC(rc *RC, files func(string) bool, floor int) {
	rc.S.Declare("GC", "guard census: the branch facts established on every path before each call in the hand-written code are at least those recorded on the reviewed tree (a dropped or weakened guard is reported with the lost fact)", floor)
	gcLoad()
	facts, pos, skipped := GCFacts(rc, files)
	rc.S.Count("GC.functions-skipped-too-many-paths", skipped)
	var keys []string
	for k := range facts {
		keys = append(keys, k)
	}
	sort.Strings(keys)
	for _, k := range keys {
		ref, ok := gcRef[k]
		if !ok || len(ref) == 0 {
			continue // new or unguarded site: LC / LG decide those
		}
		have := map[string]bool{}
		for _, l := range facts[k] {
			have[l] = true
		}
		var lost []string
		for _, r := range ref {
			if !have[r] {
				lost = append(lost, r)
			}
		}
		if len(lost) == 0 {
			rc.S.Ok("GC", k, pos[k], fmt.Sprintf("%d recorded fact(s) still established: %s", len(ref), strings.Join(ref, " ; ")))
			continue
		}
		rc.S.Viol("GC", k, pos[k], fmt.Sprintf("the call is no longer guarded by %s (facts established on every path to it on the reviewed tree)", strings.Join(lost, " ; "))).Sig = "lost " + strings.Join(lost, " ; ")
	}
}
