package rules

import (
	"fmt"
	"go/ast"
	"go/parser"
	"go/token"
	"go/types"
	"regexp"
	"sort"
	"strings"

	"tcheck/ir"
)

// DC: delegation completeness. The engine's entry points for the data-moving operations are thin:
// they validate, allocate the result and hand over to ONE worker that knows the result's
// geometry (Repeat/RepeatReuse -> denseRepeat, Concat -> denseConcat). A successful return that
// has not gone through the worker - an "it is just a copy" shortcut - returns a tensor whose
// shape is not the one the shape-only calculator predicted (Repeat with every count 1 still
// flattens under AllAxes and adds an axis to a vector).
var dcTable = []struct {
	Func, Worker string
	Props        []string
}{
	{"tensor.(StdEng).Repeat", "$r.denseRepeat(", []string{"C13", "C10"}},
	{"tensor.(StdEng).RepeatReuse", "$r.denseRepeat(", []string{"C13", "C10"}},
	{"tensor.(StdEng).Concat", "$r.denseConcat(", []string{"C13", "C10"}},
	{"tensor.(*Dense).Repeat", ".Repeat($r, ", []string{"C13", "C10"}},
}

var dcErrTested = regexp.MustCompile(`^\(?\(?([%$][\w]+) != nil\)?`)

func DC(rc *RC, prop string) {
	rc.S.Declare("DC", "delegation completeness: every successful return of an engine entry point of a data-moving operation has gone through the operation's one worker (no shortcut result)", 0)
	for _, e := range dcTable {
		use := false
		for _, p := range e.Props {
			use = use || p == prop
		}
		if !use {
			continue
		}
		fi := anchor(rc, "DC", e.Func)
		if fi == nil {
			continue
		}
		pos := rc.P.Pos(fi.Decl.Pos())
		_, tree := sCanon(rc, fi)
		paths, ok := ir.EnumPaths(tree, 5000)
		if !ok {
			rc.S.Undec("DC", e.Func, pos, "too many paths")
			continue
		}
		var bad []string
		n := 0
		for _, p := range paths {
			if p.Exit != "return" {
				continue
			}
			through := strings.Contains(p.Ret, e.Worker)
			for _, st := range p.Steps {
				through = through || strings.Contains(st.Head, e.Worker)
			}
			if through {
				n++
				continue
			}
			if strings.Contains(p.Ret, "errors.") {
				continue // refusal
			}
			// propagation of a failure the path has tested
			parts := splitTopLevel(p.Ret)
			last := strings.TrimSpace(parts[len(parts)-1])
			propagated := false
			for _, g := range p.Guards {
				if m := dcErrTested.FindStringSubmatch(g); m != nil && m[1] == last {
					propagated = true
				}
			}
			if propagated {
				continue
			}
			bad = append(bad, fmt.Sprintf("the path [%s] returns %q without calling %s…)", strings.Join(p.Guards, " && "), p.Ret, e.Worker))
		}
		if len(bad) > 0 {
			rc.S.Viol("DC", e.Func, pos, strings.Join(uniq(bad), "; ")).Sig = fmt.Sprintf("%d shortcut(s)", len(uniq(bad)))
		} else if n == 0 {
			rc.S.Undec("DC", e.Func, pos, "no path through "+e.Worker+"…) found")
		} else {
			rc.S.Ok("DC", e.Func, pos, fmt.Sprintf("%d successful paths, each through %s…)", n, e.Worker))
		}
	}
}

func splitTopLevel(s string) []string {
	var out []string
	depth, start := 0, 0
	for i := 0; i < len(s); i++ {
		switch s[i] {
		case '(', '[', '{':
			depth++
		case ')', ']', '}':
			depth--
		case ',':
			if depth == 0 {
				out = append(out, s[start:i])
				start = i + 1
			}
		}
	}
	return append(out, s[start:])
}

// I11: lock-step of the multi-iterator's blocks. A MultIterator walks several stride blocks
// (fitArr) at once; every method that steps, rewinds or redirects the iterator does so by a loop
// over fitArr that treats every block alike. Leaving that loop early - a `break` once one block
// reports exhaustion, a `continue` - leaves the later blocks one step behind: their operands'
// offsets repeat the previous element.
func I11(rc *RC) {
	rc.S.Declare("I11", "multi-iterator lock-step: every loop over the stride blocks (fitArr) that calls a method on the block has no break/continue/goto, and returns only to pass on an error", 3)
	for _, fi := range rc.P.SortedFuncs() {
		if fi.Pkg != rc.P.Root || fi.Decl == nil || fi.Decl.Body == nil || fi.Decl.Recv == nil || !strings.Contains(fi.Key, "(*MultIterator)") {
			continue
		}
		info := fi.Pkg.TypesInfo
		idx := 0
		ast.Inspect(fi.Decl.Body, func(n ast.Node) bool {
			rs, ok := n.(*ast.RangeStmt)
			if !ok {
				return true
			}
			sel, ok := rs.X.(*ast.SelectorExpr)
			if !ok || sel.Sel.Name != "fitArr" {
				return true
			}
			val, _ := rs.Value.(*ast.Ident)
			if val == nil {
				return true
			}
			vobj := info.Defs[val]
			// does the body call a method on the block?
			calls := false
			bad := ""
			ast.Inspect(rs.Body, func(m ast.Node) bool {
				switch x := m.(type) {
				case *ast.FuncLit:
					return false
				case *ast.CallExpr:
					if s, isSel := x.Fun.(*ast.SelectorExpr); isSel {
						if id, isId := s.X.(*ast.Ident); isId && info.Uses[id] == vobj {
							calls = true
						}
					}
				case *ast.BranchStmt:
					if bad == "" && (x.Tok == token.BREAK || x.Tok == token.CONTINUE || x.Tok == token.GOTO) {
						bad = fmt.Sprintf("%s at %s leaves the loop over the blocks before every block was stepped", x.Tok, rc.P.Pos(x.Pos()))
					}
				case *ast.ReturnStmt:
					// only an error may cut the loop short
					okRet := false
					if len(x.Results) > 0 {
						if id, isId := x.Results[len(x.Results)-1].(*ast.Ident); isId {
							if t := info.TypeOf(id); t != nil && t.String() == "error" && id.Name != "nil" {
								okRet = true
							}
						}
					}
					if !okRet && bad == "" {
						bad = fmt.Sprintf("return at %s leaves the loop over the blocks without an error", rc.P.Pos(x.Pos()))
					}
				}
				return true
			})
			if !calls {
				return true
			}
			key := fmt.Sprintf("%s#fitArr%d", fi.Key, idx)
			idx++
			if bad != "" {
				rc.S.Viol("I11", key, rc.P.Pos(rs.Pos()), bad)
			} else {
				rc.S.Ok("I11", key, rc.P.Pos(rs.Pos()), "every block is handled on every iteration")
			}
			return true
		})
	}
}

// MZ: a materialised tensor is row-major. Dense.Materialize builds its result with the dtype,
// the shape and the engine only, and fills it through the iterator copy: whatever the layout of
// the view, the copy is plain row-major storage. The reducers, Repeat and the arg-reductions
// rely on it (their layout goals accept ".Materialize()" as having established row-major
// storage), so an order option on that constructor call is reported.
func MZ(rc *RC) {
	rc.S.Declare("MZ", "materialised tensors are row-major: the constructor call in Dense.Materialize carries no option other than the engine (the raw reducers and block copiers read a materialised operand as row-major storage)", 1)
	fi := anchor(rc, "MZ", "tensor.(*Dense).Materialize")
	if fi == nil {
		return
	}
	info := fi.Pkg.TypesInfo
	pos := rc.P.Pos(fi.Decl.Pos())
	allowed := map[string]bool{"WithEngine": true}
	// option expressions reaching a constructor: direct arguments and the elements of local
	// option slices (literal elements and appended values)
	sliceElems := map[types.Object][]ast.Expr{}
	ast.Inspect(fi.Decl.Body, func(n ast.Node) bool {
		as, ok := n.(*ast.AssignStmt)
		if !ok || len(as.Lhs) != len(as.Rhs) {
			return true
		}
		for i, l := range as.Lhs {
			id, isId := l.(*ast.Ident)
			if !isId {
				continue
			}
			o := info.ObjectOf(id)
			if o == nil {
				continue
			}
			switch r := as.Rhs[i].(type) {
			case *ast.CompositeLit:
				sliceElems[o] = append(sliceElems[o], r.Elts...)
			case *ast.CallExpr:
				if f, isF := r.Fun.(*ast.Ident); isF && f.Name == "append" && len(r.Args) > 0 {
					sliceElems[o] = append(sliceElems[o], r.Args[1:]...)
				}
			}
		}
		return true
	})
	ctor := map[string]bool{"recycledDense": true, "New": true, "NewDense": true, "borrowDense": true}
	found := 0
	var bad []string
	ast.Inspect(fi.Decl.Body, func(n ast.Node) bool {
		call, ok := n.(*ast.CallExpr)
		if !ok {
			return true
		}
		id, isId := call.Fun.(*ast.Ident)
		if !isId || !ctor[id.Name] {
			return true
		}
		found++
		var opts []ast.Expr
		for _, a := range call.Args {
			t := info.TypeOf(a)
			if t == nil {
				continue
			}
			ts := t.String()
			if strings.HasSuffix(ts, "tensor.ConsOpt") && !strings.HasPrefix(ts, "[]") {
				opts = append(opts, a)
			} else if strings.HasSuffix(ts, "[]gorgonia.org/tensor.ConsOpt") || strings.HasSuffix(ts, "[]tensor.ConsOpt") {
				if aid, isA := a.(*ast.Ident); isA {
					if elems, known := sliceElems[info.ObjectOf(aid)]; known {
						opts = append(opts, elems...)
						continue
					}
				}
				bad = append(bad, "an option slice whose elements cannot be enumerated at "+rc.P.Pos(a.Pos()))
			}
		}
		for _, o := range opts {
			name := ""
			if c, isCall := o.(*ast.CallExpr); isCall {
				switch f := c.Fun.(type) {
				case *ast.Ident:
					name = f.Name
				case *ast.SelectorExpr:
					name = f.Sel.Name
				}
			}
			if !allowed[name] {
				bad = append(bad, fmt.Sprintf("option %s at %s", types.ExprString(o), rc.P.Pos(o.Pos())))
			}
		}
		return true
	})
	// the order flag of the result is not assigned afterwards either
	c := ir.NewCanon(rc.P.Fset, info, ir.Options{ParamNames: true, KeepNames: true, NoSubst: true})
	txt := ir.Render(c.Func(fi.Decl))
	if regexp.MustCompile(`\.setDataOrder\(|\.AP\.o = |\.o = `).MatchString(txt) {
		bad = append(bad, "the data order of the result is assigned after construction")
	}
	switch {
	case found == 0:
		rc.S.Undec("MZ", fi.Key, pos, "no tensor constructor call found")
	case len(bad) > 0:
		sort.Strings(bad)
		rc.S.Viol("MZ", fi.Key, pos, "the materialised copy is built with "+strings.Join(bad, ", ")+": its storage order is no longer row-major for every source")
	default:
		rc.S.Ok("MZ", fi.Key, pos, fmt.Sprintf("%d constructor call(s), engine option only", found))
	}
}

// IP3: the iterators handed out by the operand preparation belong to their operands. prepDataVV,
// prepDataVS/SV, prepDataUnary (and the float engines' variants) return one iterator per
// participant; the result named <x>it is assigned only from <x's tensor>.Iterator() - a fresh
// iterator of that very tensor. Sharing one iterator between two participants (`bit = ait`
// when the same tensor is passed twice) makes every kernel step advance it twice.
func IP3(rc *RC) {
	rc.S.Declare("IP3", "operand preparation hands out each participant's own fresh iterator: every assignment to an iterator result of prepData* is <that participant>.Iterator()", 10)
	want := map[string][]string{"ait": {"a"}, "bit": {"b"}, "iit": {"reuse", "incr"}, "rit": {"reuse"}}
	for _, fi := range rc.P.SortedFuncs() {
		if fi.Pkg != rc.P.Root || fi.Decl == nil || fi.Decl.Body == nil || !strings.HasPrefix(fi.Obj.Name(), "prepData") {
			continue
		}
		info := fi.Pkg.TypesInfo
		results := map[types.Object]string{}
		if fi.Decl.Type.Results != nil {
			for _, f := range fi.Decl.Type.Results.List {
				for _, n := range f.Names {
					if _, isIt := want[n.Name]; isIt {
						if o := info.Defs[n]; o != nil {
							results[o] = n.Name
						}
					}
				}
			}
		}
		params := map[string]types.Object{}
		if fi.Decl.Type.Params != nil {
			for _, f := range fi.Decl.Type.Params.List {
				for _, n := range f.Names {
					params[n.Name] = info.Defs[n]
				}
			}
		}
		ast.Inspect(fi.Decl.Body, func(n ast.Node) bool {
			as, ok := n.(*ast.AssignStmt)
			if !ok {
				return true
			}
			for i, l := range as.Lhs {
				id, isId := l.(*ast.Ident)
				if !isId {
					continue
				}
				name, isRes := results[info.ObjectOf(id)]
				if !isRes {
					continue
				}
				key := fmt.Sprintf("%s#%s@%d", fi.Key, name, len(rc.S.Obs))
				key = fi.Key + "#" + name
				pos := rc.P.Pos(as.Pos())
				if len(as.Lhs) != len(as.Rhs) {
					rc.S.Viol("IP3", key, pos, name+" is assigned from a multi-value expression, not from its tensor's Iterator()")
					continue
				}
				good := false
				// the operand swap for a sparse left operand exchanges data and iterators together:
				// a tuple assignment that permutes the iterator results among themselves
				if len(as.Lhs) > 1 {
					if rid, isR := as.Rhs[i].(*ast.Ident); isR {
						if _, other := results[info.ObjectOf(rid)]; other {
							perm := true
							for _, r := range as.Rhs {
								rr, isId := r.(*ast.Ident)
								if !isId {
									perm = false
									break
								}
								if _, isRes := results[info.ObjectOf(rr)]; !isRes {
									perm = false
								}
							}
							if perm {
								rc.S.Ok("IP3", key+"~swap", pos, "operand swap: iterators exchanged together with their buffers")
								continue
							}
						}
					}
				}
				if call, isCall := as.Rhs[i].(*ast.CallExpr); isCall && len(call.Args) == 0 {
					if sel, isSel := call.Fun.(*ast.SelectorExpr); isSel && sel.Sel.Name == "Iterator" {
						if x, isX := sel.X.(*ast.Ident); isX {
							for _, w := range want[name] {
								if params[w] != nil && info.Uses[x] == params[w] {
									good = true
								}
							}
						}
					}
				}
				if good {
					rc.S.Ok("IP3", key, pos, name+" = "+types.ExprString(as.Rhs[i]))
				} else {
					rc.S.Viol("IP3", key, pos, fmt.Sprintf("%s is assigned %s, which is not a fresh iterator of its own participant (%s)", name, types.ExprString(as.Rhs[i]), strings.Join(want[name], "/")))
				}
			}
			return true
		})
	}
}

// T14: order of composition with the pending transpose. A tensor whose lazy transpose p
// (transposeWith) is pending and that is transposed again by q presents axis i of the result as
// axis p[q[i]] of the stored data: the saved permutation is applied LAST (outermost). Whoever
// folds a further permutation into the pending one therefore indexes transposeWith BY the new
// permutation; indexing the new permutation by (the elements of) transposeWith composes the two
// in the opposite order, which is a different permutation unless they commute.
func T14(rc *RC) {
	rc.S.Declare("T14", "composition with the pending transpose: wherever the saved permutation transposeWith is combined with another index vector it is the outer one (transposeWith[q[i]]), never the index of the other (q[transposeWith[i]])", 0)
	// the rule's expected count of violations is zero and a refactoring may leave no composition
	// site at all: the matcher is run on a built-in positive example on every run, so a matcher
	// that has gone blind fails the check instead of passing vacuously
	if !t14SelfTest() {
		rc.S.Undec("T14", "self-test", "-", "the matcher no longer recognises its built-in positive example")
		return
	}
	for _, fi := range rc.P.SortedFuncs() {
		if fi.Pkg != rc.P.Root || fi.Decl == nil || fi.Decl.Body == nil || strings.HasSuffix(fi.File, "_test.go") {
			continue
		}
		good, bad := t14Scan(fi.Pkg.TypesInfo, fi.Decl.Body)
		for _, ix := range good {
			rc.S.Ok("T14", fmt.Sprintf("%s#%s", fi.Key, types.ExprString(ix)), rc.P.Pos(ix.Pos()), "saved permutation applied last")
		}
		for _, ix := range bad {
			rc.S.Viol("T14", fmt.Sprintf("%s#%s", fi.Key, types.ExprString(ix)), rc.P.Pos(ix.Pos()), fmt.Sprintf("%s indexes another index vector by the elements of the saved permutation: this composes the two transposes in the opposite order (the saved permutation must be applied last: transposeWith[q[i]])", types.ExprString(ix)))
		}
	}
}

const t14Example = `package p
type D struct{ transposeWith []int }
func ok(t *D, axes []int) bool { for i, a := range axes { if t.transposeWith[a] != i { return false } }; return true }
func wrong(t *D, roll, axes []int) { for i, a := range t.transposeWith { axes[i] = roll[a] } }
`

func t14SelfTest() bool {
	fset := token.NewFileSet()
	f, err := parser.ParseFile(fset, "t14.go", t14Example, 0)
	if err != nil {
		return false
	}
	info := &types.Info{Types: map[ast.Expr]types.TypeAndValue{}, Defs: map[*ast.Ident]types.Object{}, Uses: map[*ast.Ident]types.Object{}, Selections: map[*ast.SelectorExpr]*types.Selection{}}
	if _, err := (&types.Config{}).Check("p", fset, []*ast.File{f}, info); err != nil {
		return false
	}
	ng, nb := 0, 0
	for _, d := range f.Decls {
		if fd, ok := d.(*ast.FuncDecl); ok && fd.Body != nil {
			g, b := t14Scan(info, fd.Body)
			ng += len(g)
			nb += len(b)
		}
	}
	return ng == 1 && nb == 1
}

// t14Scan returns the index expressions in which the saved permutation is the outer vector
// (good) and those in which another index vector is indexed by its elements (bad).
func t14Scan(info *types.Info, body *ast.BlockStmt) (good, bad []*ast.IndexExpr) {
	isTW := func(e ast.Expr) bool {
		if s, ok := e.(*ast.SelectorExpr); ok && s.Sel.Name == "transposeWith" {
			return true
		}
		if c, ok := e.(*ast.CallExpr); ok {
			if s, isSel := c.Fun.(*ast.SelectorExpr); isSel && s.Sel.Name == "transposeAxes" && len(c.Args) == 0 {
				return true
			}
		}
		return false
	}
	// range values over transposeWith: `for i, a := range t.transposeWith`
	elemOfTW := map[types.Object]bool{}
	ast.Inspect(body, func(m ast.Node) bool {
		if rs, ok := m.(*ast.RangeStmt); ok && isTW(rs.X) {
			if v, isId := rs.Value.(*ast.Ident); isId {
				if o := info.ObjectOf(v); o != nil {
					elemOfTW[o] = true
				}
			}
		}
		return true
	})
	ast.Inspect(body, func(m ast.Node) bool {
		ix, ok := m.(*ast.IndexExpr)
		if !ok {
			return true
		}
		t := info.TypeOf(ix.X)
		if t == nil {
			return true
		}
		if sl, isSl := t.Underlying().(*types.Slice); !isSl || sl.Elem().String() != "int" {
			return true
		}
		if isTW(ix.X) {
			good = append(good, ix)
			return true
		}
		innerTW := false
		switch x := ix.Index.(type) {
		case *ast.IndexExpr:
			innerTW = isTW(x.X)
		case *ast.Ident:
			innerTW = elemOfTW[info.ObjectOf(x)]
		}
		if innerTW {
			// shape/stride lookups by a permuted axis are not compositions of permutations
			if named, isNamed := t.(*types.Named); isNamed && named.Obj().Name() == "Shape" {
				return true
			}
			if s, isSel := ix.X.(*ast.SelectorExpr); isSel && (s.Sel.Name == "shape" || s.Sel.Name == "strides") {
				return true
			}
			bad = append(bad, ix)
		}
		return true
	})
	return
}

// PO: publish last. An object handed back to one of the library's free lists (a send on a pool
// channel, Put on a sync.Pool) belongs, from that statement on, to whichever goroutine borrows it
// next. The returning function therefore touches it no more: no statement that can execute after
// the hand-over mentions the object, and no deferred call registered in the function does
// (deferred calls run after the hand-over). `defer destroyHeader(hdr)` in front of
// `headerPool <- hdr` wipes a header another goroutine may already have borrowed.
func PO(rc *RC, floor int) {
	rc.S.Declare("PO", "publish last: after an object is handed to a pool (channel send / sync.Pool.Put on a package-level pool) the returning function neither reads nor writes it, and no deferred call in that function mentions it", floor)
	for _, fi := range rc.P.SortedFuncs() {
		if fi.Pkg != rc.P.Root || fi.Decl == nil || fi.Decl.Body == nil || strings.HasSuffix(fi.File, "_test.go") {
			continue
		}
		info := fi.Pkg.TypesInfo
		isPool := func(e ast.Expr) bool {
			for {
				switch x := e.(type) {
				case *ast.IndexExpr:
					e = x.X
					continue
				case *ast.ParenExpr:
					e = x.X
					continue
				}
				break
			}
			id, ok := e.(*ast.Ident)
			if !ok {
				return false
			}
			v, ok := info.Uses[id].(*types.Var)
			return ok && v.Parent() == fi.Pkg.Types.Scope()
		}
		// publish statements and the object they publish
		type pub struct {
			stmt ast.Stmt
			obj  types.Object
			name string
		}
		var pubs []pub
		var stack []ast.Node
		parents := map[ast.Node][]ast.Node{}
		ast.Inspect(fi.Decl.Body, func(n ast.Node) bool {
			if n == nil {
				stack = stack[:len(stack)-1]
				return true
			}
			parents[n] = append([]ast.Node{}, stack...)
			stack = append(stack, n)
			switch x := n.(type) {
			case *ast.FuncLit:
				// closures are units of their own; not followed here
			case *ast.SendStmt:
				if isPool(x.Chan) {
					if id, ok := x.Value.(*ast.Ident); ok {
						pubs = append(pubs, pub{x, info.ObjectOf(id), id.Name})
					}
				}
			case *ast.ExprStmt:
				if call, ok := x.X.(*ast.CallExpr); ok && len(call.Args) == 1 {
					if sel, isSel := call.Fun.(*ast.SelectorExpr); isSel && sel.Sel.Name == "Put" && isPool(sel.X) {
						if id, isId := call.Args[0].(*ast.Ident); isId {
							pubs = append(pubs, pub{x, info.ObjectOf(id), id.Name})
						}
					}
				}
			}
			return true
		})
		mentions := func(n ast.Node, o types.Object) bool {
			found := false
			ast.Inspect(n, func(m ast.Node) bool {
				if id, ok := m.(*ast.Ident); ok && info.ObjectOf(id) == o {
					found = true
				}
				return !found
			})
			return found
		}
		for i, p := range pubs {
			if p.obj == nil {
				continue
			}
			key := fmt.Sprintf("%s#%s@%d", fi.Key, p.name, i)
			pos := rc.P.Pos(p.stmt.Pos())
			bad := ""
			// deferred calls anywhere in the function
			ast.Inspect(fi.Decl.Body, func(m ast.Node) bool {
				if d, ok := m.(*ast.DeferStmt); ok && bad == "" && mentions(d, p.obj) {
					bad = fmt.Sprintf("the deferred call at %s mentions %s and runs after the hand-over", rc.P.Pos(d.Pos()), p.name)
				}
				return true
			})
			// statements that follow the hand-over in an enclosing block
			child := ast.Node(p.stmt)
			anc := parents[p.stmt]
			for j := len(anc) - 1; j >= 0 && bad == ""; j-- {
				var list []ast.Stmt
				switch b := anc[j].(type) {
				case *ast.BlockStmt:
					list = b.List
				case *ast.CaseClause:
					list = b.Body
				case *ast.CommClause:
					list = b.Body
				}
				after := false
				for _, st := range list {
					if after && mentions(st, p.obj) {
						bad = fmt.Sprintf("the statement at %s uses %s after the hand-over", rc.P.Pos(st.Pos()), p.name)
						break
					}
					if ast.Node(st) == child {
						after = true
					}
				}
				child = anc[j]
			}
			if bad != "" {
				rc.S.Viol("PO", key, pos, bad)
			} else {
				rc.S.Ok("PO", key, pos, p.name+" is not touched after it was handed to the pool")
			}
		}
	}
}

// SC: second headers move no data. ShallowClone gives a second tensor header over the SAME
// storage (its own access pattern, the operand's array): the library uses it to reshape or
// lazily transpose an operand without touching the operand's metadata. Whatever moves or
// overwrites elements through such a header does it to the operand: in every function, a
// value obtained from ShallowClone() is never the receiver of Transpose() (materialising a
// lazy transpose permutes the shared array), Memset, Zero, SetAt, Set or an unsafe
// element-wise operation, and is not handed to copyDense/copyDenseIter as the destination.
func SC(rc *RC) {
	rc.S.Declare("SC", "second headers move no data: a value obtained from ShallowClone() (same storage as the operand) is never the receiver of Transpose/Memset/Zero/SetAt/Set nor the destination of a whole-buffer copy in that function", 3)
	movers := map[string]bool{"Transpose": true, "Memset": true, "Zero": true, "SetAt": true, "Set": true, "SetMaskAt": true, "ResetMask": true}
	for _, fi := range rc.P.SortedFuncs() {
		if fi.Pkg != rc.P.Root || fi.Decl == nil || fi.Decl.Body == nil || strings.HasSuffix(fi.File, "_test.go") {
			continue
		}
		info := fi.Pkg.TypesInfo
		clones := map[types.Object]token.Pos{}
		ast.Inspect(fi.Decl.Body, func(n ast.Node) bool {
			as, ok := n.(*ast.AssignStmt)
			if !ok || len(as.Lhs) != len(as.Rhs) {
				return true
			}
			for i, r := range as.Rhs {
				call, isCall := r.(*ast.CallExpr)
				if !isCall {
					continue
				}
				sel, isSel := call.Fun.(*ast.SelectorExpr)
				if !isSel || sel.Sel.Name != "ShallowClone" {
					continue
				}
				if id, isId := as.Lhs[i].(*ast.Ident); isId {
					if o := info.ObjectOf(id); o != nil {
						clones[o] = as.Pos()
					}
				}
			}
			return true
		})
		if len(clones) == 0 {
			continue
		}
		// aliases: x = clone / T = sc (interface conversion)
		for changed := true; changed; {
			changed = false
			ast.Inspect(fi.Decl.Body, func(n ast.Node) bool {
				as, ok := n.(*ast.AssignStmt)
				if !ok || len(as.Lhs) != len(as.Rhs) {
					return true
				}
				for i, r := range as.Rhs {
					rid, isId := r.(*ast.Ident)
					if !isId {
						continue
					}
					if _, isClone := clones[info.ObjectOf(rid)]; !isClone {
						continue
					}
					if lid, isL := as.Lhs[i].(*ast.Ident); isL {
						if o := info.ObjectOf(lid); o != nil {
							if _, seen := clones[o]; !seen {
								clones[o] = as.Pos()
								changed = true
							}
						}
					}
				}
				return true
			})
		}
		var objs []types.Object
		for o := range clones {
			objs = append(objs, o)
		}
		sort.Slice(objs, func(i, j int) bool { return clones[objs[i]] < clones[objs[j]] })
		for _, o := range objs {
			bad := ""
			ast.Inspect(fi.Decl.Body, func(n ast.Node) bool {
				call, ok := n.(*ast.CallExpr)
				if !ok || bad != "" {
					return true
				}
				if sel, isSel := call.Fun.(*ast.SelectorExpr); isSel {
					if id, isId := sel.X.(*ast.Ident); isId && info.ObjectOf(id) == o && movers[sel.Sel.Name] {
						bad = fmt.Sprintf("%s.%s() at %s moves or overwrites elements of the storage %s shares with the operand it was cloned from", o.Name(), sel.Sel.Name, rc.P.Pos(call.Pos()), o.Name())
					}
				}
				if f, isF := call.Fun.(*ast.Ident); isF && (f.Name == "copyDense" || f.Name == "copyDenseIter" || f.Name == "copyDenseSliced") && len(call.Args) > 0 {
					if id, isId := call.Args[0].(*ast.Ident); isId && info.ObjectOf(id) == o {
						bad = fmt.Sprintf("%s is the destination of %s at %s: the copy lands in the operand's storage", o.Name(), f.Name, rc.P.Pos(call.Pos()))
					}
				}
				return true
			})
			key := fi.Key + "#" + o.Name()
			if bad != "" {
				rc.S.Viol("SC", key, rc.P.Pos(clones[o]), bad)
			} else {
				rc.S.Ok("SC", key, rc.P.Pos(clones[o]), "the second header is only reshaped / lazily transposed / read")
			}
		}
	}
}

// CF: clone field correspondence. The copying constructors (Dense.Clone, Dense.ShallowClone)
// build the result field by field: whatever is taken from the source goes into the SAME field
// of the result - the access pattern into AP, the saved pre-transpose pattern into old, the
// saved permutation into transposeWith. Cloning the current pattern into the result's `old`
// (seed R9C13a) gives a clone whose untranspose restores the transposed shape.
func CF(rc *RC) {
	rc.S.Declare("CF", "clone field correspondence: in Dense.Clone and Dense.ShallowClone every CloneTo / Clone() / copy / assignment that carries metadata from the source tensor into the result connects the same field on both sides (AP to AP, old to old, transposeWith to transposeWith)", 2)
	fields := map[string]bool{"AP": true, "old": true, "transposeWith": true, "mask": true}
	fieldOf := func(e ast.Expr) (obj string, field string, ok bool) {
		// x.F, &x.F, x.F.Clone(), x.F[..]
		for {
			switch y := e.(type) {
			case *ast.UnaryExpr:
				e = y.X
				continue
			case *ast.ParenExpr:
				e = y.X
				continue
			case *ast.SliceExpr:
				e = y.X
				continue
			case *ast.CallExpr:
				if s, isSel := y.Fun.(*ast.SelectorExpr); isSel && (s.Sel.Name == "Clone") && len(y.Args) == 0 {
					e = s.X
					continue
				}
			}
			break
		}
		sel, isSel := e.(*ast.SelectorExpr)
		if !isSel || !fields[sel.Sel.Name] {
			return "", "", false
		}
		if id, isId := sel.X.(*ast.Ident); isId {
			return id.Name, sel.Sel.Name, true
		}
		return "", "", false
	}
	for _, key := range []string{"tensor.(*Dense).Clone", "tensor.(*Dense).ShallowClone"} {
		fi := anchor(rc, "CF", key)
		if fi == nil {
			continue
		}
		pos := rc.P.Pos(fi.Decl.Pos())
		recv := ""
		if fi.Decl.Recv != nil && len(fi.Decl.Recv.List[0].Names) > 0 {
			recv = fi.Decl.Recv.List[0].Names[0].Name
		}
		n := 0
		var bad []string
		check := func(dst, src ast.Expr, at token.Pos) {
			do, df, ok1 := fieldOf(dst)
			so, sf, ok2 := fieldOf(src)
			if !ok1 || !ok2 || so != recv || do == recv {
				return
			}
			n++
			if df != sf {
				bad = append(bad, fmt.Sprintf("the result's %s is filled from the source's %s at %s", df, sf, rc.P.Pos(at)))
			}
		}
		ast.Inspect(fi.Decl.Body, func(m ast.Node) bool {
			switch x := m.(type) {
			case *ast.AssignStmt:
				if len(x.Lhs) == len(x.Rhs) {
					for i := range x.Lhs {
						check(x.Lhs[i], x.Rhs[i], x.Pos())
					}
				}
			case *ast.CallExpr:
				if s, isSel := x.Fun.(*ast.SelectorExpr); isSel && s.Sel.Name == "CloneTo" && len(x.Args) == 1 {
					check(x.Args[0], s.X, x.Pos())
				}
				if f, isF := x.Fun.(*ast.Ident); isF && f.Name == "copy" && len(x.Args) == 2 {
					check(x.Args[0], x.Args[1], x.Pos())
				}
			}
			return true
		})
		switch {
		case len(bad) > 0:
			rc.S.Viol("CF", key, pos, strings.Join(uniq(bad), "; ")).Sig = strings.Join(uniq(bad), "; ")
		case n == 0:
			rc.S.Undec("CF", key, pos, "no field-to-field transfer from the receiver recognised")
		default:
			rc.S.Ok("CF", key, pos, fmt.Sprintf("%d metadata transfers, each between the same field of source and result", n))
		}
	}
}

// RG: a registration goes into the table it was looked up in. Register, RegisterNumber,
// RegisterEq, ... add a user-defined Dtype to a type-class table unless it is already there:
// the table searched for the Dtype (a range over T.set, or typeclassCheck(a, T)) is the table
// appended to. Searching one table and appending to another (seed R9C14b: `Register` tested
// eqTypes, which RegisterEq had just filled, and never reached allTypes, the table the protobuf
// and flatbuffers decoders resolve element types from) silently drops the registration.
func RG(rc *RC) {
	rc.S.Declare("RG", "registration table agreement: in every Register* function the type-class table that is searched for the Dtype is the table the Dtype is appended to", 4)
	for _, fi := range rc.P.SortedFuncs() {
		if fi.Pkg != rc.P.Root || fi.Decl == nil || fi.Decl.Body == nil || fi.Decl.Recv != nil || !strings.HasPrefix(fi.Obj.Name(), "Register") || strings.HasSuffix(fi.File, "_test.go") {
			continue
		}
		var searched, appended []string
		ast.Inspect(fi.Decl.Body, func(m ast.Node) bool {
			switch x := m.(type) {
			case *ast.RangeStmt:
				if s, ok := x.X.(*ast.SelectorExpr); ok && s.Sel.Name == "set" {
					if id, isId := s.X.(*ast.Ident); isId {
						searched = append(searched, id.Name)
					}
				}
			case *ast.CallExpr:
				if f, ok := x.Fun.(*ast.Ident); ok && f.Name == "typeclassCheck" && len(x.Args) == 2 {
					if id, isId := x.Args[1].(*ast.Ident); isId {
						searched = append(searched, id.Name)
					}
				}
				if s, ok := x.Fun.(*ast.SelectorExpr); ok && s.Sel.Name == "indexOf" {
					if id, isId := s.X.(*ast.Ident); isId {
						searched = append(searched, id.Name)
					}
				}
				if f, ok := x.Fun.(*ast.Ident); ok && f.Name == "append" && len(x.Args) >= 2 {
					if s, isSel := x.Args[0].(*ast.SelectorExpr); isSel && s.Sel.Name == "set" {
						if id, isId := s.X.(*ast.Ident); isId {
							appended = append(appended, id.Name)
						}
					}
				}
			}
			return true
		})
		if len(appended) == 0 {
			continue
		}
		pos := rc.P.Pos(fi.Decl.Pos())
		sort.Strings(searched)
		sort.Strings(appended)
		s1, s2 := strings.Join(uniq(searched), ","), strings.Join(uniq(appended), ",")
		if len(searched) == 0 {
			rc.S.Undec("RG", fi.Key, pos, "appends to "+s2+" without a recognisable membership test")
			continue
		}
		if s1 != s2 {
			rc.S.Viol("RG", fi.Key, pos, fmt.Sprintf("searches %s for the Dtype but appends to %s: a Dtype found in the one is never added to the other", s1, s2))
		} else {
			rc.S.Ok("RG", fi.Key, pos, "searches and extends "+s2)
		}
	}
}

// KB: element storage is not compared byte for byte. Equality of tensors is equality of their
// elements under Go's == for the element type: -0 equals 0 and NaN differs from NaN although
// the bytes say otherwise. A bytes.Equal / bytes.Compare over the raw storage of a tensor
// (Header.Raw, byteSlice()) makes the answer depend on the element type - and on the layout,
// since views still go element by element (seed R9C17b). Expected count of such calls: zero;
// the matcher is run on a built-in positive example on every run.
func KB(rc *RC) {
	rc.S.Declare("KB", "no byte-wise comparison of element storage: bytes.Equal / bytes.Compare / reflect.DeepEqual are never applied to a tensor's raw storage (floats compare by value: -0 == 0, NaN != NaN)", 0)
	match := func(info *types.Info, body ast.Node) []*ast.CallExpr {
		var out []*ast.CallExpr
		ast.Inspect(body, func(m ast.Node) bool {
			call, ok := m.(*ast.CallExpr)
			if !ok {
				return true
			}
			sel, isSel := call.Fun.(*ast.SelectorExpr)
			if !isSel {
				return true
			}
			pkg, isId := sel.X.(*ast.Ident)
			if !isId {
				return true
			}
			name := pkg.Name + "." + sel.Sel.Name
			if name != "bytes.Equal" && name != "bytes.Compare" && name != "reflect.DeepEqual" {
				return true
			}
			raw := false
			for _, a := range call.Args {
				txt := types.ExprString(a)
				if strings.Contains(txt, ".Raw") || strings.Contains(txt, "byteSlice()") || strings.Contains(txt, ".hdr()") {
					raw = true
				}
			}
			if raw {
				out = append(out, call)
			}
			return true
		})
		return out
	}
	// self-test
	fset := token.NewFileSet()
	if f, err := parser.ParseFile(fset, "kb.go", "package p\nimport \"bytes\"\ntype H struct{ Raw []byte }\nfunc eq(a, b *H) bool { return bytes.Equal(a.Raw, b.Raw) }\n", 0); err != nil || len(match(nil, f)) != 1 {
		rc.S.Undec("KB", "self-test", "-", "the matcher no longer recognises its built-in positive example")
		return
	}
	n := 0
	for _, fi := range rc.P.SortedFuncs() {
		if fi.Decl == nil || fi.Decl.Body == nil || strings.HasSuffix(fi.File, "_test.go") {
			continue
		}
		n++
		for _, call := range match(fi.Pkg.TypesInfo, fi.Decl.Body) {
			rc.S.Viol("KB", fi.Key+"#"+types.ExprString(call.Fun), rc.P.Pos(call.Pos()), fmt.Sprintf("%s compares element storage byte for byte: for floating-point and complex elements that is not ==", types.ExprString(call)))
		}
	}
	rc.S.Ok("KB", "module", "-", fmt.Sprintf("%d functions scanned, no byte-wise comparison of element storage", n))
}
