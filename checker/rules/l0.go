package rules

import (
	"fmt"
	"regexp"
	"sort"
	"strings"

	"tcheck/ir"
)

// L0: the layout predicates every other layout rule trusts are themselves decided, as
// boolean functions: the formula extracted from the source (any mix of early returns, &&,
// ||, !, De Morgan forms) is compared with the table's formula by exhaustive truth table
// over the named atoms. `equiv` entries must be equal; `implies` entries must be true
// whenever the table's formula is (a stronger iterator test is safe, a weaker one is not).

var l0Result = regexp.MustCompile(`\$ret\d+`)
var l0Predicate = regexp.MustCompile(`^!?\$[\w.()]*\.(Is|Has|Requires)[A-Za-z]*\([^()]*\)$`)

// l0Measure: a comparison of two measurements of the inputs (field reads / argument-free method
// calls on a parameter, integer literals) without any arithmetic: ($r.Size() == $r.len()),
// ($r.viewOf == 0). Like a named predicate it is a fact about the inputs the table's definition
// does not mention, so it is a free variable of the truth table.
var l0Measure = regexp.MustCompile(`^\((` + l0Path + `|len\(` + l0Path + `\)|\d+) (==|>=|>) (` + l0Path + `|len\(` + l0Path + `\)|\d+)\)$`)

const l0Path = `\$[A-Za-z_]\w*(?:\.[A-Za-z_]\w*(?:\(\))?)*(?:\[(?:\d+|\(len\(\$[\w.]+\) - 1\))\])?`

type l0Entry struct {
	Func    string            // function key
	Target  string            // "" = boolean result; else the named boolean variable
	Atoms   map[string]string // canonical atom -> spec variable, "!v" for its negation
	Vars    []string          // spec variables (free)
	Spec    func(v map[string]bool) bool
	Assume  func(v map[string]bool) bool // assignments outside it are ignored
	Equiv   bool
	Meaning string
}

func so(v map[string]bool, x, y string) bool { return v["col"+x] == v["col"+y] }

var l0Table = []l0Entry{
	{Func: "tensor.(*Dense).RequiresIterator", Equiv: true,
		Atoms:   map[string]string{"($r.len() == 1)": "one", "(1 == $r.len())": "one", "$r.o.IsContiguous()": "contig", "$r.o.IsNotContiguous()": "!contig", "$r.old.IsZero()": "!lazy", "$r.IsMasked()": "masked"},
		Vars:    []string{"one", "contig", "lazy", "masked"},
		Spec:    func(v map[string]bool) bool { return !v["one"] && (!v["contig"] || v["lazy"] || v["masked"]) },
		Meaning: "false for one element, otherwise true iff non-contiguous, lazily transposed or masked"},
	{Func: "tensor.(*Dense).IsMaterializable", Equiv: true,
		Atoms:   map[string]string{"($r.viewOf == 0)": "!view", "(0 == $r.viewOf)": "!view", "$r.old.IsZero()": "!lazy", "$r.IsView()": "view", "$r.o.IsNotContiguous()": "nc", "$r.o.IsContiguous()": "!nc"},
		Vars:    []string{"view", "lazy", "nc"},
		Spec:    func(v map[string]bool) bool { return v["view"] || v["lazy"] || v["nc"] },
		Meaning: "view, pending lazy transpose, or gaps between the elements (the clone of a non-contiguous view owns its memory and keeps the view's strides: finding 78)"},
	{Func: "tensor.(*Dense).IsView", Equiv: true,
		Atoms:   map[string]string{"($r.viewOf == 0)": "!view", "(0 == $r.viewOf)": "!view"},
		Vars:    []string{"view"},
		Spec:    func(v map[string]bool) bool { return v["view"] },
		Meaning: "viewOf != 0"},
	{Func: "tensor.(*AP).IsVectorLike", Equiv: true,
		Atoms:   map[string]string{"$r.shape.IsVectorLike()": "svl", "allones($r.strides)": "ones"},
		Vars:    []string{"svl", "ones"},
		Spec:    func(v map[string]bool) bool { return v["svl"] && v["ones"] },
		Meaning: "vector-like shape whose every stride is 1 (the iterator's unit-step fast path is taken on it: one stride is not enough, the long axis may be any of them)"},
	{Func: "tensor.(*AP).C", Equiv: true,
		Atoms:   map[string]string{"$r.o.IsRowMajor()": "!col", "$r.o.IsColMajor()": "col", "$r.o.IsContiguous()": "contig", "$r.o.IsNotContiguous()": "!contig"},
		Vars:    []string{"col", "contig"},
		Spec:    func(v map[string]bool) bool { return !v["col"] && v["contig"] },
		Meaning: "row-major and contiguous, nothing else (the native conversions and the BLAS gateways read it as 'storage is the row-major array')"},
	{Func: "tensor.(*AP).F", Equiv: true,
		Atoms:   map[string]string{"$r.o.IsRowMajor()": "!col", "$r.o.IsColMajor()": "col", "$r.o.IsContiguous()": "contig", "$r.o.IsNotContiguous()": "!contig"},
		Vars:    []string{"col", "contig"},
		Spec:    func(v map[string]bool) bool { return v["col"] && v["contig"] },
		Meaning: "column-major and contiguous, nothing else (native conversions refuse on it)"},
	{Func: "tensor.(DataOrder).IsColMajor", Equiv: true,
		Atoms:   map[string]string{"(($r & ColMajor) == 0)": "!col", "(0 == ($r & ColMajor))": "!col", "((ColMajor & $r) == 0)": "!col", "(0 == (ColMajor & $r))": "!col"},
		Vars:    []string{"col"},
		Spec:    func(v map[string]bool) bool { return v["col"] },
		Meaning: "ColMajor bit set"},
	{Func: "tensor.(DataOrder).IsRowMajor", Equiv: true,
		Atoms:   map[string]string{"$r.IsColMajor()": "col", "(($r & ColMajor) == 0)": "!col", "(0 == ($r & ColMajor))": "!col", "((ColMajor & $r) == 0)": "!col", "(0 == (ColMajor & $r))": "!col"},
		Vars:    []string{"col"},
		Spec:    func(v map[string]bool) bool { return !v["col"] },
		Meaning: "negation of IsColMajor"},
	{Func: "tensor.(DataOrder).IsNotContiguous", Equiv: true,
		Atoms:   map[string]string{"(($r & NonContiguous) == 0)": "!nc", "(0 == ($r & NonContiguous))": "!nc", "((NonContiguous & $r) == 0)": "!nc", "(0 == (NonContiguous & $r))": "!nc"},
		Vars:    []string{"nc"},
		Spec:    func(v map[string]bool) bool { return v["nc"] },
		Meaning: "NonContiguous bit set"},
	{Func: "tensor.(DataOrder).IsContiguous", Equiv: true,
		Atoms:   map[string]string{"$r.IsNotContiguous()": "nc", "(($r & NonContiguous) == 0)": "!nc", "(0 == ($r & NonContiguous))": "!nc", "((NonContiguous & $r) == 0)": "!nc", "(0 == (NonContiguous & $r))": "!nc"},
		Vars:    []string{"nc"},
		Spec:    func(v map[string]bool) bool { return !v["nc"] },
		Meaning: "negation of IsNotContiguous"},
	{Func: "tensor.(DataOrder).HasSameOrder", Equiv: true,
		Atoms: map[string]string{"$r.IsColMajor()": "colA", "$other.IsColMajor()": "colB", "$r.IsRowMajor()": "!colA", "$other.IsRowMajor()": "!colB",
			"(($r & ColMajor) == 0)": "!colA", "(($other & ColMajor) == 0)": "!colB",
			"((($other ^ $r) & ColMajor) == 0)": "so:A:B", "((($r ^ $other) & ColMajor) == 0)": "so:A:B", "((ColMajor & ($other ^ $r)) == 0)": "so:A:B", "((ColMajor & ($r ^ $other)) == 0)": "so:A:B"},
		Vars:    []string{"colA", "colB"},
		Spec:    func(v map[string]bool) bool { return v["colA"] == v["colB"] },
		Meaning: "both column-major or both row-major"},
	{Func: "tensor.prepDataVV", Target: "useIter",
		Atoms: map[string]string{"$a.RequiresIterator()": "riA", "$b.RequiresIterator()": "riB", "$reuse.RequiresIterator()": "riR", "($reuse == nil)": "!nnR", "(nil == $reuse)": "!nnR",
			"$a.DataOrder().HasSameOrder($b.DataOrder())": "so:A:B", "$b.DataOrder().HasSameOrder($a.DataOrder())": "so:A:B",
			"$a.DataOrder().HasSameOrder($reuse.DataOrder())": "so:A:R", "$reuse.DataOrder().HasSameOrder($a.DataOrder())": "so:A:R",
			"$b.DataOrder().HasSameOrder($reuse.DataOrder())": "so:B:R", "$reuse.DataOrder().HasSameOrder($b.DataOrder())": "so:B:R"},
		Vars: []string{"riA", "riB", "riR", "nnR", "colA", "colB", "colR"},
		Spec: func(v map[string]bool) bool {
			return v["riA"] || v["riB"] || (v["nnR"] && v["riR"]) || !so(v, "A", "B") || (v["nnR"] && (!so(v, "A", "R") || !so(v, "B", "R")))
		},
		Meaning: "iterate when any participant requires an iterator or any two participants disagree on data order"},
	{Func: "tensor.prepDataVS", Target: "useIter",
		Atoms: map[string]string{"$a.RequiresIterator()": "riA", "$reuse.RequiresIterator()": "riR", "($reuse == nil)": "!nnR", "(nil == $reuse)": "!nnR", "$a.IsScalar()": "scalarA",
			"$a.DataOrder().HasSameOrder($reuse.DataOrder())": "so:A:R", "$reuse.DataOrder().HasSameOrder($a.DataOrder())": "so:A:R"},
		Vars:    []string{"riA", "riR", "nnR", "colA", "colR", "scalarA"},
		Assume:  func(v map[string]bool) bool { return !v["scalarA"] },
		Spec:    func(v map[string]bool) bool { return v["riA"] || (v["nnR"] && (v["riR"] || !so(v, "A", "R"))) },
		Meaning: "iterate when the tensor or the destination requires an iterator or they disagree on data order (non-scalar tensor)"},
	{Func: "tensor.prepDataVSF64", Target: "useIter",
		Atoms: map[string]string{"$a.RequiresIterator()": "riA", "$reuse.RequiresIterator()": "riR", "($reuse == nil)": "!nnR", "(nil == $reuse)": "!nnR",
			"$a.DataOrder().HasSameOrder($reuse.DataOrder())": "so:A:R", "$reuse.DataOrder().HasSameOrder($a.DataOrder())": "so:A:R"},
		Vars:    []string{"riA", "riR", "nnR", "colA", "colR"},
		Spec:    func(v map[string]bool) bool { return v["riA"] || (v["nnR"] && (v["riR"] || !so(v, "A", "R"))) },
		Meaning: "as prepDataVS: iterate when the tensor or the destination requires an iterator or they disagree on data order (finding 81)"},
	{Func: "tensor.prepDataVSF32", Target: "useIter",
		Atoms: map[string]string{"$a.RequiresIterator()": "riA", "$reuse.RequiresIterator()": "riR", "($reuse == nil)": "!nnR", "(nil == $reuse)": "!nnR",
			"$a.DataOrder().HasSameOrder($reuse.DataOrder())": "so:A:R", "$reuse.DataOrder().HasSameOrder($a.DataOrder())": "so:A:R"},
		Vars:    []string{"riA", "riR", "nnR", "colA", "colR"},
		Spec:    func(v map[string]bool) bool { return v["riA"] || (v["nnR"] && (v["riR"] || !so(v, "A", "R"))) },
		Meaning: "as prepDataVS (finding 81)"},
	{Func: "tensor.prepDataSV", Target: "useIter",
		Atoms: map[string]string{"$b.RequiresIterator()": "riA", "$reuse.RequiresIterator()": "riR", "($reuse == nil)": "!nnR", "(nil == $reuse)": "!nnR", "$b.IsScalar()": "scalarA",
			"$b.DataOrder().HasSameOrder($reuse.DataOrder())": "so:A:R", "$reuse.DataOrder().HasSameOrder($b.DataOrder())": "so:A:R"},
		Vars:    []string{"riA", "riR", "nnR", "colA", "colR", "scalarA"},
		Assume:  func(v map[string]bool) bool { return !v["scalarA"] },
		Spec:    func(v map[string]bool) bool { return v["riA"] || (v["nnR"] && (v["riR"] || !so(v, "A", "R"))) },
		Meaning: "as prepDataVS with the tensor on the right"},
	{Func: "tensor.prepDataUnary", Target: "useIter",
		Atoms: map[string]string{"$a.RequiresIterator()": "riA", "$reuse.RequiresIterator()": "riR", "($reuse == nil)": "!nnR", "(nil == $reuse)": "!nnR",
			"$a.DataOrder().HasSameOrder($reuse.DataOrder())": "so:A:R", "$reuse.DataOrder().HasSameOrder($a.DataOrder())": "so:A:R"},
		Vars:    []string{"riA", "riR", "nnR", "colA", "colR"},
		Spec:    func(v map[string]bool) bool { return v["riA"] || (v["nnR"] && (v["riR"] || !so(v, "A", "R"))) },
		Meaning: "iterate when the operand or the destination requires an iterator or they disagree on data order"},
}

// L0 checks the predicate table.
func L0(rc *RC, only func(fn string) bool) {
	rc.S.Declare("L0", "layout predicate definitions: the boolean function extracted from the source equals (predicates) or is implied by (useIter decisions) the table's formula, by exhaustive truth table over the named atoms", 0)
	for _, e := range l0Table {
		if only != nil && !only(e.Func) {
			continue
		}
		fi := rc.P.Func(e.Func)
		if fi == nil {
			rc.S.Undec("L0", e.Func, "-", "unresolved anchor: function no longer exists")
			continue
		}
		pos := rc.P.Pos(fi.Decl.Pos())
		c := ir.NewCanon(rc.P.Fset, fi.Pkg.TypesInfo, ir.Options{ParamNames: true, KeepNames: true, NoSubst: false, DeclOf: rc.DeclOf})
		f, ok := c.BoolResult(fi.Decl, e.Target)
		key := e.Func
		if e.Target != "" {
			key += "#" + e.Target
		}
		if !ok {
			rc.S.Undec("L0", key, pos, "the function body is outside the if/return/assignment fragment the extractor understands")
			continue
		}
		// map atoms
		unknown := ""
		for _, a := range f.Atoms() {
			if _, ok := e.Atoms[a]; !ok {
				unknown = a
				break
			}
		}
		// atoms outside the table's vocabulary: a call of a helper introduced since the reviewed
		// tree cannot be followed (not decided); any other atom - another predicate of the
		// tensor, a field test - is a free variable of the truth table: the definition must
		// agree with the table whatever its value
		var extra []string
		if unknown != "" {
			if h := rc.NewHelperIn(f.Atoms()...); h != "" {
				rc.S.Undec("L0", key, pos, "the definition calls "+h+"(), a helper introduced since the reviewed tree that could not be inlined: "+f.String())
				continue
			}
			for _, a := range f.Atoms() {
				if _, ok := e.Atoms[a]; !ok {
					extra = append(extra, a)
				}
			}
			opaque := ""
			for _, a := range extra {
				if strings.Contains(a, "%") || l0Result.MatchString(a) || !(l0Predicate.MatchString(a) || l0Measure.MatchString(a)) {
					opaque = a // a local, the result variable, bit arithmetic: not a named predicate of the inputs
				}
			}
			if opaque != "" {
				rc.S.Undec("L0", key, pos, "the definition is written over "+opaque+", which is not a named predicate of the inputs (only Is…/Has…/Requires… calls and plain comparisons of measurements are taken as free variables): "+f.String())
				continue
			}
			if len(extra) > 6 {
				rc.S.Undec("L0", key, pos, "too many atoms outside the table's vocabulary in "+f.String())
				continue
			}
		}
		// a fact about one element is not free of a table atom about all of them:
		// allones(X) implies (X[k] == 1); assignments that contradict it describe no tensor
		type implied struct{ all, elem string }
		var axioms []implied
		for a := range e.Atoms {
			if strings.HasPrefix(a, "allones(") && strings.HasSuffix(a, ")") {
				x := a[len("allones(") : len(a)-1]
				for _, ex := range extra {
					if strings.HasPrefix(ex, "("+x+"[") && strings.HasSuffix(ex, "] == 1)") {
						axioms = append(axioms, implied{a, ex})
					}
				}
			}
		}
		// truth table
		n := len(e.Vars)
		var counter string
		var failing []string
		rows := 0
		for m := 0; m < 1<<(n+len(extra)); m++ {
			v := map[string]bool{}
			for i, name := range e.Vars {
				v[name] = m&(1<<i) != 0
			}
			if e.Assume != nil && !e.Assume(v) {
				continue
			}
			rows++
			env := map[string]bool{}
			for a, sv := range e.Atoms {
				neg := strings.HasPrefix(sv, "!")
				sv = strings.TrimPrefix(sv, "!")
				var val bool
				if strings.HasPrefix(sv, "so:") {
					p := strings.Split(sv, ":")
					val = so(v, p[1], p[2])
				} else {
					val = v[sv]
				}
				env[a] = val != neg
			}
			for i, a := range extra {
				env[a] = m&(1<<(n+i)) != 0
			}
			contradicts := false
			for _, ax := range axioms {
				if env[ax.all] && !env[ax.elem] {
					contradicts = true
				}
			}
			if contradicts {
				continue
			}
			got, want := f.Eval(env), e.Spec(v)
			bad := got != want
			if !e.Equiv {
				bad = want && !got
			}
			if bad {
				failing = append(failing, fmt.Sprint(m))
			}
			if bad && counter == "" {
				var parts []string
				for _, name := range e.Vars {
					parts = append(parts, fmt.Sprintf("%s=%v", name, v[name]))
				}
				sort.Strings(parts)
				for i, a := range extra {
					parts = append(parts, fmt.Sprintf("[%s]=%v", a, m&(1<<(n+i)) != 0))
				}
				counter = fmt.Sprintf("for %s the source gives %v, the table %v", strings.Join(parts, " "), got, want)
			}
		}
		rc.S.Count("L0.truth-table-rows", rows)
		if counter != "" {
			o := rc.S.Viol("L0", key, pos, fmt.Sprintf("%s: %s. Extracted: %s; table: %s", key, counter, f.String(), e.Meaning))
			o.Sig = "rows " + strings.Join(failing, ",") + " of " + strings.Join(e.Vars, ",")
		} else {
			rc.S.Ok("L0", key, pos, fmt.Sprintf("%d assignments: %s  ≙  %s", rows, f.String(), e.Meaning))
		}
	}
}
