package rules

import (
	"fmt"
	"go/token"
	"go/types"
	"regexp"
	"strings"

	"tcheck/ir"
	"tcheck/spec"
)

// K8: mask-predicate kernels. In every typed arm of Dense.Masked<P> the soft branch stores
// mask[i] = P(a) and the hard branch mask[i] = mask[i] || P(a), with P from the table.

func maskPredicate(name, a, x, y string) (string, bool) {
	switch name {
	case "MaskedEqual":
		return ir.Bin(token.EQL, a, x, false), true
	case "MaskedNotEqual":
		return ir.Bin(token.NEQ, a, x, false), true
	case "MaskedGreater":
		return ir.Bin(token.GTR, a, x, false), true
	case "MaskedGreaterEqual":
		return ir.Bin(token.GEQ, a, x, false), true
	case "MaskedLess":
		return ir.Bin(token.LSS, a, x, false), true
	case "MaskedLessEqual":
		return ir.Bin(token.LEQ, a, x, false), true
	case "MaskedInside":
		return "(" + ir.Bin(token.GEQ, a, x, false) + " && " + ir.Bin(token.LEQ, a, y, false) + ")", true
	case "MaskedOutside":
		return "(" + ir.Bin(token.LSS, a, x, false) + " || " + ir.Bin(token.GTR, a, y, false) + ")", true
	}
	return "", false
}

func K8(rc *RC, floor int) {
	rc.S.Declare("K8", "mask predicates: per method and typed arm, soft branch stores mask[i] = P(a), hard branch mask[i] = mask[i] || P(a), P from the predicate table", floor)
	for _, fi := range rc.P.SortedFuncs() {
		if fi.File != "dense_maskcmp_methods.go" || fi.Decl.Recv == nil {
			continue
		}
		name := fi.Obj.Name()
		if _, ok := maskPredicate(name, "a", "x", "y"); !ok {
			continue
		}
		for _, ts := range TypedSwitches(rc.P, fi) {
			for _, arm := range ts.Arms {
				if len(arm.Kinds) != 1 {
					continue
				}
				label := arm.Kinds[0]
				key := fmt.Sprintf("%s:%s", fi.Key, types.Typ[label].Name())
				pos := rc.P.Pos(arm.Clause.Pos())
				c := ir.NewCanon(rc.P.Fset, fi.Pkg.TypesInfo, ir.Options{ElemType: kindType(label), EraseInt: true, Suffix: spec.SuffixOf(label), TokKind: TokensOf(rc.P).Tok, Kind: label, HasKind: true})
				tree := c.Stmts(fi.Decl, arm.Clause.Body)
				msg, detail := checkMaskArm(name, tree)
				if msg != "" {
					if strings.Contains(msg, "structural: ") {
						rc.S.Undec("K8", key, pos, "the arm no longer has the shape soft: one store per element / hard: one or-ed store per element ("+msg+"); its predicate is not compared")
						continue
					}
					o := rc.S.Viol("K8", key, pos, msg)
					o.Sig = msg
				} else {
					rc.S.Ok("K8", key, pos, detail)
				}
			}
		}
	}
}

// k8Merged: ((K && mask) || P)  or  (P || (K && mask)), K and mask in either order
var k8Merged = regexp.MustCompile(`^\(\(([^()]+)\) \|\| (.+)\)$|^\((.+) \|\| \(([^()]+)\)\)$`)

func checkMaskArm(name string, tree []*ir.Node) (problem, detail string) {
	// locals: data = $r.<T>s(), mask = $r.mask
	var data, mask string
	var ifn *ir.Node
	for _, n := range tree {
		switch n.Kind {
		case "let":
			if n.Value == "$r.<T>s()" {
				data = n.Target
			} else if n.Value == "$r.mask" {
				mask = n.Target
			}
		case "if":
			if n.Head == "$r.maskIsSoft" {
				ifn = n
			}
		}
	}
	if mask == "" {
		mask = "$r.mask"
	}
	if data == "" {
		data = "$r.<T>s()"
	}
	a := data + "[@r]"
	want, _ := maskPredicate(name, a, "$0.(τ)", "$1.(τ)")
	if ifn == nil {
		// the merged form: one loop, mask[i] = (K && mask[i]) || P(a), where K says "hard"
		lets := map[string]string{}
		var loop *ir.Node
		for _, n := range tree {
			if n.Kind == "let" {
				lets[n.Target] = n.Value
			}
			if n.Kind == "range" && n.Head == "range "+data+" as @r" && loop == nil {
				loop = n
			}
		}
		if loop != nil && len(loop.Kids) == 1 && loop.Kids[0].Kind == "store" && loop.Kids[0].Target == mask+"[@r]" {
			v := loop.Kids[0].Value
			m := k8Merged.FindStringSubmatch(v)
			if m != nil {
				var k, pred string
				for _, cand := range [][2]string{{m[1], m[2]}, {m[4], m[3]}} {
					if cand[0] != "" {
						k, pred = cand[0], cand[1]
					}
				}
				k = strings.TrimSuffix(strings.TrimPrefix(k, mask+"[@r] && "), " && "+mask+"[@r]")
				if d, ok := lets[k]; ok {
					k = d
				}
				switch k {
				case "!$r.maskIsSoft":
					if pred != want && ambig(pred) != ambig(want) {
						return fmt.Sprintf("merged form stores %s, want %s", pred, want), ""
					}
					return "", "merged: " + mask + "[@r] = (hard && " + mask + "[@r]) || " + want
				case "$r.maskIsSoft":
					return "merged form keeps the previous mask when the mask is SOFT and replaces it when it is hard: the polarity of the keep flag is inverted (soft replaces, hard adds)", ""
				}
			}
		}
		return "structural: no branch on maskIsSoft in this arm", ""
	}
	one := func(ns []*ir.Node, hard bool) string {
		if len(ns) != 1 || ns[0].Kind != "range" || ns[0].Head != "range "+data+" as @r" {
			return "structural: branch is not a single loop over the data"
		}
		body := ns[0].Kids
		// `if !mask[i] { mask[i] = P }` is `mask[i] = mask[i] || P`
		if hard && len(body) == 1 && body[0].Kind == "if" && len(body[0].Else) == 0 && len(body[0].Kids) == 1 && body[0].Kids[0].Kind == "store" &&
			(body[0].Head == "!"+mask+"[@r]") && body[0].Kids[0].Target == mask+"[@r]" {
			v := body[0].Kids[0].Value
			if v != want && ambig(v) != ambig(want) {
				return fmt.Sprintf("stores %s under !%s[@r], want %s", v, mask, want)
			}
			return ""
		}
		if len(body) != 1 || body[0].Kind != "store" {
			return "structural: loop body is not a single store"
		}
		st := body[0]
		if st.Target != mask+"[@r]" {
			return "store target is " + st.Target + ", want " + mask + "[@r]"
		}
		w := want
		if hard {
			w = "(" + mask + "[@r] || " + want + ")"
		}
		if st.Value != w && ambig(st.Value) != ambig(w) {
			return fmt.Sprintf("stores %s, want %s", st.Value, w)
		}
		return ""
	}
	if p := one(ifn.Kids, false); p != "" {
		return "soft branch: " + p, ""
	}
	if p := one(ifn.Else, true); p != "" {
		return "hard branch: " + p, ""
	}
	return "", "soft: " + mask + "[@r] = " + want + " ; hard: or-ed"
}

var _ = strings.TrimSpace
