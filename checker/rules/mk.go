package rules

import (
	"fmt"
	"go/token"
	"sort"
	"strings"

	"golang.org/x/tools/go/ssa"

	"tcheck/load"
)

// MK: mask ownership. A mask slice read out of one tensor (`Y.Mask()`, `Y.mask`) may be
// installed in another tensor (`X.SetMask(v)`, `X.mask = v`) only where the library documents
// the sharing: the two view constructors (a view's mask is a window of its parent's) and
// ShallowClone (a second header over the same storage). Anywhere else the destination must
// receive a copy - otherwise a later mask write on either tensor (ResetMask, MaskedEqual, a
// masked operation's result) changes the other one. The source counts only when it is an
// object the function received (parameter, receiver, captured variable): taking the mask out
// of a function-local temporary that is then released is a move, not an alias.
var mkShared = map[string]string{
	"tensor.(*Dense).ShallowClone": "second header over the same storage, mask included (documented)",
	"tensor.(*Dense).Slice":        "a view's mask is the window of its parent's mask (documented sharing of views)",
	"tensor.(*Dense).SliceInto":    "a view's mask is the window of its parent's mask (documented sharing of views)",
	"tensor.(*Dense).slice":        "a view's mask is the window of its parent's mask (documented sharing of views)",
}

func MK(rc *RC, floor int) {
	rc.S.Declare("MK", "mask ownership: a mask read out of a tensor the function received reaches another tensor's mask only as a copy (views and ShallowClone are the documented exceptions)", floor)
	p := rc.P
	p.SSA()
	var fns []*ssa.Function
	for _, fn := range p.ModuleFuncs() {
		if fn.Pkg == nil || fn.Pkg.Pkg.Path() != load.Module || fn.Blocks == nil {
			continue
		}
		fns = append(fns, fn)
	}
	sort.Slice(fns, func(i, j int) bool { return oFnKey(fns[i]) < oFnKey(fns[j]) })
	for _, fn := range fns {
		fkey := oFnKey(fn)
		if strings.HasSuffix(p.Fset.Position(fn.Pos()).Filename, "_test.go") {
			continue
		}
		n := 0
		for _, b := range fn.Blocks {
			for _, ins := range b.Instrs {
				var dst, val ssa.Value
				switch x := ins.(type) {
				case *ssa.Store:
					fa, ok := x.Addr.(*ssa.FieldAddr)
					if !ok {
						continue
					}
					if f, ok := fieldOfDense(fa); !ok || f != "mask" {
						continue
					}
					dst, val = fa.X, x.Val
				case ssa.CallInstruction:
					cc := x.Common()
					name := ""
					if cc.IsInvoke() {
						name = cc.Method.Name()
						dst = cc.Value
						if len(cc.Args) == 1 {
							val = cc.Args[0]
						}
					} else if c := cc.StaticCallee(); c != nil && c.Signature.Recv() != nil && len(cc.Args) == 2 {
						name = c.Name()
						dst, val = cc.Args[0], cc.Args[1]
					}
					if name != "SetMask" || val == nil {
						continue
					}
				default:
					continue
				}
				n++
				key := fmt.Sprintf("%s#mask%d", fkey, n)
				pos := p.Pos(ins.Pos())
				srcs := map[ssa.Value]bool{}
				mkOrigins(val, map[ssa.Value]bool{}, srcs)
				d := mkObject(dst)
				bad := ""
				for s := range srcs {
					so := mkObject(s)
					if so == d {
						continue
					}
					switch so.(type) {
					case *ssa.Parameter, *ssa.FreeVar:
						bad = fmt.Sprintf("the mask installed in %s is (a window of) the mask of %s, an object the function received", mkName(d), mkName(so))
					}
				}
				switch {
				case bad == "":
					rc.S.Ok("MK", key, pos, "fresh, the destination's own, a caller-supplied slice, or moved out of a local temporary")
				case mkShared[fkey] != "":
					rc.S.Ok("MK", key, pos, "documented sharing: "+mkShared[fkey])
				default:
					rc.S.Viol("MK", key, pos, bad+": the two tensors share mask storage, a later mask write on one changes the other").Sig = "mask alias"
				}
			}
		}
	}
}

func mkName(v ssa.Value) string {
	if v == nil {
		return "?"
	}
	if v.Name() != "" {
		return v.Name()
	}
	return v.String()
}

// mkObject strips interface conversions, assertions and loads of spilled locals to reach the
// value that denotes the tensor object.
func mkObject(v ssa.Value) ssa.Value {
	for i := 0; i < 20; i++ {
		switch x := v.(type) {
		case *ssa.TypeAssert:
			v = x.X
		case *ssa.ChangeInterface:
			v = x.X
		case *ssa.MakeInterface:
			v = x.X
		case *ssa.ChangeType:
			v = x.X
		case *ssa.Extract:
			if ta, ok := x.Tuple.(*ssa.TypeAssert); ok {
				v = ta.X
			} else {
				return v
			}
		case *ssa.UnOp:
			if x.Op != token.MUL {
				return v
			}
			al, ok := x.X.(*ssa.Alloc)
			if !ok {
				return v
			}
			var only ssa.Value
			cnt := 0
			for _, rf := range *al.Referrers() {
				if st, ok := rf.(*ssa.Store); ok && st.Addr == al {
					only = st.Val
					cnt++
				}
			}
			if cnt != 1 {
				return v
			}
			v = only
		case *ssa.Phi:
			// a phi of the same object through different conversions
			var first ssa.Value
			same := true
			for _, e := range x.Edges {
				o := mkObject(e)
				if first == nil {
					first = o
				} else if o != first {
					same = false
				}
			}
			if same && first != nil {
				return first
			}
			return v
		default:
			return v
		}
	}
	return v
}

// mkOrigins collects the tensors whose mask the value is (a window of).
func mkOrigins(v ssa.Value, seen map[ssa.Value]bool, out map[ssa.Value]bool) {
	if v == nil || seen[v] {
		return
	}
	seen[v] = true
	switch x := v.(type) {
	case *ssa.Slice:
		mkOrigins(x.X, seen, out)
	case *ssa.ChangeType:
		mkOrigins(x.X, seen, out)
	case *ssa.Phi:
		for _, e := range x.Edges {
			mkOrigins(e, seen, out)
		}
	case *ssa.UnOp:
		if x.Op != token.MUL {
			return
		}
		switch a := x.X.(type) {
		case *ssa.FieldAddr:
			if f, ok := fieldOfDense(a); ok && f == "mask" {
				out[a.X] = true
			}
		case *ssa.Alloc:
			for _, rf := range *a.Referrers() {
				if st, ok := rf.(*ssa.Store); ok && st.Addr == a {
					mkOrigins(st.Val, seen, out)
				}
			}
		}
	case *ssa.Call:
		cc := x.Common()
		if cc.IsInvoke() {
			if cc.Method.Name() == "Mask" && len(cc.Args) == 0 {
				out[cc.Value] = true
			}
		} else if c := cc.StaticCallee(); c != nil && c.Name() == "Mask" && c.Signature.Recv() != nil && len(cc.Args) == 1 {
			out[cc.Args[0]] = true
		}
	}
}
