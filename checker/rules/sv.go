package rules

import (
	"fmt"
	"regexp"
	"strings"

	"tcheck/ir"
)

// SV: stale metadata. A local computed from a tensor's current access pattern (X.AP.T(…),
// X.AP.S(…), X.Info(), X.Shape(), X.Strides() - not a Clone kept for a later restore) describes
// X as it is *now*. If, on some path, a call that rewrites X's access pattern (Transpose, UT,
// T, Reshape, reshape, setShape, SetShape, an assignment to X.AP) lies between the computation
// and a later use of the local, the local describes a tensor that no longer exists (finding
// 52: Dense.T installed a transform computed before Transpose() moved the data).
var (
	svDef = regexp.MustCompile(`^([%$]\w+)\.(AP\.T\(|AP\.S\(|Info\(\)|Shape\(\)$|Strides\(\)$|oshape\(\)$|ostrides\(\)$)`)
	svMut = regexp.MustCompile(`^(?:\$ret\d+ = |%\w+ = |\([^)]*\) = )?([%$]\w+)\.(Transpose\(\)|UT\(\)|T\(|Reshape\(|reshape\(|setShape\(|SetShape\(|setAP\()`)
)

func SV(rc *RC, floor int) {
	rc.S.Declare("SV", "stale metadata: a local computed from a tensor's access pattern is not used after a call that rewrites that access pattern (Transpose, UT, T, Reshape, setShape, X.AP = …) unless it was recomputed in between", floor)
	for _, fi := range rc.P.AnalysisFuncs() {
		if fi.Pkg != rc.P.Root || fi.Decl.Body == nil || strings.HasSuffix(fi.File, "_test.go") || strings.HasPrefix(fi.File, "sparse") || lcGenerated[fi.File] {
			continue
		}
		c := ir.NewCanon(rc.P.Fset, fi.Pkg.TypesInfo, ir.Options{ParamNames: true, KeepNames: true, NoSubst: true})
		tree := c.Func(fi.Decl)
		txt := ir.Render(tree)
		if !svMut.MatchString("") && !strings.Contains(txt, ".AP") && !strings.Contains(txt, "Shape()") && !strings.Contains(txt, "Info()") && !strings.Contains(txt, "Strides()") {
			continue
		}
		paths, ok := ir.EnumPaths(tree, 6000)
		if !ok {
			continue // very branchy functions (generated style): not instances
		}
		pos := rc.P.Pos(fi.Decl.Pos())
		type def struct{ x, at string }
		bad := map[string]string{}
		inst := map[string]bool{}
		for _, p := range paths {
			defs := map[string]def{}     // local -> tensor it describes
			stale := map[string]string{} // local -> mutation that invalidated it
			for _, st := range p.Steps {
				if st.Kind == "loop" || st.Kind == "range" || st.Kind == "switch" {
					continue
				}
				// uses first (a statement may both use and redefine)
				for l, why := range stale {
					uses := false
					switch st.Kind {
					case "let", "store":
						uses = ir.HasWord(st.Value, l) || (st.Target != l && ir.HasWord(st.Target, l))
					case "tuple":
						uses = ir.HasWord(st.Value, l)
					default:
						uses = ir.HasWord(st.Head, l)
					}
					if uses {
						k := fmt.Sprintf("%s#%s", fi.Key, l)
						bad[k] = fmt.Sprintf("%s (computed from %s at %s) is used at %s after %s", l, defs[l].x, defs[l].at, rc.P.Pos(st.Pos), why)
					}
				}
				// definitions
				var targets []string
				val := ""
				switch st.Kind {
				case "let", "store":
					targets, val = []string{st.Target}, st.Value
				case "tuple":
					targets, val = st.Targets, st.Value
				}
				for _, t := range targets {
					if ldIdent.FindString(t) == t {
						delete(stale, t)
						delete(defs, t)
					}
				}
				if m := svDef.FindStringSubmatch(val); m != nil && len(targets) > 0 && !strings.Contains(val, "Clone()") {
					t := targets[0]
					if ldIdent.FindString(t) == t && strings.HasPrefix(t, "%") {
						defs[t] = def{m[1], rc.P.Pos(st.Pos)}
						inst[fmt.Sprintf("%s#%s", fi.Key, t)] = true
					}
				}
				// mutations
				mx := ""
				if m := svMut.FindStringSubmatch(st.Head); m != nil && st.Kind != "defer" {
					mx = m[1]
				}
				if (st.Kind == "store" || st.Kind == "let") && strings.HasSuffix(st.Target, ".AP") {
					mx = strings.TrimSuffix(st.Target, ".AP")
				}
				if mx != "" {
					for l, d := range defs {
						if d.x == mx {
							stale[l] = fmt.Sprintf("%s rewrote the access pattern of %s at %s", strings.TrimSpace(firstWordsN(st.Head, 6)), mx, rc.P.Pos(st.Pos))
						}
					}
				}
			}
		}
		for k := range inst {
			if b, isBad := bad[k]; isBad {
				rc.S.Viol("SV", k, pos, b).Sig = "stale use"
			} else {
				rc.S.Ok("SV", k, pos, "not used after a rewrite of the tensor's access pattern")
			}
		}
	}
}

// T7: the inverse shortcut of Dense.T decides on permutations. A second lazy transpose may be
// answered by undoing the first only if the requested axes invert the pending ones. A test
// that never reads the saved permutation (transposeWith) cannot decide that - comparing the
// resulting shape with the original one accepts every permutation of a tensor with equal
// dimensions (finding 53). The flag guarding UT() must be cleared by a comparison that reads
// both the saved permutation and the requested axes.
func T7(rc *RC) {
	rc.S.Declare("T7", "inverse shortcut: the flag under which Dense.T answers a second lazy transpose by UT() is computed from the saved permutation (transposeWith) and the requested axes, not from shapes", 1)
	fi := anchor(rc, "T7", "tensor.(*Dense).T")
	if fi == nil {
		return
	}
	pos := rc.P.Pos(fi.Decl.Pos())
	c := ir.NewCanon(rc.P.Fset, fi.Pkg.TypesInfo, ir.Options{ParamNames: true, KeepNames: true, NoSubst: true})
	tree := c.Func(fi.Decl)
	// the flag: the variable F such that `if F { X.UT(); return }`
	flag := ""
	for _, n := range flatten(tree) {
		if n.Kind == "if" && ldIdent.FindString(n.Head) == n.Head && strings.Contains(ir.Render(n.Kids), ".UT()") {
			flag = n.Head
		}
	}
	if flag == "" {
		rc.S.Ok("T7", "tensor.(*Dense).T#inverse-test", pos, "no flag-guarded UT() shortcut").Trivial = true
		return
	}
	// every statement that clears the flag lies under conditions; collect them
	var conds []string
	var walk func(ns []*ir.Node, g []string)
	walk = func(ns []*ir.Node, g []string) {
		for _, n := range ns {
			if (n.Kind == "let" || n.Kind == "store") && n.Target == flag && n.Value == "false" {
				conds = append(conds, strings.Join(g, " && "))
			}
			switch n.Kind {
			case "if":
				walk(n.Kids, append(append([]string{}, g...), n.Head))
				walk(n.Else, append(append([]string{}, g...), "!"+n.Head))
			case "loop", "range", "switch", "case":
				walk(n.Kids, append(append([]string{}, g...), n.Head))
			}
		}
	}
	walk(tree, nil)
	if len(conds) == 0 {
		rc.S.Viol("T7", "tensor.(*Dense).T#inverse-test", pos, "the flag "+flag+" guarding the UT() shortcut is never cleared").Sig = "never cleared"
		return
	}
	var bad []string
	// p = saved permutation, q = requested axes: q undoes p iff p[q[i]] == i for all i (equivalently
	// q[p[i]] == i). The clearing comparison must be that composition against the loop index.
	comp := regexp.MustCompile(`\$r\.transposeWith\[\$axes\[(@r\d*|%\w+)\]\] != (@r\d*|%\w+)|(@r\d*|%\w+) != \$r\.transposeWith\[\$axes\[(@r\d*|%\w+)\]\]|\$axes\[\$r\.transposeWith\[(@r\d*|%\w+)\]\] != (@r\d*|%\w+)|(@r\d*|%\w+) != \$axes\[\$r\.transposeWith\[(@r\d*|%\w+)\]\]`)
	for _, c := range conds {
		if !strings.Contains(c, ".transposeWith") || !strings.Contains(c, "$axes") {
			bad = append(bad, "cleared under ["+c+"], which does not compare the saved permutation (transposeWith) with the requested axes")
			continue
		}
		m := comp.FindStringSubmatch(c)
		ok := false
		if m != nil {
			for i := 1; i+1 < len(m); i += 2 {
				if m[i] != "" && m[i] == m[i+1] {
					ok = true
				}
			}
		}
		if !ok {
			bad = append(bad, "cleared under ["+c+"]: the test is not the composition transposeWith[axes[i]] != i (or axes[transposeWith[i]] != i) - comparing the two permutations element by element recognises a repetition, not an inverse")
		}
	}
	if len(bad) > 0 {
		rc.S.Viol("T7", "tensor.(*Dense).T#inverse-test", pos, strings.Join(bad, "; ")).Sig = "shape-based inverse test"
	} else {
		rc.S.Ok("T7", "tensor.(*Dense).T#inverse-test", pos, "inverse test reads transposeWith and axes: "+strings.Join(conds, " | "))
	}
}

// T8: the copying transpose lays elements out in the tensor's data order. Dense.Transpose
// installs strides chosen by the data order (rule T4); the kernels gather the elements with a
// flat iterator and write them sequentially, so the iterator must run first-axis-first for a
// column-major tensor: every kernel of the family (and the mask mover) takes its iterator from
// a constructor that sets outerFirst from the tensor's data order, or sets it itself.
func T8(rc *RC) {
	rc.S.Declare("T8", "transpose layout order: every copying transpose kernel (and the mask mover) walks the lazily transposed tensor with an iterator whose outerFirst flag is set from the tensor's data order", 0)
	if rc.P.Func("tensor.(StdEng).denseTransposeArbitrary") == nil {
		return
	}
	orderAware := func(key string) (bool, string) {
		fi := rc.P.Func(key)
		if fi == nil {
			return false, "no such function"
		}
		c := ir.NewCanon(rc.P.Fset, fi.Pkg.TypesInfo, ir.Options{ParamNames: true, KeepNames: true, NoSubst: true})
		txt := ir.Render(c.Func(fi.Decl))
		if regexp.MustCompile(`\.outerFirst = [%$]\w+\.DataOrder\(\)\.IsColMajor\(\)`).MatchString(txt) || regexp.MustCompile(`\.outerFirst = ![%$]\w+\.DataOrder\(\)\.IsRowMajor\(\)`).MatchString(txt) {
			return true, ""
		}
		return false, "does not set outerFirst from the data order"
	}
	n := 0
	for _, fi := range rc.P.SortedFuncs() {
		if fi.Pkg != rc.P.Root || fi.Decl.Body == nil || fi.Decl.Recv == nil {
			continue
		}
		name := fi.Obj.Name()
		if !(strings.HasPrefix(name, "denseTranspose") && name != "denseTranspose") && name != "transposeMask" {
			continue
		}
		c := ir.NewCanon(rc.P.Fset, fi.Pkg.TypesInfo, ir.Options{ParamNames: true, KeepNames: true, NoSubst: true})
		tree := c.Func(fi.Decl)
		txt := ir.Render(tree)
		if !strings.Contains(txt, ".Next()") {
			continue // the in-place build follows cycles, it does not gather with an iterator
		}
		n++
		pos := rc.P.Pos(fi.Decl.Pos())
		if ok, _ := orderAware(fi.Key); ok {
			rc.S.Ok("T8", fi.Key, pos, "sets outerFirst from the data order")
			continue
		}
		// iterator constructor used
		m := regexp.MustCompile(`%\w+ = (\w+)\(\$a(?:\.Info\(\))?\)`).FindAllStringSubmatch(txt, -1)
		good := false
		why := "no iterator constructor found"
		for _, x := range m {
			if x[1] == "newFlatIterator" || x[1] == "FlatIteratorFromDense" || x[1] == "IteratorFromDense" {
				why = "the iterator comes from " + x[1] + ", which always runs last-axis-first (row-major order)"
				continue
			}
			if ok, w := orderAware("tensor." + x[1]); ok {
				good = true
			} else {
				why = "iterator constructor " + x[1] + " " + w
			}
		}
		if good {
			rc.S.Ok("T8", fi.Key, pos, "iterator from an order-aware constructor")
		} else {
			rc.S.Viol("T8", fi.Key, pos, "elements are gathered and written sequentially but "+why+": a column-major tensor is laid out in row-major order under column-major strides").Sig = "order-blind iterator"
		}
	}
	rc.S.Count("T8.kernels", n)
}

// T9: the transpose dispatcher always dispatches. (StdEng).denseTranspose selects the data
// kernel by element width; a path that returns without calling one of the kernels leaves the
// data where it was while Dense.Transpose installs the new strides.
func T9(rc *RC) {
	rc.S.Declare("T9", "transpose dispatch completeness: every path of (StdEng).denseTranspose calls exactly one data kernel (denseTranspose1/2/4/8/Arbitrary/String)", 1)
	fi := anchor(rc, "T9", "tensor.(StdEng).denseTranspose")
	if fi == nil {
		return
	}
	pos := rc.P.Pos(fi.Decl.Pos())
	_, tree := sCanon(rc, fi)
	paths, ok := ir.EnumPaths(tree, 2000)
	if !ok {
		rc.S.Undec("T9", fi.Key, pos, "too many paths")
		return
	}
	kern := regexp.MustCompile(`\.denseTranspose(1|2|4|8|Arbitrary|String)\(`)
	var bad []string
	for _, p := range paths {
		n := 0
		for _, st := range p.Steps {
			n += len(kern.FindAllString(st.Head, -1))
		}
		if n != 1 && p.Exit != "panic" {
			bad = append(bad, fmt.Sprintf("the path [%s] calls %d data kernels", strings.Join(p.Guards, " && "), n))
		}
	}
	if len(bad) > 0 {
		rc.S.Viol("T9", fi.Key, pos, strings.Join(uniq(bad), "; ")).Sig = fmt.Sprintf("%d path(s) without exactly one kernel", len(uniq(bad)))
	} else {
		rc.S.Ok("T9", fi.Key, pos, fmt.Sprintf("%d paths, one kernel each", len(paths)))
	}
	// the engine method in front of the dispatcher: every successful return has gone through it
	// (a "nothing to move" shortcut keyed on the strides returns while Dense.Transpose installs
	// the new strides over data that stayed where it was)
	if fe := anchor(rc, "T9", "tensor.(StdEng).Transpose"); fe != nil {
		pos := rc.P.Pos(fe.Decl.Pos())
		_, tree := sCanon(rc, fe)
		paths, ok := ir.EnumPaths(tree, 2000)
		if !ok {
			rc.S.Undec("T9", fe.Key, pos, "too many paths")
			return
		}
		var bad []string
		succ := 0
		for _, p := range paths {
			if p.Exit != "return" || strings.Contains(p.Ret, "errors.") || strings.Contains(p.Ret, "err") {
				continue
			}
			succ++
			n := 0
			for _, st := range p.Steps {
				n += strings.Count(st.Head, ".denseTranspose(")
			}
			if n != 1 {
				bad = append(bad, fmt.Sprintf("the successful path [%s] calls the dispatcher %d times", strings.Join(p.Guards, " && "), n))
			}
		}
		if len(bad) > 0 {
			rc.S.Viol("T9", fe.Key, pos, strings.Join(uniq(bad), "; ")).Sig = fmt.Sprintf("%d successful path(s) without the dispatcher", len(uniq(bad)))
		} else {
			rc.S.Ok("T9", fe.Key, pos, fmt.Sprintf("%d successful paths, each through denseTranspose", succ))
		}
	}
}

// T10: materialisation ends the lazy state on every successful exit. Once Dense.Transpose has
// established that a transpose is pending, every exit that does not return an error must have
// the cleanup (old zeroed, transposeWith cleared - usually deferred) on its path: a vector needs
// no data movement but is no longer lazily transposed either.
func T10(rc *RC) {
	rc.S.Declare("T10", "materialisation ends the lazy state: every non-error exit of Dense.Transpose taken with a pending transpose has cleared old and transposeWith (deferred or explicit) on its path", 1)
	fi := anchor(rc, "T10", "tensor.(*Dense).Transpose")
	if fi == nil {
		return
	}
	pos := rc.P.Pos(fi.Decl.Pos())
	_, tree := sCanon(rc, fi)
	paths, ok := ir.EnumPaths(tree, 5000)
	if !ok {
		rc.S.Undec("T10", fi.Key, pos, "too many paths")
		return
	}
	pending := ir.BNot(ir.BAtom("$r.old.IsZero()"))
	scalar := ir.BAtom("$r.IsScalar()")
	var bad []string
	n := 0
	for _, p := range paths {
		f := pathG(p)
		if !ir.Implies(f, pending) || ir.Implies(f, scalar) {
			continue
		}
		if p.Exit == "panic" || strings.HasPrefix(strings.TrimSpace(p.Ret), "errors.") {
			continue // refusal: the tensor stays lazily transposed, consistently
		}
		n++
		cleared := false
		for _, st := range p.Steps {
			if strings.Contains(st.Head, "$r.old.zero()") || strings.Contains(st.Head, "$r.old.zeroOnly()") || strings.Contains(st.Head, "$r.UT()") {
				if strings.Contains(st.Head, "$r.transposeWith = nil") || strings.Contains(st.Head, "$r.UT()") {
					cleared = true
				}
			}
		}
		if !cleared {
			bad = append(bad, fmt.Sprintf("exit [%s] returns %q with the transpose still recorded as pending", strings.Join(p.Guards, " && "), p.Ret))
		}
	}
	if n == 0 {
		rc.S.Undec("T10", fi.Key, pos, "no successful exit with a pending transpose found")
		return
	}
	if len(bad) > 0 {
		rc.S.Viol("T10", fi.Key, pos, strings.Join(uniq(bad), "; ")).Sig = fmt.Sprintf("%d exit(s) without cleanup", len(uniq(bad)))
	} else {
		rc.S.Ok("T10", fi.Key, pos, fmt.Sprintf("%d successful exits, all after the cleanup was registered", n))
	}
}

// T11: tiny-tensor guard of the in-place transpose kernels. The cycle-following kernels start
// at element 1 with elements 0 and size-1 pre-marked; with fewer than four elements there is
// nothing to move and the loop would overwrite an element with the zero "saved" value. Every
// kernel therefore returns early when the tensor has fewer than 4 *elements*: `len(data) < 4` on a
// typed slice, `len(data) < 4*typeSize` on the raw byte slice (units: bytes vs elements).
func T11(rc *RC) {
	rc.S.Declare("T11", "in-place transpose kernels: each cycle-following kernel returns before its loop when the tensor has fewer than 4 elements - compared in elements for typed slices and in bytes (4*typeSize) for the raw byte slice", 0)
	n := 0
	for _, fi := range rc.P.SortedFuncs() {
		if fi.Pkg != rc.P.Root || fi.Decl.Body == nil || fi.Decl.Recv == nil || !strings.HasPrefix(fi.Obj.Name(), "denseTranspose") || fi.Obj.Name() == "denseTranspose" {
			continue
		}
		c := ir.NewCanon(rc.P.Fset, fi.Pkg.TypesInfo, ir.Options{ParamNames: true, KeepNames: true, NoSubst: true})
		tree := c.Func(fi.Decl)
		txt := ir.Render(tree)
		if !strings.Contains(txt, "NewBitMap(") {
			continue // copying build: no cycle following
		}
		n++
		pos := rc.P.Pos(fi.Decl.Pos())
		// the data variable and whether it is the raw byte slice
		var dataVar string
		raw := false
		for _, nd := range flatten(tree) {
			if (nd.Kind == "let" || nd.Kind == "store") && ldIdent.FindString(nd.Target) == nd.Target {
				if strings.HasSuffix(nd.Value, ".Raw") || strings.Contains(nd.Value, ".Raw[") {
					dataVar, raw = nd.Target, true
				} else if regexp.MustCompile(`\.hdr\(\)\.\w+s\(\)$|\.Strings\(\)$`).MatchString(nd.Value) {
					dataVar = nd.Target
				}
			}
		}
		if dataVar == "" {
			rc.S.Undec("T11", fi.Key, pos, "data slice not identified")
			continue
		}
		want := []string{"(4 > len(" + dataVar + "))"}
		if raw {
			want = nil
			for _, nd := range flatten(tree) {
				if (nd.Kind == "let" || nd.Kind == "store") && strings.Contains(nd.Value, ".Size()") {
					want = append(want, "((4 * "+nd.Target+") > len("+dataVar+"))", "(("+nd.Target+" * 4) > len("+dataVar+"))")
				}
			}
		}
		found := ""
		for _, nd := range tree {
			if nd.Kind == "if" && strings.Contains(nd.Head, "len("+dataVar+")") && strings.HasPrefix(strings.TrimSpace(ir.Render(nd.Kids)), "return") {
				found = nd.Head
			}
			if nd.Kind == "loop" {
				break
			}
		}
		ok := false
		for _, w := range want {
			if found == w {
				ok = true
			}
		}
		switch {
		case found == "":
			rc.S.Viol("T11", fi.Key, pos, "no early return for tensors with fewer than 4 elements before the cycle loop").Sig = "no guard"
		case !ok:
			rc.S.Viol("T11", fi.Key, pos, fmt.Sprintf("the tiny-tensor guard is %s, want %s (4 elements, in the unit of the slice)", found, strings.Join(want, " or "))).Sig = "guard " + found
		default:
			rc.S.Ok("T11", fi.Key, pos, found)
		}
	}
	rc.S.Count("T11.kernels", n)
}
