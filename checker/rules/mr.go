package rules

import (
	"fmt"
	"go/ast"
	"go/constant"
	"go/token"
	"go/types"
	"strings"
)

// MR: the constructor of the masked multi-iterator hands out a rewound iterator with a mask
// whenever any operand is masked (finding 94, fixed in /repo 62f1252). MultIteratorFromDense
// builds the combined mask by walking the new iterator; two structural necessary conditions:
// (a) a loop that advances the iterator under construction (Start/Next of the local iterator in
// its init/post) is followed, before the function returns, by a call of Reset on that iterator
// at the same or an enclosing block level - otherwise the caller receives an exhausted iterator;
// (b) no enclosing condition of that loop compares a count with a constant greater than zero
// (`numMasked > 1`): one masked operand is enough for positions to be invalid.
func MR(rc *RC) {
	rc.S.Declare("MR", "multi-iterator constructor: the loop that walks the new iterator to build the combined mask is followed by Reset() of that iterator, and is not gated on more than one operand being masked", 1)
	key := "tensor.MultIteratorFromDense"
	fi := anchor(rc, "MR", key)
	if fi == nil {
		return
	}
	pos := rc.P.Pos(fi.Decl.Pos())
	info := fi.Pkg.TypesInfo
	// walking loops: for i, err := it.Start(); ...; i, err = it.Next()
	walkerOf := func(s ast.Stmt) types.Object {
		as, ok := s.(*ast.AssignStmt)
		if !ok || len(as.Rhs) != 1 {
			return nil
		}
		call, ok := as.Rhs[0].(*ast.CallExpr)
		if !ok {
			return nil
		}
		sel, ok := call.Fun.(*ast.SelectorExpr)
		if !ok || !(sel.Sel.Name == "Start" || strings.HasPrefix(sel.Sel.Name, "Next")) {
			return nil
		}
		if id, ok := sel.X.(*ast.Ident); ok {
			if o := info.Uses[id]; o != nil {
				if p, ok := o.Type().(*types.Pointer); ok {
					if n, ok := p.Elem().(*types.Named); ok && n.Obj().Name() == "MultIterator" {
						return o
					}
				}
			}
		}
		return nil
	}
	n := 0
	var bad []string
	var visit func(stmts []ast.Stmt, conds []ast.Expr, resetAfter map[types.Object]bool)
	resetsIn := func(stmts []ast.Stmt) map[types.Object]bool {
		m := map[types.Object]bool{}
		for _, s := range stmts {
			if es, ok := s.(*ast.ExprStmt); ok {
				if call, ok := es.X.(*ast.CallExpr); ok {
					if sel, ok := call.Fun.(*ast.SelectorExpr); ok && sel.Sel.Name == "Reset" {
						if id, ok := sel.X.(*ast.Ident); ok {
							m[info.Uses[id]] = true
						}
					}
				}
			}
		}
		return m
	}
	visit = func(stmts []ast.Stmt, conds []ast.Expr, outer map[types.Object]bool) {
		for i, s := range stmts {
			after := resetsIn(stmts[i+1:])
			for o := range outer {
				after[o] = true
			}
			switch x := s.(type) {
			case *ast.ForStmt:
				var w types.Object
				if x.Init != nil {
					w = walkerOf(x.Init)
				}
				if w == nil && x.Post != nil {
					w = walkerOf(x.Post)
				}
				if w != nil {
					n++
					if !after[w] {
						bad = append(bad, fmt.Sprintf("the loop at %s walks the iterator under construction and no Reset() follows it: the constructor returns an exhausted iterator", rc.P.Pos(x.Pos())))
					}
					for _, c := range conds {
						ast.Inspect(c, func(m ast.Node) bool {
							be, ok := m.(*ast.BinaryExpr)
							if !ok || (be.Op != token.GTR && be.Op != token.GEQ) {
								return true
							}
							if tv, ok := info.Types[be.Y]; ok && tv.Value != nil && tv.Value.Kind() == constant.Int {
								v, _ := constant.Int64Val(tv.Value)
								if (be.Op == token.GTR && v >= 1) || (be.Op == token.GEQ && v >= 2) {
									bad = append(bad, fmt.Sprintf("the mask is built only under %s (at %s): with exactly one masked operand no mask is installed and every position is reported valid", types.ExprString(be), rc.P.Pos(be.Pos())))
								}
							}
							return true
						})
					}
				}
				visit(x.Body.List, conds, after)
			case *ast.IfStmt:
				visit(x.Body.List, append(append([]ast.Expr(nil), conds...), x.Cond), after)
				if eb, ok := x.Else.(*ast.BlockStmt); ok {
					visit(eb.List, conds, after)
				}
			case *ast.BlockStmt:
				visit(x.List, conds, after)
			case *ast.RangeStmt:
				visit(x.Body.List, conds, after)
			}
		}
	}
	visit(fi.Decl.Body.List, nil, map[types.Object]bool{})
	switch {
	case len(bad) > 0:
		rc.S.Viol("MR", key, pos, strings.Join(uniq(bad), "; ")).Sig = "mask construction"
	case n == 0:
		rc.S.Ok("MR", key, pos, "the constructor does not walk the iterator it builds (another form): not judged")
	default:
		rc.S.Ok("MR", key, pos, fmt.Sprintf("%d walking loop(s), each followed by Reset() and not gated on a count above one", n))
	}
}
