package rules

import (
	"fmt"
	"go/token"
	"go/types"
	"strings"

	"tcheck/ir"
	"tcheck/spec"
)

// K2: kernel term conformance. The level-B summary (guarded updates of the single loop) of
// every arithmetic / min-max / comparison / unary / map kernel is compared with the summary
// generated from the operator table and the variant contract (spec), using the kernel's own
// signature to assign parameter roles. K7 (index pairing, validity conjunction) is part of
// the same comparison: the expected summary indexes every slice through its own iterator
// and guards the body by all validity flags.

type role struct {
	pos  int
	kind string // S slice of elem, s scalar elem, I iterator, B []bool, F func, o other
}

func rolesOf(fn *types.Func, elem types.Type) []role {
	sig := fn.Type().(*types.Signature)
	var out []role
	for i := 0; i < sig.Params().Len(); i++ {
		t := sig.Params().At(i).Type()
		k := "o"
		switch x := t.(type) {
		case *types.Slice:
			if types.Identical(x.Elem(), elem) {
				k = "S"
			} else if b, ok := x.Elem().(*types.Basic); ok && b.Kind() == types.Bool {
				k = "B"
			}
		case *types.Signature:
			k = "F"
		case *types.Named:
			if x.Obj().Name() == "Iterator" {
				k = "I"
			}
		default:
			if types.Identical(t, elem) {
				k = "s"
			}
		}
		// a []bool kernel: its data slices are S (elem == bool)
		out = append(out, role{i, k})
	}
	return out
}

type k2ctxUnused struct {
	elem types.Type
	cls  string
}

func bin(op token.Token, l, r string, stringish bool) string {
	return ir.Bin(op, l, r, stringish)
}

// expectation for one kernel; ok=false when the family is outside the table.
func expectKernel(m *Member, v spec.Variant) (*ir.Kernel, bool) {
	roles := rolesOf(m.FI.Obj, m.Elem)
	cls := m.Class
	isStr := cls == "string"
	var slices, scalars, iters, bools []int
	var fnPos = -1
	var operands []role // elem-typed params in order
	for _, r := range roles {
		switch r.kind {
		case "S":
			slices = append(slices, r.pos)
			operands = append(operands, r)
		case "s":
			scalars = append(scalars, r.pos)
			operands = append(operands, r)
		case "I":
			iters = append(iters, r.pos)
		case "B":
			bools = append(bools, r.pos)
		case "F":
			fnPos = r.pos
		}
	}
	// slice-like params in declaration order pair with iterators in order
	var sliceLike []int
	for _, r := range roles {
		if r.kind == "S" || r.kind == "B" {
			sliceLike = append(sliceLike, r.pos)
		}
	}
	idxOf := func(pos int) string {
		if !v.Iter {
			return "@r"
		}
		for k, p := range sliceLike {
			if p == pos && k < len(iters) {
				return fmt.Sprintf("@$%d", iters[k])
			}
		}
		return "@?"
	}
	at := func(r role) string {
		if r.kind == "s" {
			return fmt.Sprintf("$%d", r.pos)
		}
		return fmt.Sprintf("$%d[%s]", r.pos, idxOf(r.pos))
	}
	k := &ir.Kernel{Loop: "none"}
	setLoop := func(dst int) {
		if v.Iter {
			k.Loop = "iter"
			for _, p := range iters {
				k.Iters = append(k.Iters, fmt.Sprintf("$%d", p))
				k.Valid = append(k.Valid, fmt.Sprintf("$%d", p))
			}
		} else {
			k.Loop = fmt.Sprintf("range $%d as @r", dst)
		}
	}
	up := func(guard []string, target, value, exit string) {
		k.Updates = append(k.Updates, ir.Update{Guard: guard, Kind: "store", Target: target, Value: value, Exit: exit})
	}

	switch v.Group {
	case "arith", "minmax", "cmp":
		if v.Scalar && v.Group != "cmp" {
			// scalar helper  Op(a, b T) T
			if len(operands) != 2 || operands[0].kind != "s" || operands[1].kind != "s" {
				return nil, false
			}
			x, y := "$0", "$1"
			switch v.Group {
			case "arith":
				val, ok := arithTerm(v.Op, cls, x, y, isStr)
				if !ok {
					return nil, false
				}
				k.Updates = append(k.Updates, ir.Update{Kind: "ret", Value: val, Exit: "return"})
			case "minmax":
				c := bin(token.GTR, y, x, isStr) // a < b  ==  b > a
				if v.Op == "Max" {
					c = bin(token.GTR, x, y, isStr)
				}
				k.Updates = append(k.Updates, ir.Update{Guard: []string{c}, Kind: "ret", Value: x, Exit: "return"},
					ir.Update{Guard: []string{ir.Negate(c)}, Kind: "ret", Value: y, Exit: "return"})
			}
			return k, true
		}
		if len(operands) < 2 {
			return nil, false
		}
		X, Y := operands[0], operands[1]
		// consistency of the variant name with the signature
		wantKinds := "SS"
		if v.VS {
			wantKinds = "Ss"
		} else if v.SV {
			wantKinds = "sS"
		}
		if X.kind+Y.kind != wantKinds {
			return nil, false
		}
		x, y := at(X), at(Y)
		// destination
		var dst role
		switch {
		case v.Incr || v.Recv:
			if len(operands) < 3 || operands[2].kind != "S" {
				return nil, false
			}
			dst = operands[2]
		case v.Group == "cmp" && !v.Same:
			if cls == "bool" {
				// []bool kernels: retVal is the third slice of the same type
				if len(operands) < 3 {
					return nil, false
				}
				dst = operands[2]
			} else {
				if len(bools) != 1 {
					return nil, false
				}
				dst = role{bools[0], "B"}
			}
		case X.kind == "S":
			dst = X
		default:
			dst = Y
		}
		d := fmt.Sprintf("$%d[%s]", dst.pos, idxOf(dst.pos))
		setLoop(dst.pos)
		switch v.Group {
		case "arith":
			val, ok := arithTerm(v.Op, cls, x, y, isStr)
			if !ok {
				return nil, false
			}
			if cls == "float" && !v.Iter && !v.VS && !v.SV && !v.Recv && (v.Vec || v.Incr) {
				// K6: float vector forms delegate to vecf32/vecf64
				k.Loop = "none"
				if v.Incr {
					k.Updates = []ir.Update{{Kind: "call", Value: fmt.Sprintf("V.Incr%s($%d, $%d, $%d)", v.Op, X.pos, Y.pos, dst.pos)}}
				} else {
					k.Updates = []ir.Update{{Kind: "call", Value: fmt.Sprintf("V.%s($%d, $%d)", v.Op, X.pos, Y.pos)}}
				}
				return k, true
			}
			full := val
			if v.Incr {
				full = bin(token.ADD, d, val, isStr)
			}
			if cls == "int" && v.Op == "Div" {
				z := bin(token.EQL, y, "0", false)
				// the index recorded is that of the first slice operand
				eidx := idxOf(Y.pos)
				if X.kind == "S" {
					eidx = idxOf(X.pos)
				}
				k.Updates = append(k.Updates,
					ir.Update{Guard: []string{z}, Kind: "let", Target: "ERRS", Value: "append(ERRS, " + eidx + ")", Exit: "continue"},
					ir.Update{Guard: []string{z}, Kind: "store", Target: d, Value: "0", Exit: "continue"},
					ir.Update{Guard: []string{ir.Negate(z)}, Kind: "store", Target: d, Value: full})
				k.Post = []string{"if ($ret0 != nil)", "  return ", "if (len(ERRS) > 0)", "  return ERRS", "return nil"}
				if v.Iter {
					for range iters {
						k.ErrProto = append(k.ErrProto, "if (ERR != nil) {ERR = handleNoOp(ERR); break}")
					}
				}
				return k, true
			}
			up(nil, d, full, "")
		case "minmax":
			other := y
			if dst.pos == Y.pos {
				other = x
			}
			c := bin(token.GTR, d, other, isStr) // Min: dst > other → dst = other
			if v.Op == "Max" {
				c = bin(token.GTR, other, d, isStr)
			}
			up([]string{c}, d, other, "")
		case "cmp":
			c, ok := cmpTerm(v.Op, x, y, isStr)
			if !ok {
				return nil, false
			}
			if !v.Same {
				up(nil, d, c, "")
			} else {
				one, zero := "1", "0"
				switch cls {
				case "string":
					one, zero = `"true"`, `"false"`
				case "bool":
					one, zero = "true", "false"
				}
				up([]string{c}, d, one, "")
				up([]string{ir.Negate(c)}, d, zero, "")
			}
		}
		if v.Iter {
			for range iters {
				k.ErrProto = append(k.ErrProto, "if (ERR != nil) {ERR = handleNoOp(ERR); break}")
			}
			k.Post = []string{"return "}
		}
		return k, true

	case "unary":
		if len(slices) != 1 {
			return nil, false
		}
		A := role{slices[0], "S"}
		x := at(A)
		setLoop(A.pos)
		switch v.Op {
		case "Neg":
			up(nil, x, "-"+x, "")
		case "Inv":
			up(nil, x, bin(token.QUO, "1", x, false), "")
		case "Square":
			up(nil, x, bin(token.MUL, x, x, false), "")
		case "Cube":
			up(nil, x, bin(token.MUL, bin(token.MUL, x, x, false), x, false), "")
		case "Abs":
			if cls == "float" {
				up(nil, x, "M.Abs("+x+")", "")
			} else {
				up([]string{bin(token.GTR, "0", x, false)}, x, "-"+x, "")
			}
		case "Sign":
			neg := bin(token.GTR, "0", x, false)
			up([]string{neg}, x, "-1", "")
			up([]string{ir.Negate(neg), bin(token.GTR, x, "0", false)}, x, "1", "")
		case "Clamp":
			if len(scalars) != 2 {
				return nil, false
			}
			lo, hi := fmt.Sprintf("$%d", scalars[0]), fmt.Sprintf("$%d", scalars[1])
			below := bin(token.GTR, lo, x, false)
			above := bin(token.GTR, x, hi, false)
			if cls == "float" {
				below = "(" + below + " || M.IsInf(" + x + ", -1))"
				above = "(" + above + " || M.IsInf(" + x + ", 1))"
			}
			up([]string{below}, x, lo, "continue")
			up([]string{ir.Negate(below), above}, x, hi, "")
		case "InvSqrt":
			up(nil, x, bin(token.QUO, "τ(1)", "M.Sqrt("+x+")", false), "")
		case "Sqrt", "Cbrt", "Exp", "Log", "Log2", "Log10", "Tanh":
			pk := "M"
			if cls == "complex" {
				pk = "C"
			}
			up(nil, x, pk+"."+v.Op+"("+x+")", "")
		default:
			return nil, false
		}
		if v.Iter {
			k.ErrProto = append(k.ErrProto, "if (ERR != nil) {ERR = handleNoOp(ERR); break}")
			k.Post = []string{"return "}
		}
		return k, true

	case "map":
		if len(slices) != 1 || fnPos < 0 {
			return nil, false
		}
		A := role{slices[0], "S"}
		x := at(A)
		f := fmt.Sprintf("$%d", fnPos)
		setLoop(A.pos)
		if !v.Err {
			val := f + "(" + x + ")"
			if v.Incr {
				val = bin(token.ADD, x, val, isStr)
			}
			up(nil, x, val, "")
		} else if !v.Incr {
			k.Updates = append(k.Updates,
				ir.Update{Kind: "tuple", Target: x + ",$ret0", Value: "(" + x + ", $ret0) = " + f + "(" + x + ")"},
				ir.Update{Guard: []string{"(handleNoOp($ret0) != nil)"}, Kind: "ret", Value: "", Exit: "return"})
		} else {
			// x, err = fn(a[i]); on a non-noop error return; a[i] += x
			k.Updates = append(k.Updates,
				ir.Update{Kind: "tuple", Target: "TMP,$ret0", Value: "(TMP, $ret0) = " + f + "(" + x + ")"},
				ir.Update{Guard: []string{"($ret0 != nil)"}, Kind: "let", Target: "$ret0", Value: "handleNoOp($ret0)"},
				ir.Update{Guard: []string{"($ret0 != nil)", "($ret0 != nil)"}, Kind: "ret", Value: "", Exit: "return"},
				ir.Update{Guard: []string{"($ret0 != nil)"}, Kind: "store", Target: x, Value: bin(token.ADD, x, "TMP", isStr)},
				ir.Update{Guard: []string{"!($ret0 != nil)"}, Kind: "store", Target: x, Value: bin(token.ADD, x, "TMP", isStr)})
		}
		if v.Iter {
			k.ErrProto = append(k.ErrProto, "if (ERR != nil) {ERR = handleNoOp(ERR); break}")
		}
		k.Post = []string{"return "}
		return k, true
	}
	return nil, false
}

func arithTerm(op, cls, x, y string, isStr bool) (string, bool) {
	switch op {
	case "Add":
		return bin(token.ADD, x, y, isStr), true
	case "Sub":
		return bin(token.SUB, x, y, isStr), true
	case "Mul":
		return bin(token.MUL, x, y, isStr), true
	case "Div":
		return bin(token.QUO, x, y, isStr), true
	case "Mod":
		if cls == "float" {
			return "M.Mod(" + x + ", " + y + ")", true
		}
		return bin(token.REM, x, y, isStr), true
	case "Pow":
		if cls == "float" {
			return "M.Pow(" + x + ", " + y + ")", true
		}
		if cls == "complex" {
			return "C.Pow(" + x + ", " + y + ")", true
		}
	}
	return "", false
}

func cmpTerm(op, x, y string, isStr bool) (string, bool) {
	switch op {
	case "Gt":
		return bin(token.GTR, x, y, isStr), true
	case "Gte":
		return bin(token.GEQ, x, y, isStr), true
	case "Lt":
		return bin(token.LSS, x, y, isStr), true
	case "Lte":
		return bin(token.LEQ, x, y, isStr), true
	case "Eq":
		return bin(token.EQL, x, y, isStr), true
	case "Ne":
		return bin(token.NEQ, x, y, isStr), true
	}
	return "", false
}

// normaliseLocals renames the error-index accumulator and temporaries of an extracted
// kernel to the spec's placeholder names, by role (not by name): a local that is only ever
// `x = append(x, …)`-assigned is ERRS; the first tuple target that is a local is TMP.
func normaliseLocals(k *ir.Kernel) *ir.Kernel {
	out := *k
	ren := map[string]string{}
	for _, u := range k.Updates {
		if u.Kind == "let" && strings.HasPrefix(u.Target, "%") && strings.HasPrefix(u.Value, "append("+u.Target+", ") {
			ren[u.Target] = "ERRS"
		}
		if u.Kind == "tuple" {
			for _, t := range strings.Split(u.Target, ",") {
				if strings.HasPrefix(t, "%") {
					if _, ok := ren[t]; !ok {
						ren[t] = "TMP"
					}
				}
			}
		}
	}
	if len(ren) == 0 {
		return k
	}
	rw := func(s string) string {
		for o, n := range ren {
			s = ir.ReplaceWord(s, o, n)
		}
		return s
	}
	out.Updates = nil
	for _, u := range k.Updates {
		g := make([]string, len(u.Guard))
		for i := range u.Guard {
			g[i] = rw(u.Guard[i])
		}
		out.Updates = append(out.Updates, ir.Update{Guard: g, Kind: u.Kind, Target: rw(u.Target), Value: rw(u.Value), Exit: u.Exit})
	}
	out.Post = nil
	for _, p := range k.Post {
		out.Post = append(out.Post, rw(p))
	}
	return &out
}

// K2 runs the conformance check for the families selected by filter.
func K2(rc *RC, fams map[string][]*Member, filter FamilyFilter, floor int) {
	rc.S.Declare("K2", "kernel term conformance: guarded updates of each kernel equal the operator table's term for its operation, variant (destination, index pairing, validity guard) and type class", floor)
	for _, fam := range sortedFamilies(fams) {
		if !strings.HasPrefix(fam, "internal/execution.") {
			continue
		}
		if filter != nil && !filter(fam) {
			continue
		}
		v, ok := spec.ParseFamily(strings.TrimPrefix(fam, "internal/execution."))
		if !ok {
			continue
		}
		if v.Group == "reduce" {
			continue // K9
		}
		for _, m := range fams[fam] {
			m.Canonicalise(rc.P)
			key := fam + "/" + m.Class + ":" + m.FI.Obj.Name()
			pos := rc.P.Pos(m.FI.Decl.Pos())
			want, ok := expectKernel(m, v)
			if !ok {
				rc.S.Undec("K2", key, pos, "no operator-table entry for this operation/variant/signature")
				continue
			}
			if m.Kern == nil {
				m.Kern = ir.SummariseKernel(m.Tree)
			}
			got := normaliseLocals(m.Kern)
			if len(got.Notes) > 0 {
				rc.S.Undec("K2", key, pos, "kernel loop is not one of the recognised idioms: "+strings.Join(got.Notes, "; "))
				continue
			}
			// a trailing `continue` on a guarded update says nothing the guards of the later
			// updates do not say already (they carry the negation of the earlier guards)
			gk, wk := strings.ReplaceAll(got.Key(), " ; continue", ""), strings.ReplaceAll(want.Key(), " ; continue", "")
			if gk == wk || ambig(gk) == ambig(wk) {
				rc.S.Ok("K2", key, pos, strings.TrimSpace(strings.ReplaceAll(gk, "\n", " | ")))
				continue
			}
			if !sameSkeleton(gk, wk) {
				rc.S.Undec("K2", key, pos, fmt.Sprintf("the kernel's guarded-update view no longer has the shape of the operator table's summary (restructured: %s); its terms are not compared", firstDiff(gk, wk)))
				continue
			}
			o := rc.S.Viol("K2", key, pos, fmt.Sprintf("kernel does not compute the operator table's term: %s\n got: %s\nwant: %s", firstDiff(gk, wk), strings.ReplaceAll(strings.TrimSpace(gk), "\n", " | "), strings.ReplaceAll(strings.TrimSpace(wk), "\n", " | ")))
			o.Sig = lineDiff(gk, wk)
		}
	}
}

// lineDiff lists the lines present on one side only (the deviation signature).
func lineDiff(got, want string) string {
	g, w := strings.Split(strings.TrimSpace(got), "\n"), strings.Split(strings.TrimSpace(want), "\n")
	inW := map[string]int{}
	for _, l := range w {
		inW[ambig(l)]++
	}
	var out []string
	for _, l := range g {
		if inW[ambig(l)] > 0 {
			inW[ambig(l)]--
			continue
		}
		out = append(out, "+"+l)
	}
	inG := map[string]int{}
	for _, l := range g {
		inG[ambig(l)]++
	}
	for _, l := range w {
		if inG[ambig(l)] > 0 {
			inG[ambig(l)]--
			continue
		}
		out = append(out, "-"+l)
	}
	return strings.Join(out, " ; ")
}
