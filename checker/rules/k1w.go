package rules

import (
	"fmt"
	"go/types"
	"sort"
	"strings"

	"tcheck/ir"
	"tcheck/load"
	"tcheck/spec"
)

// K1w: width families. Hand-written helpers that exist once per element width
// (denseTranspose1/2/4/8, doViewStack1/2/4/8) must be the same algorithm: identical
// canonical form after erasing the width's unsigned integer type and its typed accessor.
func K1w(rc *RC, filter func(stem string) bool, floor int) {
	rc.S.Declare("K1w", "width-family uniformity: the 1/2/4/8-byte members of a hand-written per-width helper are identical after erasing the width's element type", floor)
	widthKind := map[string]types.BasicKind{"1": types.Uint8, "2": types.Uint16, "4": types.Uint32, "8": types.Uint64, "String": types.String}
	type mem struct {
		fi   *load.FuncInfo
		w    string
		text string
		note []string
	}
	fams := map[string][]*mem{}
	for _, fi := range rc.P.SortedFuncs() {
		name := fi.Obj.Name()
		if len(name) < 2 {
			continue
		}
		w := name[len(name)-1:]
		if strings.HasSuffix(name, "String") {
			w = "String"
		}
		if _, ok := widthKind[w]; !ok {
			continue
		}
		stem := strings.TrimSuffix(fi.Key, w)
		fams[stem] = append(fams[stem], &mem{fi: fi, w: w})
	}
	var stems []string
	for s, ms := range fams {
		if len(ms) >= 3 {
			stems = append(stems, s)
		}
	}
	sort.Strings(stems)
	for _, stem := range stems {
		if filter != nil && !filter(stem) {
			continue
		}
		ms := fams[stem]
		for _, m := range ms {
			k := widthKind[m.w]
			c := ir.NewCanon(rc.P.Fset, m.fi.Pkg.TypesInfo, ir.Options{ElemType: types.Typ[k], Suffix: spec.SuffixOf(k), TokKind: TokensOf(rc.P).Tok, Kind: k, HasKind: true})
			tree := c.Func(m.fi.Decl)
			m.text = ir.Render(tree)
			if m.w == "String" {
				m.text = strings.ReplaceAll(m.text, `""`, "0") // the zero value of the element type
			}
			m.note = c.Notes
		}
		// majority
		groups := map[string][]*mem{}
		for _, m := range ms {
			groups[m.text] = append(groups[m.text], m)
		}
		var best string
		for t, g := range groups {
			if best == "" || len(g) > len(groups[best]) || (len(g) == len(groups[best]) && t < best) {
				best = t
			}
		}
		for _, m := range ms {
			key := stem + m.w
			pos := rc.P.Pos(m.fi.Decl.Pos())
			if len(m.note) > 0 {
				rc.S.Undec("K1w", key, pos, "canonicaliser: "+strings.Join(m.note, "; "))
				continue
			}
			if m.text == best && len(groups[best])*2 > len(ms) {
				rc.S.Ok("K1w", key, pos, fmt.Sprintf("%d of %d width members share this form", len(groups[best]), len(ms)))
				continue
			}
			ref := groups[best][0]
			if ref == m {
				for t, g := range groups {
					if t != m.text {
						ref = g[0]
					}
				}
			}
			rc.S.Viol("K1w", key, pos, fmt.Sprintf("%s differs from its width sibling %s: %s", m.fi.Obj.Name(), ref.fi.Obj.Name(), firstDiff(m.text, ref.text))).Sig = firstDiff(m.text, ref.text)
		}
	}
}
