package rules

import (
	"fmt"
	"go/ast"
	"go/token"
	"go/types"
	"strings"
)

// RA: copy-then-accumulate into a reuse tensor needs an alias test (finding 95, fixed in /repo
// d449857). The specialised engines' Add computes into the reuse tensor by copy(dataReuse, dataA)
// followed by an in-place add of dataB. If the reuse tensor is operand b, the copy destroys b
// before it is read. Structural necessary condition, on the AST with resolved objects: in
// Float64Engine.Add and Float32Engine.Add every copy(dst, src) whose destination is the
// destination buffer (a variable other than the operands' buffers) and which is followed in the
// same block by a call that reads another operand buffer lies under an if/else whose condition
// compares (== / !=) something derived from the destination with something derived from that
// other operand. A function without such a copy (a three-address kernel, as in StdEng) is not judged.
func RA(rc *RC) {
	rc.S.Declare("RA", "reuse aliasing: in the float engines' Add a copy into the destination buffer followed by an in-place operation reading the other operand's buffer is guarded by an alias test between destination and that operand", 2)
	for _, key := range []string{"tensor.(Float64Engine).Add", "tensor.(Float32Engine).Add"} {
		fi := anchor(rc, "RA", key)
		if fi == nil {
			continue
		}
		pos := rc.P.Pos(fi.Decl.Pos())
		info := fi.Pkg.TypesInfo
		objOf := func(e ast.Expr) types.Object {
			if id, ok := e.(*ast.Ident); ok {
				return info.Uses[id]
			}
			return nil
		}
		mentions := func(e ast.Node, o types.Object) bool {
			found := false
			ast.Inspect(e, func(n ast.Node) bool {
				if id, ok := n.(*ast.Ident); ok && info.Uses[id] == o {
					found = true
				}
				return !found
			})
			return found
		}
		n := 0
		var bad []string
		var visit func(stmts []ast.Stmt, conds []ast.Expr)
		visit = func(stmts []ast.Stmt, conds []ast.Expr) {
			for i, s := range stmts {
				switch x := s.(type) {
				case *ast.ExprStmt:
					call, ok := x.X.(*ast.CallExpr)
					if !ok {
						continue
					}
					if f, ok := call.Fun.(*ast.Ident); !ok || f.Name != "copy" || len(call.Args) != 2 {
						continue
					}
					dst, src := objOf(call.Args[0]), objOf(call.Args[1])
					if dst == nil || src == nil {
						continue
					}
					// the next statements of the block: a call with dst as an argument and another slice variable
					for _, t := range stmts[i+1:] {
						es, ok := t.(*ast.ExprStmt)
						if !ok {
							continue
						}
						c2, ok := es.X.(*ast.CallExpr)
						if !ok || len(c2.Args) < 2 || objOf(c2.Args[0]) != dst {
							continue
						}
						for _, a := range c2.Args[1:] {
							other := objOf(a)
							if other == nil || other == dst || other == src {
								continue
							}
							if _, isSlice := other.Type().Underlying().(*types.Slice); !isSlice {
								continue
							}
							n++
							guarded := false
							for _, c := range conds {
								ast.Inspect(c, func(m ast.Node) bool {
									be, ok := m.(*ast.BinaryExpr)
									if ok && (be.Op == token.EQL || be.Op == token.NEQ) {
										if (mentions(be.X, dst) && mentions(be.Y, other)) || (mentions(be.X, other) && mentions(be.Y, dst)) {
											guarded = true
										}
									}
									return !guarded
								})
							}
							if !guarded {
								bad = append(bad, fmt.Sprintf("copy(%s, %s) at %s is followed by %s reading %s with no alias test between %s and %s: when the reuse tensor is that operand the copy destroys it before it is read", dst.Name(), src.Name(), rc.P.Pos(call.Pos()), types.ExprString(c2.Fun), other.Name(), dst.Name(), other.Name()))
							}
						}
					}
				case *ast.IfStmt:
					cs := append(append([]ast.Expr(nil), conds...), x.Cond)
					visit(x.Body.List, cs)
					switch e := x.Else.(type) {
					case *ast.BlockStmt:
						visit(e.List, cs)
					case *ast.IfStmt:
						visit([]ast.Stmt{e}, cs)
					}
				case *ast.SwitchStmt:
					for _, cc := range x.Body.List {
						if c, ok := cc.(*ast.CaseClause); ok {
							visit(c.Body, conds)
						}
					}
				case *ast.BlockStmt:
					visit(x.List, conds)
				case *ast.ForStmt:
					visit(x.Body.List, conds)
				case *ast.RangeStmt:
					visit(x.Body.List, conds)
				}
			}
		}
		visit(fi.Decl.Body.List, nil)
		switch {
		case len(bad) > 0:
			rc.S.Viol("RA", key, pos, strings.Join(uniq(bad), "; ")).Sig = "unguarded copy-then-accumulate"
		case n == 0:
			rc.S.Ok("RA", key, pos, "no copy-then-accumulate into the destination in this function (another form): not judged")
		default:
			rc.S.Ok("RA", key, pos, fmt.Sprintf("%d copy-then-accumulate site(s), each under an alias test", n))
		}
	}
}
