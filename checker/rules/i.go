package rules

import (
	"fmt"
	"regexp"
	"sort"
	"strings"

	"tcheck/ir"
)

// Engine I: iterators. Consistency of the iterator family (not its arithmetic).

func iCanonText(rc *RC, key string) (string, []*ir.Node, string, bool) {
	fi := rc.P.Func(key)
	if fi == nil {
		return "", nil, "-", false
	}
	_, tree := sCanon(rc, fi)
	return ir.Render(tree), tree, rc.P.Pos(fi.Decl.Pos()), true
}

// iOdometerText renders a stepper without its peeled exits: a top-level `if` that precedes the
// carry loop and returns from inside is a fast path for the no-carry case (correct or not, it
// is outside what the mirror rules decide); the mirror is demanded of the loop and of the
// statements around it.
func iOdometerText(rc *RC, key string) (string, []*ir.Node, string, bool) {
	_, tree, pos, ok := iCanonText(rc, key)
	if !ok {
		return "", nil, pos, false
	}
	firstLoop := len(tree)
	for i, n := range tree {
		if n.Kind == "loop" || n.Kind == "range" {
			firstLoop = i
			break
		}
	}
	var out []*ir.Node
	for i, n := range tree {
		if i < firstLoop && n.Kind == "if" {
			ret := false
			for _, k := range flatten([]*ir.Node{n}) {
				if k.Kind == "ret" {
					ret = true
				}
			}
			if ret {
				continue
			}
		}
		out = append(out, n)
	}
	return ir.Render(out), out, pos, true
}

// I1 + I2: mask polarity and valid/invalid duality.
func I12(rc *RC) {
	rc.S.Declare("I1", "mask polarity: NextValidity reports !mask[i]; NextValid stops on !mask[i]; NextInvalid stops on mask[i]", 3)
	rc.S.Declare("I2", "valid/invalid duality: NextValid and NextInvalid of one iterator type are identical up to exactly the mask polarity", 1)
	for _, typ := range []string{"FlatMaskedIterator", "MultIterator"} {
		base := "tensor.(*" + typ + ")."
		// I1
		if txt, tree, pos, ok := iCanonText(rc, base+"NextValidity"); ok {
			paths, _ := ir.EnumPaths(tree, 128)
			good, bad := 0, ""
			for _, p := range paths {
				if p.Exit != "return" {
					continue
				}
				parts := strings.Split(p.Ret, ", ")
				if len(parts) != 3 {
					continue
				}
				if strings.Contains(parts[1], "mask[") {
					if strings.HasPrefix(parts[1], "!") && !strings.HasPrefix(parts[1], "!!") {
						good++
					} else {
						bad = "validity is reported as " + parts[1] + " (a masked element must be invalid)"
					}
				}
			}
			key := base + "NextValidity"
			switch {
			case bad != "":
				rc.S.Viol("I1", key, pos, bad).Sig = bad
			case good == 0:
				rc.S.Undec("I1", key, pos, "no return that consults the mask: "+strings.ReplaceAll(txt, "\n", " ; "))
			default:
				rc.S.Ok("I1", key, pos, "validity = !mask[i]")
			}
		} else {
			rc.S.Undec("I1", base+"NextValidity", "-", "unresolved anchor")
		}
		stop := map[string]string{}
		forms := map[string]string{}
		var poss = map[string]string{}
		for _, m := range []string{"NextValid", "NextInvalid"} {
			txt, _, pos, ok := iCanonText(rc, base+m)
			if !ok {
				rc.S.Undec("I1", base+m, "-", "unresolved anchor")
				continue
			}
			poss[m] = pos
			// the stop condition: the `if <cond mentioning mask[…]>` whose body returns the index
			re := regexp.MustCompile(`(?m)^\s*if (!?\$r\.mask\[[^\n]*\])\s*$`)
			ms := re.FindAllStringSubmatch(txt, -1)
			if len(ms) == 1 {
				stop[m] = ms[0][1]
			}
			// flag idiom: `for flag { …; flag = <mask expr> }` stops when the expression is false
			flagRe := regexp.MustCompile(`(?m)^\s*(%\w+) = (!?\$r\.mask\[[^\n]*\])\s*$`)
			if fm := flagRe.FindAllStringSubmatch(txt, -1); len(ms) == 0 && len(fm) == 1 && strings.Contains(txt, "for "+fm[0][1]+" ;") {
				stop[m] = ir.Negate(fm[0][2])
				txt = strings.ReplaceAll(txt, fm[0][1]+" = "+fm[0][2], "FLAG = !STOP")
				txt = ir.ReplaceWord(txt, fm[0][1], "FLAG")
			}
			norm := txt
			norm = strings.ReplaceAll(norm, "NextInvalid", "NextX")
			norm = strings.ReplaceAll(norm, "NextValid", "NextX")
			norm = strings.ReplaceAll(norm, "if ($r.mask == nil)", "if NOMASK")
			norm = strings.ReplaceAll(norm, "if (0 == len($r.mask))", "if NOMASK")
			norm = strings.ReplaceAll(norm, "if (len($r.mask) == 0)", "if NOMASK")
			if s, ok := stop[m]; ok {
				norm = strings.ReplaceAll(norm, "if "+s+"\n", "if STOP\n")
			}
			// an explicit zero initialiser is the same as none
			norm = regexp.MustCompile(`(?m)^%\w+ = 0\n`).ReplaceAllString(norm, "")
			norm = alphaNorm(norm)
			forms[m] = norm
		}
		if s, ok := stop["NextValid"]; ok {
			if strings.HasPrefix(s, "!") {
				rc.S.Ok("I1", base+"NextValid", poss["NextValid"], "stops on "+s)
			} else {
				rc.S.Viol("I1", base+"NextValid", poss["NextValid"], "NextValid stops on "+s+": it returns masked (invalid) elements").Sig = "polarity"
			}
		} else if _, ok := forms["NextValid"]; ok {
			rc.S.Undec("I1", base+"NextValid", poss["NextValid"], "no unique stop condition on the mask")
		}
		if s, ok := stop["NextInvalid"]; ok {
			if !strings.HasPrefix(s, "!") {
				rc.S.Ok("I1", base+"NextInvalid", poss["NextInvalid"], "stops on "+s)
			} else {
				rc.S.Viol("I1", base+"NextInvalid", poss["NextInvalid"], "NextInvalid stops on "+s+": it returns valid elements").Sig = "polarity"
			}
		} else if _, ok := forms["NextInvalid"]; ok {
			rc.S.Undec("I1", base+"NextInvalid", poss["NextInvalid"], "no unique stop condition on the mask")
		}
		if a, ok := forms["NextValid"]; ok {
			if b, ok := forms["NextInvalid"]; ok {
				sv, si := stop["NextValid"], stop["NextInvalid"]
				if a == b && sv != "" && sv == si {
					rc.S.Viol("I2", base+"NextValid~NextInvalid", poss["NextValid"], "NextValid and NextInvalid stop on the same mask polarity ("+sv+"): one of them is wrong").Sig = "same polarity"
				} else if a == b {
					rc.S.Ok("I2", base+"NextValid~NextInvalid", poss["NextValid"], "identical up to the stop polarity")
				} else {
					rc.S.Viol("I2", base+"NextValid~NextInvalid", poss["NextValid"], "NextValid and NextInvalid differ beyond the mask polarity: "+firstDiff(a, b)).Sig = firstDiff(a, b)
				}
			}
		}
	}
}

// fieldsWritten lists receiver fields stored in a canonical tree (loops included).
func fieldsWritten(tree []*ir.Node) map[string]bool {
	out := map[string]bool{}
	for _, n := range flatten(tree) {
		targets := []string{}
		switch n.Kind {
		case "store", "let":
			targets = append(targets, n.Target)
		case "tuple":
			targets = append(targets, n.Targets...)
		}
		for _, t := range targets {
			if strings.HasPrefix(t, "$r.") {
				f := strings.TrimPrefix(t, "$r.")
				if i := strings.IndexAny(f, "[."); i >= 0 {
					f = f[:i]
				}
				out[f] = true
			}
		}
	}
	return out
}

// I3: Reset restores, on every path, every field the stepping functions mutate.
func I3(rc *RC) {
	rc.S.Declare("I3", "reset restores what stepping mutates: every path through FlatIterator.Reset writes every field that Next/singleNext/singlePrevious/ndNext/ndPrevious/colMajorNDNext write (except fields every stepper overwrites before reading)", 1)
	steppers := []string{"Next", "singleNext", "singlePrevious", "ndNext", "ndPrevious", "colMajorNDNext"}
	mod := map[string]bool{}
	always := map[string]int{}
	n := 0
	for _, s := range steppers {
		_, tree, _, ok := iCanonText(rc, "tensor.(*FlatIterator)."+s)
		if !ok {
			rc.S.Undec("I3", "tensor.(*FlatIterator)."+s, "-", "unresolved anchor")
			return
		}
		w := fieldsWritten(tree)
		for f := range w {
			mod[f] = true
		}
		if s != "Next" {
			n++
			// written first thing (before any read): the lastIndex idiom
			if len(tree) > 0 {
				for _, st := range tree[:min(2, len(tree))] {
					if (st.Kind == "store" || st.Kind == "let") && strings.HasPrefix(st.Target, "$r.") {
						always[strings.TrimPrefix(st.Target, "$r.")]++
					}
				}
			}
		}
	}
	var req []string
	for f := range mod {
		if always[f] == n {
			continue // every stepper overwrites it before reading
		}
		req = append(req, f)
	}
	sort.Strings(req)
	_, tree, pos, ok := iCanonText(rc, "tensor.(*FlatIterator).Reset")
	if !ok {
		rc.S.Undec("I3", "tensor.(*FlatIterator).Reset", "-", "unresolved anchor")
		return
	}
	paths, okp := ir.EnumPaths(tree, 256)
	if !okp {
		rc.S.Undec("I3", "tensor.(*FlatIterator).Reset", pos, "too many paths")
		return
	}
	var bad []string
	for _, p := range paths {
		w := fieldsWritten(p.Steps)
		for _, f := range req {
			if !w[f] {
				bad = append(bad, fmt.Sprintf("field %s is not restored on the path [%s]", f, strings.Join(p.Guards, " && ")))
			}
		}
	}
	if len(bad) > 0 {
		sort.Strings(bad)
		rc.S.Viol("I3", "tensor.(*FlatIterator).Reset", pos, strings.Join(bad, "; ")).Sig = strings.Join(bad, "; ")
	} else {
		rc.S.Ok("I3", "tensor.(*FlatIterator).Reset", pos, fmt.Sprintf("%d paths restore %v", len(paths), req))
	}
}

func min(a, b int) int {
	if a < b {
		return a
	}
	return b
}

// I4: the vector fast path addresses the non-unit axis.
func I4(rc *RC) {
	rc.S.Declare("I4", "vector fast path: singleNext/singlePrevious index track through veclikeDim; veclikeDim is the first axis whose length is not 1; under isVector no shape/strides/track element is addressed by a literal axis", 3)
	for _, m := range []string{"singleNext", "singlePrevious"} {
		key := "tensor.(*FlatIterator)." + m
		txt, _, pos, ok := iCanonText(rc, key)
		if !ok {
			rc.S.Undec("I4", key, "-", "unresolved anchor")
			continue
		}
		re := regexp.MustCompile(`\$r\.(track|shape|strides)\[([^\]]*)\]`)
		bad := ""
		cnt := 0
		for _, mm := range re.FindAllStringSubmatch(txt, -1) {
			cnt++
			if mm[2] != "$r.veclikeDim" {
				bad = fmt.Sprintf("%s[%s] is not addressed through veclikeDim", mm[1], mm[2])
			}
		}
		if bad != "" {
			rc.S.Viol("I4", key, pos, bad).Sig = bad
		} else if cnt == 0 {
			rc.S.Undec("I4", key, pos, "no coordinate tracking found")
		} else {
			rc.S.Ok("I4", key, pos, fmt.Sprintf("%d accesses, all through veclikeDim", cnt))
		}
	}
	// definition of veclikeDim
	if txt, _, pos, ok := iCanonText(rc, "tensor.newFlatIterator"); ok {
		// the search loop, under a test of the vector-like predicate (directly or through a local
		// that holds it), whatever else surrounds it
		loop := regexp.MustCompile(`(?m)^( *)if (\$ap\.IsVectorLike\(\)|%\w+)\n +range \$ap\.shape as @r\n +if \(\$ap\.shape\[@r\] != 1\)\n +%dim = @r\n +break\n`)
		key := "tensor.newFlatIterator#veclikeDim"
		m := loop.FindStringSubmatch(txt)
		guardOK := m != nil && (m[2] == "$ap.IsVectorLike()" || strings.Contains(txt, m[2]+" = $ap.IsVectorLike()\n"))
		switch {
		case m != nil && guardOK && strings.Contains(txt, "veclikeDim: %dim"):
			rc.S.Ok("I4", key, pos, "veclikeDim = first axis with length != 1")
		case strings.Contains(txt, "range $ap.shape") || strings.Contains(txt, "veclikeDim:"):
			rc.S.Viol("I4", key, pos, "veclikeDim is not computed as the first axis whose length is not 1: "+strings.ReplaceAll(txt, "\n", " ; ")).Sig = "veclikeDim definition"
		default:
			rc.S.Undec("I4", key, pos, "the search for the non-unit axis is not in the form the rule reads")
		}
	} else {
		rc.S.Undec("I4", "tensor.newFlatIterator#veclikeDim", "-", "unresolved anchor")
	}
	// Reset under isVector (contradiction rule: the steppers use veclikeDim)
	if _, tree, pos, ok := iCanonText(rc, "tensor.(*FlatIterator).Reset"); ok {
		bad := ""
		for _, n := range flatten(tree) {
			if n.Kind == "case" && strings.Contains(n.Head, "$r.isVector") {
				t := ir.Render(n.Kids)
				re := regexp.MustCompile(`\$r\.(shape|strides|track)\[(\d+)\]`)
				if mm := re.FindStringSubmatch(t); mm != nil {
					bad = fmt.Sprintf("the vector arm of Reset addresses %s[%s] by a literal axis while singleNext/singlePrevious use veclikeDim", mm[1], mm[2])
				}
			}
		}
		key := "tensor.(*FlatIterator).Reset#isVector"
		if bad != "" {
			rc.S.Viol("I4", key, pos, bad).Sig = "literal axis in vector arm"
		} else {
			rc.S.Ok("I4", key, pos, "no literal axis in the vector arm")
		}
	}
}

// I5: the stride key depends on the stride contents.
func I5(rc *RC) {
	rc.S.Declare("I5", "stride-block key: hashIntArray returns the digest of a hash that was fed every element of its argument (not a length or byte count)", 1)
	key := "tensor.hashIntArray"
	txt, tree, pos, ok := iCanonText(rc, key)
	if !ok {
		rc.S.Undec("I5", key, "-", "unresolved anchor")
		return
	}
	var rets []string
	for _, n := range flatten(tree) {
		if n.Kind == "ret" {
			rets = append(rets, n.Value)
		}
	}
	var bad []string
	sumRe := regexp.MustCompile(`(%\w+)\.Sum(64|32)?\(`)
	for _, r := range rets {
		m := sumRe.FindStringSubmatch(r)
		if m == nil {
			bad = append(bad, "returns "+r+", which is not a digest (Sum/Sum32/Sum64) of the hash")
			continue
		}
		h := m[1]
		wr := regexp.MustCompile(regexp.QuoteMeta(h) + `\.Write\((%\w+)\)`).FindStringSubmatch(txt)
		if wr == nil {
			bad = append(bad, "the hash is never written")
			continue
		}
		buf := wr[1]
		if !regexp.MustCompile(`(?s)`+regexp.QuoteMeta(buf)+`\[[^\n]*\$in\[`).MatchString(txt) && !regexp.MustCompile(regexp.QuoteMeta(buf)+`[^\n]*\$in\[`).MatchString(txt) {
			bad = append(bad, "the buffer written to the hash is not filled from the elements of the argument")
		}
	}
	if len(rets) == 0 {
		bad = append(bad, "no return")
	}
	// every element gets its own 8-byte window of the buffer
	if !strings.Contains(txt, "PutUint64(") && !strings.Contains(txt, "binary.Write(") {
		bad = append(bad, "no fixed-width encoding of the elements into the hashed buffer")
	}
	if put := regexp.MustCompile(`PutUint64\((%\w+)\[([^\]]*)\], uint64\(\$in\[(%\w+|@r\d*)\]\)\)`).FindStringSubmatch(txt); put != nil {
		i := put[3]
		ok := put[2] == "("+i+" * 8):(("+i+" * 8) + 8)" || put[2] == "(8 * "+i+"):((8 * "+i+") + 8)"
		if !ok {
			bad = append(bad, "element "+i+" is written to the byte window ["+put[2]+"], not [8i, 8i+8): windows overlap and high bytes of the strides are lost")
		}
	}
	if len(bad) > 0 {
		rc.S.Viol("I5", key, pos, strings.Join(bad, "; ")).Sig = strings.Join(bad, "; ")
	} else {
		rc.S.Ok("I5", key, pos, "returns the digest of all elements")
	}
}

// I6: the column-major stepper is the row-major stepper with the axis order reversed.
func I6(rc *RC) {
	rc.S.Declare("I6", "stepper mirror: colMajorNDNext equals ndNext with the loop direction and the done-axis reversed (a one-sided edit to either odometer is reported)", 1)
	a, _, pos, ok1 := iOdometerText(rc, "tensor.(*FlatIterator).ndNext")
	b, _, _, ok2 := iOdometerText(rc, "tensor.(*FlatIterator).colMajorNDNext")
	if !ok1 || !ok2 {
		rc.S.Undec("I6", "ndNext~colMajorNDNext", "-", "unresolved anchor")
		return
	}
	if !i13Form(rc, "tensor.(*FlatIterator).ndNext") {
		rc.S.Undec("I6", "ndNext~colMajorNDNext", pos, "ndNext no longer has the statement skeleton the mirror map is written for (family rewritten): not compared")
		return
	}
	last := regexp.MustCompile(`old\(\(len\(\$r\.shape\) - 1\)\)|\(len\(\$r\.shape\) - 1\)|%v\b`)
	na := last.ReplaceAllString(a, "LAST")
	nb := last.ReplaceAllString(b, "LAST")
	// row-major: for i := LAST; i >= 0; i-- ... if i == 0
	ra := strings.NewReplacer("%i = LAST\nfor (%i >= 0) ; %i = (%i - 1)", "LOOP", "if (%i == 0)", "if DONEAXIS").Replace(na)
	rb := strings.NewReplacer("%i = 0\nfor (LAST >= %i) ; %i = (%i + 1)", "LOOP", "if (%i == LAST)", "if DONEAXIS").Replace(nb)
	if !strings.Contains(ra, "LOOP") || !strings.Contains(rb, "LOOP") || !strings.Contains(ra, "DONEAXIS") || !strings.Contains(rb, "DONEAXIS") {
		rc.S.Undec("I6", "ndNext~colMajorNDNext", pos, "loop header or done-axis test not in the recognised form")
		return
	}
	if ra == rb {
		rc.S.Ok("I6", "ndNext~colMajorNDNext", pos, "identical up to loop direction and done-axis")
	} else {
		rc.S.Viol("I6", "ndNext~colMajorNDNext", pos, "the two odometers differ beyond direction: "+firstDiff(ra, rb)).Sig = firstDiff(ra, rb)
	}
}

// I6c: the two vector steppers are mirror images (+1 / -1, done at size / below zero).
func I6c(rc *RC) {
	rc.S.Declare("I6c", "vector stepper mirror: singlePrevious equals singleNext with +1/-1 exchanged and the exhaustion test tracked >= size / tracked < 0 exchanged", 1)
	a, _, pos, ok1 := iCanonText(rc, "tensor.(*FlatIterator).singleNext")
	b, _, _, ok2 := iCanonText(rc, "tensor.(*FlatIterator).singlePrevious")
	if !ok1 || !ok2 {
		rc.S.Undec("I6c", "singleNext~singlePrevious", "-", "unresolved anchor")
		return
	}
	if !i13Form(rc, "tensor.(*FlatIterator).singleNext") {
		rc.S.Undec("I6c", "singleNext~singlePrevious", pos, "singleNext no longer has the statement skeleton the mirror map is written for (family rewritten): not compared")
		return
	}
	na := alphaNormKeepRecv(a)
	nb := alphaNormKeepRecv(b)
	mb := strings.ReplaceAll(nb, " - 1)", " + 1)")
	mb = regexp.MustCompile(`if \(0 > (l\d+)\)`).ReplaceAllString(mb, "if ($1 >= $$r.size)")
	if !strings.Contains(na, " + 1)") || !strings.Contains(nb, " - 1)") {
		rc.S.Undec("I6c", "singleNext~singlePrevious", pos, "steppers are not in the +1/-1 form")
		return
	}
	if na == mb {
		rc.S.Ok("I6c", "singleNext~singlePrevious", pos, "mirror images")
	} else {
		rc.S.Viol("I6c", "singleNext~singlePrevious", pos, "the two vector steppers differ beyond direction: "+firstDiff(na, mb)).Sig = firstDiff(na, mb)
	}
}

// alphaNormKeepRecv numbers locals but keeps receiver fields readable.
func alphaNormKeepRecv(s string) string {
	s = strings.ReplaceAll(s, "$r.", "\x01r.")
	s = alphaNorm(s)
	return strings.ReplaceAll(s, "\x01r.", "$r.")
}

// I6b: the backward odometer is the mirror image of the forward one:
// track+1 / track-1, wrap test track == shape / track < 0, wrap value 0 / shape-1, and the
// two offset updates with opposite signs. ndNext keeps its offset in a local that is copied
// in and out; that is folded first.
func I6b(rc *RC) {
	rc.S.Declare("I6b", "odometer mirror: ndPrevious equals ndNext under the mirror map (+1/-1 on the coordinate, wrap at shape / below zero, wrap to 0 / shape-1, opposite signs on both offset updates)", 1)
	a, _, pos, ok1 := iOdometerText(rc, "tensor.(*FlatIterator).ndNext")
	b, _, _, ok2 := iOdometerText(rc, "tensor.(*FlatIterator).ndPrevious")
	if !ok1 || !ok2 {
		rc.S.Undec("I6b", "ndNext~ndPrevious", "-", "unresolved anchor")
		return
	}
	if !i13Form(rc, "tensor.(*FlatIterator).ndNext") {
		rc.S.Undec("I6b", "ndNext~ndPrevious", pos, "ndNext no longer has the statement skeleton the mirror map is written for (family rewritten): not compared")
		return
	}
	// fold a local copy of the offset (ndNext has one; ndPrevious may be given one)
	fold := func(a string) string {
		var la []string
		local := ""
		for _, l := range strings.Split(a, "\n") {
			t := strings.TrimSpace(l)
			if m := regexp.MustCompile(`^(%\w+) = \$r\.nextIndex$`).FindStringSubmatch(t); m != nil && local == "" {
				local = m[1]
				continue
			}
			if local != "" && t == "$r.nextIndex = "+local {
				continue
			}
			la = append(la, l)
		}
		na := strings.Join(la, "\n")
		if local != "" {
			na = ir.ReplaceWord(na, local, "$r.nextIndex")
		}
		return na
	}
	na := alphaNormKeepRecv(fold(a))
	nb := alphaNormKeepRecv(fold(b))
	if !sameSkeleton(na, nb) {
		rc.S.Undec("I6b", "ndNext~ndPrevious", pos, "ndPrevious has another statement skeleton than ndNext (one of them was restructured): the mirror map, which is written line by line, does not apply - not compared")
		return
	}
	// mirror map applied to ndPrevious, line by line
	idx := regexp.MustCompile(`\[(l\d+)\]`).FindStringSubmatch(nb)
	if idx == nil {
		rc.S.Undec("I6b", "ndNext~ndPrevious", pos, "no indexed coordinate in ndPrevious")
		return
	}
	i := idx[1]
	rep := map[string]string{
		"$r.track[" + i + "] = ($r.track[" + i + "] - 1)":                                     "$r.track[" + i + "] = ($r.track[" + i + "] + 1)",
		"if (0 > $r.track[" + i + "])":                                                        "if ($r.shape[" + i + "] == $r.track[" + i + "])",
		"$r.track[" + i + "] = ($r.shape[" + i + "] - 1)":                                     "$r.track[" + i + "] = 0",
		"$r.nextIndex = ($r.nextIndex + ($r.strides[" + i + "] * ($r.shape[" + i + "] - 1)))": "$r.nextIndex = ($r.nextIndex - ($r.strides[" + i + "] * ($r.shape[" + i + "] - 1)))",
		"$r.nextIndex = ($r.nextIndex - $r.strides[" + i + "])":                               "$r.nextIndex = ($r.strides[" + i + "] + $r.nextIndex)",
	}
	var lb []string
	hits := 0
	for _, l := range strings.Split(nb, "\n") {
		t := strings.TrimSpace(l)
		if r, ok := rep[t]; ok {
			hits++
			l = strings.Replace(l, t, r, 1)
		}
		lb = append(lb, l)
	}
	mb := strings.Join(lb, "\n")
	if na == mb && hits == len(rep) {
		rc.S.Ok("I6b", "ndNext~ndPrevious", pos, "mirror images (5 mirrored statements)")
	} else {
		rc.S.Viol("I6b", "ndNext~ndPrevious", pos, fmt.Sprintf("forward and backward odometer are not mirror images (%d of %d mirrored statements found): %s", hits, len(rep), firstDiff(na, mb))).Sig = firstDiff(na, mb)
	}
}

// I7: mask pairing in the multi-iterator. The combined mask is the OR of the operands' masks
// at the position each operand's own flat iterator has reached: the mask of operand j must be
// indexed by lastIndexArr[j], never by the lead index or another operand's index.
func I7(rc *RC) {
	rc.S.Declare("I7", "multi-iterator mask pairing: in MultIteratorFromDense the mask of operand j is read at lastIndexArr[j] (the operand's own offset), whatever the spelling of the loop", 1)
	fi := anchor(rc, "I7", "tensor.MultIteratorFromDense")
	if fi == nil {
		return
	}
	pos := rc.P.Pos(fi.Decl.Pos())
	_, tree := sCanon(rc, fi)
	txt := ir.Render(tree)
	re := regexp.MustCompile(`(\$tts\[[^\]]+\])\.\(tensor\.MaskedTensor\)\.Mask\(\)\[`)
	locs := re.FindAllStringSubmatchIndex(txt, -1)
	if len(locs) == 0 {
		rc.S.Undec("I7", "tensor.MultIteratorFromDense#mask", pos, "no read of an operand's mask found")
		return
	}
	var bad []string
	for _, l := range locs {
		op := txt[l[2]:l[3]] // $tts[J]
		j := op[len("$tts[") : len(op)-1]
		// the index expression: balanced up to the closing bracket
		k := l[1]
		d := 1
		e := k
		for e < len(txt) && d > 0 {
			if txt[e] == '[' {
				d++
			} else if txt[e] == ']' {
				d--
			}
			e++
		}
		idx := txt[k : e-1]
		if !regexp.MustCompile(`^[%$]\w+\.lastIndexArr\[` + regexp.QuoteMeta(j) + `\]$`).MatchString(idx) {
			bad = append(bad, fmt.Sprintf("mask of operand %s is read at [%s], want lastIndexArr[%s]", op, idx, j))
		}
	}
	if len(bad) > 0 {
		rc.S.Viol("I7", "tensor.MultIteratorFromDense#mask", pos, strings.Join(uniq(bad), "; ")).Sig = firstWords(bad)
	} else {
		rc.S.Ok("I7", "tensor.MultIteratorFromDense#mask", pos, fmt.Sprintf("%d mask read(s) paired with the operand's own index", len(locs)))
	}
}

// I8: FlatIterator.NextValid steps exactly like Next. For an unmasked tensor NextValid is Next
// plus a step count: under every combination of the iterator's mode flags (isScalar, isVector,
// reverse, outerFirst) both must delegate to the same stepping function, and NextValid reports
// -1 as the step when and only when it steps backwards.
func I8(rc *RC) {
	rc.S.Declare("I8", "dispatch agreement: under every combination of the mode flags FlatIterator.NextValid delegates to the same stepping function as FlatIterator.Next, with step -1 exactly on the reverse arms", 1)
	stepRe := regexp.MustCompile(`\$r\.(singleNext|singlePrevious|ndNext|ndPrevious|colMajorNDNext)\(\)`)
	dispatch := func(key string) (map[string]string, string, bool) {
		fi := anchor(rc, "I8", key)
		if fi == nil {
			return nil, "-", false
		}
		_, tree := sCanon(rc, fi)
		paths, ok := ir.EnumPaths(tree, 2000)
		if !ok {
			return nil, rc.P.Pos(fi.Decl.Pos()), false
		}
		out := map[string]string{}
		flags := []string{"$r.done", "$r.isScalar", "$r.isVector", "$r.reverse", "$r.outerFirst"}
		for m := 0; m < 1<<len(flags); m++ {
			env := map[string]bool{}
			var name []string
			for i, f := range flags {
				env[f] = m&(1<<i) != 0
				if env[f] {
					name = append(name, strings.TrimPrefix(f, "$r."))
				}
			}
			for _, p := range paths {
				sat := true
				for _, f := range ir.PathFormulas(p) {
					unknown := false
					for _, a := range f.Atoms() {
						if _, ok := env[a]; !ok {
							unknown = true
						}
					}
					if unknown || !f.Eval(env) {
						sat = false
						break
					}
				}
				if !sat {
					continue
				}
				callee := "-"
				for _, st := range p.Steps {
					if mm := stepRe.FindStringSubmatch(st.Head); mm != nil {
						callee = mm[1]
					}
				}
				step := ""
				if parts := splitArgs(p.Ret); len(parts) == 3 {
					step = parts[1]
				}
				out[strings.Join(name, "+")] = callee + "|" + step
			}
		}
		return out, rc.P.Pos(fi.Decl.Pos()), true
	}
	next, pos, ok1 := dispatch("tensor.(*FlatIterator).Next")
	valid, _, ok2 := dispatch("tensor.(*FlatIterator).NextValid")
	key := "tensor.(*FlatIterator).Next~NextValid"
	if !ok1 || !ok2 {
		rc.S.Undec("I8", key, pos, "dispatch not extractable")
		return
	}
	var bad []string
	var ks []string
	for k := range next {
		ks = append(ks, k)
	}
	sort.Strings(ks)
	for _, k := range ks {
		n := strings.SplitN(next[k], "|", 2)[0]
		v, ok := valid[k]
		if !ok {
			bad = append(bad, fmt.Sprintf("flags [%s]: Next steps with %s, NextValid has no path", k, n))
			continue
		}
		vp := strings.SplitN(v, "|", 2)
		if vp[0] != n {
			bad = append(bad, fmt.Sprintf("flags [%s]: Next steps with %s, NextValid with %s", k, n, vp[0]))
		}
		if n != "-" {
			back := strings.Contains(n, "Previous")
			if back != (vp[1] == "-1") {
				bad = append(bad, fmt.Sprintf("flags [%s]: NextValid steps with %s but reports step %s", k, vp[0], vp[1]))
			}
		}
	}
	if len(bad) > 0 {
		rc.S.Viol("I8", key, pos, strings.Join(bad, "; ")).Sig = firstWords(bad)
	} else {
		rc.S.Ok("I8", key, pos, fmt.Sprintf("%d flag combinations agree", len(ks)))
	}
}

// I9: block bookkeeping of the multi-iterator constructor. NewMultIterator keeps one stride
// block per distinct stride pattern; `offset` is advanced (to maxDims*nBlocks, then nBlocks++)
// only when a new block is created, so the strides at `offset` always belong to block
// nBlocks-1. The flat iterator built from those strides must be stored in that block's slot:
// any other index (the pattern's own block id, the operand index) pairs a block with the
// strides of another one as soon as a pattern repeats non-adjacently.
func I9(rc *RC) {
	rc.S.Declare("I9", "multi-iterator blocks: in NewMultIterator the flat iterator built from the strides at the current block offset is stored in slot nBlocks-1, the block that offset belongs to", 1)
	fi := anchor(rc, "I9", "tensor.NewMultIterator")
	if fi == nil {
		return
	}
	pos := rc.P.Pos(fi.Decl.Pos())
	c := ir.NewCanon(rc.P.Fset, fi.Pkg.TypesInfo, ir.Options{ParamNames: true, KeepNames: true, NoSubst: true})
	nodes := flatten(c.Func(fi.Decl))
	// the block counter: the variable V with `offset = maxDims * V` and `V = V + 1`
	counter, offset := "", ""
	for _, n := range nodes {
		if n.Kind == "let" || n.Kind == "store" {
			if m := regexp.MustCompile(`^\((%\w+) \+ 1\)$`).FindStringSubmatch(n.Value); m != nil && m[1] == n.Target {
				for _, k := range nodes {
					if (k.Kind == "let" || k.Kind == "store") && offset == "" && ldIdent.FindString(k.Target) == k.Target && (strings.Contains(k.Value, "* "+n.Target+")") || strings.Contains(k.Value, "("+n.Target+" * ")) {
						counter, offset = n.Target, k.Target
					}
				}
			}
		}
	}
	if counter == "" {
		rc.S.Undec("I9", fi.Key, pos, "block counter / offset pair not identified")
		return
	}
	found := false
	var bad []string
	for _, n := range nodes {
		if (n.Kind == "store" || n.Kind == "let") && strings.Contains(n.Target, ".fitArr[") && strings.Contains(n.Value, "newFlatIterator(") {
			found = true
			idx := n.Target[strings.Index(n.Target, ".fitArr[")+len(".fitArr[") : len(n.Target)-1]
			if idx != "("+counter+" - 1)" {
				bad = append(bad, fmt.Sprintf("the iterator over the strides at %s is stored in slot [%s], want [%s - 1]", offset, idx, counter))
			}
		}
	}
	switch {
	case !found:
		rc.S.Undec("I9", fi.Key, pos, "no store of a new flat iterator into fitArr found")
	case len(bad) > 0:
		rc.S.Viol("I9", fi.Key, pos, strings.Join(bad, "; ")).Sig = firstWords(bad)
	default:
		rc.S.Ok("I9", fi.Key, pos, "stored in slot "+counter+"-1, the block of "+offset)
	}
}

// I10: Start rewinds. Start() is "Reset, then Next": on every path of every iterator's Start
// method the receiver is Reset() before the first element is taken - an iterator that ran to
// exhaustion (done set, offset wrapped back to 0) must restart as well as one that stopped
// half way.
func I10(rc *RC) {
	rc.S.Declare("I10", "Start rewinds: every path of every iterator's Start() calls Reset() on the receiver before Next()", 2)
	for _, fi := range rc.P.SortedFuncs() {
		if fi.Pkg != rc.P.Root || fi.Decl.Body == nil || fi.Decl.Recv == nil || fi.Obj.Name() != "Start" || !strings.Contains(fi.Key, "Iterator") {
			continue
		}
		pos := rc.P.Pos(fi.Decl.Pos())
		_, tree := sCanon(rc, fi)
		paths, ok := ir.EnumPaths(tree, 1000)
		if !ok {
			rc.S.Undec("I10", fi.Key, pos, "too many paths")
			continue
		}
		var bad []string
		for _, p := range paths {
			reset := false
			for _, st := range p.Steps {
				if strings.Contains(st.Head, "$r.Reset()") {
					reset = true
				}
				if strings.Contains(st.Head, "$r.Next()") && !reset {
					bad = append(bad, fmt.Sprintf("on the path [%s] Next() is taken without Reset()", strings.Join(p.Guards, " && ")))
				}
			}
		}
		if len(bad) > 0 {
			rc.S.Viol("I10", fi.Key, pos, strings.Join(uniq(bad), "; ")).Sig = firstWords(bad)
		} else {
			rc.S.Ok("I10", fi.Key, pos, "Reset() before Next() on every path")
		}
	}
}

// I13: the two stepping primitives are the odometer. Every other stepper is held against them
// by the mirror rules (I6, I6b, I6c), so they are the anchor of the family: ndNext increments the
// innermost coordinate; a coordinate that reaches its extent wraps to 0, takes the offset back by
// (extent-1) strides and carries into the next axis (the outermost carry is exhaustion);
// otherwise the offset advances by one stride and the step ends; the offset returned is the one
// held before the step. singleNext is the unit-stride case (AP.IsVectorLike guarantees all
// strides are one: rule L0) and reports exhaustion when the tracked coordinate reaches the size.
// As for the reduction anchors (K9): same statement skeleton and another term is a violation,
// another skeleton is a restructuring the rule does not judge.
var i13Anchors = map[string]string{
	"tensor.(*FlatIterator).ndNext": `%nextIndex = $r.nextIndex
$r.lastIndex = %nextIndex
%i = (len($r.shape) - 1)
for (%i >= 0) ; %i = (%i - 1)
  $r.track[%i] = ($r.track[%i] + 1)
  if ($r.shape[%i] == $r.track[%i])
    if (%i == 0)
      $r.done = true
    $r.track[%i] = 0
    %nextIndex = (%nextIndex - ($r.strides[%i] * ($r.shape[%i] - 1)))
    continue
  %nextIndex = ($r.strides[%i] + %nextIndex)
  break
$r.nextIndex = %nextIndex
return $r.lastIndex, nil
`,
	"tensor.(*FlatIterator).singleNext": `$r.lastIndex = $r.nextIndex
$r.nextIndex = ($r.nextIndex + 1)
$r.track[$r.veclikeDim] = ($r.track[$r.veclikeDim] + 1)
%tracked = $r.track[$r.veclikeDim]
if (%tracked >= $r.size)
  $r.done = true
return $r.lastIndex, nil
`,
}

func I13(rc *RC) {
	rc.S.Declare("I13", "odometer anchor: ndNext and singleNext - the primitives every other stepper is mirrored against - are the odometer step (increment innermost, wrap to 0 and take back (extent-1) strides on carry, exhaustion on the outermost carry, advance one stride otherwise, return the offset held before the step)", 2)
	var keys []string
	for k := range i13Anchors {
		keys = append(keys, k)
	}
	sort.Strings(keys)
	for _, key := range keys {
		want := i13Anchors[key]
		got, _, pos, ok := iCanonText(rc, key)
		if !ok {
			rc.S.Undec("I13", key, "-", "unresolved anchor")
			continue
		}
		switch {
		case got == want:
			rc.S.Ok("I13", key, pos, "canonical form equals the odometer step")
		case sameSkeleton(got, want):
			rc.S.Viol("I13", key, pos, "the stepping primitive deviates from the odometer step: "+firstDiff(got, want)).Sig = firstDiff(got, want)
		default:
			rc.S.Undec("I13", key, pos, "the stepping primitive has another statement skeleton than the reference (restructured): not judged")
		}
	}
}

// I3m: the multi-iterator's Reset restores what its steppers mutate. Next, NextValid and
// NextInvalid write the exhaustion flag and the per-operand offsets of the MultIterator itself
// (the stride blocks are rewound by their own Reset, rule I3); every path through
// (*MultIterator).Reset writes each of those fields, directly or through a helper of the
// receiver that does (helpers extracted from the steppers are followed one level).
func I3m(rc *RC) {
	rc.S.Declare("I3m", "multi-iterator reset: every path through MultIterator.Reset writes every field of the MultIterator that Next/NextValid/NextInvalid write (done, lastIndexArr), directly or through a helper method of the receiver", 1)
	helperWrites := func(tree []*ir.Node) map[string]bool {
		w := fieldsWritten(tree)
		for _, n := range flatten(tree) {
			for _, m := range regexp.MustCompile(`\$r\.([A-Za-z_]\w*)\(`).FindAllStringSubmatch(n.Head, -1) {
				if _, ht, _, ok := iCanonText(rc, "tensor.(*MultIterator)."+m[1]); ok {
					for f := range fieldsWritten(ht) {
						w[f] = true
					}
				}
			}
		}
		return w
	}
	mod := map[string]bool{}
	for _, s := range []string{"Next", "NextValid", "NextInvalid"} {
		_, tree, _, ok := iCanonText(rc, "tensor.(*MultIterator)."+s)
		if !ok {
			rc.S.Undec("I3m", "tensor.(*MultIterator)."+s, "-", "unresolved anchor")
			return
		}
		for f := range helperWrites(tree) {
			mod[f] = true
		}
	}
	var req []string
	for f := range mod {
		req = append(req, f)
	}
	sort.Strings(req)
	key := "tensor.(*MultIterator).Reset"
	_, tree, pos, ok := iCanonText(rc, key)
	if !ok {
		rc.S.Undec("I3m", key, "-", "unresolved anchor")
		return
	}
	paths, okp := ir.EnumPaths(tree, 256)
	if !okp {
		rc.S.Undec("I3m", key, pos, "too many paths")
		return
	}
	var bad []string
	for _, p := range paths {
		w := helperWrites(p.Steps)
		for _, f := range req {
			if !w[f] {
				bad = append(bad, fmt.Sprintf("field %s is not restored on the path [%s]", f, strings.Join(p.Guards, " && ")))
			}
		}
	}
	if len(req) == 0 {
		rc.S.Undec("I3m", key, pos, "the steppers write no field of the multi-iterator")
	} else if len(bad) > 0 {
		sort.Strings(bad)
		rc.S.Viol("I3m", key, pos, strings.Join(uniq(bad), "; ")).Sig = strings.Join(uniq(bad), "; ")
	} else {
		rc.S.Ok("I3m", key, pos, fmt.Sprintf("%d paths restore %v", len(paths), req))
	}
}

// I14: direction first, then rewind. Reset positions the iterator for the direction it finds in
// the reverse flag (first offset and coordinate 0 going forward, last offset and coordinate
// shape-1 going backward). A method that changes the direction and rewinds must therefore write
// the flag BEFORE it calls Reset: in the other order the iterator is positioned for the old
// direction and walks off its end at the first step.
func I14(rc *RC) {
	rc.S.Declare("I14", "direction before rewind: in every iterator method that assigns the reverse flag and calls Reset on the same receiver, the assignment precedes the call on every path, and no path writes the flag without rewinding", 2)
	for _, fi := range rc.P.SortedFuncs() {
		if fi.Pkg != rc.P.Root || fi.Decl == nil || fi.Decl.Body == nil || fi.Decl.Recv == nil || !strings.Contains(fi.Key, "Iterator)") || strings.HasSuffix(fi.File, "_test.go") {
			continue
		}
		_, tree := sCanon(rc, fi)
		txt := ir.Render(tree)
		if !strings.Contains(txt, "$r.reverse = ") || !strings.Contains(txt, "$r.Reset()") {
			continue
		}
		pos := rc.P.Pos(fi.Decl.Pos())
		paths, ok := ir.EnumPaths(tree, 500)
		if !ok {
			rc.S.Undec("I14", fi.Key, pos, "too many paths")
			continue
		}
		bad := ""
		for _, p := range paths {
			set := false
			for _, st := range p.Steps {
				if (st.Kind == "store" || st.Kind == "let") && st.Target == "$r.reverse" {
					set = true
				}
				if strings.Contains(st.Head, "$r.Reset()") && !set {
					// is the flag written later on this path?
					later := false
					for _, st2 := range p.Steps {
						if (st2.Kind == "store" || st2.Kind == "let") && st2.Target == "$r.reverse" {
							later = true
						}
					}
					if later {
						bad = fmt.Sprintf("on the path [%s] Reset() runs before the direction flag is written", strings.Join(p.Guards, " && "))
					}
				}
			}
		}
		// every path that changes the direction also rewinds: the exhausted flag, the offset
		// and the coordinate all belong to the old direction (a path that writes the flag and
		// leaves without Reset keeps an iterator that reports exhaustion at once, or walks from
		// the wrong end)
		if bad == "" {
			for _, p := range paths {
				if p.Exit == "panic" {
					continue
				}
				set, reset := false, false
				for _, st := range p.Steps {
					if (st.Kind == "store" || st.Kind == "let") && st.Target == "$r.reverse" {
						set = true
					}
					if strings.Contains(st.Head, "$r.Reset()") || (st.Kind == "defer" && strings.Contains(ir.Render([]*ir.Node{st}), "$r.Reset()")) {
						reset = true
					}
				}
				if set && !reset {
					bad = fmt.Sprintf("on the path [%s] the direction flag is written and the method leaves without Reset(): exhaustion flag, offset and coordinate still belong to the old direction", strings.Join(p.Guards, " && "))
				}
			}
		}
		if bad != "" {
			rc.S.Viol("I14", fi.Key, pos, bad)
		} else {
			rc.S.Ok("I14", fi.Key, pos, "the direction is written before the iterator is rewound, and every path that writes it rewinds")
		}
	}
}

// i13Form: the forward primitive still has the statement skeleton of its anchor (rule I13). The
// mirror maps of I6/I6b/I6c are written for that form; when the whole family has been rewritten
// in another form (inverted carry test, temporaries dropped) the maps do not apply and the
// mirror rules abstain instead of reporting the rewrite as a one-sided edit.
func i13Form(rc *RC, key string) bool {
	got, _, _, ok := iCanonText(rc, key)
	return ok && sameSkeleton(got, i13Anchors[key])
}
