package rules

import (
	"fmt"
	"strings"

	"tcheck/ir"
)

// O10: ownership of scalar buffers. scalarToHeader wraps a scalar operand in a header: a Go
// value is copied into a buffer borrowed from the scalar byte pool (newAlloc = true); a
// scalar *tensor* (a Memory) is aliased, not copied (newAlloc = false). freeScalar zeroes the
// buffer and puts it into the pool, so it may only be reached when the buffer was borrowed:
// every call of freeScalar lies under a branch on the newAlloc flag that the same function
// received from scalarToHeader / prepDataVS / prepDataSV. Otherwise a live scalar tensor is
// zeroed and its storage recycled under it.
func O10(rc *RC, floor int) {
	rc.S.Declare("O10", "scalar-buffer ownership: every call of freeScalar is guarded by the newAlloc flag returned by scalarToHeader/prepDataVS/prepDataSV in the same function (a scalar operand that is a tensor is aliased, never pooled)", floor)
	flagPos := map[string]int{"prepDataVS(": 6, "prepDataSV(": 6, "scalarToHeader(": 1}
	for _, fi := range rc.P.SortedFuncs() {
		if fi.Pkg != rc.P.Root || fi.Decl.Body == nil || strings.HasSuffix(fi.File, "_test.go") || fi.Key == "tensor.freeScalar" {
			continue
		}
		_, tree := sCanon(rc, fi)
		if !strings.Contains(ir.Render(tree), "freeScalar(") {
			continue
		}
		pos := rc.P.Pos(fi.Decl.Pos())
		flags := map[string]bool{}
		for _, n := range flatten(tree) {
			if n.Kind != "tuple" {
				continue
			}
			for callee, idx := range flagPos {
				if strings.HasPrefix(n.Value, callee) && len(n.Targets) > idx {
					flags[n.Targets[idx]] = true
				}
			}
		}
		count := 0
		var walk func(ns []*ir.Node, g []*ir.BExpr)
		walk = func(ns []*ir.Node, g []*ir.BExpr) {
			for _, n := range ns {
				switch n.Kind {
				case "if":
					h := ir.ParseBool(n.Head)
					walk(n.Kids, append(append([]*ir.BExpr{}, g...), h))
					walk(n.Else, append(append([]*ir.BExpr{}, g...), ir.BNot(h)))
					continue
				case "loop", "range", "switch", "case":
					walk(n.Kids, g)
					continue
				}
				if !strings.Contains(n.Head, "freeScalar(") {
					continue
				}
				count++
				key := fmt.Sprintf("%s#freeScalar%d", fi.Key, count)
				ok := false
				for f := range flags {
					if ir.Implies(g, ir.BAtom(f)) {
						ok = true
					}
				}
				var gs []string
				for _, x := range g {
					gs = append(gs, x.String())
				}
				switch {
				case ok:
					rc.S.Ok("O10", key, rc.P.Pos(n.Pos), "under the newAlloc flag")
				case len(flags) == 0:
					rc.S.Viol("O10", key, rc.P.Pos(n.Pos), fmt.Sprintf("%s (in %s at %s) frees a scalar buffer but the function never receives an ownership flag from scalarToHeader/prepDataVS/prepDataSV", n.Head, fi.Key, pos)).Sig = "no flag"
				default:
					rc.S.Viol("O10", key, rc.P.Pos(n.Pos), fmt.Sprintf("%s is reached under [%s], which does not establish the newAlloc flag: a scalar operand that is a tensor is zeroed and its storage put into the scalar pool", n.Head, strings.Join(gs, " && "))).Sig = "unguarded"
				}
			}
		}
		walk(tree, nil)
	}
}
