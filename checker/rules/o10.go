package rules

import (
	"fmt"
	"go/types"
	"regexp"
	"sort"
	"strings"

	"golang.org/x/tools/go/ssa"

	"tcheck/ir"
)

// O10: ownership of scalar buffers. scalarToHeader wraps a scalar operand in a header: a Go
// value is copied into a buffer borrowed from the scalar byte pool (newAlloc = true); a
// scalar *tensor* (a Memory) is aliased, not copied (newAlloc = false). freeScalar zeroes the
// buffer and puts it into the pool, so it may only be reached when the buffer was borrowed:
// every call of freeScalar lies under a branch on the newAlloc flag that the same function
// received from scalarToHeader / prepDataVS / prepDataSV. Otherwise a live scalar tensor is
// zeroed and its storage recycled under it.
func O10(rc *RC, floor int) {
	rc.S.Declare("O10", "scalar-buffer ownership: every call of freeScalar is guarded by the newAlloc flag returned by scalarToHeader/prepDataVS/prepDataSV in the same function (a scalar operand that is a tensor is aliased, never pooled)", floor)
	flagPos := map[string]int{"prepDataVS(": 6, "prepDataSV(": 6, "scalarToHeader(": 1}
	for _, fi := range rc.P.AnalysisFuncs() {
		if fi.Pkg != rc.P.Root || fi.Decl.Body == nil || strings.HasSuffix(fi.File, "_test.go") || fi.Key == "tensor.freeScalar" {
			continue
		}
		_, tree := sCanon(rc, fi)
		if !strings.Contains(stripFuncLits(ir.Render(tree)), "freeScalar(") {
			continue
		}
		pos := rc.P.Pos(fi.Decl.Pos())
		flags := map[string]bool{}
		collect := func(tree []*ir.Node) {
			for _, n := range flatten(tree) {
				if n.Kind != "tuple" {
					continue
				}
				for callee, idx := range flagPos {
					if strings.HasPrefix(n.Value, callee) && len(n.Targets) > idx {
						flags[n.Targets[idx]] = true
					}
				}
			}
		}
		collect(tree)
		// a function literal (deferred cleanup) sees the flag its enclosing function received
		if i := strings.Index(fi.Key, "$"); i > 0 {
			if parent := rc.P.Func(fi.Key[:i]); parent != nil {
				_, pt := sCanon(rc, parent)
				collect(pt)
			}
		}
		count := 0
		var walk func(ns []*ir.Node, g []*ir.BExpr)
		walk = func(ns []*ir.Node, g []*ir.BExpr) {
			for _, n := range ns {
				switch n.Kind {
				case "if":
					h := ir.ParseBool(n.Head)
					walk(n.Kids, append(append([]*ir.BExpr{}, g...), h))
					walk(n.Else, append(append([]*ir.BExpr{}, g...), ir.BNot(h)))
					continue
				case "loop", "range", "switch", "case":
					walk(n.Kids, g)
					continue
				}
				if !strings.Contains(stripFuncLits(n.Head), "freeScalar(") {
					continue // (calls inside a function literal are judged in the literal's own unit)
				}
				count++
				key := fmt.Sprintf("%s#freeScalar%d", fi.Key, count)
				ok := false
				for f := range flags {
					if ir.Implies(g, ir.BAtom(f)) {
						ok = true
					}
				}
				var gs []string
				for _, x := range g {
					gs = append(gs, x.String())
				}
				switch {
				case ok:
					rc.S.Ok("O10", key, rc.P.Pos(n.Pos), "under the newAlloc flag")
				case len(flags) == 0:
					rc.S.Viol("O10", key, rc.P.Pos(n.Pos), fmt.Sprintf("%s (in %s at %s) frees a scalar buffer but the function never receives an ownership flag from scalarToHeader/prepDataVS/prepDataSV", n.Head, fi.Key, pos)).Sig = "no flag"
				default:
					rc.S.Viol("O10", key, rc.P.Pos(n.Pos), fmt.Sprintf("%s is reached under [%s], which does not establish the newAlloc flag: a scalar operand that is a tensor is zeroed and its storage put into the scalar pool", n.Head, strings.Join(gs, " && "))).Sig = "unguarded"
				}
			}
		}
		walk(tree, nil)
	}
}

// V2: storage extent of layout-preserving copies. copyDense(D, S) is a raw memcpy of S's
// whole backing array; when D was allocated in the same function its backing array must have
// S's *storage length* (len/Len/DataSize), not S's element count: a strided view has fewer
// elements than storage positions, and the copy adopts S's strides.
func V2(rc *RC, floor int) {
	rc.S.Declare("V2", "storage extent of raw copies: a destination allocated in the same function for copyDense(D, S) is allocated with S's storage length (S.len(), S.Len(), S.DataSize()), never with its element count", floor)
	for _, fi := range rc.P.AnalysisFuncs() {
		if fi.Pkg != rc.P.Root || fi.Decl.Body == nil || strings.HasSuffix(fi.File, "_test.go") || strings.HasPrefix(fi.File, "sparse") {
			continue
		}
		_, tree := sCanon(rc, fi)
		txt := ir.Render(tree)
		if !strings.Contains(txt, "copyDense(") {
			continue
		}
		nodes := flatten(tree)
		n := 0
		for i, nd := range nodes {
			j := strings.Index(nd.Head, "copyDense(")
			if j < 0 || nd.Kind == "if" || nd.Kind == "loop" || nd.Kind == "range" || nd.Kind == "switch" || nd.Kind == "case" {
				continue
			}
			args := splitArgs(nd.Head[j+len("copyDense(") : strings.LastIndex(nd.Head, ")")])
			if len(args) != 2 {
				continue
			}
			d, s := args[0], args[1]
			// the allocation of d in this function, if any (closest preceding)
			size := ""
			for k := i - 1; k >= 0; k-- {
				p := nodes[k]
				if (p.Kind == "let" || p.Kind == "store") && p.Target == d && strings.HasPrefix(p.Value, "recycledDense(") {
					a := splitArgs(p.Value[len("recycledDense("):strings.LastIndex(p.Value, ")")])
					if len(a) >= 2 && strings.HasPrefix(a[1], "tensor.Shape{") {
						size = strings.TrimSuffix(strings.TrimPrefix(a[1], "tensor.Shape{"), "}")
					}
					break
				}
				if strings.HasPrefix(p.Head, d+".makeArray(") {
					size = p.Head[len(d+".makeArray("):strings.LastIndex(p.Head, ")")]
					break
				}
			}
			if size == "" {
				continue // destination not allocated here (caller's tensor): rules LC/LG guard those
			}
			n++
			key := fmt.Sprintf("%s#copyDense%d", fi.Key, n)
			ok := size == s+".len()" || size == s+".Len()" || size == s+".DataSize()"
			if ok {
				rc.S.Ok("V2", key, rc.P.Pos(nd.Pos), "destination allocated with "+size)
			} else {
				rc.S.Viol("V2", key, rc.P.Pos(nd.Pos), fmt.Sprintf("%s is allocated with %s elements and then receives a raw copy of %s's whole backing array: the storage length of %s is %s.len() (a strided view has fewer elements than storage positions)", d, size, s, s, s)).Sig = "size " + size
			}
		}
	}
}

// O4: nobody recycles what it was handed. A metadata slice ([]int, Shape, []bool) received as
// a parameter belongs to the caller (it is usually the live shape or strides of a tensor);
// only the designated recyclers may put a parameter into the pool. For every function of the
// package - exported or not - the fixpoint summary "parameter i reaches ReturnInts/ReturnBools"
// must be empty, except for the recyclers themselves and the listed hand-over helpers.
var o4Recyclers = map[string]string{
	"tensor.ReturnInts":  "the recycler",
	"tensor.ReturnBools": "the recycler",
}

func O4(rc *RC, a *oAnalysis, floor int) {
	rc.S.Declare("O4", "no function returns a metadata slice it received as a parameter to the ints/bools pool (the slice is the caller's - typically a live tensor's shape); only the recyclers themselves do", floor)
	var fns []*ssa.Function
	for _, fn := range a.fns {
		fns = append(fns, fn)
	}
	sort.Slice(fns, func(i, j int) bool { return oFnKey(fns[i]) < oFnKey(fns[j]) })
	for _, fn := range fns {
		if fn.Parent() != nil || strings.HasPrefix(a.p.FileOf(fn.Pos()), "sparse") || strings.HasSuffix(a.p.FileOf(fn.Pos()), "_test.go") {
			continue
		}
		for pi, p := range fn.Params {
			if !isMetaSlice(p.Type()) {
				continue
			}
			key := fmt.Sprintf("%s(%s)", oFnKey(fn), p.Name())
			why, bad := a.poolRet[fn][pi]
			if !bad {
				rc.S.Ok("O4", key, a.p.Pos(fn.Pos()), "parameter is not recycled").Trivial = true
				continue
			}
			if r, ok := o4Recyclers[oFnKey(fn)]; ok {
				rc.S.Ok("O4", key, a.p.Pos(fn.Pos()), r)
				continue
			}
			rc.S.Viol("O4", key, a.p.Pos(fn.Pos()), fmt.Sprintf("%s puts its parameter %s into the pool (%s): the slice belongs to the caller", oFnKey(fn), p.Name(), why)).Sig = "recycles " + p.Name()
		}
	}
}

// O9: at most one release per object and path. returnOpOpt, ReturnInts, ReturnBools and
// returnHeader put their argument into a free list; releasing the same object twice on one
// path (a deferred release plus an explicit one on an early exit is the usual shape) hands it
// to two later borrowers at once. Per function and canonical path, explicit and deferred
// releases of the same variable are counted; an assignment to the variable in between starts
// a new object.
var o9Release = regexp.MustCompile(`^(?:defer )?(returnOpOpt|ReturnInts|ReturnBools|returnHeader|ReturnTensor)\((.*)\)$`)

func O9(rc *RC, floor int) {
	rc.S.Declare("O9", "single release: on every path of every function an object is handed to returnOpOpt / ReturnInts / ReturnBools / returnHeader / ReturnTensor at most once (explicit and deferred releases counted together)", floor)
	for _, fi := range rc.P.AnalysisFuncs() {
		if fi.Pkg != rc.P.Root || fi.Decl.Body == nil || strings.HasSuffix(fi.File, "_test.go") || strings.HasPrefix(fi.File, "sparse") || lcGenerated[fi.File] {
			continue // generated engine methods: rule M7 interprets their mode cases
		}
		_, tree := sCanon(rc, fi)
		txt := ir.Render(tree)
		if !strings.Contains(txt, "returnOpOpt(") && !strings.Contains(txt, "ReturnInts(") && !strings.Contains(txt, "ReturnBools(") && !strings.Contains(txt, "returnHeader(") && !strings.Contains(txt, "ReturnTensor(") {
			continue
		}
		pos := rc.P.Pos(fi.Decl.Pos())
		paths, ok := ir.EnumPaths(tree, 20000)
		if !ok {
			rc.S.Undec("O9", fi.Key, pos, "too many paths")
			continue
		}
		var bad []string
		sites := map[string]bool{}
		for _, p := range paths {
			count := map[string]int{}
			first := map[string]string{}
			var lin []*ir.Node
			for _, st := range p.Steps {
				lin = append(lin, st)
			}
			for _, st := range lin {
				// a variable that is assigned again names another object from here on
				forget := func(target string) {
					for k := range count {
						if strings.HasSuffix(k, "|"+target) {
							delete(count, k)
						}
					}
				}
				switch st.Kind {
				case "let", "store":
					forget(st.Target)
				case "tuple":
					for _, t := range st.Targets {
						forget(t)
					}
				}
				if st.Kind == "loop" || st.Kind == "range" || st.Kind == "switch" {
					continue // releases inside loops concern per-iteration objects
				}
				m := o9Release.FindStringSubmatch(st.Head)
				if m == nil {
					continue
				}
				arg := m[1] + "(" + m[2] + ")"
				sites[arg] = true
				v := m[2]
				for strings.HasPrefix(v, "[]int(") && strings.HasSuffix(v, ")") {
					v = v[len("[]int(") : len(v)-1]
				}
				k := m[1] + "|" + v
				count[k]++
				if count[k] == 1 {
					first[k] = rc.P.Pos(st.Pos)
				} else {
					bad = append(bad, fmt.Sprintf("%s is released by %s at %s and again at %s on the path [%s]", v, m[1], first[k], rc.P.Pos(st.Pos), strings.Join(p.Guards, " && ")))
				}
			}
		}
		if len(sites) == 0 {
			continue
		}
		if len(bad) > 0 {
			b := uniq(bad)
			rc.S.Viol("O9", fi.Key, pos, strings.Join(b, "; ")).Sig = fmt.Sprintf("%d double release(s)", len(b))
		} else {
			rc.S.Ok("O9", fi.Key, pos, fmt.Sprintf("%d release site(s), each object released at most once per path", len(sites)))
		}
	}
}

// O11: release-then-read. ReturnInts zeroes the slice it is handed before pooling it. A function
// that releases a slice owned by one of its objects (`ReturnInts(x.shape)`) and afterwards reads
// an []int parameter reads zeros whenever the caller passed that very slice
// (`t.Reshape(t.Shape()...)`, finding 73): on every path, every read of a slice parameter
// precedes the first release of a slice the function did not receive as that parameter.
func O11(rc *RC, floor int) {
	rc.S.Declare("O11", "release-then-read: on every path no []int parameter is read after a ReturnInts of a slice owned by one of the function's objects (the parameter may alias the released slice, which ReturnInts zeroes)", floor)
	for _, fi := range rc.P.SortedFuncs() {
		if fi.Pkg != rc.P.Root || fi.Decl.Body == nil || strings.HasSuffix(fi.File, "_test.go") || fi.Obj == nil {
			continue
		}
		var params []string
		sig := fi.Obj.Type().(*types.Signature)
		for i := 0; i < sig.Params().Len(); i++ {
			p := sig.Params().At(i)
			if isMetaSlice(p.Type()) && p.Name() != "" && p.Name() != "_" {
				params = append(params, "$"+p.Name())
			}
		}
		if len(params) == 0 {
			continue
		}
		_, tree := sCanon(rc, fi)
		rel := o11Releasers(rc)
		hostType := "Dense"
		if fi.Decl.Recv != nil && strings.Contains(fi.Key, "(*AP)") {
			hostType = "AP"
		}
		relCall := func(h string) string {
			for _, m := range o11Call.FindAllStringSubmatch(h, -1) {
				typ := "Dense"
				if m[1] == "r" {
					typ = hostType
				}
				if m[2] != "" {
					typ = "AP"
				}
				if rel[typ+"."+m[3]] {
					return "$" + m[1] + m[2] + "." + m[3] + "()"
				}
			}
			return ""
		}
		if txt := stripFuncLits(ir.Render(tree)); !strings.Contains(txt, "ReturnInts(") && relCall(txt) == "" {
			continue
		}
		pos := rc.P.Pos(fi.Decl.Pos())
		paths, ok := ir.EnumPaths(tree, 4000)
		if !ok {
			rc.S.Undec("O11", fi.Key, pos, "too many paths")
			continue
		}
		bad := ""
		for _, p := range paths {
			released := ""
			copied := map[string]bool{} // parameters re-bound to a private copy on this path
			for _, st := range p.Steps {
				h := stripFuncLits(st.Head)
				if (st.Kind == "store" || st.Kind == "let") && o11FreshCopy.MatchString(st.Value) {
					for _, prm := range params {
						if st.Target == prm && released == "" {
							copied[prm] = true
						}
					}
				}
				if released != "" && !o11OnlyInMessage(h) {
					for _, prm := range params {
						if copied[prm] {
							continue
						}
						if ir.HasWord(h, prm) {
							bad = fmt.Sprintf("on [%s] %s is read by `%s` after `%s`: if the caller passed the released slice itself, it has been zeroed", strings.Join(p.Guards, " && "), prm, clip(h, 80), released)
						}
					}
				}
				// a method of the tensor / its access pattern that gives slices of the object back to
				// the pool (Transpose drops the saved pattern, UT and zero likewise) releases too
				if released == "" && st.Kind != "defer" {
					if rc := relCall(h); rc != "" {
						released = clip(h, 60) + " (which returns slices of the object to the pool)"
						continue
					}
				}
				if i := strings.Index(h, "ReturnInts("); i >= 0 && released == "" {
					arg := h[i+len("ReturnInts("):]
					if j := strings.Index(arg, ")"); j >= 0 {
						arg = arg[:j]
					}
					isParam := false
					for _, prm := range params {
						if arg == prm {
							isParam = true
						}
					}
					if !isParam && (strings.HasPrefix(arg, "$") || strings.Contains(arg, ".")) {
						released = clip(h, 60)
					}
				}
			}
			if bad != "" {
				break
			}
		}
		if why, ok := o11Except[fi.Key]; ok && bad != "" {
			rc.S.Except("O11 "+fi.Key, why)
			rc.S.Ok("O11", fi.Key, pos, "exception: "+why)
			continue
		}
		if bad != "" {
			rc.S.Viol("O11", fi.Key, pos, bad).Sig = "read after release"
		} else {
			rc.S.Ok("O11", fi.Key, pos, fmt.Sprintf("%d paths: parameters %v are read before any release", len(paths), params))
		}
	}
}

// AL: append aliasing. `a = append(b, xs...)` may write into b's backing array and return a
// slice over it. That is harmless until b is emptied and refilled (`b = b[:0]` … `append(b, …)`)
// while a is still read: the refill overwrites a's elements (finding 68: TensorMul built the
// first operand's permutation that way and then reused the scratch slice for the second).
var alAppend = regexp.MustCompile(`^(%\w+) = append\((%\w+), `)

func AL(rc *RC, floor int) {
	rc.S.Declare("AL", "append aliasing: a slice built as append(b, …) of another local b is not read after b has been emptied (b = b[:0]) and appended to again", floor)
	for _, fi := range rc.P.AnalysisFuncs() {
		if fi.Pkg != rc.P.Root || fi.Decl.Body == nil || strings.HasSuffix(fi.File, "_test.go") || lcGenerated[fi.File] {
			continue
		}
		c := ir.NewCanon(rc.P.Fset, fi.Pkg.TypesInfo, ir.Options{ParamNames: true, KeepNames: true, NoSubst: true})
		nodes := flatten(c.Func(fi.Decl))
		n := 0
		for i, nd := range nodes {
			if nd.Kind != "let" {
				continue
			}
			m := alAppend.FindStringSubmatch(stripFuncLits(nd.Head))
			if m == nil || m[1] == m[2] {
				continue
			}
			a, b := m[1], m[2]
			n++
			key := fmt.Sprintf("%s#append%d", fi.Key, n)
			pos := rc.P.Pos(nd.Pos)
			emptied, refilled, bad := false, false, ""
			for _, later := range nodes[i+1:] {
				h := stripFuncLits(later.Head)
				if later.Kind == "let" && later.Target == a && !strings.Contains(later.Value, a) {
					break // a is rebuilt: the alias is gone
				}
				if later.Kind == "let" && later.Target == b && later.Value == b+"[:0]" {
					emptied = true
					continue
				}
				if emptied && strings.Contains(h, "append("+b+",") {
					refilled = true
					continue
				}
				if refilled && ir.HasWord(h, a) {
					bad = fmt.Sprintf("%s = append(%s, …) shares %s's backing array; %s is emptied and appended to again, and %s is still read by `%s`: its elements have been overwritten", a, b, b, b, a, clip(h, 80))
					break
				}
			}
			if bad != "" {
				rc.S.Viol("AL", key, pos, bad).Sig = "stale alias"
			} else {
				rc.S.Ok("AL", key, pos, a+" is not read after "+b+" is refilled")
			}
		}
	}
}

// O12: the scratch header of a scalar operand never aliases the operand. The kernels compute
// INTO the header when both sides have one element (and the generated methods then copy the
// result where it belongs), so a header that points at the memory of a scalar held in a tensor
// turns an operand into a destination: Add(scalarTensor, [3], UseUnsafe()) left 13 in the
// scalar (finding 84). Every path of scalarToHeader therefore hands out a buffer taken from the
// scalar pool (allocScalar / scalarPool(..).Get()), with the newAlloc flag set so that it is
// returned; storage.FromMemory(..) may only be the source of a copy.
func O12(rc *RC) {
	rc.S.Declare("O12", "scalar scratch headers own their buffer: on every path of scalarToHeader the header's Raw is a buffer from the scalar pool and newAlloc is true (memory of a scalar tensor is copied, never aliased)", 1)
	fi := anchor(rc, "O12", "tensor.scalarToHeader")
	if fi == nil {
		return
	}
	pos := rc.P.Pos(fi.Decl.Pos())
	c := ir.NewCanon(rc.P.Fset, fi.Pkg.TypesInfo, ir.Options{ParamNames: true, KeepNames: true, NoSubst: true})
	tree := c.Func(fi.Decl)
	paths, ok := ir.EnumPaths(tree, 500)
	if !ok {
		rc.S.Undec("O12", fi.Key, pos, "too many paths")
		return
	}
	pooled := regexp.MustCompile(`^(allocScalar\(|scalarPool\(.*\)\.Get\(\))`)
	var bad []string
	n := 0
	for _, p := range paths {
		if p.Exit == "panic" {
			continue
		}
		n++
		def := map[string]string{}
		raw := ""
		flag := ""
		for _, st := range p.Steps {
			if st.Kind == "store" || st.Kind == "let" {
				def[st.Target] = st.Value
				if strings.HasSuffix(st.Target, ".Raw") {
					raw = st.Value
				}
				if st.Target == "$ret1" {
					flag = st.Value
				}
			}
		}
		if p.Exit == "return" && strings.TrimSpace(p.Ret) != "" {
			parts := splitTopLevel(p.Ret)
			if len(parts) == 2 {
				flag = strings.TrimSpace(parts[1])
			}
		}
		// resolve the Raw value through local definitions
		src := raw
		for i := 0; i < 4; i++ {
			if d, isLocal := def[src]; isLocal {
				src = d
			} else {
				break
			}
		}
		switch {
		case raw == "":
			bad = append(bad, fmt.Sprintf("the path [%s] hands out a header without a buffer", strings.Join(p.Guards, " && ")))
		case !pooled.MatchString(src):
			bad = append(bad, fmt.Sprintf("on the path [%s] the header's Raw is %s, which is not a buffer from the scalar pool (the operand's own memory would be written by the kernels)", strings.Join(p.Guards, " && "), src))
		case flag != "true" && def[flag] != "true":
			bad = append(bad, fmt.Sprintf("on the path [%s] the pooled buffer is handed out with newAlloc = %q: it would never be returned", strings.Join(p.Guards, " && "), flag))
		}
	}
	if len(bad) > 0 {
		rc.S.Viol("O12", fi.Key, pos, strings.Join(uniq(bad), "; ")).Sig = fmt.Sprintf("%d aliasing path(s)", len(uniq(bad)))
	} else {
		rc.S.Ok("O12", fi.Key, pos, fmt.Sprintf("%d paths, each with a pooled buffer and newAlloc = true", n))
	}
}

var o11RelCache = map[*RC]map[string]bool{}

// $x.M( or $x.AP.M( / $x.old.M(
var o11Call = regexp.MustCompile(`\$([A-Za-z_]\w*)(\.(?:AP|old))?\.([A-Za-z_]\w*)\(`)

// o11Releasers: names of methods of Dense / AP that hand a slice owned by their receiver to
// ReturnInts, directly or through another such method of the receiver.
func o11Releasers(rc *RC) map[string]bool {
	if m, ok := o11RelCache[rc]; ok {
		return m
	}
	rel := map[string]bool{}
	type mt struct{ name, text string }
	var ms []mt
	for _, fi := range rc.P.SortedFuncs() {
		if fi.Pkg != rc.P.Root || fi.Decl == nil || fi.Decl.Body == nil || fi.Decl.Recv == nil || strings.HasSuffix(fi.File, "_test.go") {
			continue
		}
		sig := fi.Obj.Type().(*types.Signature)
		ptr, isPtr := sig.Recv().Type().(*types.Pointer)
		if !isPtr {
			continue
		}
		if named, isNamed := ptr.Elem().(*types.Named); !isNamed || !map[string]bool{"Dense": true, "AP": true}[named.Obj().Name()] {
			continue
		}
		c := ir.NewCanon(rc.P.Fset, fi.Pkg.TypesInfo, ir.Options{ParamNames: true, KeepNames: true, NoSubst: true})
		named := ptr.Elem().(*types.Named)
		ms = append(ms, mt{named.Obj().Name() + "." + fi.Obj.Name(), ir.Render(c.Func(fi.Decl))})
	}
	for _, x := range ms {
		if strings.Contains(x.text, "ReturnInts($r.") {
			rel[x.name] = true
		}
	}
	for changed := true; changed; {
		changed = false
		for _, x := range ms {
			if rel[x.name] {
				continue
			}
			own := x.name[:strings.Index(x.name, ".")]
			for _, c := range o11Call.FindAllStringSubmatch(x.text, -1) {
				if c[1] != "r" {
					continue
				}
				typ := own
				if c[2] != "" {
					typ = "AP" // $r.AP.M(), $r.old.M()
				}
				if rel[typ+"."+c[3]] {
					rel[x.name] = true
					changed = true
					break
				}
			}
		}
	}
	o11RelCache = map[*RC]map[string]bool{rc: rel}
	return rel
}

// o11OnlyInMessage: the statement only builds an error value (the parameter is formatted into a
// message, not used to compute anything).
func o11OnlyInMessage(h string) bool {
	h = strings.TrimSpace(h)
	return regexp.MustCompile(`^(\$ret\d+|%\w+) = errors\.\w+\(`).MatchString(h) || strings.HasPrefix(h, "return errors.") || regexp.MustCompile(`^return [^(]*, errors\.`).MatchString(h)
}

var o11Except = map[string]string{
	"tensor.(*Dense).T": "the slices Transpose() releases are the saved shape and strides of a tensor with a pending transpose (every extent >= 1, strides of a non-scalar), the parameter is a permutation of 0..rank-1, which contains 0: for rank >= 2 the two cannot be one slice (the saved permutation itself is a private copy since finding 8 and is not pooled by Transpose)",
}

// o11FreshCopy: the value is a private copy of a slice (append to a nil/empty slice, Clone()).
var o11FreshCopy = regexp.MustCompile(`^append\(\[\]int\((nil)?\)?(\{\})?, |^append\(\[\]int\{\}, |\.Clone\(\)$|^tensor\.Shape\(.*\)\.Clone\(\)$`)
