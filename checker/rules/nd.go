package rules

import (
	"regexp"
	"strings"

	"tcheck/ir"
)

// ND: fresh destinations of the generated engine methods. In safe mode without a reuse tensor
// the comparison and min/max methods allocate their result themselves, shaped like an operand
// P, and - when no operand requires an iterator - hand it to a kernel that walks the storage of
// operands and result position by position. The result therefore has to take P's data order:
// a row-major result filled in the storage order of column-major operands holds every element
// at the wrong coordinate (finding 59). Every allocation `NewDense(…, P.Shape()…, …)` in these
// methods must carry an option built from `P.DataOrder()` (arithmetic and unary methods clone
// the operand instead, which V1 covers).
var ndAlloc = regexp.MustCompile(`\b(NewDense|recycledDense|New)\(`)
var ndShapeOf = regexp.MustCompile(`([$%][\w.]+)\.Shape\(\)`)

func ND(rc *RC, floor int) {
	rc.S.Declare("ND", "a result tensor that a generated engine method allocates in the shape of an operand takes that operand's data order (the raw kernels fill it in the operand's storage order)", floor)
	for _, fi := range rc.P.SortedFuncs() {
		if fi.Pkg != rc.P.Root || fi.Decl.Body == nil || !strings.HasPrefix(fi.File, "defaultengine_") || !lcGenerated[fi.File] {
			continue
		}
		_, tree := sCanon(rc, fi)
		n := 0
		for _, st := range flatten(tree) {
			if st.Kind == "if" || st.Kind == "loop" || st.Kind == "range" || st.Kind == "switch" || st.Kind == "case" {
				continue
			}
			h := stripFuncLits(st.Head)
			if !ndAlloc.MatchString(h) {
				continue
			}
			m := ndShapeOf.FindStringSubmatch(h)
			if m == nil {
				continue
			}
			n++
			key := fi.Key + "#alloc" + itoa(n)
			if strings.Contains(h, m[1]+".DataOrder()") {
				rc.S.Ok("ND", key, rc.P.Pos(st.Pos), "allocated with the data order of "+m[1])
			} else {
				rc.S.Viol("ND", key, rc.P.Pos(st.Pos), "`"+clip(h, 140)+"`: the result is shaped like "+m[1]+" but does not take its data order; for column-major operands the raw kernel fills a row-major result in column-major storage order").Sig = "default order"
			}
		}
	}
}

func clip(s string, n int) string {
	if len(s) > n {
		return s[:n] + "…"
	}
	return s
}

var _ = ir.HasWord
