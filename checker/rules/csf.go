package rules

import (
	"fmt"
	"go/token"
	"go/types"
	"strings"

	"golang.org/x/tools/go/ssa"
)

// CSF: the clone of a sparse matrix owns every reference-typed field. (*CS).Clone builds its
// result field by field; a slice field (the shape, the index tables) assigned straight from the
// receiver's field leaves two live matrices on one slice - (*CS).T swaps the shape in place, so
// transposing the clone would change the original (seed RDC19b). Decided on SSA: no store into a
// field of the object under construction carries a slice (or the storage struct) loaded from a
// field of the receiver, directly or through a re-slice, a conversion or a phi.
func CSF(rc *RC) {
	rc.S.Declare("CSF", "sparse clone freshness: in (*CS).Clone no slice-typed or storage field of the result is assigned a value loaded from the receiver's fields (every one is a Clone(), a make+copy or a fresh array)", 1)
	key := "tensor.(*CS).Clone"
	fi := anchor(rc, "CSF", key)
	if fi == nil {
		return
	}
	p := rc.P
	p.SSA()
	fn := p.SSAFunc(fi)
	pos := p.Pos(fi.Decl.Pos())
	if fn == nil {
		rc.S.Undec("CSF", key, pos, "no SSA body")
		return
	}
	refTyped := func(t types.Type) bool {
		switch t.Underlying().(type) {
		case *types.Slice, *types.Map:
			return true
		}
		if n, ok := t.(*types.Named); ok && n.Obj().Name() == "array" {
			return true // the storage struct: a header over the element memory
		}
		return false
	}
	var fromRecv func(v ssa.Value, depth int) (string, bool)
	fromRecv = func(v ssa.Value, depth int) (string, bool) {
		if depth > 8 {
			return "", false
		}
		switch x := v.(type) {
		case *ssa.UnOp:
			if x.Op == token.MUL {
				if fa, ok := x.X.(*ssa.FieldAddr); ok {
					if _, isParam := baseObject(fa).(*ssa.Parameter); isParam {
						return fieldNameOf(fa), true
					}
				}
			}
		case *ssa.Slice:
			return fromRecv(x.X, depth+1)
		case *ssa.ChangeType:
			return fromRecv(x.X, depth+1)
		case *ssa.Convert:
			return fromRecv(x.X, depth+1)
		case *ssa.Phi:
			for _, e := range x.Edges {
				if n, ok := fromRecv(e, depth+1); ok {
					return n, true
				}
			}
		case *ssa.Call:
			// accessor methods that hand out the receiver's own slice
			if f := x.Common().StaticCallee(); f != nil && len(x.Common().Args) == 1 {
				if _, isParam := x.Common().Args[0].(*ssa.Parameter); isParam {
					switch f.Name() {
					case "Shape", "Indices", "Indptr", "arr":
						return f.Name() + "()", true
					}
				}
			}
		}
		return "", false
	}
	n := 0
	var bad []string
	for _, b := range fn.Blocks {
		for _, ins := range b.Instrs {
			st, ok := ins.(*ssa.Store)
			if !ok {
				continue
			}
			fa, ok := st.Addr.(*ssa.FieldAddr)
			if !ok {
				continue
			}
			if _, isParam := baseObject(fa).(*ssa.Parameter); isParam {
				continue
			}
			if !refTyped(st.Val.Type()) {
				continue
			}
			n++
			if src, shared := fromRecv(st.Val, 0); shared {
				bad = append(bad, fmt.Sprintf("the clone's %s is assigned the receiver's %s at %s: clone and original share it (an in-place change of one, such as T swapping the shape, changes the other)", fieldNameOf(fa), src, p.Pos(st.Pos())))
			}
		}
	}
	switch {
	case len(bad) > 0:
		rc.S.Viol("CSF", key, pos, strings.Join(uniq(bad), "; ")).Sig = "shared field"
	case n == 0:
		rc.S.Ok("CSF", key, pos, "no reference-typed field is stored by this function (another form): not judged")
	default:
		rc.S.Ok("CSF", key, pos, fmt.Sprintf("%d reference-typed field store(s), none from the receiver's fields", n))
	}
}

func fieldNameOf(fa *ssa.FieldAddr) string {
	if pt, ok := fa.X.Type().Underlying().(*types.Pointer); ok {
		if st, ok := pt.Elem().Underlying().(*types.Struct); ok {
			return st.Field(fa.Field).Name()
		}
	}
	return "?"
}
