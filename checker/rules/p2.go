package rules

import (
	"fmt"
	"go/constant"
	"go/token"
	"go/types"
	"sort"
	"strings"

	"golang.org/x/tools/go/ssa"
)

// P2: operand immutability of the hand-written operations. A fixpoint over all functions of
// the package computes mut(f) = the parameters (receiver included) whose object f may write:
// a store into a field/element reachable from the parameter, or a call that passes the
// parameter to a callee's mutated position (interface calls resolve to the module's
// implementing types). Exported operations whose contract is read-only on an operand must
// not have that operand in mut.

type p2Analysis struct {
	a   *oAnalysis
	mut map[*ssa.Function]map[int]string
	// fields: the set of fields (Type.field) written through the parameter, transitively
	fields map[*ssa.Function]map[int]map[string]bool
	// blocks: where (in which basic blocks of f) parameter i is written or handed to a writer
	blocks map[*ssa.Function]map[int]map[*ssa.BasicBlock]bool
}

func (pa *p2Analysis) addBlock(f *ssa.Function, i int, b *ssa.BasicBlock) bool {
	if pa.blocks[f] == nil {
		pa.blocks[f] = map[int]map[*ssa.BasicBlock]bool{}
	}
	if pa.blocks[f][i] == nil {
		pa.blocks[f][i] = map[*ssa.BasicBlock]bool{}
	}
	if pa.blocks[f][i][b] {
		return false
	}
	pa.blocks[f][i][b] = true
	return true
}

// deadUnder: the blocks of g that cannot execute when its bool parameter k has the value v
// (only branches whose condition is that parameter itself, or its negation, are followed).
func deadUnder(g *ssa.Function, k int, v bool) map[*ssa.BasicBlock]bool {
	if len(g.Blocks) == 0 || k >= len(g.Params) {
		return nil
	}
	par := g.Params[k]
	reach := map[*ssa.BasicBlock]bool{g.Blocks[0]: true}
	work := []*ssa.BasicBlock{g.Blocks[0]}
	for len(work) > 0 {
		b := work[len(work)-1]
		work = work[:len(work)-1]
		succs := b.Succs
		if len(b.Instrs) > 0 {
			if iff, ok := b.Instrs[len(b.Instrs)-1].(*ssa.If); ok && len(b.Succs) == 2 {
				cond, neg := iff.Cond, false
				if u, ok := cond.(*ssa.UnOp); ok && u.Op == token.NOT {
					cond, neg = u.X, true
				}
				if cond == ssa.Value(par) {
					val := v != neg
					if val {
						succs = b.Succs[:1]
					} else {
						succs = b.Succs[1:]
					}
				}
			}
		}
		for _, s := range succs {
			if !reach[s] {
				reach[s] = true
				work = append(work, s)
			}
		}
	}
	dead := map[*ssa.BasicBlock]bool{}
	for _, b := range g.Blocks {
		if !reach[b] {
			dead[b] = true
		}
	}
	return dead
}

// excludedByConst: the call passes a constant for a bool parameter of g under which every
// block of g that writes parameter j is unreachable.
func (pa *p2Analysis) excludedByConst(g *ssa.Function, j int, args []ssa.Value) bool {
	bl := pa.blocks[g][j]
	if len(bl) == 0 {
		return false
	}
	for k, a := range args {
		c, ok := a.(*ssa.Const)
		if !ok || k >= len(g.Params) {
			continue
		}
		if bt, ok := g.Params[k].Type().Underlying().(*types.Basic); !ok || bt.Kind() != types.Bool {
			continue
		}
		if c.Value == nil {
			continue
		}
		v := constant.BoolVal(c.Value)
		dead := deadUnder(g, k, v)
		all := true
		for b := range bl {
			if !dead[b] {
				all = false
				break
			}
		}
		if all {
			return true
		}
	}
	return false
}

func fieldName(addr ssa.Value) string {
	switch x := addr.(type) {
	case *ssa.FieldAddr:
		st := x.X.Type().Underlying().(*types.Pointer).Elem()
		name := types.TypeString(st, func(p *types.Package) string { return "" })
		return name + "." + st.Underlying().(*types.Struct).Field(x.Field).Name()
	case *ssa.IndexAddr:
		return fieldName(x.X) + "[]"
	case *ssa.UnOp:
		return fieldName(x.X)
	}
	return "elem"
}

func (pa *p2Analysis) addField(f *ssa.Function, i int, name string) bool {
	if pa.fields[f] == nil {
		pa.fields[f] = map[int]map[string]bool{}
	}
	if pa.fields[f][i] == nil {
		pa.fields[f][i] = map[string]bool{}
	}
	if pa.fields[f][i][name] {
		return false
	}
	pa.fields[f][i][name] = true
	return true
}

func isTensorish(t types.Type) bool {
	if p, ok := t.(*types.Pointer); ok {
		t = p.Elem()
	}
	if sl, ok := t.(*types.Slice); ok {
		return isTensorish(sl.Elem())
	}
	n, ok := t.(*types.Named)
	if !ok {
		return false
	}
	switch n.Obj().Name() {
	case "Dense", "Tensor", "DenseTensor", "MaskedTensor", "View", "AP", "array":
		return true
	}
	return false
}

// rootParams: the parameters of fn that v may denote (or point into).
func (pa *p2Analysis) rootParams(v ssa.Value, fn *ssa.Function, seen map[ssa.Value]bool, out map[int]bool) {
	if v == nil || seen[v] || len(seen) > 200 {
		return
	}
	seen[v] = true
	switch x := v.(type) {
	case *ssa.Parameter:
		if x.Parent() == fn {
			out[oParamIndex(fn, x)] = true
		}
	case *ssa.FieldAddr:
		pa.rootParams(x.X, fn, seen, out)
	case *ssa.IndexAddr:
		pa.rootParams(x.X, fn, seen, out)
	case *ssa.TypeAssert:
		pa.rootParams(x.X, fn, seen, out)
	case *ssa.ChangeInterface:
		pa.rootParams(x.X, fn, seen, out)
	case *ssa.MakeInterface:
		pa.rootParams(x.X, fn, seen, out)
	case *ssa.ChangeType:
		pa.rootParams(x.X, fn, seen, out)
	case *ssa.Extract:
		if ta, ok := x.Tuple.(*ssa.TypeAssert); ok {
			pa.rootParams(ta.X, fn, seen, out)
		}
		if c, ok := x.Tuple.(*ssa.Call); ok {
			pa.callRoots(c, x.Index, fn, seen, out)
		}
	case *ssa.Call:
		pa.callRoots(x, 0, fn, seen, out)
	case *ssa.Phi:
		for _, e := range x.Edges {
			pa.rootParams(e, fn, seen, out)
		}
	case *ssa.UnOp:
		if al, ok := x.X.(*ssa.Alloc); ok {
			for _, r := range *al.Referrers() {
				if s, ok := r.(*ssa.Store); ok && s.Addr == al {
					pa.rootParams(s.Val, fn, seen, out)
				}
			}
			return
		}
		// load of a pointer field keeps the object (t.AP is embedded; viewOf etc. are not objects)
		if fa, ok := x.X.(*ssa.FieldAddr); ok && isTensorish(x.Type()) {
			pa.rootParams(fa.X, fn, seen, out)
		}
		// element of a slice of tensors: the slice stands for all its elements
		if ia, ok := x.X.(*ssa.IndexAddr); ok {
			pa.sliceRoots(ia.X, fn, seen, out)
		}
	case *ssa.Slice:
		pa.rootParams(x.X, fn, seen, out)
	}
}

// sliceRoots: parameters whose elements a slice value may hold (a parameter slice itself, or a
// local slice filled from parameters by element stores or copy()).
func (pa *p2Analysis) sliceRoots(v ssa.Value, fn *ssa.Function, seen map[ssa.Value]bool, out map[int]bool) {
	if v == nil || seen[v] {
		return
	}
	seen[v] = true
	switch x := v.(type) {
	case *ssa.Parameter:
		if x.Parent() == fn {
			out[oParamIndex(fn, x)] = true
		}
	case *ssa.Slice:
		pa.sliceRoots(x.X, fn, seen, out)
	case *ssa.Phi:
		for _, e := range x.Edges {
			pa.sliceRoots(e, fn, seen, out)
		}
	case *ssa.Call:
		if f := x.Common().StaticCallee(); f != nil && (f.Name() == "tensorsToDenseTensors") && len(x.Common().Args) > 0 {
			pa.sliceRoots(x.Common().Args[0], fn, seen, out)
		}
	case *ssa.Extract:
		if c, ok := x.Tuple.(*ssa.Call); ok {
			pa.sliceRoots(c, fn, seen, out)
		}
	case *ssa.UnOp:
		if al, ok := x.X.(*ssa.Alloc); ok {
			for _, r := range *al.Referrers() {
				if s, ok := r.(*ssa.Store); ok && s.Addr == al {
					pa.sliceRoots(s.Val, fn, seen, out)
				}
			}
		}
	case *ssa.MakeSlice:
		// who writes into this slice?
		for _, r := range *x.Referrers() {
			switch y := r.(type) {
			case *ssa.IndexAddr:
				for _, rr := range *y.Referrers() {
					if st, ok := rr.(*ssa.Store); ok && st.Addr == y {
						pa.rootParams(st.Val, fn, seen, out)
					}
				}
			case *ssa.Slice:
				for _, rr := range *y.Referrers() {
					if c, ok := rr.(*ssa.Call); ok {
						if b, ok := c.Common().Value.(*ssa.Builtin); ok && b.Name() == "copy" && c.Common().Args[0] == y {
							pa.sliceRoots(c.Common().Args[1], fn, seen, out)
						}
					}
				}
			case *ssa.Call:
				if b, ok := y.Common().Value.(*ssa.Builtin); ok && b.Name() == "copy" && y.Common().Args[0] == x {
					pa.sliceRoots(y.Common().Args[1], fn, seen, out)
				}
			}
		}
	}
}

// identity-returning helpers: result k is (an alias of) parameter j
var p2Identity = map[string]int{"assertDense": 0, "getDenseTensor": 0, "getFloatDenseTensor": 0, "getFloatComplexDenseTensor": 0}

func (pa *p2Analysis) callRoots(c *ssa.Call, res int, fn *ssa.Function, seen map[ssa.Value]bool, out map[int]bool) {
	f := c.Common().StaticCallee()
	if f == nil {
		return
	}
	if j, ok := p2Identity[f.Name()]; ok && res == 0 && j < len(c.Common().Args) {
		pa.rootParams(c.Common().Args[j], fn, seen, out)
	}
	if strings.HasPrefix(f.Name(), "checkThree") || strings.HasPrefix(f.Name(), "checkTwo") {
		if res < len(c.Common().Args)-0 && res < 3 {
			args := c.Common().Args
			// methods: receiver first
			if f.Signature.Recv() != nil {
				args = args[1:]
			}
			if res < len(args) {
				pa.rootParams(args[res], fn, seen, out)
			}
		}
	}
}

func newP2(rc *RC) *p2Analysis {
	pa := &p2Analysis{a: NewOAnalysis(rc.P), mut: map[*ssa.Function]map[int]string{}, fields: map[*ssa.Function]map[int]map[string]bool{}, blocks: map[*ssa.Function]map[int]map[*ssa.BasicBlock]bool{}}
	set := func(f *ssa.Function, i int, why string) bool {
		if i < 0 || i >= len(f.Params) {
			return false
		}
		if pa.mut[f] == nil {
			pa.mut[f] = map[int]string{}
		}
		if _, ok := pa.mut[f][i]; ok {
			return false
		}
		pa.mut[f][i] = why
		return true
	}
	for iter := 0; iter < 25; iter++ {
		changed := false
		for _, fn := range pa.a.fns {
			for _, b := range fn.Blocks {
				for _, ins := range b.Instrs {
					switch x := ins.(type) {
					case *ssa.Store:
						if _, isAlloc := x.Addr.(*ssa.Alloc); isAlloc {
							continue
						}
						roots := map[int]bool{}
						pa.rootParams(x.Addr, fn, map[ssa.Value]bool{}, roots)
						for i := range roots {
							if isTensorish(fn.Params[i].Type()) {
								if set(fn, i, fmt.Sprintf("store to %s at %s", x.Addr.String(), pa.a.pos(x))) {
									changed = true
								}
								if pa.addBlock(fn, i, b) {
									changed = true
								}
								if pa.addField(fn, i, fieldName(x.Addr)) {
									changed = true
								}
							}
						}
					case ssa.CallInstruction:
						cc := x.Common()
						callees := pa.a.callees(cc)
						args := cc.Args
						if cc.IsInvoke() {
							args = append([]ssa.Value{cc.Value}, cc.Args...)
						}
						for _, g := range callees {
							for j, why := range pa.mut[g] {
								if j >= len(args) {
									continue
								}
								if pa.excludedByConst(g, j, args) {
									continue // e.g. RollAxis(…, safe = true): the writing branch cannot run
								}
								roots := map[int]bool{}
								pa.rootParams(args[j], fn, map[ssa.Value]bool{}, roots)
								if _, isSlice := args[j].Type().Underlying().(*types.Slice); isSlice {
									pa.sliceRoots(args[j], fn, map[ssa.Value]bool{}, roots)
								}
								for i := range roots {
									if isTensorish(fn.Params[i].Type()) {
										w := why
										if !strings.HasPrefix(w, "via ") {
											w = "via " + g.Name() + ": " + w
										} else if !strings.Contains(w, g.Name()) {
											w = "via " + g.Name() + " " + w
										}
										if set(fn, i, w) {
											changed = true
										}
										if pa.addBlock(fn, i, b) {
											changed = true
										}
										for fld := range pa.fields[g][j] {
											if pa.addField(fn, i, fld) {
												changed = true
											}
										}
									}
								}
							}
						}
					}
				}
			}
		}
		if !changed {
			break
		}
	}
	return pa
}

// read-only operand contracts: function key -> parameter names that must not be written.
var p2ReadOnly = map[string][]string{
	"tensor.(StdEng).Dot": {"x", "y"}, "tensor.(StdEng).MatMul": {"a", "b"}, "tensor.(StdEng).MatVecMul": {"a", "b"}, "tensor.(StdEng).Outer": {"a", "b"}, "tensor.(StdEng).Inner": {"a", "b"},
	"tensor.(*Dense).TensorMul": {"t", "other"}, "tensor.(*Dense).MatMul": {"t", "other"}, "tensor.(*Dense).MatVecMul": {"t", "other"}, "tensor.(*Dense).Outer": {"t", "other"}, "tensor.(*Dense).Inner": {"t", "other"}, "tensor.(*Dense).Trace": {"t"},
	"tensor.Dot": {"x", "y"}, "tensor.MatMul": {"a", "b"}, "tensor.MatVecMul": {"a", "b"}, "tensor.Outer": {"a", "b"}, "tensor.Inner": {"a", "b"}, "tensor.Contract": {"a", "b"},
	"tensor.(StdEng).Sum": {"a"}, "tensor.(StdEng).Max": {"a"}, "tensor.(StdEng).Min": {"a"}, "tensor.(StdEng).Argmax": {"t"}, "tensor.(StdEng).Argmin": {"t"}, "tensor.(StdEng).Reduce": {"a"}, "tensor.(StdEng).OptimizedReduce": {"a"},
	"tensor.(*Dense).Sum": {"t"}, "tensor.(*Dense).Max": {"t"}, "tensor.(*Dense).Min": {"t"}, "tensor.(*Dense).Argmax": {"t"}, "tensor.(*Dense).Argmin": {"t"},
	"tensor.Sum": {"t"}, "tensor.Argmax": {"t"}, "tensor.Argmin": {"t"},
	"tensor.(StdEng).Concat": {"t", "others"}, "tensor.(StdEng).StackDense": {"t", "others"}, "tensor.(StdEng).Repeat": {"t"}, "tensor.(StdEng).RepeatReuse": {"t"},
	"tensor.(*Dense).Concat": {"t", "Ts"}, "tensor.(*Dense).Stack": {"t", "others"}, "tensor.(*Dense).Repeat": {"t"}, "tensor.(*Dense).Hstack": {"t", "others"}, "tensor.(*Dense).Vstack": {"t", "others"},
	"tensor.Concat": {"t", "others"}, "tensor.Stack": {"t", "others"}, "tensor.Repeat": {"t"},
	"tensor.(*Dense).Slice": {"t"}, "tensor.(*Dense).At": {"t"}, "tensor.(*Dense).Clone": {"t"}, "tensor.(*Dense).Materialize": {"t"}, "tensor.(*Dense).SafeT": {"t"},
	"tensor.T": {"t"}, "tensor.Transpose": {"t"}, "tensor.Copy": {"src"}, "tensor.ToMat64": {"t"},
	"tensor.(*Dense).WriteNpy": {"t"}, "tensor.(*Dense).WriteCSV": {"t"}, "tensor.(*Dense).GobEncode": {"t"}, "tensor.(*Dense).PBEncode": {"t"}, "tensor.(*Dense).FBEncode": {"t"},
	"tensor.(*Dense).Eq": {"t", "other"}, "tensor.(*Dense).Format": {"t"}, "tensor.(*Dense).Norm": {"t"},
}

func P2(rc *RC, only func(key string) bool, floor int) {
	rc.S.Declare("P2", "operand immutability: no exported read-only operation writes (metadata or data of) an operand, directly or through any chain of callees (SSA mod-summaries by fixpoint)", floor)
	pa := newP2(rc)
	byKey := map[string]*ssa.Function{}
	for _, fn := range pa.a.fns {
		byKey[oFnKey(fn)] = fn
	}
	var keys []string
	for k := range p2ReadOnly {
		keys = append(keys, k)
	}
	sort.Strings(keys)
	for _, k := range keys {
		if only != nil && !only(k) {
			continue
		}
		fn := byKey[k]
		if fn == nil {
			rc.S.Undec("P2", k, "-", "unresolved anchor: the read-only operation no longer exists")
			continue
		}
		for _, pname := range p2ReadOnly[k] {
			idx := -1
			for i, p := range fn.Params {
				if p.Name() == pname {
					idx = i
				}
			}
			key := fmt.Sprintf("%s(%s)", k, pname)
			pos := rc.P.Pos(fn.Pos())
			if idx < 0 {
				rc.S.Undec("P2", key, pos, "parameter not found")
				continue
			}
			if why, bad := pa.mut[fn][idx]; bad {
				var fl []string
				for f := range pa.fields[fn][idx] {
					fl = append(fl, f)
				}
				sort.Strings(fl)
				rc.S.Viol("P2", key, pos, fmt.Sprintf("%s writes its operand %s (fields %s), e.g. %s", k, pname, strings.Join(fl, ", "), why)).Sig = "writes " + strings.Join(fl, ", ")
			} else {
				rc.S.Ok("P2", key, pos, "operand only read")
			}
		}
	}
}
