package rules

import (
	"fmt"
	"go/ast"
	"go/token"
	"go/types"
	"sort"
	"strings"

	"golang.org/x/tools/go/types/typeutil"

	"tcheck/ir"
	"tcheck/load"
)

// WC: who-may-call. Some functions and package-level objects are only meaningful in the hands
// of a few callers:
//   - the fixed-order stride calculators Shape.CalcStrides / CalcStridesColMajor compute the
//     strides of ONE data order; code that owns a data-order flag must go through the
//     dispatching AP.calcStrides (or branch on the order itself);
//   - ostrides()/oshape()/oldAP() give the access pattern *before* a pending lazy transpose;
//     only code that deals with the lazy transpose explicitly (BLAS gateways, transposition
//     itself) may read them - everybody else must use Shape()/Strides();
//   - the object pools (sync.Pool variables and pool channels) are filled only by their
//     designated return functions, which reset the object first.
// Callers are resolved through go/types (methods, promoted methods, interface methods of
// DenseTensor included). The callers of the reviewed tree are the census; a caller that is not
// listed is reported unless (for the stride calculators) every path to the call has branched
// on the data order.

type wcTarget struct {
	Name  string // display name
	Match func(info *types.Info, n ast.Node) bool
	Guard string // "order": a new caller is accepted if every path to the call decided the data order
	Why   string
}

func wcMethod(recvType, name string) func(info *types.Info, n ast.Node) bool {
	return func(info *types.Info, n ast.Node) bool {
		c, ok := n.(*ast.CallExpr)
		if !ok {
			return false
		}
		f, _ := typeutil.Callee(info, c).(*types.Func)
		if f == nil || f.Name() != name {
			return false
		}
		sig := f.Type().(*types.Signature)
		if sig.Recv() == nil {
			return false
		}
		t := sig.Recv().Type()
		if p, ok := t.(*types.Pointer); ok {
			t = p.Elem()
		}
		if n, ok := t.(*types.Named); ok {
			if recvType == "*" {
				return n.Obj().Pkg() != nil && strings.HasPrefix(n.Obj().Pkg().Path(), load.Module)
			}
			return n.Obj().Name() == recvType
		}
		return false
	}
}

// pool operations on a package-level variable: v.Put(x) for sync.Pool (also elements of pool
// arrays/maps reached from v), `v <- x` for pool channels.
func wcPoolPut(varName string) func(info *types.Info, n ast.Node) bool {
	rootVar := func(info *types.Info, e ast.Expr) string {
		for {
			switch x := e.(type) {
			case *ast.Ident:
				if v, ok := info.Uses[x].(*types.Var); ok && v.Parent() == v.Pkg().Scope() {
					return v.Name()
				}
				return ""
			case *ast.SelectorExpr:
				e = x.X
			case *ast.IndexExpr:
				e = x.X
			case *ast.ParenExpr:
				e = x.X
			case *ast.CallExpr:
				// scalarPool(size) style accessor functions are handled by their own census entry
				return ""
			default:
				return ""
			}
		}
	}
	return func(info *types.Info, n ast.Node) bool {
		switch x := n.(type) {
		case *ast.SendStmt:
			return rootVar(info, x.Chan) == varName
		case *ast.CallExpr:
			sel, ok := x.Fun.(*ast.SelectorExpr)
			if !ok || sel.Sel.Name != "Put" {
				return false
			}
			return rootVar(info, sel.X) == varName
		}
		return false
	}
}

var wcTargets = []wcTarget{
	{Name: "Shape.CalcStrides", Match: wcMethod("Shape", "CalcStrides"), Guard: "order", Why: "row-major strides only"},
	{Name: "Shape.CalcStridesColMajor", Match: wcMethod("Shape", "CalcStridesColMajor"), Guard: "order", Why: "column-major strides only"},
	{Name: "Shape.CalcStridesWithMask", Match: wcMethod("Shape", "CalcStridesWithMask"), Guard: "order", Why: "row-major strides only"},
	{Name: "ostrides", Match: wcMethod("*", "ostrides"), Why: "strides before a pending lazy transpose"},
	{Name: "oshape", Match: wcMethod("*", "oshape"), Why: "shape before a pending lazy transpose"},
	{Name: "optPool.Put", Match: wcPoolPut("optPool"), Why: "option objects are reset by returnOpOpt before pooling"},
	{Name: "densePool<-", Match: wcPoolPut("densePool"), Why: "tensors are reset by ReturnTensor before pooling"},
	{Name: "headerPool<-", Match: wcPoolPut("headerPool"), Why: "headers are cleared by returnHeader before pooling"},
	{Name: "intsPool.Put", Match: wcPoolPut("intsPool"), Why: "int slices are zeroed by ReturnInts before pooling"},
	{Name: "boolsPool.Put", Match: wcPoolPut("boolsPool"), Why: "bool slices are zeroed by ReturnBools before pooling"},
}

type wcSite struct {
	Target, Caller, Pos string
	Node                ast.Node
	Fi                  *load.FuncInfo
}

func WCSites(rc *RC) []wcSite {
	var out []wcSite
	for _, fi := range rc.P.SortedFuncs() {
		if fi.Pkg != rc.P.Root || fi.Decl.Body == nil || strings.HasSuffix(fi.File, "_test.go") {
			continue
		}
		info := fi.Pkg.TypesInfo
		ast.Inspect(fi.Decl.Body, func(n ast.Node) bool {
			if n == nil {
				return true
			}
			for _, t := range wcTargets {
				if t.Match(info, n) {
					out = append(out, wcSite{t.Name, fi.Key, rc.P.Pos(n.Pos()), n, fi})
				}
			}
			return true
		})
	}
	sort.Slice(out, func(i, j int) bool {
		if out[i].Target != out[j].Target {
			return out[i].Target < out[j].Target
		}
		return out[i].Caller < out[j].Caller
	})
	return out
}

func WC(rc *RC, floor int) {
	rc.S.Declare("WC", "who-may-call: the fixed-order stride calculators, the pre-transpose accessors (ostrides/oshape) and the object pools are used only by the reviewed callers; a new caller of a stride calculator must have decided the data order on every path, any other new caller is reported", floor)
	targets := map[string]wcTarget{}
	for _, t := range wcTargets {
		targets[t.Name] = t
	}
	seen := map[string]int{}
	for _, s := range WCSites(rc) {
		seen[s.Target+"|"+s.Caller]++
		key := fmt.Sprintf("%s<-%s#%d", s.Target, s.Caller, seen[s.Target+"|"+s.Caller])
		if why, ok := wcCensus[s.Target+"|"+s.Caller]; ok {
			rc.S.Ok("WC", key, s.Pos, "reviewed caller: "+why)
			continue
		}
		t := targets[s.Target]
		if t.Guard == "order" {
			if ok, why := wcOrderGuarded(rc, s); ok {
				rc.S.Ok("WC", key, s.Pos, "new caller, data order decided on every path")
				continue
			} else {
				rc.S.Viol("WC", key, s.Pos, fmt.Sprintf("%s calls %s (%s) and is not a reviewed caller: %s; strides must follow the tensor's data order (use AP.calcStrides or branch on the order)", s.Caller, s.Target, t.Why, why)).Sig = "new caller without order test"
				continue
			}
		}
		rc.S.Viol("WC", key, s.Pos, fmt.Sprintf("%s uses %s and is not one of its reviewed callers (%s)", s.Caller, s.Target, t.Why)).Sig = "new caller"
	}
}

// wcOrderGuarded: every canonical path of the caller that contains the call statement has
// branched on IsColMajor/IsRowMajor.
func wcOrderGuarded(rc *RC, s wcSite) (bool, string) {
	_, tree := sCanon(rc, s.Fi)
	paths, ok := ir.EnumPaths(tree, 20000)
	if !ok {
		return false, "too many paths"
	}
	line := func(p token.Pos) int { return rc.P.Fset.Position(p).Line }
	target := line(s.Node.Pos())
	n := 0
	for _, p := range paths {
		has := false
		for _, st := range p.Steps {
			if line(st.Pos) == target {
				has = true
			}
			if st.Kind == "loop" || st.Kind == "range" || st.Kind == "switch" {
				for _, k := range flatten(st.Kids) {
					if line(k.Pos) == target {
						has = true
					}
				}
			}
		}
		if !has {
			continue
		}
		n++
		decided := false
		for _, f := range pathG(p) {
			for _, a := range f.Atoms() {
				if orderAtom.MatchString(a) {
					decided = true
				}
			}
		}
		if !decided {
			return false, fmt.Sprintf("reached with [%s] without a test of the data order", strings.Join(p.Guards, " && "))
		}
	}
	if n == 0 {
		return false, "call statement not found on any enumerated path"
	}
	return true, ""
}

// O6opt: the option object is reset field by field before it is pooled.
func O6opt(rc *RC) {
	rc.S.Declare("O6opt", "pool hygiene of option objects: on every path of returnOpOpt every field of OpOpt is stored with its zero value before the object is put into optPool (a stale As/WithReuse/WithIncr/UseUnsafe would leak into the next operation that borrows it)", 5)
	fi := anchor(rc, "O6opt", "tensor.returnOpOpt")
	if fi == nil {
		return
	}
	pos := rc.P.Pos(fi.Decl.Pos())
	obj := rc.P.Root.Types.Scope().Lookup("OpOpt")
	if obj == nil {
		rc.S.Undec("O6opt", "tensor.OpOpt", pos, "type OpOpt not found")
		return
	}
	st, ok := obj.Type().Underlying().(*types.Struct)
	if !ok {
		rc.S.Undec("O6opt", "tensor.OpOpt", pos, "OpOpt is not a struct")
		return
	}
	_, tree := sCanon(rc, fi)
	paths, ok := ir.EnumPaths(tree, 1000)
	if !ok || len(fi.Decl.Type.Params.List) != 1 {
		rc.S.Undec("O6opt", "tensor.returnOpOpt", pos, "unexpected shape")
		return
	}
	par := "$" + fi.Decl.Type.Params.List[0].Names[0].Name
	zero := map[string]bool{"nil": true, "false": true, "0": true, "tensor.Dtype{}": true, `""`: true}
	for i := 0; i < st.NumFields(); i++ {
		f := st.Field(i).Name()
		key := "tensor.returnOpOpt#OpOpt." + f
		bad := ""
		for _, p := range paths {
			reset := false
			put := false
			for _, s := range p.Steps {
				if (s.Kind == "store" || s.Kind == "let") && s.Target == par+"."+f {
					reset = zero[s.Value]
				}
				if strings.Contains(s.Head, "optPool.Put(") {
					put = true
					if !reset {
						bad = fmt.Sprintf("field %s is not reset before optPool.Put on the path [%s]", f, strings.Join(p.Guards, " && "))
					}
				}
			}
			if !put {
				continue
			}
		}
		if bad != "" {
			rc.S.Viol("O6opt", key, pos, bad).Sig = "not reset"
		} else {
			rc.S.Ok("O6opt", key, pos, "reset before pooling")
		}
	}
}
