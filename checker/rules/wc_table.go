package rules

// wcCensus: callers of the restricted functions / pools on the reviewed tree
// (enumerated by `dbg wccensus`, then read).
var wcCensus = map[string]string{
	"Shape.CalcStrides|tensor.(*AP).calcStrides":           "the order dispatcher itself (rule T4)",
	"Shape.CalcStridesColMajor|tensor.(*AP).calcStrides":   "the order dispatcher itself (rule T4)",
	"Shape.CalcStrides|tensor.(*Dense).Transpose":          "selected by the tensor's data order (rule T4)",
	"Shape.CalcStridesColMajor|tensor.(*Dense).Transpose":  "selected by the tensor's data order (rule T4)",
	"Shape.CalcStrides|tensor.(StdEng).StackDense":         "selected by the first operand's data order",
	"Shape.CalcStridesColMajor|tensor.(StdEng).StackDense": "selected by the first operand's data order",
	"Shape.CalcStrides|tensor.AsDenseDiag":                 "constructor of a fresh row-major tensor",
	"boolsPool.Put|tensor.ReturnBools":                     "the designated return function (zeroes first)",
	"densePool<-|tensor.ReturnTensor":                      "the designated return function (rule O6: resets every field)",
	"headerPool<-|tensor.returnHeader":                     "the designated return function (clears Raw)",
	"intsPool.Put|tensor.ReturnInts":                       "the designated return function (zeroes first)",
	"optPool.Put|tensor.returnOpOpt":                       "the designated return function (resets every option)",
	"oshape|tensor.(*Dense).T":                             "transposition itself: compares the request with the saved pattern",
	"oshape|tensor.(*Dense).transposeIndex":                "transposition itself (rule T6)",
	"ostrides|tensor.(*Dense).transposeIndex":              "transposition itself (rule T6)",
	"oshape|tensor.(StdEng).MatVecMul":                     "BLAS gateway: the lazy transpose becomes the trans flag (rule LD)",
	"ostrides|tensor.(StdEng).denseRepeat":                 "block sizes of the raw repeat, taken after views / lazy transposes were materialised",
}
