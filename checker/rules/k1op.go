package rules

import (
	"fmt"
	"regexp"
	"sort"
	"strings"

	"tcheck/ir"
	"tcheck/load"
	"tcheck/spec"
)

// K1op: operation-sibling uniformity. Wrapper layers and generated engine methods exist
// once per operation (Add, Sub, … / Gt, Gte, … / Neg, Inv, …). Each is canonicalised with
// *its own* operation name erased to "Op" (in callee and method names, interface type names
// such as Suber, and string literals); within one file and one name shape (Op, OpScalar,
// (recv).Op …) the members of an operation group must be identical. A wrapper that calls
// another operation's method keeps that foreign name and stands out; so does a swapped
// operand, a wrong leftTensor constant, a dropped gate or a different type class.

type opMember struct {
	fi    *load.FuncInfo
	op    string
	group string
	text  string
	note  []string
}

// apiOpOf parses an API-level function name into (operation, shape).
func apiOpOf(name string) (op, shape, group string, ok bool) {
	n := name
	prefix := ""
	if strings.HasPrefix(n, "El") && len(n) > 2 { // ElEq, ElNe
		prefix, n = "El", n[2:]
	}
	try := func(g string, ops []string) bool {
		for _, o := range ops {
			if strings.HasPrefix(n, o) {
				rest := n[len(o):]
				switch rest {
				case "", "Scalar", "Between", "BetweenScalar":
					op, shape, group = o, prefix+"Op"+rest, g
					return true
				}
			}
		}
		return false
	}
	if n == "Clamp" {
		return "Clamp", "OpClamp", "unary", true
	}
	if try("arith", spec.ArithOps) || try("cmp", spec.CmpOps) || try("unary", spec.UnaryOps) || try("minmax", spec.MinMaxOps) {
		return op, shape, group, true
	}
	return "", "", "", false
}

// k1opExcept: (file|shape|op) members that legitimately differ from their siblings.
var k1opExcept = map[string]string{
	"api_cmp.go|ElOp|cmp-eq:ElNe": "ElNe has no scalar-tensor dispatch (a scalar-shaped operand is refused by the engine's shape check); the group has two members, so neither can be taken as the reference",
	"api_cmp.go|ElOp|cmp-eq:ElEq": "see ElNe: two-member group with a known structural difference",
}

func K1op(rc *RC, files []string, floor int) {
	rc.S.Declare("K1op", "operation-sibling uniformity: the per-operation instances of one wrapper / engine-method template are identical after erasing their own operation name (a foreign operation name, a swapped operand, a different gate or flag stands out)", floor)
	inFile := map[string]bool{}
	for _, f := range files {
		inFile[f] = true
	}
	groups := map[string][]*opMember{}
	for _, fi := range rc.P.SortedFuncs() {
		if !inFile[fi.File] || fi.Decl.Body == nil {
			continue
		}
		op, shape, group, ok := apiOpOf(fi.Obj.Name())
		if !ok {
			continue
		}
		recv := ""
		if fi.Decl.Recv != nil {
			recv = "(" + load.RecvName(fi.Decl.Recv.List[0].Type) + ")."
		}
		// comparison operations come in two gate classes (ordered / equality)
		if group == "cmp" && (op == "Eq" || op == "Ne") {
			group = "cmp-eq"
		}
		key := fi.File + "|" + recv + shape + "|" + group
		m := &opMember{fi: fi, op: op, group: group}
		conv := map[string]string{"Gt": "Lt", "Lt": "Gt", "Gte": "Lte", "Lte": "Gte"}[op]
		erase := func(s string) string {
			s = eraseOpWord(s, op, "Op")
			if conv != "" {
				s = eraseOpWord(s, conv, "OpConverse")
			}
			return s
		}
		c := ir.NewCanon(rc.P.Fset, fi.Pkg.TypesInfo, ir.Options{MapCallee: erase})
		tree := c.Func(fi.Decl)
		txt := ir.Render(tree)
		// string literals and type names that embed the operation
		txt = eraseInStrings(txt, op)
		// the capability interface asserted on the engine (Suber, ElEqer, Squarer, …): its
		// method set is enforced by the compiler, its name is not part of the comparison
		txt = ifaceRe.ReplaceAllString(txt, ".(tensor.<capability>)")
		// the type class of the gate differs per operation by design: rule M4 checks it
		txt = gateRe.ReplaceAllString(txt, "${1}Check(${2}<typeclass>)")
		m.text = txt
		m.note = c.Notes
		groups[key] = append(groups[key], m)
	}
	var keys []string
	for k := range groups {
		keys = append(keys, k)
	}
	sort.Strings(keys)
	for _, k := range keys {
		ms := groups[k]
		byText := map[string][]*opMember{}
		for _, m := range ms {
			byText[m.text] = append(byText[m.text], m)
		}
		var best string
		for t, g := range byText {
			if best == "" || len(g) > len(byText[best]) || (len(g) == len(byText[best]) && t < best) {
				best = t
			}
		}
		for _, m := range ms {
			okey := k + ":" + m.fi.Obj.Name()
			pos := rc.P.Pos(m.fi.Decl.Pos())
			if len(m.note) > 0 {
				rc.S.Undec("K1op", okey, pos, "canonicaliser: "+strings.Join(m.note, "; "))
				continue
			}
			if len(ms) == 1 {
				rc.S.Ok("K1op", okey, pos, "single member").Trivial = true
				continue
			}
			if m.text == best && (len(byText[best])*2 > len(ms) || len(byText) == 1) {
				rc.S.Ok("K1op", okey, pos, fmt.Sprintf("%d of %d operations share this form", len(byText[best]), len(ms)))
				continue
			}
			if why, ok := k1opExcept[okey]; ok {
				rc.S.Except("K1op "+okey, why)
				rc.S.Ok("K1op", okey, pos, "exception: "+why)
				continue
			}
			ref := byText[best][0]
			if ref == m {
				for t, g := range byText {
					if t != m.text {
						ref = g[0]
					}
				}
			}
			d := firstDiff(m.text, ref.text)
			// one member rewritten from the ground up (another statement skeleton and less than
			// 70% of its lines in common with its siblings) is a restructuring this comparison
			// cannot tell from an error: it abstains. A member that keeps the template and differs
			// in a term, a guard or an inserted branch is reported.
			if !sameSkeleton(m.text, ref.text) && lineSimilarity(m.text, ref.text) < 0.7 {
				rc.S.Undec("K1op", okey, pos, fmt.Sprintf("%s no longer follows the template of its siblings (%.0f%% of its lines in common with %s): restructured, not compared", m.fi.Obj.Name(), 100*lineSimilarity(m.text, ref.text), ref.fi.Obj.Name()))
				continue
			}
			rc.S.Viol("K1op", okey, pos, fmt.Sprintf("%s differs from its sibling %s after erasing the operation name: %s", m.fi.Obj.Name(), ref.fi.Obj.Name(), d)).Sig = d
		}
	}
}

var ifaceRe = regexp.MustCompile(`\.\(tensor\.[A-Z][A-Za-z0-9]*er\)`)
var gateRe = regexp.MustCompile(`(unary|binary)Check\(((?:[^(),]|\([^()]*\))+, (?:[^(),]|\([^()]*\))+, |(?:[^(),]|\([^()]*\))+, )[a-zA-Z]+Types\)`)

// eraseOpWord replaces op where it stands as a CamelCase word of an identifier: not
// followed by a lower-case letter (except the agent suffix "er"), not preceded by an
// upper-case letter.
func eraseOpWord(s, op, repl string) string {
	var b strings.Builder
	for i := 0; i < len(s); {
		if strings.HasPrefix(s[i:], op) {
			j := i + len(op)
			prevOK := i == 0 || !(s[i-1] >= 'A' && s[i-1] <= 'Z')
			nextOK := j >= len(s) || !(s[j] >= 'a' && s[j] <= 'z') || strings.HasPrefix(s[j:], "er") && (j+2 >= len(s) || !(s[j+2] >= 'a' && s[j+2] <= 'z'))
			if prevOK && nextOK {
				b.WriteString(repl)
				i = j
				continue
			}
		}
		b.WriteByte(s[i])
		i++
	}
	return b.String()
}

// eraseInStrings replaces op inside string literals of a canonical text.
func eraseInStrings(txt, op string) string {
	var b strings.Builder
	in := false
	start := 0
	for i := 0; i < len(txt); i++ {
		if txt[i] == '"' && (i == 0 || txt[i-1] != '\\') {
			if in {
				b.WriteString(strings.ReplaceAll(txt[start:i], op, "Op"))
			} else {
				b.WriteString(txt[start:i])
			}
			in = !in
			start = i
		}
	}
	b.WriteString(txt[start:])
	return b.String()
}

// lineSimilarity: 2*LCS/(|a|+|b|) over the trimmed lines of two canonical texts.
func lineSimilarity(a, b string) float64 {
	la, lb := strings.Split(strings.TrimSpace(a), "\n"), strings.Split(strings.TrimSpace(b), "\n")
	for i := range la {
		la[i] = strings.TrimSpace(la[i])
	}
	for i := range lb {
		lb[i] = strings.TrimSpace(lb[i])
	}
	prev := make([]int, len(lb)+1)
	for i := 1; i <= len(la); i++ {
		cur := make([]int, len(lb)+1)
		for j := 1; j <= len(lb); j++ {
			if la[i-1] == lb[j-1] {
				cur[j] = prev[j-1] + 1
			} else if prev[j] >= cur[j-1] {
				cur[j] = prev[j]
			} else {
				cur[j] = cur[j-1]
			}
		}
		prev = cur
	}
	if len(la)+len(lb) == 0 {
		return 1
	}
	return 2 * float64(prev[len(lb)]) / float64(len(la)+len(lb))
}
