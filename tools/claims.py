# Edited by hand; consumed by gen_manifest.py
TB = "Trusted: go/packages, go/types, go/ssa, go/cfg (x/tools v0.29.0); Go operator semantics; math/math32/cmplx/vecf/BLAS routines by name; the oracle tables in checker/spec. Decides structural necessary conditions, not runtime values."

claim("C17",
      "Exhaustive static decision, over every generated specialisation (2 900+ functions) and every arm of every element-type switch (1 700+ arms), that all instances of one template agree after type erasure and that each arm only uses constructs of its own label type. This is the quantifier (all types x all variants) the suite cannot reach; value-level agreement after conversion is a runtime relation and is not claimed.",
      TB, "static analysis: type-erased canonical-form comparison of sibling specialisations + type-token coherence of switch arms (AST + go/types)", "DESIGN.md section 3 C17, rules K1 K1arms K2 K3")

KM = "Exhaustive static decision over every kernel, dispatcher arm and option-mode case of the operation group: sibling agreement after type erasure, conformance of each kernel's guarded updates with an operator table (operator, operand order, destination, index pairing, validity guard), type-token coherence of dispatch arms, and abstract interpretation of every mode case against the mode contract. Structural necessary conditions only: arithmetic of the Go operators and iterator coordinates are not decided."
claim("C06", KM, TB, "static analysis: kernel canonical forms vs operator table and siblings; dispatch-arm type coherence; abstract interpretation of mode cases (AST + go/types)", "DESIGN.md section 3 C06, rules K1 K2 K3 K1arms M2 M3")
claim("C11", KM, TB, "static analysis: comparison-kernel canonical forms vs operator table and siblings; dispatch-arm type coherence; abstract interpretation of mode cases incl. result-type clause", "DESIGN.md section 3 C11, rules K1 K2 K3 K1arms M2 M3")
claim("C12", KM, TB, "static analysis: unary/map-kernel canonical forms vs operator table and siblings; dispatch-arm type coherence; abstract interpretation of mode cases", "DESIGN.md section 3 C12, rules K1 K2 K3 K1arms M2 M3")
claim("C07", "Abstract interpretation of all ~980 (method x scenario) option-mode cases of the 43 generated engine methods over a symbolic term domain: returned tensor identity, final term = Op(L,R) of the original operands (also when the destination aliases an operand), write frame, iterator pairing/reset typestate, no raw kernel on the iterator path. Decides the template-level contract for every mode, scalar side, path and aliasing case - the product the suite samples thinly. Runtime aliasing beyond the three modelled cases and the hand-written operations' values are not decided.", TB, "static analysis: abstract interpretation of straight-line mode cases over a term domain against a mode-contract table; operation-sibling and type-sibling canonical comparison; gate ordering; single-release and pool-hygiene path rules; error-drop census", "DESIGN.md section 3 C07, rules M2 M3")

SB = "Path-exhaustive static decision over the named functions: every control path is enumerated on a canonical form and the required facts (bounds, arity, validation, gates) are implications decided by truth table; sibling calculators are compared as extracted terms. Structural necessary conditions: the index arithmetic itself is not decided."
claim("C01", SB, TB, "static analysis: path enumeration + boolean implication (truth table) over accessor functions; type-token coherence of typed get/set arms; who-may-call census of the fixed-order stride calculators; stride-calculator mirror; width-family comparison of the transpose kernels behind the converting constructor", "DESIGN.md section 3 C01, rules S1 S2 K3 K1")
claim("C02", SB, TB, "static analysis: path enumeration + boolean implication over slice validators; extracted-term comparison of the two slice calculators; co-slicing rule; contiguity-marker implication with structurally bound names; guard census", "DESIGN.md section 3 C02, rules S3 S4 S5 S9 S12 GC")
claim("C13", SB, TB, "static analysis: extracted-term comparison of the shape calculators; path enumeration + boolean implication over the reshape gate, contiguity marker and repeat destination check; access-pattern lock typestate; unique-owner analysis (SSA)", "DESIGN.md section 3 C13, rules S4 S5 S7 S12 S14 L1 O8 GC")

claim("C19", "Interprocedural ownership analysis over the SSA form of every function of the package: a history-quantified property is reduced to per-site invariants (no exported function recycles/retains/mutates a caller's metadata slice through any call chain; the recycle function resets every field; only function-local tensors are recycled; pool-managed access patterns and saved permutations have one owner; a mask taken from a received tensor reaches another tensor only as a copy; each generated engine method writes only its destination and call-local buffers in every option mode) that are decided for all ~100 exported functions with slice parameters and all pool sites. If they hold, no operation history can corrupt another tensor through the pools or through caller slices; documented backing-array sharing is outside the claim.", TB + " Interface calls resolved by CHA restricted to the module; flow-insensitive alias over-approximation.", "static analysis: SSA origin tracing with fixpoint summaries (returns-param/retains/writes/recycles) over all functions, mod-set of ReturnTensor, unique-owner rule for access patterns, scalar-buffer ownership guard, single-release path rule, storage-extent rule for raw copies, pool who-may-call census", "DESIGN.md section 3 C19, rules O1 O2 O3 O4 O6 O7 O8 O9 O10 MK M2W")

claim("C03", "Static decision of the bookkeeping and sibling-agreement clauses of transposition over all functions and both transpose builds: the (old, transposeWith, AP) triple is set and cleared together on every function, copies own their access patterns, Transpose/UT install/restore the right access pattern, per-width kernels and the two transposed-index computations agree. The permutation arithmetic itself (which element lands where) is not decided.", TB, "static analysis: SSA field-event typestate + unique-owner analysis + sibling (alpha-equivalence, per-width, cross-build) comparison + path rules (stale-metadata dataflow, dispatch completeness, cleanup on every exit, inverse-test form, layout-order of the copy kernels)", "DESIGN.md section 3 C03, rules T1 T2 T4 T6 K1w O8")

claim("C05", "Static consistency rules over the whole iterator family (polarity, duality, reset completeness on every path, vector-axis addressing, key digest, odometer mirror): each is a necessary condition whose violation breaks the stated behaviour, decided on canonical forms of the functions. Weak partial claim: the odometer arithmetic (order of offsets, skip counts) quantifies over runtime values and is not decided.", TB, "static analysis: canonical-form sibling/mirror comparison, path-exhaustive must-write analysis, structural addressing rules, dispatch agreement by exhaustive flag evaluation, index-pairing rule of the multi-iterator", "DESIGN.md section 3 C05, rules I1-I6")

claim("C18", "Static decision of the shared-state necessary conditions of race freedom over the whole package: every global is classified, and every access to a global that operations write is shown to hold its mutex (lockset dataflow); pool objects are shown stateless; pooled scratch headers are shown to be returned at most once on every mode path. Schedules themselves are not explored - a static argument about which state can be shared at all, which is what every schedule has in common.", TB + " Locks are package-level mutexes taken by direct calls.", "static analysis: global-state inventory + call-graph reachability + must-hold lockset dataflow (SSA) + pool-hygiene mod-sets + single-release path rule + pool who-may-call census + operand mod-summaries with constant-argument specialisation + abstract interpretation of header returns", "DESIGN.md section 3 C18, rules P4 O6 O7 M7")

LGT = "Table-driven static decision: for every hand-written raw (whole-buffer / external) access named in the table, every control path to it is enumerated on a canonical form and the required layout facts are implications decided by truth table after folding synonymous predicates; predicates themselves are checked against their definitions. Structural necessary conditions of the behaviour: what the iterators/kernels compute is not decided here."
claim("C04", LGT + " Plus SSA storage-provenance/unique-owner analysis of the copying constructors and abstract interpretation of in-place mode cases.", TB, "static analysis: layout-guard goals (path enumeration + implication), predicate truth tables, raw-site and flat-loop censuses, guard census, iterator pairing by term propagation, SSA storage provenance and operand mod-summaries, mode-case abstract interpretation", "DESIGN.md section 3 C04, rules L0 L1 V1 O8 S9 M2 M3")
claim("C08", "Exhaustive sibling/anchor comparison of all reduction kernels and dispatcher arms, ownership analysis of operand and axis list, and layout-guard goals on the reduction entry points. The split/size/stride arithmetic of the axis-specialised reducers is not decided.", TB, "static analysis: kernel canonical forms vs anchor table and siblings, type-token coherence, dead-accumulator dataflow (go/types objects), sibling pairs, SSA ownership and operand mod-summaries, layout-guard goals", "DESIGN.md section 3 C08, rules K1 K9 K3 O3 O8 L1 L3")
claim("C09", LGT + " BLAS-gateway form: each trans flag / leading dimension must derive from a branch on that operand's own state on every path. BLAS-argument conformance: per feasible path, flags/dimensions/leading dimensions/buffers of every gemv/gemm/ger/dot call are compared with a reference derived from the row-major BLAS convention and the operands' layout facts (term propagation, no execution). The BLAS routines themselves are trusted by name.", TB, "static analysis: BLAS argument conformance (per-path term propagation vs derived reference table), BLAS-gateway goals (path enumeration + implication), arm uniformity and precision-letter coherence, SSA ownership and operand mod-summaries", "DESIGN.md section 3 C09, rules LD LB L1 K3 K1arms O3 O7 O8 P2 EC")
claim("C10", LGT + " Plus implication check of the layout accumulator, width-family uniformity and loop-cursor discipline. Block-copy offset arithmetic is not decided.", TB, "static analysis: accumulator implication check, layout-guard goals, raw-site and flat-loop censuses, stack-geometry sibling agreement by term propagation, concat-shape loop rule, width-family sibling comparison, loop-cursor discipline, SSA ownership and operand mod-summaries", "DESIGN.md section 3 C10, rules LA L1 K1w E2 O2 O3")
claim("C14", "Static evaluation of the serialisation tables (npy writer/reader composition is the identity on dtypes), wire-sequence agreement of the gob codec pair, header-form guard and layout-guard goals on the writers. Value-level round trips (number formatting, padding) are not decided.", TB, "static analysis: constant evaluation of encoder/decoder tables, sequence agreement of codec pairs, layout-guard goals, flat-traversal census, access-pattern lock typestate, operand mod-summaries (SSA)", "DESIGN.md section 3 C14, rules F1 F2 F5 L1 K3 LF S14 P2")
claim("C15", "Exhaustive conformance of every typed arm of every masking predicate with the predicate table (soft replaces, hard adds), mask polarity/duality of both masked iterator types, co-slicing and offset identity of the mask, mask-before-data in both transpose builds. Counts, run finders and masked arithmetic values are not decided.", TB, "static analysis: predicate-table conformance of typed arms, sibling/duality comparison, structural co-slicing and must-call rules, mirror-pair duality of mask inspections, guard goals on whole-mask folds, error-path discipline", "DESIGN.md section 3 C15, rules K8 K3 K1arms I1 I2 S9 S2 TMask SP L1 E1 LF")
claim("C16", LGT + " Order facts are decided over all participants by truth table (prepData*), and as goals on raw two-tensor accesses, exporters and BLAS gateways. The defects they exposed on the pinned tree (MatMul flags, column-major Transpose, fresh comparison results, Stack, Repeat, Eq, SoftMax, ...) are repaired by fix: commits; the one left (setDataOrder) is a known finding.", TB, "static analysis: truth tables of order predicates and iterator decisions, order-agreement goals by path enumeration + implication, stride-routine selection rule, stride-calculator mirror, order-flag/strides coupling, contiguity marker, raw-site censuses, arm uniformity of the BLAS gateways", "DESIGN.md section 3 C16, rules L0 L3 L4 LB LD T4 S10 S11 S12 LC LF K3 K1arms")
claim("C20", "Every structural rule is decided again under each build configuration (default, noasm, inplacetranspose, both, GOARCH=386), tag-selected files are compared for declaration parity, the specialised float engines are held to the same layout-guard goals and type coherence as the default engine, and per-build transpose code to the same sibling/typestate rules. Numerical equality across engines and the assembly divmod are not decided.", TB, "static analysis: multi-configuration re-analysis, declaration parity, path rule on the pure-Go divmod, layout-guard goals, sibling comparison (per-width, per-build, float32/float64 engine pairs)", "DESIGN.md section 3 C20, rules B1 B3 SP L1 L2 L3 K3 K1 T1 T2 T6 K1w TMask")

# round 7: analyses added to the checks (appended to the technique strings)
R7 = {
 "C01": "refusal-before-effect path rule over every refusing function (stores, mutating-method calls and pending deferred closures before a constructed error)",
 "C02": "predicate truth tables with flow-sensitive extraction and measurement atoms; view-reuse reset clause",
 "C03": "refusal-before-effect path rule; composition-order rule for the saved permutation (with a built-in positive example); dispatch completeness of the engine's Transpose",
 "C04": "refusal-before-effect path rule",
 "C05": "multi-iterator lock-step rule; truth table of the vector-like predicate that selects the unit-step path",
 "C06": "cross-operation arm agreement of the typed dispatchers; fresh-own-iterator rule on the operand preparation",
 "C07": "fresh-own-iterator rule on the operand preparation",
 "C08": "parameter integrity at delegation (AST + go/types, interface-method call sites); dispatch completeness of the typed dispatchers; materialise-order lemma; predicate truth tables",
 "C09": "width-family and layout-order rules of the transpose kernels the contraction relies on; parameter integrity at delegation",
 "C10": "delegation completeness of the engine entry points; materialise-order lemma; axis-bound goal on the concat calculator",
 "C11": "cross-operation arm agreement of the typed dispatchers; fresh-own-iterator rule",
 "C12": "cross-operation arm agreement of the typed dispatchers",
 "C13": "delegation completeness; axis-bound goal; composition-order rule; refusal-before-effect path rule",
 "C14": "view-construction rule and predicate truth tables behind the encoders' materialise decision",
 "C15": "recycle-reset completeness of the tensor pool (mask policy)",
 "C16": "order goal on the contraction's operand copy",
 "C17": "cross-operation arm agreement; dispatch completeness; coherence of multi-type arms",
 "C18": "publish-last ordering rule on the pool return functions",
 "C19": "publish-last ordering rule; refusal-before-effect path rule",
 "C20": "truth tables of the float engines' own operand preparation; iterator-decision goals on their flat kernels",
}
for _pid, _extra in R7.items():
    CLAIMS[_pid]["technique"] += "; " + _extra

# round 11: analyses added to the checks
RB = {
 "C01": "slice-ownership rule on every MakeAP call; axes-consulted clause on the general branch of AP.T",
 "C02": "install-unchanged rule for the transposed pattern; mark-clearing rule for NonContiguous (self-tested matcher); element atoms under the all-ones axiom in the predicate truth tables",
 "C03": "install-unchanged rule for the transposed pattern; raw-reshape typestate (census + path conditions)",
 "C04": "address-identity rule under iterators (self-tested matcher); slice-ownership rule; makeMask guard rule",
 "C05": "last-axis exhaustion by path enumeration of the odometer bodies; rewind clause and sibling agreement of the direction setters",
 "C06": "sibling pair of the float engines' Add",
 "C07": "raw-reshape typestate; destination provenance of the products; strict-flag census of handleFuncOpts",
 "C09": "destination provenance of the products (definition-use over the canonical form)",
 "C10": "order clause of the iterator copy's memcpy path",
 "C11": "destination-type clause of the comparisons",
 "C12": "strict-flag census of handleFuncOpts",
 "C13": "mark-clearing rule for NonContiguous; raw-reshape typestate",
 "C14": "constant evaluation of the npy header formats against the reader's compiled patterns; naming-method agreement of the pb/fb pairs; receiver-reset rule over all decoders",
 "C15": "iterator must-pass-through on the position-reporting mask queries; makeMask guard rule; mask-before-data on every transpose kernel incl. strings",
 "C16": "exporter order goal widened to materialised arguments",
 "C17": "sign agreement of infinity branches",
 "C19": "operand immutability by SSA mod-summaries; slice-ownership rule; address-identity rule",
 "C20": "alias-store and clone-correspondence rules on the saved axes the in-place build reads",
}
for _pid, _extra in RB.items():
    CLAIMS[_pid]["technique"] += "; " + _extra

# round 13
RD = {
 "C01": "data-order rule over the transpose kernels; reshape gate",
 "C02": "offset-accumulation anchor of Ltoi; wrapper parity of Narrow",
 "C03": "pattern-consulted rule on UnsafePermute",
 "C04": "self-append lint (self-tested); window agreement of Slice/SliceInto",
 "C05": "composition rule of the inverse shortcut; masked-iterator selection by path implication",
 "C08": "raw-copy census on the materialise path",
 "C09": "routine-name rule (no conjugating BLAS routine); view-reuse reset clause",
 "C10": "literal stacking axes; delegation completeness of Dense.Repeat",
 "C13": "pattern-consulted rule on UnsafePermute; window agreement of Slice/SliceInto",
 "C14": "install-as-given rule on AP.Init; store-on-every-path rule on addMask",
 "C15": "masked-iterator selection by path implication",
 "C17": "data-order rule over every transpose kernel",
 "C19": "second-header-is-not-a-result rule; self-append lint",
}
for _pid, _extra in RD.items():
    CLAIMS[_pid]["technique"] += "; " + _extra

# round 15
RF = {
 "C02": "vector-fast-path rule of the flat iterator; pool-reset completeness",
 "C03": "raw-copy census; last-axis exhaustion of the column-major stepper",
 "C09": "stride-read rule on Trace",
 "C10": "materialisability truth table; per-operand iterator rule under branches",
 "C13": "pool-reset completeness incl. path clause",
 "C15": "cleared-mask rule on makeMask",
 "C16": "pool-reset completeness (order flag)",
 "C19": "cleared-together rule of the lazy-transpose pair; pool-reset path clause",
}
for _pid, _extra in RF.items():
    CLAIMS[_pid]["technique"] += "; " + _extra

# round 17
RH = {
 "C04": "iterator-driven-fill rule over the typed arms of zeroIter/memsetIter",
 "C05": "index-domain (tensor number vs block number) rule over the multi-iterator; rewind-and-gate rule on its masked constructor",
 "C15": "rewind-and-gate rule on the masked multi-iterator constructor",
 "C07": "float32/float64 option-handler mirror pair; alias-test rule on copy-then-accumulate into the reuse tensor",
 "C20": "alias-test rule on copy-then-accumulate into the reuse tensor (float engines); data-order gate on the in-place transposer's index decomposition",
 "C03": "data-order gate on the in-place transposer's index decomposition",
 "C17": "iterator-driven-fill rule over the typed arms of memsetIter",
 "C19": "field-freshness rule on the sparse clone (SSA)",
}
for _pid, _extra in RH.items():
    CLAIMS[_pid]["technique"] += "; " + _extra
