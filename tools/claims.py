# Edited by hand; consumed by gen_manifest.py
TB = "Trusted: go/packages, go/types, go/ssa, go/cfg (x/tools v0.29.0); Go operator semantics; math/math32/cmplx/vecf/BLAS routines by name; the oracle tables in checker/spec. Decides structural necessary conditions, not runtime values."

claim("C17",
      "Exhaustive static decision, over every generated specialisation (2 900+ functions) and every arm of every element-type switch (1 700+ arms), that all instances of one template agree after type erasure and that each arm only uses constructs of its own label type. This is the quantifier (all types x all variants) the suite cannot reach; value-level agreement after conversion is a runtime relation and is not claimed.",
      TB, "static analysis: type-erased canonical-form comparison of sibling specialisations + type-token coherence of switch arms (AST + go/types)", "DESIGN.md section 3 C17, rules K1 K1arms K2 K3")

for pid in ["C01","C02","C03","C04","C05","C06","C07","C08","C09","C10","C11","C12","C13","C14","C15","C16","C18","C19","C20"]:
    NA[pid] = "check under construction in this build round (see DESIGN.md section 3 for the planned structural rules); not claimed until its rules are armed and validated"
