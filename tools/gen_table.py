#!/usr/bin/env python3
"""Regenerates the per-property table of DESIGN.md section 3 from /verif/evidence/*.json
(rule instance counts and obligations of the last run); the 'not decided' column is kept."""
import json, re
s = open('/verif/DESIGN.md').read()
m = re.search(r'(\| prop \| rules : instances \(quick tier\) \| obligations \| not decided \|\n\|---\|---\|---\|---\|\n)((?:\|.*\n)+)', s)
assert m
old_rows = {}
for line in m.group(2).splitlines():
    cells = [c.strip() for c in line.strip().strip('|').split('|')]
    old_rows[cells[0]] = cells
rows = []
for i in range(1, 21):
    pid = 'C%02d' % i
    e = json.load(open('/verif/evidence/%s.json' % pid))
    cov = e['coverage']
    rules = sorted(cov['rules'], key=lambda r: r['id'])
    txt = ' '.join('%s:%d' % (r['id'], r['instances']) for r in rules if r['instances'] > 0 and '.' not in r['id'])
    cfg = cov.get('configurations', [])
    if len(cfg) > 1:
        txt += ' (%d builds)' % len(cfg)
    nd = old_rows.get(pid, [pid, '', '', ''])[3]
    rows.append('| %s | %s | %d | %s |' % (pid, txt, cov['obligations'], nd))
s = s[:m.start(2)] + '\n'.join(rows) + '\n' + s[m.end(2):]
open('/verif/DESIGN.md', 'w').write(s)
print('table regenerated')
