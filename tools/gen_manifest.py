#!/usr/bin/env python3
"""Regenerates /verif/MANIFEST.json from the table below (keeps it schema-valid)."""
import json, sys, os
V = "/verif"
BASE = json.load(open("/root/.vp/BASELINE.json")) if os.path.exists("/root/.vp/BASELINE.json") else {"cmd": ""}

# property id -> (claimed?, level text, level note, technique, design ref, not-applicable reason)
CLAIMS = {}
def claim(pid, text, note, technique, ref):
    CLAIMS[pid] = dict(text=text, note=note, technique=technique, ref=ref)

NA = {}
exec(open(os.path.join(V, "tools", "claims.py")).read())

props = [json.loads(l)["id"] for l in open(os.path.join(V, "properties.jsonl"))]
checks = []
for pid in props:
    if pid not in CLAIMS:
        continue
    c = CLAIMS[pid]
    checks.append({
        "property_id": pid,
        "quick_cmd": f"{V}/bin/tcheck {pid} --tier quick",
        "thorough_cmd": f"{V}/bin/tcheck {pid} --tier thorough",
        "evidence_file": f"{V}/evidence/{pid}.json",
        "replay_cmd_template": f"{V}/bin/tcheck replay {{path}}",
        "engine": "tcheck",
        "level_claimed": {"category": "other", "text": c["text"], "design_ref": c["ref"]},
        "level_note": c["note"],
        "technique": c["technique"],
    })
na = [{"property_id": pid, "reason": NA[pid]} for pid in props if pid not in CLAIMS]
for pid in props:
    assert pid in CLAIMS or pid in NA, pid
m = {
    "version": 1,
    "setup_cmd": "cd /verif/checker && GOFLAGS=-mod=vendor GOPROXY=off GOSUMDB=off GOWORK=off GOTOOLCHAIN=local go build -o /verif/bin/tcheck .",
    "hooks": {
        "guard": "verif",
        "enable": "none: static analysis needs no instrumentation; no verif-tagged code exists in /repo",
        "baseline_off_cmd": "cd /repo && GOFLAGS=-mod=mod go test -json -vet=off -count=1 -timeout 25m ./...",
        "source_commits": [],
        "add_only": True,
    },
    "engines": [{"name": "tcheck", "path": "/verif/checker", "serves_properties": [c["property_id"] for c in checks],
                 "kind_free_text": "repository-specific static analyser (go/packages + go/types AST rules, go/cfg, go/ssa, call graph); executes nothing from /repo"}],
    "checks": checks,
    "not_applicable": na,
    "notes": "All checks are static: they load /repo's current working tree with go/packages on every run and decide structural necessary conditions of each property exhaustively over the constructs concerned (see DESIGN.md). Known genuine defects of the pinned tree are listed in /verif/known_findings.json.",
}
json.dump(m, open(os.path.join(V, "MANIFEST.json"), "w"), indent=1)
print("checks:", len(checks), "not_applicable:", len(na))
