#!/bin/bash
# usage: verify_benign.sh <src-dir> <id>   -- confirms that a behaviour-preserving change (patch.diff + equiv_test.go +
# meta.json) applies to /repo's HEAD, builds, keeps the pinned suite green and that its equivalence test passes both on
# the clean tree and with the patch; then stores it under /verif/benign/<id>/.
set -u
SRC=$1; ID=$2
export GOFLAGS=-mod=mod GOPROXY=off GOSUMDB=off GOTOOLCHAIN=local; unset GOWORK
WT=/tmp/wt/vb_$ID
git -C /repo worktree remove --force $WT 2>/dev/null; git -C /repo worktree prune
git -C /repo worktree add -q --detach $WT HEAD || exit 2
cd $WT
name=$(python3 -c "import json;print(json.load(open('$SRC/meta.json'))['equiv_test_name'])")
pdir=$(python3 -c "import json;print(json.load(open('$SRC/meta.json')).get('equiv_package_dir','.') or '.')")
cp "$SRC/equiv_test.go" "$pdir/zz_equiv_test.go"
if (cd "$pdir" && go test -vet=off -count=1 -run "^${name}\$" . >/dev/null 2>&1); then clean=PASS; else clean=FAIL; fi
if git apply "$SRC/patch.diff" 2>/dev/null; then applied=OK; else applied=FAIL; fi
build=NA; patched=NA; suite=NA
if [ $applied = OK ]; then
  if go build ./... >/dev/null 2>&1 && go build -tags=inplacetranspose ./... >/dev/null 2>&1 && go build -tags=noasm ./... >/dev/null 2>&1; then build=OK; else build=FAIL; fi
  if (cd "$pdir" && go test -vet=off -count=1 -run "^${name}\$" . >/dev/null 2>&1); then patched=PASS; else patched=FAIL; fi
  rm -f "$pdir/zz_equiv_test.go"
  if /verif/tools/run_suite.sh "$WT" >/tmp/vb.$$.log 2>&1; then suite=OK; else sleep 1; if /verif/tools/run_suite.sh "$WT" >/tmp/vb.$$.log 2>&1; then suite=OK-on-retry; else suite=FAIL; fi; fi
fi
echo "$ID: applies=$applied clean-equiv=$clean build=$build patched-equiv=$patched suite=$suite"
if [ $applied = OK ] && [ $clean = PASS ] && [ $build = OK ] && [ $patched = PASS ] && [ "${suite#OK}" != "$suite" ]; then
  mkdir -p /verif/benign/$ID && cp "$SRC/patch.diff" "$SRC/equiv_test.go" "$SRC/meta.json" /verif/benign/$ID/
  echo "$ID: KEPT"
else
  [ -f /tmp/vb.$$.log ] && tail -3 /tmp/vb.$$.log
  echo "$ID: REJECTED"
fi
rm -f /tmp/vb.$$.log
cd /; git -C /repo worktree remove --force $WT
