#!/bin/bash
# usage: try_seed.sh <seed-id> <property> [tier]   -- runs a check against a scratch worktree with the seeded change applied
# (never touches /repo's working tree). Prints the check's verdict lines.
ID=$1; PROP=$2; TIER=${3:-quick}
WT=/tmp/wt/try_$ID
git -C /repo worktree remove --force $WT 2>/dev/null; rm -rf $WT; git -C /repo worktree prune; git -C /repo worktree add -q --detach $WT HEAD
git -C $WT apply -3 /verif/seeded/$ID/patch.diff 2>/dev/null || { echo "patch failed"; git -C /repo worktree remove --force $WT; exit 2; }
mkdir -p /tmp/tcheck-try/$ID && cp /verif/known_findings.json /tmp/tcheck-try/$ID/
TCHECK_REPO=$WT TCHECK_VERIF=/tmp/tcheck-try/$ID ${TCHECK_BIN:-/verif/bin/tcheck} $PROP --tier $TIER > /tmp/tcheck-try/$ID/out.txt 2>&1
rc=$?
grep -E "violation|undecided|UNDECIDED|VIOLATION" /tmp/tcheck-try/$ID/out.txt | grep -v "^  rule" | head -${LINES_MAX:-8}
echo "seed=$ID prop=$PROP tier=$TIER exit=$rc"
git -C /repo worktree remove --force $WT
rm -rf /tmp/tcheck-try/$ID
