#!/bin/bash
# usage: seed_matrix.sh [seed-id ...]   -- runs every kept seed against the check of its own property (quick tier;
# thorough when meta.json names build tags) in scratch worktrees, 8 at a time; prints caught / MISSED per seed.
cd /verif/seeded || exit 1
ids=("$@"); [ ${#ids[@]} -eq 0 ] && ids=($(ls))
run_one() {
  id=$1; prop=$(python3 -c "import json;print(json.load(open('/verif/seeded/$id/meta.json'))['property'])")
  tags=$(python3 -c "import json;print(json.load(open('/verif/seeded/$id/meta.json')).get('demo_build_tags','') or '')")
  tier=quick; [ -n "$tags" ] && [ "$tags" != "RACE" ] && tier=thorough
  if python3 -c "import json,sys;sys.exit(0 if json.load(open('/verif/seeded/$id/meta.json')).get('obsolete') else 1)"; then echo "$id $prop obsolete (target code removed by a fix)"; return; fi
  if ! grep -q "\"$prop\"" /verif/MANIFEST.json || ! python3 -c "import json,sys;sys.exit(0 if any(c['property_id']=='$prop' for c in json.load(open('/verif/MANIFEST.json'))['checks']) else 1)"; then echo "$id $prop not-claimed"; return; fi
  out=$(LINES_MAX=1 /verif/tools/try_seed.sh $id $prop $tier 2>&1)
  if echo "$out" | grep -q "exit=1"; then echo "$id $prop caught: $(echo "$out" | head -1 | cut -c1-160)"; else echo "$id $prop MISSED"; fi
}
export -f run_one
printf "%s\n" "${ids[@]}" | xargs -P 8 -I{} bash -c 'run_one {}' | sort
