#!/bin/bash
# usage: benign_matrix.sh [id ...]   -- applies every behaviour-preserving change kept under /verif/benign in a
# scratch worktree and runs all 20 checks (quick tier) on it, 6 at a time; prints "quiet" or "ALARM" per change.
# A change whose patch no longer applies (a later fix: commit touched the same lines) is reported as such.
cd /verif/benign || exit 1
ids=("$@"); [ ${#ids[@]} -eq 0 ] && ids=($(ls))
run_one() {
  id=$1
  if python3 -c "import json,sys;sys.exit(0 if json.load(open('/verif/benign/$id/meta.json')).get('superseded') else 1)"; then echo "$id superseded (a later fix rewrote its target; see meta.json)"; return; fi
  out=$(LINES_MAX=3 COLS_MAX=300 /verif/tools/try_benign.sh /verif/benign/$id/patch.diff $id 2>&1)
  if echo "$out" | grep -q "patch failed"; then echo "$id patch no longer applies"; return; fi
  if echo "$out" | grep -q "alarms=0"; then echo "$id quiet"; else echo "$id ALARM: $(echo "$out" | grep -E 'violation\]|^UNDECIDED' | head -2 | cut -c1-200 | tr '\n' ' ')"; fi
}
export -f run_one
printf "%s\n" "${ids[@]}" | xargs -P 6 -I{} bash -c 'run_one {}' | sort
