#!/bin/bash
# usage: try_benign.sh <patch.diff> <label> [properties…]   -- applies a behaviour-preserving change in a scratch
# worktree and runs the checks of the given properties (default: all 20, quick tier). Any exit != 0 is a false alarm.
PATCH=$1; ID=$2; shift 2
PROPS=("$@"); [ ${#PROPS[@]} -eq 0 ] && PROPS=(C01 C02 C03 C04 C05 C06 C07 C08 C09 C10 C11 C12 C13 C14 C15 C16 C17 C18 C19 C20)
WT=/tmp/wt/ben_$ID
git -C /repo worktree remove --force $WT 2>/dev/null; rm -rf $WT; git -C /repo worktree prune; git -C /repo worktree add -q --detach $WT HEAD
git -C $WT apply -3 $PATCH 2>/dev/null || { echo "$ID patch failed"; git -C /repo worktree remove --force $WT; exit 2; }
mkdir -p /tmp/tcheck-try/$ID && cp /verif/known_findings.json /tmp/tcheck-try/$ID/
alarms=0
for P in "${PROPS[@]}"; do
  TCHECK_REPO=$WT TCHECK_VERIF=/tmp/tcheck-try/$ID ${TCHECK_BIN:-/verif/bin/tcheck} $P --tier quick > /tmp/tcheck-try/$ID/out.txt 2>&1
  rc=$?
  if [ $rc -ne 0 ]; then
    alarms=$((alarms+1))
    echo "ALARM $ID $P exit=$rc"
    grep -E "violation\]|undecided\]|^UNDECIDED|^panic|rule .* panicked" /tmp/tcheck-try/$ID/out.txt | head -${LINES_MAX:-4} | cut -c1-${COLS_MAX:-400}
  fi
done
echo "benign=$ID alarms=$alarms"
git -C /repo worktree remove --force $WT
rm -rf /tmp/tcheck-try/$ID
