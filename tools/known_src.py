#!/usr/bin/env python3
"""Source of /verif/known_findings.json (run: python3 tools/known_src.py). Every entry is a genuine
defect of the pinned tree, triaged by hand (DESIGN.md section 7 gives the failing input)."""
import json
F = []
def finding(props, rule, key, what, sig=None, n=None):
    e = {"properties": props, "rule": rule, "key": key, "what": what}
    if sig is not None: e["deviation"] = sig
    if n is not None: e["design_finding"] = n
    F.append(e)

# ---- engine M (option modes) -----------------------------------------------------------
finding(["C07","C06"], "M2", "tensor.(StdEng).*[incr,*one-element]",
        "E.<Op>Incr scalar-scalar arm computes into operand a before adding: Add([2],[3],WithIncr([10])) leaves a=[5]",
        "writes operand A, which is not the destination of incr mode", 37)
finding(["C19"], "M2W", "tensor.(StdEng).*[incr,*one-element]",
        "same defect seen as an ownership violation: an operand that is not the destination is written - Add([2],[3],WithIncr([10])) leaves a=[5]",
        "writes operand A, which is not the destination of incr mode", 37)
ALIAS = "reuse tensor aliasing the second operand: the copy of A into reuse clobbers B before it is read: Sub(aT,bT,WithReuse(bT)) = 0, Gt(c,d,AsSameType(),WithReuse(d)) = 0, MinBetween(e,f,WithReuse(f)) = e"
finding(["C07","C06"], "M2", "tensor.(StdEng).*[reuse,iter,R=B]", ALIAS + " (arithmetic: iterator path only)", "returned buffer holds Op(A,A), want Op(A,B)", 45)
finding(["C07","C06"], "M2", "tensor.(StdEng).*Between[reuse,raw,R=B]", ALIAS + " (min/max: raw path too)", "returned buffer holds Op(A,A), want Op(A,B)", 45)
for sig in ["returned buffer holds same:Op(A,A), want same:Op(A,B)", "returned buffer holds same:Op(A,A), want same:Op(B,A)"]:
    for path in ["raw", "iter"]:
        finding(["C07","C11"], "M2", "tensor.(StdEng).*[reuse,same,%s,R=B]" % path, ALIAS + " (comparisons with same-type result)", sig, 45)

# ---- engine S (index / shape) ---------------------------------------------------------------
finding(["C02","C13"], "S5", "tensor.(*AP).S",
        "AP.S rounds the stepped length up only for i > 0: a (5,2) tensor sliced [0:5:2] has shape (2,2) instead of (3,2) (two rows of the pinned shape table expect it, so it cannot be repaired without editing tests)",
        "LEN = ((END - START) / STEP) ; if ((((END - START) % STEP) > 0) && (I > 0)) { LEN = (LEN + 1) } ; if (0 >= LEN) { LEN = 1 } | LEN = (END - START)", 2)
finding(["C02","C13"], "S5", "tensor.(Shape).S",
        "Shape.S never rounds the stepped length up: Shape{4,5}.S(nil, S(0,5,2)) = (4,2) while slicing the tensor gives (4,3)",
        "LEN = ((END - START) / STEP) ; if (0 >= LEN) { LEN = 1 } | LEN = (END - START)", 3)
finding(["C02","C13"], "S5", "AP.S~Shape.S",
        "the shape-only and the access-pattern slice calculators disagree (consequence of findings 2 and 3)",
        "LEN = ((END - START) / STEP) ; if ((((END - START) % STEP) > 0) && (I > 0)) { LEN = (LEN + 1) } ; if (0 >= LEN) { LEN = 1 } | LEN = (END - START) <> LEN = ((END - START) / STEP) ; if (0 >= LEN) { LEN = 1 } | LEN = (END - START)", 3)

# ---- engine O (ownership) ---------------------------------------------------------------------
# ---- engine T (lazy-transpose typestate) ------------------------------------------------------

# ---- engine P (global state) -------------------------------------------------------------------
finding(["C18"], "P4", "tensor.allTypes",
        "Of() registers an unknown element type by appending to the global type-class table (Register -> allTypes.set) without any lock; two goroutines constructing tensors of a new element type race",
        "unsynchronised write in tensor.Register", 25)

# ---- engine P2 (operand purity) ---------------------------------------------------------------

finding(["C16"], "S11", "tensor.(*AP).setDataOrder", "setDataOrder (called by handleFuncOpts on the reuse tensor) flips the column-major bit and keeps the row-major strides: Add(colA, colB, WithReuse(rowR)) returns flag ColMajor with strides [3 1]; At(0,1)=13 instead of 11", "flag flipped, strides kept", 40)

finding(["C12","C07"], "P3", "tensor.(StdEng).Map", "StdEng.Map in increment mode maps the increment tensor onto itself: Apply(f, WithIncr(t)) computes t += f(t), not t += f(a) - the in-place map kernels have no two-buffer form (the plain WithReuse case was repaired by 06dec87)", "2 of 20 kernel paths", 22)

# ---- engine L (layout predicates) ------------------------------------------------------------
ALL_M = ["C04"]
for f in F:
    if f["rule"] in ("M2", "M3"):
        f["properties"] = sorted(set(f["properties"] + ALL_M))
finding(["C14"], "F1", "tensor.numpyDtypes[Int64]", "Int64 is written as i8, which the reader maps to Int on 64-bit: an int64 tensor read back has dtype int (and ReadNpy then fails)", "Int64->i8->Int", 43)
finding(["C14"], "F1", "tensor.numpyDtypes[Uint64]", "Uint64 is written as u8, which the reader maps to Uint on 64-bit", "Uint64->u8->Uint", 43)
finding(["C14"], "F1", "tensor.numpyDtypes[Int32]", "GOARCH=386: Int32 is written as i4, which the reader maps to Int", "Int32->i4->Int", 43)
finding(["C14"], "F1", "tensor.numpyDtypes[Uint32]", "GOARCH=386: Uint32 is written as u4, which the reader maps to Uint", "Uint32->u4->Uint", 43)

FIXED = [
 {"property":"C06","commit":"d23be1f","rule":"ND","key":"tensor.(StdEng).*#alloc*","what":"fixed: property=C06 d23be1f comparison and min/max methods allocated their safe-mode result row-major whatever the operands' order: MinBetween(a,b) of column-major 2x3 [[1 2 3][4 5 6]], [[6 5 4][3 2 1]] returned [[1 3 2][2 3 1]]; Gt(a,b) likewise (DESIGN finding 59)"},
 {"property":"C11","commit":"d23be1f","rule":"ND","key":"tensor.(StdEng).*#alloc*","what":"fixed: property=C11 d23be1f same defect seen through the comparisons (DESIGN finding 59)"},
 {"property":"C16","commit":"d23be1f","rule":"ND","key":"tensor.(StdEng).*#alloc*","what":"fixed: property=C16 d23be1f same defect: column-major operands gave other results than their row-major counterparts (DESIGN finding 59)"},
 {"property":"C16","commit":"8bdbb2d","rule":"L0","key":"tensor.prepDataUnary#useIter","what":"fixed: property=C16 8bdbb2d prepDataUnary had no data-order term: Neg(colA, WithIncr(rowZeros)) added raw column-major data into a row-major buffer (DESIGN finding 41)"},
 {"property":"C10","commit":"733eed1","rule":"P2","key":"tensor.(*Dense).Concat(t), tensor.(*Dense).Hstack(t), tensor.(*Dense).Vstack(t), tensor.(StdEng).Concat(t), tensor.(StdEng).Concat(others), tensor.Concat(t)","what":"fixed: property=C10 733eed1 denseConcat reshaped row-vector operands and cleared a masked operand's mask (mt.SetMask(nil)); the restore was commented out (DESIGN finding 16)"},
 {"property":"C18","commit":"7e8227a","rule":"P2","key":"tensor.(*Dense).Norm(t)","what":"fixed: property=C18 7e8227a Norm swapped a flat access pattern into its operand for the duration of a Dot call: eight goroutines calling t.Norm() on one shared tensor got wrong norms, data races, and left t with shape (0) (DESIGN finding 48)"},
 {"property":"C18","commit":"258a79f","rule":"P2","key":"tensor.(*Dense).Outer(t), tensor.(*Dense).Outer(other), tensor.(StdEng).Outer(a), tensor.(StdEng).Outer(b), tensor.Outer(a), tensor.Outer(b)","what":"fixed: property=C18 258a79f Outer into a column-major result temporarily reshaped both operands to (m,1) and (1,n): concurrent readers of the operands raced on their shape (DESIGN finding 14)"},
 {"property":"C18","commit":"84b676e","rule":"P2","key":"tensor.(StdEng).Dot(y), tensor.Dot(y)","what":"fixed: property=C18 84b676e Dot(vector, matrix) did b.T(); defer b.UT() on its operand: a lazily transposed b came back untransposed, and concurrent readers of b raced (DESIGN finding 13)"},
 {"property":"C11","commit":"9aa1df2","rule":"M3","key":"tensor.(StdEng).*Scalar[*scalar-left*iter]","what":"fixed: property=C11 9aa1df2 comparison/min-max with the scalar on the left, same-type result, iterator path: the result buffer was indexed through the operand's iterator (bit): Gt(5, a[:,1], AsSameType()) panicked index out of range (DESIGN finding 35)"},
 {"property":"C11","commit":"74195dd","rule":"M2","key":"tensor.(StdEng).*Scalar[unsafe,scalar-left,*one-element]","what":"fixed: property=C11 74195dd comparison with the scalar on the left, unsafe, one-element tensor: E.<Cmp>Same(S,T) wrote the scalar's header and nothing copied it back: Gt(5,[3],UseUnsafe()) returned [3] (DESIGN finding 42)"},
 {"property":"C07","commit":"abfb221","rule":"M2","key":"tensor.(StdEng).*Between*[unsafe*","what":"fixed: property=C07 abfb221 MinBetween/MaxBetween(+Scalar) with UseUnsafe(): the result tensor was created before the mode switch, so the unsafe case was unreachable and the call panicked \"Unreachable\" (DESIGN finding 34)"},
 {"property":"C19","commit":"393a6d7","rule":"O8","key":"tensor.(*Dense).ShallowClone#store1","what":"fixed: property=C19 393a6d7 ShallowClone shared old (and transposeWith) with the source: s := a.ShallowClone(); s.UT(); a.UT() put one slice in the pool twice (DESIGN finding 33)"},
 {"property":"C12","commit":"06dec87","rule":"P3","key":"tensor.(StdEng).Map","what":"fixed: property=C12 06dec87 StdEng.Map with a caller-supplied reuse tensor mapped over reuse's previous contents: Apply(x2, WithReuse([10,20,30,40])) on [1 2 3 4] = [20 40 60 80] (DESIGN finding 22, reuse part; the incr part stays a known finding)"},
 {"property":"C10","commit":"bde2a07","rule":"L1","key":"tensor.(StdEng).denseRepeat@fastCopyDenseRepeat(, tensor.(StdEng).denseRepeat@copyDenseSliced(","what":"fixed: property=C10 bde2a07 denseRepeat block-copied from the operand's raw storage without consulting its layout: Repeat(a[:,1:3],1,2) was wrong (DESIGN finding 32)"},
 {"property":"C14","commit":"a2e7ce2","rule":"L1","key":"tensor.(*Dense).GobEncode@.Encode(&%data) ?$r.IsMaterializable()","what":"fixed: property=C14 a2e7ce2 GobEncode of a view wrote the whole storage window under the view's shape; GobDecode's sanity check rejected it (expected (3), got 7) (DESIGN finding 28)"},
 {"property":"C20","commit":"687421a","rule":"L3","key":"tensor.(Float32Engine).Add@V., tensor.(Float64Engine).Add@V. ⊨ $a.DataOrder().HasSameOrder($b.DataOrder())","what":"fixed: property=C20 687421a Float32Engine/Float64Engine.Add added a row-major and a column-major operand position by position ([0 4 3 7 6 10]) (DESIGN finding 21)"},
 {"property":"C08","commit":"e0ae783","rule":"L1","key":"tensor.(StdEng).argmaxDenseTensor@$r.E.ArgmaxFlat(, tensor.(StdEng).argminDenseTensor@$r.E.ArgminFlat(","what":"fixed: property=C08 e0ae783 Argmax/Argmin over all axes scanned the raw storage window: wrong index for views and lazily transposed tensors (DESIGN finding 38)"},
 {"property":"C16","commit":"a5a4aba","rule":"L3","key":"tensor.Copy@copyDense(%dt, %ts) ⊨ %ts.DataOrder().HasSameOrder(%dt.DataOrder())","what":"fixed: property=C16 a5a4aba Copy between a column-major and a row-major tensor was a raw memcpy: [[0,1,2],[3,4,5]] became [0 3 1 4 2 5] (DESIGN finding 18, Copy part)"},
 {"property":"C16","commit":"15e2b9f","rule":"L4","key":"tensor.ToMat64@mat.NewDense( ?$t.DataOrder().IsColMajor()","what":"fixed: property=C16 15e2b9f ToMat64 handed column-major storage to the row-major mat.Dense (DESIGN finding 18, ToMat64 part)"},
 {"property":"C14","commit":"484f8b3","rule":"L1","key":"tensor.(*Dense).WriteNpy@for ($r.len() > %i) ?$r.RequiresIterator()","what":"fixed: property=C14 484f8b3 WriteNpy emitted Get(0..len) in storage order under a header that declares C order: a column-major, sliced or lazily transposed tensor was read back as different data (DESIGN finding 18, WriteNpy part)"},
 {"property":"C08","commit":"865b98b","rule":"EC","key":"tensor.(StdEng).prepReduce#Reshape1","what":"fixed: property=C08 865b98b prepReduce dropped the error of reuse.Reshape(newShape...): a reuse tensor that cannot be reshaped (non-contiguous view) was reduced into with its old shape (DESIGN finding 23)"},
 {"property":"C19","commit":"6e5ad4a","rule":"T2","key":"tensor.reuseCheckShape#reuse","what":"fixed: property=C19 6e5ad4a reuseCheckShape returned a reuse tensor's transposeWith slice to the ints pool and left the field pointing at it: the slice was returned a second time by ReturnTensor/UT (DESIGN finding 12)"},
 {"property":"C19","commit":"f9f7dff","rule":"O3","key":"tensor.(*Dense).TensorMul(axesA), tensor.(*Dense).TensorMul(axesB), tensor.Contract(aAxes), tensor.Contract(bAxes)","what":"fixed: property=C19 f9f7dff TensorMul normalised negative axes in place in the caller's slices (and only after indexing the shape with them, so a negative axis panicked): axes are now resolved on copies before use (DESIGN finding 11)"},
 {"property":"C09","commit":"51ec201","rule":"L1","key":"tensor.(StdEng).checkThreeFloatComplexTensors@return  ⊨ contiguous operands; tensor.(StdEng).checkTwoFloatComplexTensors","what":"fixed: property=C09 51ec201 the BLAS gateways multiplied the raw window of a non-contiguous view: a[0:2,0:2] x I returned [0 1 2 3] (the first four window elements); the shared operand checks now refuse views with gaps (DESIGN finding 15)"},
 {"property":"C04","commit":"03c38a0","rule":"L1","key":"tensor.(*Dense).Transpose@%transposer.Transpose($r, ⊨ (!$r.old.IsZero() && !(!($r.viewOf == 0) && $r.o.IsNotContiguous()))","what":"fixed: property=C04 03c38a0 Dense.Transpose materialised the lazy transpose of a non-contiguous view in place, over the first Size() positions of the view's window: v := a(3,4)[:, 1:3]; v.T(); v.Transpose() overwrote 5 parent elements outside the view; it now refuses such a view (DESIGN finding 5)"},
 {"property":"C20","commit":"eb67722","rule":"B2","key":"tensor.(StdEng).transposeMask","what":"fixed: property=C20 eb67722 under -tags inplacetranspose transposeMask handled rank 2 only and left every other tensor's mask in place while the data moved: a masked (2,3,4) tensor after T(1,2,0); Transpose() had 10 mask bits on the wrong elements (the copying build is right) (DESIGN finding 29)"},
 {"property":"C15","commit":"eb67722","rule":"B2","key":"tensor.(StdEng).transposeMask","what":"fixed: property=C15 eb67722 same defect seen from C15: mask and data disagree after a materialised transpose of a masked tensor of rank >= 3 in the in-place build (DESIGN finding 29)"},
 {"property":"C08","commit":"e4b6ca1","rule":"L3","key":"tensor.(StdEng).OptimizedReduce@$r.E.ReduceDefault( ⊨ !%at.DataOrder().IsColMajor()","what":"fixed: property=C08 e4b6ca1 the middle-axis arm of Reduce/OptimizedReduce ran the row-major kernel on column-major strides: Sum(1) of a (2,3,4) AsFortran tensor panicked with index out of range where the first- and last-axis arms refuse with NYI: colmajor (DESIGN finding 58)"},
 {"property":"C16","commit":"1d0fb0b","rule":"T8","key":"tensor.(StdEng).denseTranspose{1,2,4,8,Arbitrary,String}, tensor.(StdEng).transposeMask","what":"fixed: property=C16 1d0fb0b the copying Transpose gathered elements last-axis-first and wrote them sequentially under column-major strides: every materialised transpose of a column-major tensor read back wrong elements ((2,3) AsFortran .T().Transpose(): 4 of 6; (2,3,4) T(1,2,0): 22 of 24) (DESIGN finding 56)"},
 {"property":"C03","commit":"1d0fb0b","rule":"T8","key":"tensor.(StdEng).denseTranspose*","what":"fixed: property=C03 1d0fb0b same defect seen from C03: materialising a lazy transpose changed the logical contents of a column-major tensor (DESIGN finding 56)"},
 {"property":"C08","commit":"7ea84b4","rule":"DA","key":"internal/execution.(E).ArgmaxIterMasked#newMask, internal/execution.(E).ArgminIterMasked#newMask","what":"fixed: property=C08 7ea84b4 the axis-wise masked arg-reductions collected the lane's mask in newMask and passed the whole tensor's mask to the kernel: Argmax(1) of [[9 1 2] [3 8 4]] with 9 and 8 masked returned [2 1] instead of [2 2] (DESIGN finding 55)"},
 {"property":"C15","commit":"7ea84b4","rule":"DA","key":"internal/execution.(E).ArgmaxIterMasked#newMask","what":"fixed: property=C15 7ea84b4 same defect seen from C15: a masked element was returned as the arg-maximum of its lane (DESIGN finding 55)"},
 {"property":"C08","commit":"fc2883a","rule":"K9","key":"internal/execution.reduceDefault/*","what":"fixed: property=C08 fc2883a the middle-axis reduction kernel reduceDefault<T> (all 18 element types) jumped by stride instead of (dimSize-1)*stride between output groups: Sum along axis 2 of a (2,3,4,5) tensor returned 20 wrong values of 30; right only when the reduced axis has length 2 (DESIGN finding 54)"},
 {"property":"C03","commit":"b05a7ef","rule":"SV","key":"tensor.(*Dense).T#%transform","what":"fixed: property=C03 b05a7ef Dense.T installed a transform computed before Transpose() materialised the pending lazy transpose: a(2,3,4).T(1,2,0); a.T(1,2,0) had 22 of 24 elements in the wrong place (DESIGN finding 52)"},
 {"property":"C03","commit":"cd7cd28","rule":"T7","key":"tensor.(*Dense).T#inverse-test","what":"fixed: property=C03 cd7cd28 Dense.T recognised the inverse of the pending transpose by comparing shapes: a(2,2,2).T(1,2,0); a.T(1,2,0) was undone to the identity instead of composed, 6 of 8 elements wrong (DESIGN finding 53)"},
 {"property":"C04","commit":"0b11727","rule":"S12","key":"tensor.(*AP).S#marker","what":"fixed: property=C04 0b11727 AP.S flagged a slice along the outermost axis of a lazily transposed pattern contiguous; the view does not carry the pending transpose, so RequiresIterator() was false: a(3,4).T(); v := a[0:2]; Add(v, 100, UseUnsafe()) wrote 10 parent elements, 4 of them outside the view (DESIGN finding 51)"},
 {"property":"C02","commit":"0b11727","rule":"S12","key":"tensor.(*AP).S#marker","what":"fixed: property=C02 0b11727 same defect seen from C02: the view of a lazily transposed tensor reported a contiguous layout although its elements are strided (DESIGN finding 51)"},
 {"property":"C19","commit":"0b6a800","rule":"RP","key":"tensor.(*Dense).Norm#AP($r)","what":"fixed: property=C19 0b6a800 Norm put the operand's access pattern back only on the success path: t.Norm(UnorderedNorm()) on a tensor whose engine has no Dot returned the error and left t with shape (0) (DESIGN finding 49)"},
 {"property":"C09","commit":"9516b10","rule":"RP","key":"tensor.(StdEng).Outer#Reshape($a)","what":"fixed: property=C09 9516b10 Outer into a column-major result reshaped a to (m,1) and returned without undoing it when b could not be reshaped: Outer(a, b[0:6:2], WithReuse(colMajor)) returned an error and left a with shape (3,1) (DESIGN finding 50)"},
 {"property":"C16","commit":"af2eeb1","rule":"LD","key":"tensor.(StdEng).MatMul[26 of the 32 combinations of operand/result data order and lazy transposition]","what":"fixed: property=C16 af2eeb1 StdEng.MatMul took its BLAS transposition flags from the lazy-transpose state only and swapped the operands when both were column-major instead of when the result is: a column-major A times a row-major B (or any result whose order differs from the operands', or two column-major operands of which one is lazily transposed) multiplied the wrong matrices - silently for square operands, BLAS panic 'bad leading dimension' otherwise (DESIGN finding 47)"},
 {"property":"C09","commit":"af2eeb1","rule":"LD","key":"tensor.(StdEng).MatMul[A:col,A:lazyT,B:col,B:plain,C:col] and 25 more","what":"fixed: property=C09 af2eeb1 same defect seen from C09: MatMul(aColMajor.T(), bColMajor) computed with both flags applied to the wrong operand (DESIGN finding 47)"},
 {"property":"C15","commit":"08e30d7","rule":"E1","key":"tensor.(*Dense).Filled#1, tensor.(*Dense).FilledInplace#1","what":"fixed: property=C15 08e30d7 Filled/FilledInplace vector arm tested err != nil (nothing filled on success, nil dereference on failure) and sliced column vectors along the unit axis (DESIGN finding 39)"},
 {"property":"C04","commit":"de90854","rule":"L1","key":"tensor.(*Dense).Zero@$r.array.Zero()","what":"fixed: property=C04 de90854 Dense.Zero on a view fell through to the raw array.Zero(): a[:,1].Zero() on a 3x3 tensor zeroed 7 parent cells (DESIGN finding 4)"},
 {"property":"C20","commit":"7b98fe7","rule":"L2","key":"tensor.(Float64Engine).FMAScalar, tensor.(Float32Engine).FMAScalar","what":"fixed: property=C20 7b98fe7 FMAScalar's iterator branch fell through to the raw kernel: result doubled (DESIGN finding 20)"},
 {"property":"C05","commit":"a2da045","rule":"I5","key":"tensor.hashIntArray","what":"fixed: property=C05 a2da045 hashIntArray returned the byte count of h.Write, so MultIteratorFromDense(a, bT) yielded offsets 0..5 for bT (DESIGN finding 6)"},
 {"property":"C05","commit":"4a64dbc","rule":"I4","key":"tensor.(*FlatIterator).Reset#isVector","what":"fixed: property=C05 FlatIterator.Reset reverse vector arm used axis 0: a (1,4) view reversed yielded [0 -1 -2 -3] (DESIGN finding 30)"},
 {"property":"C05","commit":"3afb7f7","rule":"I1","key":"tensor.(*MultIterator).NextValidity, NextValid","what":"fixed: property=C05 3afb7f7 MultIterator.NextValidity/NextValid used the opposite mask polarity: OR-mask [t f t t] made NextValid visit [0 2 3] (also C15; DESIGN finding 7)"},
 {"property":"C03","commit":"a93081a","rule":"T1","key":"tensor.(*Dense).Clone#new object","what":"fixed: property=C03 a93081a Dense.Clone copied old but not transposeWith: under -tags inplacetranspose a.T(2,0,1); c := a.Clone(); c.Transpose() gave [22 0 0 ...] (also C20; DESIGN finding 44)"},
 {"property":"C19","commit":"65180de","rule":"O2","key":"tensor.(*Dense).T(axes), tensor.(*Dense).SafeT(axes), tensor.T(axes), tensor.Transpose(axes), TensorMul(axesB), Contract(bAxes)","what":"fixed: property=C19 65180de Dense.T/SafeT kept the caller's axes slice in transposeWith; UT/Transpose then zeroed and pooled it (axes=[2,0,1] became [0,0,0]); also removes RollAxis' dangling pooled slice under inplacetranspose (DESIGN findings 8, 9)"},
 {"property":"C19","commit":"40cd994","rule":"O3","key":"tensor.Sum(along), tensor.(*Dense).Sum/Max/Min(along), tensor.(StdEng).Sum/Max/Min(along), tensor.(*Dense).Norm(axes)","what":"fixed: property=C19 40cd994 StdEng.reduce sorted the caller's along slice in place: Sum(t,2,0) left []int{2,0} as {0,2} (also C08; DESIGN finding 10)"},
 {"property":"C01","commit":"a1a5269","rule":"S1","key":"tensor.Ltoi#loop","what":"fixed: property=C01 a1a5269 Ltoi accepted negative coordinates: At(1,-1) on a (3,3) tensor returned element 2, At(-1,2) panicked (DESIGN finding 1)"},
 {"property":"C12","commit":"f9c3ab4","rule":"K2","key":"internal/execution.MapIncrErr/*, internal/execution.MapIterIncrErr/*","what":"fixed: property=C12 f9c3ab4 MapIncrErr*/MapIterIncrErr* (all 15 types) stored a[i] = x where MapIncr/MapIterIncr do a[i] += fn(a[i]) (also C17, C07; DESIGN finding 36)"},
 {"property":"C06","commit":"5c3ad09","rule":"K2","key":"internal/execution.DivIterIncr{,SV,VS}/int:*","what":"fixed: property=C06 5c3ad09 integer DivIterIncr/DivIterIncrSV/DivIterIncrVS zeroed incr[i] through an operand's iterator index instead of the increment's own (also C07, C17; found by K2/K7 index pairing)"},
]
exec(open('/verif/tools/known_more.py').read()) if __import__('os').path.exists('/verif/tools/known_more.py') else None
json.dump({"comment": "Genuine defects of the pinned gorgonia/tensor tree that a check reports and that are recorded rather than repaired (DESIGN.md section 7 gives the failing input for each). Keyed by property + rule + construct key (+ exact deviation signature where the key is a glob over the instances of one generated template); read-only at run time. 'fixed' entries suppress nothing.",
           "findings": F, "fixed": FIXED}, open('/verif/known_findings.json','w'), indent=1)
print(len(F), "findings")
